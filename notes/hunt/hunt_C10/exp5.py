import sys; sys.path.insert(0, 'hunt_out')
from common import *
from sedfitter import fit, Fitter
from sedfitter.source import Source
tmp = tempfile.mkdtemp()
for version, apdep in [(2, True), (2, False)]:
  for filt in (['bob', 'alice', 'eve'], ['bob', 3.4 * u.micron, 'eve']):
    for rr in (False, True):
        md = tempfile.mkdtemp()
        build(md, version, apdep, n=6)
        ext = extlaw()
        aps = [1., 3., 3.] * u.arcsec
        kw = dict(extinction_law=ext, distance_range=[1., 2.] * u.kpc, av_range=[0., 0.1])
        f1 = quiet(Fitter, filt, aps, md, remove_resolved=rr, **kw)
        f2 = quiet(Fitter, filt, aps, md, remove_resolved=rr, use_memmap=False, **kw)
        s = Source.from_ascii("s1 0.0 0.0 1 1 1 0.2 0.1 1.3 0.2 1.5 0.3")
        a = f1.fit(s); b = f2.fit(s)
        print(apdep, filt[1], rr, np.max(np.abs(np.sort(a.chi2) - np.sort(b.chi2))), np.max(np.abs(f1.models.fluxes.value - f2.models.fluxes.value)/f2.models.fluxes.value))
