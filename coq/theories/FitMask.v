(* FitMask — the "remove extended objects" step of Models.fit (aperture-dependent branch, remove_resolved=True):
     used = (valid > 0) & (valid != 9) & ~(limit & (error == 0));  reset = np.any(self.extended[:, :, used], axis=2);  ch_best[reset] = np.inf
   followed by the argmin over the distance grid.  The mask `extended` itself (find_radius_sigma on the interpolated fluxes) is
   NOT modelled: it is an input here (the correspondence check passes the implementation's own array). *)
From Coq Require Import QArith Lqa Lia List Bool ZArith.
Import ListNotations.
Open Scope Q_scope.
From SedV Require Import Clamp FitCore Flags Fit3 PLin Xnum Argsort FilterOut FitModel Fit3Proofs.

(* one (model, distance) entry is reset when some band that constrains the fit is flagged extended.  A band constrains the fit
   when it is fitted (flags 1, 4; any other positive flag the reader let through counts too, as in the code) or is a limit
   (2, 3) with non-zero confidence; flags 0 and 9 never do (C03). *)
Fixpoint any_ext (vpos ext : list bool) : bool :=
  match vpos, ext with v :: vs, e :: es => (v && e) || any_ext vs es | _, _ => false end.
Definition band_used (r : rawband) : bool :=
  let f := rb_flag r in
  (0 <? f)%Z && negb (f =? 9)%Z && negb (((f =? 2)%Z || (f =? 3)%Z) && Qeq_bool (rb_err r) 0).
Definition valid_pos (raws : list rawband) : list bool := map band_used raws.

(* C03 on this step: a band flagged 0 or 9, or a limit with confidence 0, is not looked at, whatever it carries and whatever
   the mask says about it; so two sources that differ only in such bands have the same models removed. *)
Lemma band_used_0 r : rb_flag r = 0%Z -> band_used r = false.
Proof. intro H. unfold band_used. rewrite H. reflexivity. Qed.
Lemma band_used_9 r : rb_flag r = 9%Z -> band_used r = false.
Proof. intro H. unfold band_used. rewrite H. reflexivity. Qed.
Lemma band_used_conf0 r : (rb_flag r = 2 \/ rb_flag r = 3)%Z -> rb_err r == 0 -> band_used r = false.
Proof.
  intros H E. unfold band_used. apply Qeq_bool_iff in E. rewrite E.
  destruct H as [H|H]; rewrite H; reflexivity.
Qed.
Lemma band_used_fitted r : (rb_flag r = 1 \/ rb_flag r = 4)%Z -> band_used r = true.
Proof. intros [H|H]; unfold band_used; rewrite H; reflexivity. Qed.
Lemma band_used_limit r : (rb_flag r = 2 \/ rb_flag r = 3)%Z -> ~ rb_err r == 0 -> band_used r = true.
Proof.
  intros H E. unfold band_used.
  assert (Qeq_bool (rb_err r) 0 = false) as ->.
  { destruct (Qeq_bool (rb_err r) 0) eqn:B; [|reflexivity]. apply Qeq_bool_iff in B. contradiction. }
  destruct H as [H|H]; rewrite H; reflexivity.
Qed.

(* what the step depends on: the used/unused pattern of the source and the mask entries of the used bands, nothing else *)
Inductive same_use : list rawband -> list bool -> list rawband -> list bool -> Prop :=
| su_nil : same_use [] [] [] []
| su_unused r r' e e' raws ext raws' ext' : band_used r = false -> band_used r' = false ->
    same_use raws ext raws' ext' -> same_use (r :: raws) (e :: ext) (r' :: raws') (e' :: ext')
| su_used r r' e raws ext raws' ext' : band_used r = true -> band_used r' = true ->
    same_use raws ext raws' ext' -> same_use (r :: raws) (e :: ext) (r' :: raws') (e :: ext').

Theorem any_ext_same_use raws ext raws' ext' : same_use raws ext raws' ext' ->
  any_ext (valid_pos raws) ext = any_ext (valid_pos raws') ext'.
Proof.
  induction 1 as [|r r' e e' raws ext raws' ext' Hr Hr' _ IH|r r' e raws ext raws' ext' Hr Hr' _ IH]; [reflexivity| |];
    unfold valid_pos in *; cbn [map any_ext]; rewrite Hr, Hr', IH; reflexivity.
Qed.

Definition masked (m : bool) (x : Q * xnum) : Q * xnum := if m then (fst x, PInf) else x.
Fixpoint zipmask (ms : list bool) (res : list (Q * xnum)) : list (Q * xnum) :=
  match ms, res with m :: ms', x :: r => masked m x :: zipmask ms' r | _, r => r end.

Section M.
Variable pen : Q -> option Q.

Definition fit3_one_masked (lo hi : Q) (logds : list Q) (per_dist : list (list row)) (ms : list bool) : fitres3 :=
  let res := zipmask ms (map (chi_at pen lo hi) per_dist) in
  let best := argmin_x (map snd res) in
  let av := fst (nth best res (0, NaN)) in
  {| g_av := av; g_sc := nth best logds 0; g_chi2 := snd (nth best res (0, NaN));
     g_pred := map (fun r => av * r_a r + r_lm r) (nth best per_dist []);
     g_best := best; g_grid := map snd res; g_avs := map fst res |}.

Lemma zipmask_length ms res : length (zipmask ms res) = length res.
Proof. revert res; induction ms as [|m ms IH]; intros [|x r]; simpl; try reflexivity. now rewrite IH. Qed.

Lemma zipmask_nth ms : forall res i d, (i < length res)%nat ->
  nth i (zipmask ms res) d = masked (nth i ms false) (nth i res d).
Proof.
  induction ms as [|m ms IH]; intros res i d Hi.
  - simpl. destruct i; reflexivity.
  - destruct res as [|x r]; [simpl in Hi; lia|]. destruct i as [|i]; [reflexivity|].
    simpl. apply IH. simpl in Hi. lia.
Qed.

Lemma zipmask_false ms res : (forall m, In m ms -> m = false) -> zipmask ms res = res.
Proof.
  revert res; induction ms as [|m ms IH]; intros res H; [reflexivity|].
  destruct res as [|x r]; [reflexivity|]. simpl.
  rewrite (H m (or_introl eq_refl)). simpl. f_equal. apply IH. intros m' Hm'. apply H. right; exact Hm'.
Qed.

(* without any flagged entry the step changes nothing *)
Theorem masked_none lo hi logds per_dist ms : (forall m, In m ms -> m = false) ->
  fit3_one_masked lo hi logds per_dist ms = fit3_one pen lo hi logds per_dist.
Proof. intro H. unfold fit3_one_masked, fit3_one. rewrite (zipmask_false ms _ H). reflexivity. Qed.

(* with the mask: the reported index is on the grid; A_V and the predictions are those computed at that distance; chi^2 is
   +inf if that distance is flagged and the chi^2 of that distance otherwise; no unflagged distance has a smaller chi^2;
   and if any distance is unflagged the reported one is unflagged *)
Theorem fit3_one_masked_spec lo hi logds per_dist ms : per_dist <> [] ->
  let r := fit3_one_masked lo hi logds per_dist ms in
  let b := g_best r in
  let rows := nth b per_dist [] in
  (b < length per_dist)%nat /\
  g_sc r = nth b logds 0 /\
  g_av r = av_at_distance lo hi rows /\
  g_chi2 r = (if nth b ms false then PInf else Fin (chi2_m pen rows (g_av r) 0)) /\
  (forall i, (i < length per_dist)%nat -> nth i ms false = false ->
     xlt (Fin (chi2_m pen (nth i per_dist []) (av_at_distance lo hi (nth i per_dist [])) 0)) (g_chi2 r) = false) /\
  g_pred r = map (fun x => g_av r * r_a x + r_lm x) rows /\
  ((exists i, (i < length per_dist)%nat /\ nth i ms false = false) -> nth b ms false = false).
Proof.
  intros Hne. unfold fit3_one_masked. cbn [g_best g_sc g_av g_chi2 g_pred].
  set (raw := map (chi_at pen lo hi) per_dist).
  set (res := zipmask ms raw).
  assert (Lraw : length raw = length per_dist) by (unfold raw; now rewrite map_length).
  assert (Lres : length res = length per_dist) by (unfold res; now rewrite zipmask_length).
  assert (Hres : map snd res <> []).
  { intro E. apply (f_equal (@length xnum)) in E. rewrite map_length, Lres in E. destruct per_dist; [congruence|discriminate]. }
  destruct (argmin_x_spec (map snd res) NaN Hres) as [Hb Hmin].
  set (b := argmin_x (map snd res)) in *.
  rewrite map_length, Lres in Hb.
  assert (Hraw : forall i, (i < length per_dist)%nat -> nth i raw (0, NaN) = chi_at pen lo hi (nth i per_dist [])).
  { intros i Hi. unfold raw. rewrite (nth_indep _ (0, NaN) (chi_at pen lo hi [])) by (rewrite map_length; exact Hi). apply map_nth. }
  assert (Hn : forall i, (i < length per_dist)%nat ->
               nth i res (0, NaN) = masked (nth i ms false) (chi_at pen lo hi (nth i per_dist []))).
  { intros i Hi. unfold res. rewrite zipmask_nth by (rewrite Lraw; exact Hi). rewrite Hraw by exact Hi. reflexivity. }
  assert (Hs : forall i, (i < length per_dist)%nat -> nth i (map snd res) NaN = snd (nth i res (0, NaN))).
  { intros i Hi. rewrite (nth_indep _ NaN (snd (0, NaN))) by (rewrite map_length, Lres; exact Hi). apply map_nth. }
  rewrite (Hn b Hb). unfold chi_at, masked.
  assert (Min : forall i, (i < length per_dist)%nat -> nth i ms false = false ->
     xlt (Fin (chi2_m pen (nth i per_dist []) (av_at_distance lo hi (nth i per_dist [])) 0))
         (snd (if nth b ms false then (av_at_distance lo hi (nth b per_dist []), PInf)
               else (av_at_distance lo hi (nth b per_dist []), Fin (chi2_m pen (nth b per_dist []) (av_at_distance lo hi (nth b per_dist [])) 0)))) = false).
  { intros i Hi Hm.
    assert (Hin : In (snd (nth i res (0, NaN))) (map snd res)).
    { rewrite <- (Hs i Hi). apply nth_In. rewrite map_length, Lres. exact Hi. }
    pose proof (Hmin _ Hin) as H. rewrite (Hs b Hb), (Hn b Hb), (Hn i Hi), Hm in H.
    unfold chi_at, masked in H. cbn [snd fst] in H.
    destruct (nth b ms false); exact H. }
  split; [exact Hb|].
  split; [destruct (nth b ms false); reflexivity|].
  split; [destruct (nth b ms false); reflexivity|].
  split; [destruct (nth b ms false); reflexivity|].
  split; [intros i Hi Hm; specialize (Min i Hi Hm); destruct (nth b ms false); cbn [snd fst] in *; exact Min|].
  split; [destruct (nth b ms false); reflexivity|].
  intros [i [Hi Hm]]. specialize (Min i Hi Hm). destruct (nth b ms false) eqn:E; [|reflexivity].
  cbn [snd] in Min. simpl in Min. discriminate Min.
Qed.

End M.

Example mask_example :
  any_ext [true; false; true] [false; true; true] = true /\ any_ext [true; false] [false; true] = false
  /\ zipmask [true; false] [(1, Fin 3); (2, Fin 5); (3, Fin 1)] = [(1, PInf); (2, Fin 5); (3, Fin 1)].
Proof. repeat split. Qed.

(* ---- package level (executable): one model with its own mask rows [distance][band], then the whole grid ---- *)
Section P.
Variable lg : Q -> Q.
Variable ln10 : Q.
Variable pen : Q -> option Q.

Definition fit3_model_masked (lo hi : Q) (raws : list rawband) (alaw thetas ds logds : list Q)
                             (tabs : list (list pt)) (ext : list (list bool)) : option fitres3 :=
  match all_some (map (fun d => all_some (scaled_band_list tabs thetas d)) ds) with
  | Some fl => Some (fit3_one_masked pen lo hi logds (map (fun f => mkrows (bands_of lg ln10 raws) alaw (map lg f)) fl)
                                     (map (any_ext (valid_pos raws)) ext))
  | None => None
  end.

Fixpoint map2o {A B C} (f : A -> B -> option C) (l : list A) (m : list B) : list (option C) :=
  match l, m with a :: l', b :: m' => f a b :: map2o f l' m' | _, _ => [] end.

Definition fit3_pkg_masked (tab : list pt) (v : Q) (wavs : list Q) (lo hi : Q) (raws : list rawband) (thetas ds logds : list Q)
                           (models : list (list (list pt))) (exts : list (list (list bool))) : option (list fitres3) :=
  all_some (map2o (fit3_model_masked lo hi raws (map (get_av_m tab v) wavs) thetas ds logds) models exts).

(* with an all-false mask the masked model is the plain one *)
Lemma any_ext_nil_false vpos ext : (forall e, In e ext -> e = false) -> any_ext vpos ext = false.
Proof.
  revert ext; induction vpos as [|v vs IH]; intros [|e es] H; try reflexivity.
  simpl. rewrite (H e (or_introl eq_refl)). rewrite andb_false_r. simpl. apply IH. intros e' He'. apply H. right; exact He'.
Qed.

Theorem fit3_model_masked_none lo hi raws alaw thetas ds logds tabs ext :
  (forall row, In row ext -> forall e, In e row -> e = false) ->
  fit3_model_masked lo hi raws alaw thetas ds logds tabs ext = fit3_model lg ln10 pen lo hi raws alaw thetas ds logds tabs.
Proof.
  intro H. unfold fit3_model_masked, fit3_model.
  destruct (all_some (map (fun d => all_some (scaled_band_list tabs thetas d)) ds)); [|reflexivity].
  f_equal. apply masked_none. intros m Hm. apply in_map_iff in Hm. destruct Hm as [row [<- Hrow]].
  apply any_ext_nil_false. apply H. exact Hrow.
Qed.
End P.
