import os, tempfile, sys, io, contextlib
import numpy as np
from astropy import units as u
from fractions import Fraction

def quiet():
    return contextlib.redirect_stdout(io.StringIO())

def make_v1(dirname, names, wavs_um, fluxes_mJy, filt_names=None, unit=u.mJy, orders=None):
    """fluxes_mJy: (n_models, n_filt)"""
    from sedfitter.convolved_fluxes import ConvolvedFluxes
    os.makedirs(os.path.join(dirname, 'convolved'), exist_ok=True)
    with open(os.path.join(dirname, 'models.conf'), 'w') as f:
        f.write("name = test\nlength_subdir = 0\naperture_dependent = no\nlogd_step = 0.02\n")
    names = np.array(names)
    fluxes_mJy = np.asarray(fluxes_mJy, dtype=float)
    if filt_names is None:
        filt_names = ['F%d' % i for i in range(len(wavs_um))]
    for j, fn in enumerate(filt_names):
        order = np.arange(len(names)) if orders is None else np.asarray(orders[j])
        c = ConvolvedFluxes(wavelength=wavs_um[j] * u.micron, model_names=names[order],
                            flux=(fluxes_mJy[order, j:j+1] * u.mJy).to(unit),
                            error=(0.01 * fluxes_mJy[order, j:j+1] * u.mJy).to(unit))
        c.write(os.path.join(dirname, 'convolved', fn + '.fits'), overwrite=True)
    return filt_names

def make_law(wav=None, chi=None):
    from sedfitter.extinction import Extinction
    e = Extinction()
    if wav is None:
        wav = np.logspace(-2., 3., 50)
        chi = wav ** -1.5
    e.wav = np.asarray(wav) * u.micron
    e.chi = np.asarray(chi) * u.cm ** 2 / u.g
    return e

def make_source(valid, flux, error, name='s'):
    from sedfitter.source import Source
    s = Source()
    s.name = name
    s.x = 0.; s.y = 0.
    s.valid = np.array(valid, dtype=int)
    s.flux = np.array(flux, dtype=float)
    s.error = np.array(error, dtype=float)
    return s

def reference(valid, flux, error, logmodel, k, av_lo, av_hi):
    """Independent reference for one model using exact rationals on the double inputs.
    returns av, sc, chi2 (floats)"""
    valid = np.asarray(valid); flux = np.asarray(flux, float); error = np.asarray(error, float)
    n = len(valid)
    y = np.zeros(n); w = np.zeros(n)
    for i in range(n):
        if valid[i] == 1:
            y[i] = np.log10(flux[i]) - 0.5 * (error[i] / flux[i]) ** 2 / np.log(10.)
            le = abs(error[i] / flux[i]) / np.log(10.)
            w[i] = 1. / le ** 2
        elif valid[i] == 4:
            y[i] = flux[i]; w[i] = 1. / error[i] ** 2
        elif valid[i] in (2, 3):
            y[i] = np.log10(flux[i])
    F = Fraction
    r = [F(float(y[i])) - F(float(logmodel[i])) for i in range(n)]
    W = [F(float(x)) for x in w]
    K = [F(float(x)) for x in k]
    idx = [i for i in range(n) if valid[i] in (1, 4)]
    # minimise sum W (r - a K + 2 s)^2
    S = sum(W[i] for i in idx); Sk = sum(W[i] * K[i] for i in idx); Skk = sum(W[i] * K[i] ** 2 for i in idx)
    Sr = sum(W[i] * r[i] for i in idx); Skr = sum(W[i] * K[i] * r[i] for i in idx)
    # normal eq: a Skk - 2 s Sk = Skr ; a Sk - 2 s S = Sr
    det = Skk * S - Sk * Sk
    a = (Skr * S - Sr * Sk) / det
    lo, hi = F(float(av_lo)), F(float(av_hi))
    if a < lo: a = lo
    if a > hi: a = hi
    t = (a * Sk - Sr) / S   # t = 2 s
    s = t / 2
    chi = sum(W[i] * (r[i] - a * K[i] + 2 * s) ** 2 for i in idx)
    chi = float(chi)
    for i in range(n):
        if valid[i] == 2 and float(a * K[i] - 2 * s) < float(r[i]):
            chi += -2. * np.log(1. - error[i])
        if valid[i] == 3 and float(a * K[i] - 2 * s) > float(r[i]):
            chi += -2. * np.log(1. - error[i])
    return float(a), float(s), chi
