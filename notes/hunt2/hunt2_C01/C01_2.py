"""C01 ("for a model package that is not distance/aperture dependent, for every source ... the
reported A_V and scale ..."): a result is promised, but Fitter (and fit()) REFUSE to work on a
distance-independent package unless a distance range is supplied, although

  * `distance_range` is an optional keyword whose documented default is None,
  * a distance range has no meaning for a distance-independent package (Models.read ignores it).

Fitter.__init__ calls validate_array('distance_range', None, ..., physical_type='length')
unconditionally, which raises TypeError for None.  With any dummy range the very same call works.
"""
import os, io, tempfile, contextlib
import numpy as np
from astropy import units as u
from sedfitter.fit import Fitter
from sedfitter.source import Source
from sedfitter.extinction import Extinction
from sedfitter.convolved_fluxes import ConvolvedFluxes

d = tempfile.mkdtemp()
os.makedirs(os.path.join(d, 'convolved'))
open(os.path.join(d, 'models.conf'), 'w').write(
    "name = test\nlength_subdir = 0\naperture_dependent = no\nlogd_step = 0.02\n")
rng = np.random.RandomState(1)
wavs = [1.2, 3.6, 8.0]
M = 10 ** rng.uniform(0, 1, (4, 3))
names = np.array(['m%d' % i for i in range(4)])
filters = ['F0', 'F1', 'F2']
for j, fn in enumerate(filters):
    ConvolvedFluxes(wavelength=wavs[j] * u.micron, model_names=names,
                    flux=M[:, j:j + 1] * u.mJy, error=0.01 * M[:, j:j + 1] * u.mJy
                    ).write(os.path.join(d, 'convolved', fn + '.fits'))
law = Extinction()
law.wav = np.logspace(-2., 3., 50) * u.micron
law.chi = law.wav.value ** -1.5 * u.cm ** 2 / u.g

s = Source()
s.name = 'src'
s.valid = np.array([1, 1, 1])
s.flux = np.array([1., 2., 3.])
s.error = np.array([0.1, 0.2, 0.3])

# control: with a (meaningless) distance range everything works
with contextlib.redirect_stdout(io.StringIO()):
    info = Fitter(filters, [1.] * 3 * u.arcsec, d, extinction_law=law, av_range=(0., 10.),
                  distance_range=[1., 2.] * u.kpc).fit(s)
assert len(info.chi2) == 4

# the documented default (no distance range) for a distance-independent package
try:
    with contextlib.redirect_stdout(io.StringIO()):
        info2 = Fitter(filters, [1.] * 3 * u.arcsec, d, extinction_law=law, av_range=(0., 10.)).fit(s)
except Exception as exc:
    raise AssertionError(
        "C01 violated (a result is promised for every source of a distance-independent package): "
        "Fitter(filters, apertures, model_dir, extinction_law=law, av_range=(0,10)) with the default "
        "distance_range=None raises %s: %s" % (type(exc).__name__, exc))
assert np.all(info2.chi2 == info.chi2)
