"""
C16 - clause: "writes exactly one file per SED wavelength lying inside the
requested wavelength window".

The only description of the window arguments is the docstring of
convolve_model_dir_monochromatic:
    wav_min : float, optional   The minimum wavelength to consider ...
    wav_max : float, optional   The maximum wavelength to consider ...
Given as documented (floats, micron like everything else in that module), the
call raises UnitConversionError ('' (dimensionless) and 'micron' (length) are
not convertible) from Quantity.searchsorted; only Quantities work.
"""
import os, sys, glob, tempfile
import numpy as np
from astropy import units as u
from astropy.table import Table
from astropy import log
log.setLevel('ERROR')

from sedfitter.sed import SED
from sedfitter.convolve import convolve_model_dir_monochromatic

rng = np.random.RandomState(0)
names = ['m_a', 'm_b']
wav = np.array([0.5, 1.2, 3.6, 8.0, 24., 70.]) * u.micron
aps = np.array([10., 100.]) * u.au
val = np.cumsum(rng.random_sample((2, 2, 6)) + 0.5, axis=1)

d1 = tempfile.mkdtemp()
os.mkdir(os.path.join(d1, 'seds'))
for i, n in enumerate(names):
    s = SED()
    s.name = n
    s.distance = 1 * u.kpc
    s.wav = wav
    s.nu = wav.to(u.Hz, equivalencies=u.spectral())
    s.apertures = aps
    s.flux = val[i] * u.mJy
    s.error = 0.01 * val[i] * u.mJy
    s.write(os.path.join(d1, 'seds', n + '_sed.fits'))
with open(os.path.join(d1, 'models.conf'), 'w') as f:
    f.write("name = test\nlength_subdir = 0\naperture_dependent = yes\nlogd_step = 0.02\n")
t = Table()
t['MODEL_NAME'] = np.array(names, dtype='S30')
t['par1'] = np.arange(2.)
t.write(os.path.join(d1, 'parameters.fits'))

try:
    convolve_model_dir_monochromatic(d1, wav_min=1.0, wav_max=30.)
except Exception as exc:
    raise AssertionError(
        "C16 violated: convolve_model_dir_monochromatic(wav_min=1.0, wav_max=30.) - floats, "
        "as its docstring specifies - raises %s: %s instead of writing the files for "
        "1.2, 3.6, 8 and 24 micron" % (type(exc).__name__, exc))
files = sorted(os.path.basename(x) for x in glob.glob(os.path.join(d1, 'convolved', 'MO*.fits')))
assert files == ['MO002.fits', 'MO003.fits', 'MO004.fits', 'MO005.fits'], files
print("OK")
