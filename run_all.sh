#!/bin/bash
# run_all.sh [quick|thorough] — every property's check in sequence; prints one summary line per property
set -o pipefail
tier=${1:-quick}
rc=0
for p in C01 C02 C03 C04 C05 C06 C07 C08 C09 C10 C11 C12 C13 C14 C15 C16 C17 C18 C19 C20; do
  ./check $p $tier | tail -3 | cut -c1-220 || rc=1
done
exit $rc
