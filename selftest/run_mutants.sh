#!/bin/bash
# run_mutants.sh — every hand-made mutant against the check named by its prefix (c07_xxx -> C07); prints one line each.
# Expected: VIOLATION for all except the ones listed in selftest/expected_quiet.txt (changes that do not break the property).
cd /verif
one() {
  f=$1
  n=$(basename $f .diff); p=$(echo ${n%%_*} | tr a-z A-Z)
  out=$(./selftest/with_patch.sh $f $p quick 2>&1 | grep -E "^VIOLATION|patch does not apply" | head -1 | cut -c1-90)
  if grep -qx "$n" selftest/expected_quiet.txt; then exp=quiet; else exp=VIOLATION; fi
  if [ -z "$out" ]; then got=quiet; elif echo "$out" | grep -q "does not apply"; then got=STALE; else got=VIOLATION; fi
  [ "$got" = "$exp" ] && s=ok || s=UNEXPECTED
  echo "$s $n expected=$exp got=$got $out"
}
export -f one
ls selftest/mutants/*.diff | xargs -P 4 -I{} bash -c 'one {}'
