(* C15 — flux unit conversions are mutually consistent and invertible.
   Model: Misc.convert (sed.helpers.convert_flux: to erg/cm^2/s by family, then to the target family; a unit = family +
   exact rational scale factor).  Proofs: Misc (field). *)
From Coq Require Import QArith.
From SedV Require Import Misc.
Open Scope Q_scope.

(* F(erg/cm^2/s) = nu * F_nu and L = F * d^2 *)
Theorem C15_relations : forall nu d x, ~ nu == 0 -> ~ d == 0 ->
  convert Fnu 1 Fint 1 nu d x == nu * x /\ convert Fint 1 Lum 1 nu d x == x * (d * d).
Proof. exact Misc.C15_relations. Qed.

(* A -> B -> A is the identity *)
Theorem C15_roundtrip : forall fa ka fb kb nu d x, ~ ka == 0 -> ~ kb == 0 -> ~ nu == 0 -> ~ d == 0 ->
  convert fb kb fa ka nu d (convert fa ka fb kb nu d x) == x.
Proof. exact Misc.C15_roundtrip. Qed.

(* A -> B -> C equals A -> C *)
Theorem C15_compose : forall fa ka fb kb fc kc nu d x, ~ ka == 0 -> ~ kb == 0 -> ~ kc == 0 -> ~ nu == 0 -> ~ d == 0 ->
  convert fb kb fc kc nu d (convert fa ka fb kb nu d x) == convert fa ka fc kc nu d x.
Proof. exact Misc.C15_compose. Qed.

Example C15_example : convert Fnu (1#1000) Lum 1 2 3 5 == 5 * (1#1000) * 2 * (3 * 3).
Proof. vm_compute. reflexivity. Qed.

(* which units are accepted (UnitM): a unit is classified by its dimension alone - kg m2 s-3 (luminosity), kg s-2 (F_nu),
   kg s-3 (flux) - and anything else is refused, on either side; for accepted units the laws above hold *)
From Coq Require Import ZArith.
From SedV Require Import UnitM.
Theorem C15_family : forall u f, family_of u = Some f <-> (u_kg u, u_mt u, u_s u) = dims_of f /\ u_other u = 0%Z.
Proof. exact family_of_spec. Qed.
Theorem C15_refused : forall ua ub nu d x, convert_u ua ub nu d x = None <-> family_of ua = None \/ family_of ub = None.
Proof. exact convert_u_refused. Qed.
Theorem C15_units_roundtrip : forall ua ub nu d x y, ~ u_scale ua == 0 -> ~ u_scale ub == 0 -> ~ nu == 0 -> ~ d == 0 ->
  convert_u ua ub nu d x = Some y -> exists z, convert_u ub ua nu d y = Some z /\ z == x.
Proof. exact convert_u_roundtrip. Qed.
Theorem C15_units_compose : forall ua ub uc nu d x y,
  ~ u_scale ua == 0 -> ~ u_scale ub == 0 -> ~ u_scale uc == 0 -> ~ nu == 0 -> ~ d == 0 ->
  convert_u ua ub nu d x = Some y -> family_of uc <> None ->
  exists z w, convert_u ub uc nu d y = Some z /\ convert_u ua uc nu d x = Some w /\ z == w.
Proof. exact convert_u_compose. Qed.
Example C15_units_example : family_of u_mJy = Some Fnu /\ family_of u_erg_s = Some Lum /\ family_of u_K = None /\
  convert_u u_mJy u_K 1 1 1 = None /\ convert_u u_mJy u_erg_s 2 3 5 <> None.
Proof. exact unit_example. Qed.
