(* Filter.normalize / Filter.rebin / integrate_subset with its wrappers / the broadband sums of convolve_model_dir.
   Definitions only (executable); proofs in ConvolveProofs.v. *)
From Coq Require Import QArith Qminmax Lqa Lia List Bool.
Import ListNotations.
Open Scope Q_scope.
From SedV Require Import PLin Xnum Slice Interp Isub Rebin.

(* integrate_subset: reverse decreasing storage, swap the limits, empty interval, then the core *)
Definition orient (l : list pt) : list pt := if Qle_bool (x0 l) (xn l) then l else rev l.   (* x[-1] < x[0] -> reversed *)
Definition isub_full (l : list pt) (a b : Q) : Q :=
  let l' := orient l in
  let '(a', b') := if Qle_bool a b then (a, b) else (b, a) in
  if Qeq_bool a' b' then 0 else isub_fixed l' a' b'.

(* Filter.rebin(nu_new): bin edges at midpoints (Rebin.nu1 / nu2), clipped to the filter's frequency range *)
Definition rebin_m (l : list pt) (nu : list Q) : list Q :=
  let fmin := Qmin (x0 l) (xn l) in
  let fmax := Qmax (x0 l) (xn l) in
  map (fun i => let a := nu1 nu fmin fmax i in let b := nu2 nu fmin fmax i in
                if Qeq_bool b a then 0 else isub_full l a b)
      (seq 0 (length nu)).

(* Filter.normalize: response / |integral over nu| *)
Definition Qabs_m (x : Q) : Q := if Qle_bool 0 x then x else - x.
Definition normalize_m (l : list pt) : list pt :=
  let t := Qabs_m (trapz l) in map (fun p => (fst p, snd p / t)) l.

(* np.sum(flux * response) and np.sum((error * response) ** 2) (the square root is taken by the caller) *)
Fixpoint dot (f r : list Q) : Q :=
  match f, r with x :: f', y :: r' => x * y + dot f' r' | _, _ => 0 end.
Definition conv_m (flux resp : list Q) : Q := dot flux resp.
Fixpoint conv_var_m (err resp : list Q) : Q :=
  match err, resp with x :: e', y :: r' => (x * y) * (x * y) + conv_var_m e' r' | _, _ => 0 end.

Fixpoint qsuml (l : list Q) : Q := match l with [] => 0 | x :: r => x + qsuml r end.
