"""
BORDERLINE (low confidence) - C10, clauses "exactly one record for each eligible
input line" and "accepts ... a list of result objects interchangeably".

The shared metadata is compared with FitInfoMeta.__eq__, which compares the
extinction law BY VALUE with np.all(wav == wav) and np.all(chi == chi).  If the
tabulated law contains a NaN anywhere (here: one opacity entry at 900 micron, far
from the filters, so that the fit itself is unaffected), the law is not equal to
ITSELF.  Then
  * fit() raises "meta does not match previously written value" at the second
    eligible source, although the object interface fits every source;
  * a file with one record can be written and read, but passing [r, r] (a list of
    results that share one meta object) to a post-processing function is refused
    with "The meta property of all FitInfo instances should match".
"""
import os, sys, tempfile, warnings
sys.path.insert(0, os.path.dirname(os.path.abspath(__file__)))
warnings.simplefilter('ignore')
from _helper import build, extinction, u, np
from sedfitter import fit, Fitter, write_parameters
from sedfitter.source import Source
from sedfitter.fit_info import FitInfoFile

d, md = build(False)
law = extinction()
chi = law.chi.value.copy()
assert law.wav[-2].value > 500.            # far beyond the filters (3, 12, 20 micron)
chi[-2] = np.nan
law.chi = chi * law.chi.unit

LINES = ["s1 0.0 0.0 1 1 1 0.2 0.1 1.3 0.2 1.5 0.3",
         "s2 0.0 0.0 1 1 1 0.2 0.05 1.2 0.1 1.8 0.3"]
kw = dict(extinction_law=law, distance_range=[1., 2.] * u.kpc, av_range=[0., 0.1])
filt, ap = ['bob', 'alice', 'eve'], [1., 3., 3.] * u.arcsec

# object interface: both sources are fitted, with finite results
fitter = Fitter(filt, ap, md, **kw)
objs = [fitter.fit(Source.from_ascii(l)) for l in LINES]
assert all(np.all(np.isfinite(o.chi2)) for o in objs)

problems = []
open(d + '/data', 'w').write("\n".join(LINES) + "\n")
try:
    fit(d + '/data', filt, ap, md, d + '/out', n_data_min=3, output_format=('A',), **kw)
    n = len(list(FitInfoFile(d + '/out', 'r')))
    if n != 2:
        problems.append("fit() wrote %d records for 2 eligible sources" % n)
except ValueError as e:
    problems.append("fit() refused the second eligible source: %s" % e)

try:
    write_parameters(objs, d + '/wp_list')
except ValueError as e:
    problems.append("list of results refused by write_parameters: %s" % e)

assert not problems, ("C10 violated with an extinction law that contains a NaN entry "
                      "outside the wavelength range of the filters: " + " | ".join(problems))
print("no violation")
