(* plot(): further facts about the list of drawn curves (membership, no duplicates, worst fit first, best fit on top). *)
From Coq Require Import QArith Lqa Lia List Arith.
Import ListNotations.
From SedV Require Import PlotM.

Lemma in_draw_order n i : In i (draw_order n) <-> (i < n)%nat.
Proof. unfold draw_order. rewrite <- in_rev, in_seq. lia. Qed.

(* exactly the curves (fit i, aperture curve j) with i < n_fits and j < curves per fit are drawn: nothing else, nothing missing *)
Theorem curve_list_in m nu n i j : In (i, j) (curve_list m nu n) <-> (i < n /\ j < ncurves_m m nu)%nat.
Proof.
  unfold curve_list. rewrite in_flat_map. split.
  - intros [x [Hx Hin]]. apply in_map_iff in Hin. destruct Hin as [y [E Hy]]. inversion E; subst.
    apply in_draw_order in Hx. apply in_seq in Hy. lia.
  - intros [Hi Hj]. exists i. split; [apply in_draw_order; exact Hi|].
    apply in_map_iff. exists j. split; [reflexivity|apply in_seq; lia].
Qed.

Lemma nodup_pairs (i : nat) (l : list nat) : NoDup l -> NoDup (map (fun j : nat => (i, j)) l).
Proof.
  induction 1 as [|x l Hx Hl IH]; [constructor|]. cbn [map]. constructor; [|exact IH].
  intros Hin. apply in_map_iff in Hin. destruct Hin as [y [E Hy]]. inversion E; subst. contradiction.
Qed.

Lemma nodup_app {A} (a b : list A) : NoDup a -> NoDup b -> (forall x, In x a -> ~ In x b) -> NoDup (a ++ b).
Proof.
  induction 1 as [|x a Hx Ha IH]; intros Hb Hd; [exact Hb|]. cbn [app]. constructor.
  - rewrite in_app_iff. intros [H|H]; [contradiction|]. apply (Hd x); [left; reflexivity|exact H].
  - apply IH; [exact Hb|]. intros y Hy. apply Hd. right. exact Hy.
Qed.

Lemma nodup_flat (k : nat) (l : list nat) : NoDup l ->
  NoDup (flat_map (fun i => map (fun j => (i, j)) (seq 0 k)) l).
Proof.
  induction 1 as [|x l Hx Hl IH]; [constructor|]. cbn [flat_map].
  apply nodup_app; [apply nodup_pairs, seq_NoDup|exact IH|].
  intros [i j] Hin Hin2. apply in_map_iff in Hin. destruct Hin as [y [E _]]. inversion E; subst.
  apply in_flat_map in Hin2. destruct Hin2 as [z [Hz Hin2]]. apply in_map_iff in Hin2.
  destruct Hin2 as [y2 [E2 _]]. inversion E2; subst. contradiction.
Qed.

(* no curve is drawn twice *)
Theorem curve_list_nodup m nu n : NoDup (curve_list m nu n).
Proof.
  unfold curve_list. apply nodup_flat. unfold draw_order. apply NoDup_rev, seq_NoDup.
Qed.

(* fits are drawn worst first: along the list the fit index never increases, so every curve of a better fit lies over
   every curve of a worse one *)
Fixpoint nonincr (l : list nat) : Prop :=
  match l with [] => True | x :: t => (forall y, In y t -> (y <= x)%nat) /\ nonincr t end.

Lemma nonincr_app a b : nonincr a -> nonincr b -> (forall x y, In x a -> In y b -> (y <= x)%nat) -> nonincr (a ++ b).
Proof.
  induction a as [|x a IH]; intros Ha Hb Hab; [exact Hb|]. cbn [app nonincr] in *. destruct Ha as [H1 H2]. split.
  - intros y Hy. apply in_app_iff in Hy. destruct Hy as [Hy|Hy]; [apply H1; exact Hy|apply (Hab x y); [left; reflexivity|exact Hy]].
  - apply IH; [exact H2|exact Hb|]. intros u v Hu Hv. apply Hab; [right; exact Hu|exact Hv].
Qed.

Lemma nonincr_rev_seq n : nonincr (rev (seq 0 n)).
Proof.
  induction n as [|n IH]; [exact I|]. rewrite seq_S, rev_app_distr. cbn [rev app plus nonincr]. split; [|exact IH].
  intros y Hy. apply in_rev in Hy. apply in_seq in Hy. lia.
Qed.

Lemma nonincr_flat (k : nat) (l : list nat) : nonincr l ->
  nonincr (map fst (flat_map (fun i => map (fun j => (i, j)) (seq 0 k)) l)).
Proof.
  induction l as [|x l IH]; intros H; [exact I|]. cbn [flat_map nonincr] in *. destruct H as [H1 H2]. rewrite map_app.
  assert (Hfst : forall q, In q (map fst (map (fun j : nat => (x, j)) (seq 0 k))) -> q = x).
  { intros q Hq. rewrite map_map in Hq. cbn [fst] in Hq. apply in_map_iff in Hq. destruct Hq as [? [E _]]. symmetry; exact E. }
  apply nonincr_app.
  - clear - Hfst. induction (map fst (map (fun j : nat => (x, j)) (seq 0 k))) as [|a t IHt]; [exact I|].
    cbn [nonincr]. split.
    + intros y Hy. rewrite (Hfst a (or_introl eq_refl)), (Hfst y (or_intror Hy)). lia.
    + apply IHt. intros q Hq. apply Hfst. right. exact Hq.
  - apply IH. exact H2.
  - intros u v Hu Hv. rewrite (Hfst u Hu). apply in_map_iff in Hv. destruct Hv as [[i j] [E Hin]]. cbn [fst] in E. subst v.
    apply in_flat_map in Hin. destruct Hin as [z [Hz Hin]]. apply in_map_iff in Hin. destruct Hin as [? [E _]].
    inversion E; subst. apply H1. exact Hz.
Qed.

Theorem curve_list_worst_first m nu n : nonincr (map fst (curve_list m nu n)).
Proof. unfold curve_list, draw_order. apply nonincr_flat, nonincr_rev_seq. Qed.

(* the last curves drawn are those of the best fit *)
Theorem curve_list_best_on_top m nu n i j : (0 < n)%nat -> (0 < ncurves_m m nu)%nat ->
  last (curve_list m nu n) (i, j) = (0, ncurves_m m nu - 1)%nat.
Proof.
  intros Hn Hk. unfold curve_list, draw_order. destruct n as [|n]; [lia|]. cbn [seq rev].
  rewrite flat_map_app. cbn [flat_map]. rewrite app_nil_r.
  destruct (ncurves_m m nu) as [|k]; [lia|]. rewrite seq_S, map_app. cbn [map plus]. rewrite app_assoc.
  rewrite last_last. f_equal. lia.
Qed.
