(* One entry per model operation: convert arguments, call the extracted function, convert the result. *)
open Proto

let to_sel (x : v) : M.sel =
  match x with
  | L [S "A"] -> M.SelA
  | L [S "N"; n] -> M.SelN (to_nat n)
  | L [S "C"; q] -> M.SelC (to_q q)
  | L [S "D"; q] -> M.SelD (to_q q)
  | L [S "E"; q] -> M.SelE (to_q q)
  | L [S "F"; q] -> M.SelF (to_q q)
  | _ -> raise (Bad "selector")

let dispatch (op : string) (x : v) : v =
  match op, args x with
  | "nkeep", [s; nd; chi] -> of_nat (M.nkeep (to_sel s) (to_pos nd) (to_list to_xnum chi))
  | _ -> raise (Bad ("unknown op or arity: " ^ op))
