(* C06 — broadband convolution is the binned integral of F_nu * R_nu.
   Model: Isub.isub_m (integrate_subset, statement by statement, with the literal index as a parameter), ConvolveM.isub_full
   (reversal of decreasing storage, swapped limits, empty interval), ConvolveM.rebin_m (Filter.rebin: midpoint edges, end bins,
   clip to the filter's range, empty-bin guard), normalize_m, conv_m, conv_var_m.  G = antiderivative of the piecewise-linear
   response (PLin.G).  Proofs: PLin, Slice, Interp, IsubProofs, Rebin, ConvolveProofs. *)
From Coq Require Import QArith Qminmax List.
Import ListNotations.
From SedV Require Import PLin Xnum Slice Interp Isub IsubProofs Rebin ConvolveM ConvolveProofs NormProofs.
From Coq Require Import Qabs.
Open Scope Q_scope.

(* integrate_subset between two limits inside an increasing table = exact integral of the piecewise-linear function *)
Theorem C06_isub : forall l a b, incr l -> (2 <= length l)%nat -> x0 l <= a -> a < b -> b <= xn l ->
  isub_fixed l a b == G l b - G l a.
Proof. exact isub_fixed_exact. Qed.

(* ... for either storage order of the table and either order of the limits *)
Theorem C06_isub_any_order : forall l a b,
  let l' := orient l in
  incr l' -> (2 <= length l')%nat -> x0 l' <= Qmin a b -> Qmax a b <= xn l' ->
  isub_full l a b == G l' (Qmax a b) - G l' (Qmin a b).
Proof. exact isub_full_exact. Qed.

(* R_i = exact integral of the response over bin i (midpoint edges, clipped to the overlap), either order of either grid *)
Theorem C06_bins : forall l nu i,
  let l' := orient l in
  let fmin := Qmin (x0 l) (xn l) in let fmax := Qmax (x0 l) (xn l) in
  let a := nu1 nu fmin fmax i in let b := nu2 nu fmin fmax i in
  incr l' -> (2 <= length l')%nat -> (i < length nu)%nat ->
  nth i (rebin_m l nu) 0 == G l' (Qmax a b) - G l' (Qmin a b).
Proof. exact rebin_bins. Qed.

(* sum_i R_i = the filter's integral over the overlap of filter and SED ranges *)
Theorem C06_conservation : forall l nu,
  let l' := orient l in
  let fmin := Qmin (x0 l) (xn l) in let fmax := Qmax (x0 l) (xn l) in
  incr l' -> (2 <= length l')%nat -> (0 < length nu)%nat ->
  (forall j, (S j < length nu)%nat -> nuat nu j <= nuat nu (S j)) ->
  qsuml (rebin_m l nu) == G l' (clip fmin fmax (nuat nu (length nu - 1))) - G l' (clip fmin fmax (nuat nu 0)).
Proof. exact rebin_conservation. Qed.

(* flat spectrum: F_nu = c gives c * sum R_i (hence c for a normalised filter inside the SED range) *)
Theorem C06_flat : forall c r, conv_m (map (fun _ => c) r) r == c * qsuml r.
Proof. exact dot_const. Qed.

(* linear in the SED *)
Theorem C06_linear : forall al be f f' r, length f = length r -> length f' = length r ->
  conv_m (map (fun p => al * fst p + be * snd p) (combine f f')) r == al * conv_m f r + be * conv_m f' r.
Proof. exact dot_linear. Qed.

(* errors combine in quadrature with the same R_i *)
Theorem C06_quadrature : forall e es r rs, conv_var_m (e :: es) (r :: rs) = (e * r) * (e * r) + conv_var_m es rs.
Proof. reflexivity. Qed.

(* Filter.normalize: the normalised response integrates to 1 in absolute value, in either storage order *)
Theorem C06_normalised : forall l, ~ trapz l == 0 -> Qabs (trapz (normalize_m l)) == 1.
Proof. exact normalize_unit. Qed.

(* a normalised non-negative filter (either storage order) lying inside the SED range: sum_i R_i = 1 and a flat spectrum
   F_nu = c convolves to c *)
Theorem C06_flat_normalised : forall l nu c,
  let l' := orient l in
  incr l' -> (2 <= length l')%nat -> nonneg l -> ~ trapz l == 0 ->
  (0 < length nu)%nat -> (forall j, (S j < length nu)%nat -> nuat nu j <= nuat nu (S j)) ->
  nuat nu 0 <= x0 l' -> xn l' <= nuat nu (length nu - 1) ->
  let r := rebin_m (normalize_m l) nu in
  qsuml r == 1 /\ conv_m (map (fun _ => c) r) r == c.
Proof. exact flat_normalised. Qed.

(* the literal index -2 of the unrepaired integrate_subset is refuted: x=[0,1,2,3], y=[0,0,10,0], limits 0..3 *)
Theorem C06_literal_index_refuted :
  isub_current [(0,0); (1,0); (2,10); (3,0)] 0 3 == 0 /\ isub_fixed [(0,0); (1,0); (2,10); (3,0)] 0 3 == 10
  /\ G [(0,0); (1,0); (2,10); (3,0)] 3 - G [(0,0); (1,0); (2,10); (3,0)] 0 == 10.
Proof. exact C06_isub_refuted. Qed.

Example C06_example : incr [(0,0); (1,0); (2,10); (3,0)] /\ qsuml (rebin_m [(3,0); (2,10); (1,0); (0,0)] [0; 3]) == 10.
Proof. split; [simpl; repeat split; reflexivity|vm_compute; reflexivity]. Qed.

Example C06_normalised_example :
  let l := [(3,0); (2,10); (1,0)] in
  incr (orient l) /\ nonneg l /\ ~ trapz l == 0 /\ qsuml (rebin_m (normalize_m l) [0; 2; 4]) == 1
  /\ conv_m [7; 7; 7] (rebin_m (normalize_m l) [0; 2; 4]) == 7.
Proof. vm_compute. repeat split; try reflexivity; try (intro H; discriminate H); repeat constructor; intro H; discriminate H. Qed.
