From Coq Require Import QArith Lqa.
Open Scope Q_scope.

Lemma sqnn (q:Q) : 0 <= q*q.
Proof. destruct (Qlt_le_dec q 0); nra. Qed.

Definition S6 (c0 c1 c2 m11 m12 m22 a s : Q) : Q :=
  c0 - 2*a*c1 - 2*s*c2 + a*a*m11 + 2*a*s*m12 + s*s*m22.
Definition sopt (c2 m12 m22 a : Q) := (c2 - a*m12) / m22.           (* optimal_scaling after fixing a *)
Definition areg (c1 c2 m11 m12 m22 : Q) := (m22*c1 - m12*c2) / (m11*m22 - m12*m12).
Definition sreg (c1 c2 m11 m12 m22 : Q) := (m11*c2 - m12*c1) / (m11*m22 - m12*m12).
Definition clamp (lo hi x : Q) := if Qlt_le_dec x lo then lo else if Qlt_le_dec hi x then hi else x.

(* S(a,s) - S(a', sopt a') = m22 (s - sopt a)^2 + D (a - a')(a + a' - 2 a* ) *)
Lemma decomp c0 c1 c2 m11 m12 m22 a s a' :
  0 < m22 -> 0 < m11*m22 - m12*m12 ->
  S6 c0 c1 c2 m11 m12 m22 a s - S6 c0 c1 c2 m11 m12 m22 a' (sopt c2 m12 m22 a')
  == m22 * ((s - sopt c2 m12 m22 a) * (s - sopt c2 m12 m22 a))
     + ((m11*m22 - m12*m12)/m22) * ((a - a') * (a + a' - 2 * areg c1 c2 m11 m12 m22)).
Proof.
  intros H22 Hd. unfold S6, sopt, areg. field. split; lra.
Qed.

(* when not clamped the code keeps the regression scale; it coincides with sopt *)
Lemma sreg_is_sopt c1 c2 m11 m12 m22 :
  0 < m22 -> 0 < m11*m22 - m12*m12 ->
  sreg c1 c2 m11 m12 m22 == sopt c2 m12 m22 (areg c1 c2 m11 m12 m22).
Proof. intros H22 Hd. unfold sreg, sopt, areg. field. split; lra. Qed.

Theorem clamp_optimal c0 c1 c2 m11 m12 m22 lo hi a s :
  0 < m22 -> 0 < m11*m22 - m12*m12 -> lo <= hi -> lo <= a <= hi ->
  let a' := clamp lo hi (areg c1 c2 m11 m12 m22) in
  lo <= a' <= hi /\
  S6 c0 c1 c2 m11 m12 m22 a' (sopt c2 m12 m22 a') <= S6 c0 c1 c2 m11 m12 m22 a s.
Proof.
  intros H22 Hd Hlh Ha a'.
  assert (Hc : lo <= a' <= hi).
  { unfold a', clamp. destruct (Qlt_le_dec _ lo); [lra|]. destruct (Qlt_le_dec hi _); lra. }
  split; [exact Hc|].
  pose proof (decomp c0 c1 c2 m11 m12 m22 a s a' H22 Hd) as E.
  set (t := s - sopt c2 m12 m22 a) in *.
  set (astar := areg c1 c2 m11 m12 m22) in *.
  assert (T : 0 <= m22 * (t * t)) by (apply Qmult_le_0_compat; [lra|apply sqnn]).
  assert (D : 0 < (m11*m22 - m12*m12)/m22) by (apply Qlt_shift_div_l; lra).
  assert (U : 0 <= (a - a') * (a + a' - 2 * astar)).
  { unfold a', clamp in *. destruct (Qlt_le_dec astar lo).
    - apply Qmult_le_0_compat; lra.
    - destruct (Qlt_le_dec hi astar).
      + setoid_replace ((a - hi) * (a + hi - 2 * astar)) with ((hi - a) * (2*astar - a - hi)) by ring.
        apply Qmult_le_0_compat; lra.
      + setoid_replace ((a - astar) * (a + astar - 2 * astar)) with ((a - astar) * (a - astar)) by ring.
        apply sqnn. }
  assert (V : 0 <= ((m11*m22 - m12*m12)/m22) * ((a - a') * (a + a' - 2 * astar))).
  { apply Qmult_le_0_compat; lra. }
  lra.
Qed.

(* relational form: no deciders in the statement, everything up to == *)
Definition is_clamp (lo hi x x' : Q) : Prop :=
  (x < lo /\ x' == lo) \/ (hi < x /\ x' == hi) \/ (lo <= x <= hi /\ x' == x).

Theorem clamp_optimal_rel c0 c1 c2 m11 m12 m22 lo hi a s astar a' s' :
  0 < m22 -> 0 < m11*m22 - m12*m12 -> lo <= hi -> lo <= a <= hi ->
  astar == areg c1 c2 m11 m12 m22 -> is_clamp lo hi astar a' -> s' == sopt c2 m12 m22 a' ->
  lo <= a' <= hi /\
  S6 c0 c1 c2 m11 m12 m22 a' s' <= S6 c0 c1 c2 m11 m12 m22 a s.
Proof.
  intros H22 Hd Hlh Ha Hs Hc Hs'.
  assert (Hr : lo <= a' <= hi) by (destruct Hc as [[? E]|[[? E]|[? E]]]; rewrite E; lra).
  split; [exact Hr|].
  pose proof (decomp c0 c1 c2 m11 m12 m22 a s a' H22 Hd) as E.
  assert (P : S6 c0 c1 c2 m11 m12 m22 a' s' == S6 c0 c1 c2 m11 m12 m22 a' (sopt c2 m12 m22 a')).
  { unfold S6. rewrite Hs'. reflexivity. }
  rewrite P. clear P Hs'.
  set (t := s - sopt c2 m12 m22 a) in *.
  rewrite <- Hs in E.
  assert (T : 0 <= m22 * (t * t)) by (apply Qmult_le_0_compat; [lra|apply sqnn]).
  assert (D : 0 < (m11*m22 - m12*m12)/m22) by (apply Qlt_shift_div_l; lra).
  assert (U : 0 <= (a - a') * (a + a' - 2 * astar)).
  { destruct Hc as [[L X]|[[G X]|[I X]]]; rewrite X.
    - apply Qmult_le_0_compat; lra.
    - setoid_replace ((a - hi) * (a + hi - 2 * astar)) with ((hi - a) * (2*astar - a - hi)) by ring.
      apply Qmult_le_0_compat; lra.
    - setoid_replace ((a - astar) * (a + astar - 2 * astar)) with ((a - astar) * (a - astar)) by ring.
      apply sqnn. }
  assert (V : 0 <= ((m11*m22 - m12*m12)/m22) * ((a - a') * (a + a' - 2 * astar))).
  { apply Qmult_le_0_compat; lra. }
  lra.
Qed.
Print Assumptions clamp_optimal_rel.

