"""
C01 violated: a Source whose flux / error arrays are single precision (np.float32, e.g.
columns of a FITS catalogue handed straight to Source.flux / Source.error).

Source.get_log_fluxes() evaluates log10(flux), the de-biasing term, the log error and the
weight in the dtype of the input, i.e. in float32, and only then stores them in float64
arrays.  The numbers fitted are therefore not log10 of the observed fluxes (which are
exactly representable doubles) but single-precision approximations (error ~2e-7 in
log10 F, ~1e-7 relative in the weights).  The reported A_V / scale / chi^2 differ from the
constrained least-squares optimum by ~1e-5 mag / ~1e-7 / ~1e-4 relative; the very same
numbers given as float64 arrays are fitted exactly.
"""
import os, io, tempfile, contextlib
import numpy as np
from astropy import units as u
from sedfitter.convolved_fluxes import ConvolvedFluxes
from sedfitter.extinction import Extinction
from sedfitter.source import Source
from sedfitter.fit import Fitter

rng = np.random.default_rng(11)
nm, nw = 5, 4
names = np.array(['m%d' % i for i in range(nm)])
wavs = [3.6, 4.5, 5.8, 8.0]
flux = 10 ** rng.uniform(-1, 3, (nm, nw))

d = tempfile.mkdtemp()
os.mkdir(d + '/convolved')
for j, w in enumerate(wavs):
    c = ConvolvedFluxes(wavelength=w * u.micron, model_names=names,
                        flux=flux[:, j:j + 1] * u.mJy, error=flux[:, j:j + 1] * 0 * u.mJy)
    c.write(d + '/convolved/f%d.fits' % j)
open(d + '/models.conf', 'w').write("name = test\nlength_subdir = 0\naperture_dependent = no\nlogd_step = 0.02\n")

ext = Extinction()
ext.wav = np.logspace(-2., 3., 50) * u.micron
ext.chi = ext.wav.value ** -1.5 * u.cm ** 2 / u.g

av_lo, av_hi = -1000., 1000.
with contextlib.redirect_stdout(io.StringIO()):
    fitter = Fitter(['f0', 'f1', 'f2', 'f3'], np.ones(4) * u.arcsec, d,
                    extinction_law=ext, av_range=(av_lo, av_hi))
k = np.asarray(fitter.av_law, dtype=float)

f32 = np.array([12345.678, 23456.789, 34567.891, 45678.912], dtype=np.float32)
e32 = np.array([123.45678, 234.56789, 345.67891, 456.78912], dtype=np.float32)


def oracle(fx, er, logm):
    L = np.longdouble
    fx = fx.astype(L); er = er.astype(L); kk = k.astype(L); logm = logm.astype(L)
    ln10 = np.log(L(10))
    y = np.log10(fx) - L(0.5) * (er / fx) ** 2 / ln10
    w = 1 / (er / fx / ln10) ** 2
    res = y - logm
    kb = (w * kk).sum() / w.sum(); rb = (w * res).sum() / w.sum()
    A = (w * (kk - kb) * (res - rb)).sum() / (w * (kk - kb) ** 2).sum()
    A = min(max(A, L(av_lo)), L(av_hi))
    S = -(rb - A * kb) / 2
    return float(A), float(S), float((w * (res - A * kk + 2 * S) ** 2).sum())


def run(fx, er):
    s = Source()
    s.name = 'src'
    s.valid = [1, 1, 1, 1]
    s.flux = fx
    s.error = er
    info = fitter.fit(s)
    worst = [0., 0., 0.]
    for r in range(nm):
        i = list(names).index(str(info.model_name[r]).strip())
        A, S, chi = oracle(np.asarray(fx), np.asarray(er), np.log10(flux[i]))
        worst[0] = max(worst[0], abs(A - float(info.av[r])))
        worst[1] = max(worst[1], abs(S - float(info.sc[r])))
        worst[2] = max(worst[2], abs(chi - float(info.chi2[r])) / max(1., chi))
    return worst

# the same observed values, once as float64 arrays, once as float32 arrays
w64 = run(f32.astype(np.float64), e32.astype(np.float64))
w32 = run(f32, e32)
print("float64 input: max |A_V - optimum| = %.2e, |scale - optimum| = %.2e, rel. chi2 error = %.2e" % tuple(w64))
print("float32 input: max |A_V - optimum| = %.2e, |scale - optimum| = %.2e, rel. chi2 error = %.2e" % tuple(w32))
assert w64[0] < 1e-9 and w64[1] < 1e-10, "control failed"
assert w32[0] < 1e-9 and w32[1] < 1e-10 and w32[2] < 1e-10, (
    "C01 (reported A_V/scale/chi^2 are the constrained least-squares optimum for log10 of the observed fluxes) "
    "fails for a Source with float32 flux/error arrays: log10 F and the weights are computed in single "
    "precision; A_V off by %.2e mag, scale by %.2e, chi^2 by %.2e (relative), while identical float64 input "
    "is fitted to %.1e" % (w32[0], w32[1], w32[2], w64[0]))
print("no violation")
