import sys; sys.path.insert(0, 'hunt_out/scratch')
from c11lib import *
import io, contextlib
e = ext()
def quiet(f, *a, **k):
    with contextlib.redirect_stdout(io.StringIO()):
        return f(*a, **k)
d = tempfile.mkdtemp()
names = np.array(['envelope_model_with_a_long_name_%03i' % i for i in range(3)])
print(len(names[0]))
c = SEDCube(); c.names = names; c.distance = 1*u.kpc; c.wav = np.logspace(0, 2, 10)*u.micron
rng = np.random.default_rng(0)
c.val = rng.uniform(1, 2, (3, 1, 10))*u.mJy; c.unc = c.val*0.01
c.write(os.path.join(d, 'flux.fits'))
open(os.path.join(d, 'models.conf'), 'w').write("name = test\nlength_subdir = 0\naperture_dependent = no\nlogd_step = 0.02\nversion = 2\n")
os.mkdir(os.path.join(d, 'convolved'))
cf = ConvolvedFluxes(); cf.model_names = names; cf.central_wavelength = 3*u.micron; cf.flux = rng.uniform(1,2,(3,1))*u.mJy; cf.error = cf.flux*0.01
cf.write(os.path.join(d, 'convolved', 'C0.fits'))
kw = dict(extinction_law=e, av_range=[0., 10.], distance_range=[0.5, 3.] * u.kpc)
F1 = quiet(Fitter, ['C0', 5*u.micron, 20*u.micron], [3,3,3]*u.arcsec, d, **kw)
F2 = quiet(Fitter, [5*u.micron, 20*u.micron, 'C0'], [3,3,3]*u.arcsec, d, **kw)
i1 = F1.fit(make_source([1,1,1],[1,2,3.],[.1,.2,.3]))
i2 = F2.fit(make_source([1,1,1],[2,3.,1],[.2,.3,.1]))
print(list(i1.model_name), i1.chi2)
print(list(i2.model_name), i2.chi2)
