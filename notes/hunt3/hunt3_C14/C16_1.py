"""
C16, clause "writes exactly one file per SED wavelength lying inside the
requested wavelength window" (window = [wav_min, wav_max), given as quantities).

Package: 3 models, 2 apertures, SED wavelengths 0.5, 1, 2, 4 micron (stored in
micron, the default).  The window is given in Angstrom, with both ends ON
tabulated wavelengths: wav_min = 10000 Angstrom (= 1 micron), wav_max = 40000
Angstrom (= 4 micron).  All these numbers are exactly representable, so in
exact arithmetic the wavelengths inside [wav_min, wav_max) are 1 and 2 micron.

The code converts the ends to micron with a rounded factor (10000 AA ->
1.0000000000000002 micron, 40000 AA -> 4.000000000000001 micron) and then
compares with searchsorted, so that the 1 micron wavelength (equal to wav_min,
which is included) is dropped and the 4 micron wavelength (equal to wav_max,
which is excluded) is written.  The same window given in micron, nm, m or cm
gives the right files.
"""
import os
import sys
import tempfile

import numpy as np
from astropy import units as u
from astropy.table import Table

from sedfitter.sed import SED
from sedfitter.convolve import convolve_model_dir_monochromatic
from sedfitter.convolved_fluxes import ConvolvedFluxes

WAV = np.array([0.5, 1., 2., 4.])


def make_package():
    d = tempfile.mkdtemp()
    os.mkdir(os.path.join(d, 'seds'))
    names = ['model_a', 'model_b', 'model_c']
    for i, name in enumerate(names):
        s = SED()
        s.name = name
        s.distance = 1. * u.kpc
        s.wav = WAV * u.micron
        s.nu = s.wav.to(u.Hz, equivalencies=u.spectral())
        s.apertures = [100., 1000.] * u.au
        s.flux = (np.arange(8).reshape(2, 4) + 1. + 10 * i) * u.mJy
        s.error = s.flux * 0.1
        s.write(os.path.join(d, 'seds', name + '_sed.fits'))
    with open(os.path.join(d, 'models.conf'), 'w') as f:
        f.write("name = test\nlength_subdir = 0\naperture_dependent = yes\nlogd_step = 0.02\n")
    t = Table()
    t['MODEL_NAME'] = np.array(names, dtype='S30')
    t['par1'] = [1., 2., 3.]
    t.write(os.path.join(d, 'parameters.fits'))
    return d


def written_wavelengths(d):
    out = []
    for f in sorted(os.listdir(os.path.join(d, 'convolved'))):
        c = ConvolvedFluxes.read(os.path.join(d, 'convolved', f))
        out.append(float(c.central_wavelength.to(u.micron).value))
    return sorted(out)


# reference: the same window in micron
d0 = make_package()
convolve_model_dir_monochromatic(d0, wav_min=1. * u.micron, wav_max=4. * u.micron)
ref = written_wavelengths(d0)
assert ref == [1., 2.], ref

# the same window in Angstrom (10000 and 40000 are exact doubles)
d1 = make_package()
t = convolve_model_dir_monochromatic(d1, wav_min=10000. * u.AA, wav_max=40000. * u.AA)
got = written_wavelengths(d1)
named = sorted(float(r['wav']) for r in t if r['filter'] != '')

print("window [1 micron, 4 micron)          ->", ref)
print("window [10000 Angstrom, 40000 Angstrom) ->", got, " (table names:", named, ")")

assert got == [1., 2.] and named == [1., 2.], (
    "C16 violated (one file per SED wavelength inside the window): with SED "
    "wavelengths 0.5, 1, 2, 4 micron and the window [10000 Angstrom, 40000 "
    "Angstrom) = [1 micron, 4 micron), files were written for {0} micron "
    "instead of [1.0, 2.0]: the wavelength equal to wav_min (included) is "
    "missing and the one equal to wav_max (excluded) is present; the same "
    "window given in micron gives {1}".format(got, ref))
