From Coq Require Import QArith Qreals Reals Lqa Lra Lia List.
Import ListNotations.
From SedV Require Import Clamp FitCore.
Open Scope R_scope.

(* the objective for REAL competitors (av', sc'), on the same rational data *)
Fixpoint rsum {A} (f : A -> R) (l : list A) : R := match l with [] => 0 | x :: r => f x + rsum f r end.
Definition SR (rows : list row) (av sc : R) : R :=
  rsum (fun r => Q2R (w r) * ((Q2R (resid r) - av * Q2R (r_a r) - sc * Q2R (r_s r)) * (Q2R (resid r) - av * Q2R (r_a r) - sc * Q2R (r_s r)))) rows.
Definition S6R (c0 c1 c2 m11 m12 m22 a s : R) : R :=
  c0 - 2*a*c1 - 2*s*c2 + a*a*m11 + 2*a*s*m12 + s*s*m22.

Lemma Q2R_qsum {A} (f : A -> Q) l : Q2R (qsum f l) = rsum (fun x => Q2R (f x)) l.
Proof. induction l as [|x r IH]; simpl; [unfold Q2R; simpl; lra|]. rewrite Q2R_plus, IH. reflexivity. Qed.

Lemma SR_moments rows av sc :
  SR rows av sc = S6R (Q2R (c0 rows)) (Q2R (c1 rows)) (Q2R (c2 rows)) (Q2R (m11 rows)) (Q2R (m12 rows)) (Q2R (m22 rows)) av sc.
Proof.
  unfold SR, S6R, c0, c1, c2, m11, m12, m22. rewrite !Q2R_qsum.
  induction rows as [|r rs IH]; simpl; [lra|]. rewrite IH. rewrite !Q2R_mult. lra.
Qed.

(* S over Q maps to S6R at the Q2R images *)
Lemma Q2R_S rows (av sc : Q) : Q2R (S rows av sc) = SR rows (Q2R av) (Q2R sc).
Proof.
  unfold S, SR. rewrite Q2R_qsum. induction rows as [|r rs IH]; simpl; [reflexivity|]. rewrite IH.
  rewrite !Q2R_mult, !Q2R_minus, !Q2R_mult. reflexivity.
Qed.

(* real version of the decomposition around any (a', s*(a')) *)
Lemma decompR c0 c1 c2 m11 m12 m22 a s a' : 0 < m22 -> 0 < m11*m22 - m12*m12 ->
  S6R c0 c1 c2 m11 m12 m22 a s - S6R c0 c1 c2 m11 m12 m22 a' ((c2 - a'*m12)/m22)
  = m22 * ((s - (c2 - a*m12)/m22) * (s - (c2 - a*m12)/m22))
    + ((m11*m22 - m12*m12)/m22) * ((a - a') * (a + a' - 2 * ((m22*c1 - m12*c2)/(m11*m22 - m12*m12)))).
Proof. intros H22 Hd. unfold S6R. field. split; lra. Qed.


Lemma Q2R_0 : Q2R 0 = 0. Proof. unfold Q2R; simpl; lra. Qed.

Theorem C01_optimal_R lo hi rows :
  (0 < m22 rows)%Q -> (0 < det rows)%Q -> (lo <= hi)%Q ->
  let '(av, sc) := fit2_avsc lo hi rows in
  forall av' sc' : R, Q2R lo <= av' <= Q2R hi -> Q2R (S rows av sc) <= SR rows av' sc'.
Proof.
  intros H22 Hd Hlh.
  pose proof (fit2_char lo hi rows H22 Hd) as HC.
  destruct (fit2_avsc lo hi rows) as [av sc]. destruct HC as [Hcl Hsc].
  intros av' sc' Hr.
  rewrite Q2R_S, !SR_moments.
  set (C0 := Q2R (c0 rows)). set (C1 := Q2R (c1 rows)). set (C2 := Q2R (c2 rows)).
  set (M11 := Q2R (m11 rows)). set (M12 := Q2R (m12 rows)). set (M22 := Q2R (m22 rows)).
  assert (P22 : 0 < M22) by (unfold M22; rewrite <- Q2R_0; now apply Qlt_Rlt).
  assert (PD : 0 < M11 * M22 - M12 * M12).
  { unfold M11, M12, M22. rewrite <- !Q2R_mult, <- Q2R_minus. rewrite <- Q2R_0. now apply Qlt_Rlt. }
  (* images of the two characterising facts *)
  assert (Esc : Q2R sc = (C2 - Q2R av * M12) / M22).
  { apply Qeq_eqR in Hsc. rewrite Hsc. unfold sopt. unfold Qdiv. rewrite Q2R_mult, Q2R_inv by Lqa.lra. rewrite Q2R_minus, Q2R_mult. reflexivity. }
  set (astar := (M22 * C1 - M12 * C2) / (M11 * M22 - M12 * M12)).
  assert (Estar : Q2R (areg (c1 rows) (c2 rows) (m11 rows) (m12 rows) (m22 rows)) = astar).
  { unfold areg, astar. unfold Qdiv. rewrite Q2R_mult, Q2R_inv by (unfold det in Hd; Lqa.lra).
    rewrite !Q2R_minus, !Q2R_mult. reflexivity. }
  pose proof (decompR C0 C1 C2 M11 M12 M22 av' sc' (Q2R av) P22 PD) as E. fold astar in E. rewrite <- Esc in E.
  assert (T : 0 <= M22 * ((sc' - (C2 - av' * M12) / M22) * (sc' - (C2 - av' * M12) / M22))) by (apply Rmult_le_pos; [Lra.lra|apply Rle_0_sqr]).
  assert (Dp : 0 < (M11 * M22 - M12 * M12) / M22) by (apply Rdiv_lt_0_compat; Lra.lra).
  assert (U : 0 <= (av' - Q2R av) * (av' + Q2R av - 2 * astar)).
  { destruct Hcl as [[L X]|[[G X]|[[I1 I2] X]]]; apply Qeq_eqR in X; rewrite X.
    - apply Qlt_Rlt in L. rewrite Estar in L. apply Rmult_le_pos; Lra.lra.
    - apply Qlt_Rlt in G. rewrite Estar in G. replace ((av' - Q2R hi) * (av' + Q2R hi - 2 * astar)) with ((Q2R hi - av') * (2 * astar - av' - Q2R hi)) by ring.
      apply Rmult_le_pos; Lra.lra.
    - rewrite Estar. replace ((av' - astar) * (av' + astar - 2 * astar)) with ((av' - astar) * (av' - astar)) by ring.
      pose proof (Rle_0_sqr (av' - astar)) as Sq. unfold Rsqr in Sq. exact Sq. }
  assert (V : 0 <= (M11 * M22 - M12 * M12) / M22 * ((av' - Q2R av) * (av' + Q2R av - 2 * astar))) by (apply Rmult_le_pos; Lra.lra).
  Lra.lra.
Qed.
Print Assumptions C01_optimal_R.
