"""
C20, clause "Formatting a source and parsing it back preserves name, flags and
every value to the printed precision".

A flag vector held as an integer-valued floating-point array is a legal value
of Source.valid: the setter checks `value.astype(int) != value` precisely to
admit it, and the package's own test-suite (test_source_valid) sets
np.array([1., 2., 3.]).  This is what one gets e.g. from np.loadtxt / a table
row.  Dictionary and pickle round trips of such a source work, but
Source.to_ascii() raises

    ValueError: Unknown format code 'd' for object of type 'float'

("{0:1d}".format(np.float64(1.0))), so the source cannot be formatted at all,
let alone parsed back.
"""
import pickle
import sys
import numpy as np
from sedfitter.source import Source

flags = np.array([1., 0., 2., 3., 4., 9.])        # all in {0,1,2,3,4,9}
s = Source()
s.name = 'src_1'
s.x = 10.5
s.y = -3.25
s.valid = flags                                    # accepted by the setter
s.flux = np.array([1.5, -999., 2.e-20, 3.e20, -0.3, 7.])
s.error = np.array([0.1, -999., 1.e-21, 1.e19, 0.1, 1.])

# the other round trips of the statement are fine for this source
d = Source.from_dict(s.to_dict())
p = pickle.loads(pickle.dumps(s))
assert np.array_equal(d.valid, flags) and np.array_equal(p.valid, flags)

# the same source with the flags held as integers formats and parses back
t = Source.from_dict(dict(s.to_dict(), valid=flags.astype(int)))
back = Source.from_ascii(t.to_ascii())
assert np.array_equal(back.valid, flags) and back.name == 'src_1'

try:
    line = s.to_ascii()
except Exception as exc:
    print("C20 VIOLATED: Source.to_ascii() raised %s: %s" % (type(exc).__name__, exc))
    print("  input: Source with valid = %r (accepted by the valid setter, "
          "all flags in {0,1,2,3,4,9}), n = 6" % (flags,))
    print("  expected: a line with 3*(n+1) columns that from_ascii parses back "
          "to the same name, flags and values")
    sys.exit(1)

back = Source.from_ascii(line)
assert np.array_equal(back.valid, flags), "flags not preserved: %r" % (back.valid,)
print("no violation")
