"""C09 — write_parameters / write_parameter_ranges / extract_parameters / FitInfo.filter_table against
TableProofs.prep_table_m + FTable.filter_table_m + ranges_m and the by-name lookup clauses."""
import math
import os
import tempfile

from common import Rng, F
import fitutil

PROP = 'C09'
MODEL_OPS = 'Keep.nkeep, TableProofs.prep_table_m, FTable.filter_table_m, TableProofs.ranges_m'
RULE = ('parameter files with 2-8 rows in a random row order (names of equal or different length), 1-4 numeric columns incl. NaN cells, optional additional-parameter '
        'dictionaries; 1-3 sources with 1..all models ranked, any selector (0..all kept); results passed as file / single object / list; the three writers and '
        'FitInfo.filter_table, plus plot_params_1d / plot_params_2d observed through the SEDFITTER_VERIF hook (the table handed to the plot); text outputs parsed back and compared by (source, fit rank) to the printed precision. non-trivial = >=2 fits kept and the parameter '
        'file is not in name order.')
EXHAUSTIVE = {'quick': False, 'thorough': False}
ASSUMPTIONS = ['model names are distinct; printed values are compared to the 4 significant digits the writers print',
               'selector thresholds never equal an attained value']

FLAGSETS = {1: [1, 0, 9, 2], 2: [1, 4, 0, 3, 9], 3: [4, 9, 1, 0, 1], 5: [1, 1, 4, 4, 1, 2, 3, 0, 9]}


def generate(tier, seed):
    rng = Rng(seed * 2750159 + 9)
    cases = []
    for k in range(150 if tier == 'quick' else 2000):
        nm = rng.randint(2, 8)
        names = []
        while len(names) < nm:
            n = rng.choice(['m', 'model_', 'Zz', 'a']) + ''.join(rng.choice('0123456789abcXY_') for _ in range(rng.randint(1, 8)))
            if n not in names:
                names.append(n)
        ncol = rng.randint(1, 4)
        cols = {}
        for c in range(ncol):
            cols['par%d' % (c + 1)] = [rng.choice([rng.logdyadic(1e-3, 1e5, 12), -rng.dyadic(0, 10, 8), math.nan if rng.random() < 0.3 else 1.5]) for _ in range(nm)]
        additional = None
        if rng.random() < 0.4:
            additional = {'extra%d' % i: {n: rng.dyadic(-5, 5, 10) for n in names} for i in range(rng.randint(1, 2))}
        writer = rng.choice(['params', 'ranges', 'extract', 'filter_table', 'plot1d', 'plot2d'])
        if writer.startswith('plot'):      # the histograms need finite values
            for c in cols:
                cols[c] = [v if not math.isnan(v) else 2.5 for v in cols[c]]
        form = rng.choice(['file', 'object', 'list'])
        nsrc = 1 if form == 'object' else rng.randint(1, 3)
        sources = []
        for s in range(nsrc):
            nfit = rng.randint(1, nm)
            chosen = rng.sample(names, nfit)
            chi = sorted(rng.dyadic(0, 30, 8) for _ in range(nfit))
            nd = rng.choice(list(FLAGSETS))
            sources.append(dict(name='src%d' % s, nd=nd, fits=[dict(name=n, chi2=c, av=rng.dyadic(0, 20, 8), sc=rng.dyadic(-2, 2, 8)) for n, c in zip(chosen, chi)]))
        selform = rng.choice('ANNCDEF')
        sel = [selform, float(rng.randint(0, nm + 1)) if selform == 'N' else rng.dyadic(0, 30, 8) + 2.0 ** -12]
        cases.append(dict(writer=writer, form=form, sel=sel, table=dict(names=names, cols=cols), additional=additional if writer in ('params', 'ranges', 'filter_table', 'plot1d', 'plot2d') else None,
                          copied=rng.choice([None, None, 'deep', 'shallow']),
                          plot_add=bool(additional) and writer.startswith('plot') and rng.random() < 0.6,      # the plotted quantity is one of the additional parameters
                          sources=sources))
    return cases


def _infos(case, model_dir):
    meta = fitutil.make_meta()
    meta.model_dir = model_dir
    out = []
    for s in case['sources']:
        f = s['fits']
        out.append(fitutil.make_info(s['name'], FLAGSETS[s['nd']], [x['chi2'] for x in f], names=[x['name'] for x in f], meta=meta,
                                     av=[x['av'] for x in f], sc=[x['sc'] for x in f], fluxes=False))
    return out


def _num(t):
    if t == '-':
        return None
    return float(t)


def impl(case):
    import numpy as np
    from astropy.table import Table
    from sedfitter.fit_info import FitInfoFile
    from sedfitter import write_parameters, write_parameter_ranges, extract_parameters
    with tempfile.TemporaryDirectory() as d:
        t = Table()
        t['MODEL_NAME'] = np.array(case['table']['names'], dtype='S30')
        for c, v in case['table']['cols'].items():
            t[c] = np.array(v, dtype=float)
        t.write(os.path.join(d, 'parameters.fits'))
        infos = _infos(case, d)
        if case['form'] == 'file':
            arg = os.path.join(d, 'fits.fitinfo')
            f = FitInfoFile(arg, 'w')
            for i in infos:
                f.write(i)
            f.close()
        elif case['form'] == 'object':
            arg = infos[0]
        else:
            arg = infos
        if case.get('copied') and case['form'] != 'file':
            # the results reach the post-processing function as copies (copy.copy / copy.deepcopy of a result is a result)
            import copy
            cp = copy.deepcopy if case['copied'] == 'deep' else copy.copy
            arg = cp(arg) if case['form'] == 'object' else [cp(i) for i in arg]
        sel = (case['sel'][0], case['sel'][1])
        add = case['additional'] or {}
        out = dict(sources=[])
        if case['writer'] == 'params':
            p = os.path.join(d, 'out.txt')
            write_parameters(arg, p, select_format=sel, additional=add)
            lines = open(p).read().split('\n')
            out['header'] = lines[1].split()
            body = [l.split() for l in lines[3:] if l.strip()]
            i = 0
            while i < len(body):
                name, nd, nf = body[i][0], int(body[i][1]), int(body[i][2])
                rows = body[i + 1:i + 1 + nf]
                out['sources'].append(dict(name=name, n_data=nd, n_fits=nf, rows=[dict(fit_id=int(r[0]), model=r[1], vals=[_num(x) for x in r[2:]]) for r in rows]))
                i += 1 + nf
        elif case['writer'] == 'ranges':
            p = os.path.join(d, 'out.txt')
            write_parameter_ranges(arg, p, select_format=sel, additional=add)
            lines = open(p).read().split('\n')
            out['header'] = lines[0].split()
            for l in lines[3:]:
                r = l.split()
                if r:
                    out['sources'].append(dict(name=r[0], n_data=int(r[1]), n_fits=int(r[2]), vals=[_num(x) for x in r[3:]]))
        elif case['writer'] == 'extract':
            extract_parameters(input=arg, output_prefix=os.path.join(d, 'ex_'), output_suffix='.txt', select_format=sel)
            for s in case['sources']:
                lines = [l.split() for l in open(os.path.join(d, 'ex_' + s['name'] + '.txt')).read().split('\n') if l.strip()]
                out['header'] = lines[0]
                out['sources'].append(dict(name=s['name'], n_fits=len(lines) - 1, rows=[dict(vals=r) for r in lines[1:]]))
        elif case['writer'] in ('plot1d', 'plot2d'):
            import matplotlib
            matplotlib.use('Agg')
            os.environ['SEDFITTER_VERIF'] = '1'          # observation hook (MANIFEST.hooks): the table handed to the plot is recorded
            from sedfitter.utils import verif_hook
            from sedfitter import plot_params_1d, plot_params_2d
            del verif_hook.RECORDS[:]
            pars = list(case['table']['cols'])
            if case['writer'] == 'plot1d':
                plot_params_1d(arg, list(add)[0] if case.get('plot_add') else pars[0], output_dir=os.path.join(d, 'plots'), select_format=sel, additional=add, bins=5)
            elif case.get('plot_add'):
                plot_params_2d(arg, pars[0], list(add)[0], output_dir=os.path.join(d, 'plots'), select_format=sel, log_y=False, additional=add)
            else:
                # the y axis is logarithmic by default; a parameter without any positive value has no such axis (the call is refused), so ask for a linear one then
                plot_params_2d(arg, pars[0], pars[-1], output_dir=os.path.join(d, 'plots'), select_format=sel, log_y=any(v > 0 for v in case['table']['cols'][pars[-1]]),
                               **(dict(additional=add) if add else {}))
            recs = list(verif_hook.RECORDS)
            del verif_hook.RECORDS[:]
            os.environ.pop('SEDFITTER_VERIF', None)
            for where, r in recs:
                ts = r['table']
                cols = [c for c in ts.columns if c != 'MODEL_NAME']
                out['header'] = cols
                out['sources'].append(dict(name=r['source'], n_fits=len(ts),
                                           rows=[dict(model=str(ts['MODEL_NAME'][i]).strip(), vals=[float(ts[c][i]) for c in cols]) for i in range(len(ts))]))
        else:
            tt = Table.read(os.path.join(d, 'parameters.fits'), character_as_bytes=False)
            tt['MODEL_NAME'] = np.char.strip(tt['MODEL_NAME'])
            tt.sort('MODEL_NAME')
            for info in infos:
                info.keep(sel)
                ts = info.filter_table(tt, additional=add)
                cols = [c for c in ts.columns if c != 'MODEL_NAME']
                out['header'] = cols
                out['sources'].append(dict(name=info.source.name, n_fits=int(info.n_fits),
                                           rows=[dict(model=str(ts['MODEL_NAME'][i]).strip(), vals=[float(ts[c][i]) for c in cols]) for i in range(len(ts))]))
    return out


def _keep_count(sel, nd, chi):
    form, v = sel
    if form == 'A':
        return len(chi)
    if form == 'N':
        return min(int(v), len(chi))
    c0 = chi[0]
    f = {'C': lambda x: x <= v, 'D': lambda x: x - c0 <= v, 'E': lambda x: x / nd <= v, 'F': lambda x: (x - c0) / nd <= v}[form]
    return sum(1 for x in chi if f(x))


def _key(name):
    return int.from_bytes(name.encode().ljust(16, b'\0'), 'big')


def model_requests(case):
    reqs = []
    table = [[_key(n), i] for i, n in enumerate(case['table']['names'])]
    sel = case['sel']
    msel = ['A'] if sel[0] == 'A' else (['N', int(sel[1])] if sel[0] == 'N' else [sel[0], F(sel[1])])
    for s in case['sources']:
        chi = [x['chi2'] for x in s['fits']]
        k = _keep_count(sel, s['nd'], chi)
        reqs.append(('nkeep', [msel, s['nd'], [F(c) for c in chi]]))
        reqs.append(('filter_table', [table, [_key(x['name']) for x in s['fits'][:k]]]))
        reqs.append(('ranges', [[F(c) for c in chi[:k]]]))
    # additional parameters: one column per dictionary, attached to the selected fits by name (Additional.attach_col)
    for s in case['sources']:
        chi = [x['chi2'] for x in s['fits']]
        k = _keep_count(sel, s['nd'], chi)
        for a in (case['additional'] or {}):
            reqs.append(('attach', [[[_key(n), F(v)] for n, v in case['additional'][a].items()], [_key(x['name']) for x in s['fits'][:k]]]))
    return reqs


def _near(a, b):
    """printed value a against exact value b (4 significant digits; NaN-aware)"""
    if a is None or b is None:
        return a is None and b is None
    if math.isnan(a) or math.isnan(b):
        return math.isnan(a) and math.isnan(b)
    return abs(a - b) <= 6e-4 * abs(b) + 1e-12 or abs(a - b) <= 6e-4   # %10.3f columns (chi2, av, scale) print 3 decimals


def _nanmin(v):
    w = [x for x in v if not math.isnan(x)]
    return min(w) if w else math.nan


def _nanmax(v):
    w = [x for x in v if not math.isnan(x)]
    return max(w) if w else math.nan


def judge(case, im, mo):
    tags = ['writer=' + case['writer'], 'form=' + case['form'], 'sel=' + case['sel'][0], 'add=%s' % bool(case['additional'])]
    if 'exc' in im:
        return dict(disagree=['implementation raised ' + im['msg']], fail=['raised: %s raised %s' % (case['writer'], im['msg'])], nontrivial=False,
                    tags=tags + ['raised'])
    if any(isinstance(m, tuple) for m in mo):
        return dict(disagree=['driver %r' % ([m for m in mo if isinstance(m, tuple)][:1],)], fail=[], nontrivial=False)
    disagree, fail = [], []
    tnames, cols = case['table']['names'], case['table']['cols']
    colnames = list(cols)
    addnames = list(case['additional']) if case['additional'] else []
    nontrivial = False
    if len(im['sources']) != len(case['sources']):
        fail.append('sources: %d sources listed, %d given' % (len(im['sources']), len(case['sources'])))
        return dict(disagree=disagree, fail=fail, nontrivial=False, tags=tags)
    for si, (s, o) in enumerate(zip(case['sources'], im['sources'])):
        chi = [x['chi2'] for x in s['fits']]
        k = _keep_count(case['sel'], s['nd'], chi)
        mk, mtab, mrng = mo[3 * si:3 * si + 3]
        if min(mk, len(chi)) != k:
            disagree.append('model nkeep %d vs oracle %d' % (mk, k))
        kept = s['fits'][:k]
        # model: filter_table rows must be the by-name rows
        if mtab == []:
            disagree.append('model filter_table refuses (Err_sort)')
        else:
            ids = [r[1] for r in mtab[0]]
            if ids != [tnames.index(x['name']) for x in kept]:
                disagree.append('model filter_table rows %r are not the by-name rows' % ids)
        if k >= 2 and tnames != sorted(tnames):
            nontrivial = True
        want_rows = [[cols[c][tnames.index(x['name'])] for c in colnames] + [case['additional'][a][x['name']] for a in addnames] for x in kept]
        for ai, a in enumerate(addnames):       # the model's column for this dictionary against the by-name oracle
            mcol = mo[3 * len(case['sources']) + si * len(addnames) + ai]
            if isinstance(mcol, tuple) or mcol == [] or [float(v) for v in mcol[0]] != [case['additional'][a][x['name']] for x in kept]:
                disagree.append('model attach_col for %s: %r, by-name values %r' % (a, mcol, [case['additional'][a][x['name']] for x in kept]))
        if o['name'] != s['name']:
            fail.append('sources: source %d is listed as %s' % (si, o['name']))
            continue
        if o['n_fits'] != k:
            fail.append('counts: n_fits of %s is %d, %d fits are selected' % (s['name'], o['n_fits'], k))
            continue
        if 'n_data' in o and o['n_data'] != s['nd']:
            fail.append('counts: n_data of %s is %d, the source has %d fitted points' % (s['name'], o['n_data'], s['nd']))
        if case['writer'] in ('params', 'filter_table', 'extract', 'plot1d', 'plot2d'):
            for i, (r, x, w) in enumerate(zip(o['rows'], kept, want_rows)):
                if case['writer'] == 'params':
                    if r['fit_id'] != i + 1 or r['model'] != x['name']:
                        fail.append('rows: row %d of %s is fit %d / model %s, expected fit %d / %s' % (i, s['name'], r['fit_id'], r['model'], i + 1, x['name']))
                        break
                    got, want = r['vals'], [x['chi2'], x['av'], x['sc']] + w
                elif case['writer'] in ('filter_table', 'plot1d', 'plot2d'):
                    if r['model'] != x['name']:
                        fail.append('rows: row %d of the filtered table is %s, fit %d is %s' % (i, r['model'], i + 1, x['name']))
                        break
                    got, want = r['vals'], w
                else:
                    hdr = im['header']
                    vals = r['vals']
                    mi = hdr.index('MODEL_NAME') if 'MODEL_NAME' in hdr else None
                    if mi is not None and vals[mi].strip() != x['name'][:11].strip() and vals[mi].strip() != x['name']:
                        fail.append('rows: extract row %d of %s names %s, fit %d is %s' % (i, s['name'], vals[mi], i + 1, x['name']))
                        break
                    got = [float(v) for j, v in enumerate(vals) if j != mi]
                    want = [x['chi2'], x['av'], x['sc']] + [cols[c][tnames.index(x['name'])] for c in colnames]
                if len(got) != len(want) or not all(_near(a, b) for a, b in zip(got, want)):
                    fail.append('values: fit %d of %s (%s): printed %r, parameters of that model are %r' % (i + 1, s['name'], x['name'], got, want))
                    break
        else:   # ranges
            series = [[x['chi2'] for x in kept], [x['av'] for x in kept], [x['sc'] for x in kept]] + [list(col) for col in zip(*want_rows)] if kept else []
            want = []
            for v in series:
                want += [_nanmin(v), v[0], _nanmax(v)]
            if not kept:
                if any(v is not None for v in o['vals']):
                    fail.append('ranges: no fit selected for %s but values printed' % s['name'])
            elif len(o['vals']) != len(want) or not all(_near(a, b) for a, b in zip(o['vals'], want)):
                fail.append('ranges: %s: printed %r, (min, best, max) over the selected fits are %r' % (s['name'], o['vals'], want))
            if kept and mrng != []:
                lo, best, hi = mrng[0]
                if not (_near(float(lo), min(chi[:k])) and _near(float(best), chi[0]) and _near(float(hi), max(chi[:k]))):
                    disagree.append('model ranges of chi2 differ from the oracle')
    return dict(disagree=disagree[:4], fail=fail[:4], nontrivial=nontrivial, tags=tags)


def signature(case, im, mo, v):
    return None
