From Coq Require Import QArith Qminmax Lqa Lia List Bool.
Import ListNotations.
Open Scope Q_scope.

Fixpoint qsumn (f : nat -> Q) (n : nat) : Q := match n with O => 0 | S k => qsumn f k + f k end.

(* generic telescoping: consecutive bins share an edge *)
Lemma telescope (F : Q -> Q) (lo hi : nat -> Q) n :
  (forall i, (S i < n)%nat -> hi i = lo (S i)) -> (0 < n)%nat ->
  qsumn (fun i => F (hi i) - F (lo i)) n == F (hi (n - 1)%nat) - F (lo 0%nat).
Proof.
  induction n as [|n IH]; intros H Hn; [lia|].
  destruct n as [|n].
  - simpl. ring.
  - cbn [qsumn] in *. rewrite IH by (try lia; intros i Hi; apply H; lia).
    replace (S (S n) - 1)%nat with (S n) by lia. replace (S n - 1)%nat with n by lia.
    rewrite (H n) by lia. ring.
Qed.

(* Filter.rebin's bin edges, statement by statement *)
Section Rebin.
Variable nu : list Q.          (* the new frequency grid *)
Variable fmin fmax : Q.        (* ends of the filter's range *)
Definition n := length nu.
Definition nuat (i : nat) := nth i nu 0.
Definition clip (x : Q) : Q := Qmin (Qmax x fmin) fmax.      (* min(max(x, f0), f1) *)
Definition nu1 (i : nat) : Q := clip (if Nat.eqb i 0 then nuat 0 else (1#2) * (nuat (i - 1) + nuat i)).
Definition nu2 (i : nat) : Q := clip (if Nat.eqb i (n - 1) then nuat (n - 1) else (1#2) * (nuat i + nuat (i + 1))).

Lemma shared_edge i : (S i < n)%nat -> nu2 i = nu1 (S i).
Proof.
  intros H. unfold nu2, nu1.
  assert (E1 : Nat.eqb i (n - 1) = false) by (apply Nat.eqb_neq; lia).
  assert (E2 : Nat.eqb (S i) 0 = false) by reflexivity.
  rewrite E1, E2. replace (S i - 1)%nat with i by lia. replace (i + 1)%nat with (S i) by lia. reflexivity.
Qed.

(* with R_i the exact integral of the response over [nu1 i, nu2 i] = G (nu2 i) - G (nu1 i), the binned
   responses add up to the integral over the overlap of the SED range and the filter range *)
Theorem C06_conservation (G : Q -> Q) : (0 < n)%nat ->
  qsumn (fun i => G (nu2 i) - G (nu1 i)) n == G (clip (nuat (n - 1))) - G (clip (nuat 0)).
Proof.
  intros Hn. rewrite (telescope G nu1 nu2 n shared_edge Hn).
  unfold nu2 at 1, nu1 at 1. rewrite Nat.eqb_refl. simpl. reflexivity.
Qed.
End Rebin.
Print Assumptions C06_conservation.
