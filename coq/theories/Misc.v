From Coq Require Import QArith Lqa Lia List Bool Permutation.
Import ListNotations.
Open Scope Q_scope.

(* ---------- C15: flux unit conversions ---------- *)
Inductive family := Fnu | Fint | Lum.           (* Jy-like, erg/cm2/s-like, erg/s-like *)
(* a unit = family + scale factor relative to the family's base unit *)
Definition to_base (fam : family) (k nu d x : Q) : Q :=   (* to erg/cm^2/s *)
  match fam with Fnu => x * k * nu | Fint => x * k | Lum => x * k / (d * d) end.
Definition from_base (fam : family) (k nu d y : Q) : Q :=
  match fam with Fnu => y / nu / k | Fint => y / k | Lum => y * (d * d) / k end.
Definition convert (fa : family) (ka : Q) (fb : family) (kb : Q) (nu d x : Q) : Q :=
  from_base fb kb nu d (to_base fa ka nu d x).

Theorem C15_roundtrip fa ka fb kb nu d x : ~ ka == 0 -> ~ kb == 0 -> ~ nu == 0 -> ~ d == 0 ->
  convert fb kb fa ka nu d (convert fa ka fb kb nu d x) == x.
Proof. intros; destruct fa, fb; unfold convert, to_base, from_base; field; auto. Qed.
Theorem C15_compose fa ka fb kb fc kc nu d x : ~ ka == 0 -> ~ kb == 0 -> ~ kc == 0 -> ~ nu == 0 -> ~ d == 0 ->
  convert fb kb fc kc nu d (convert fa ka fb kb nu d x) == convert fa ka fc kc nu d x.
Proof. intros; destruct fa, fb, fc; unfold convert, to_base, from_base; field; auto. Qed.
Theorem C15_relations nu d x : ~ nu == 0 -> ~ d == 0 ->
  convert Fnu 1 Fint 1 nu d x == nu * x /\ convert Fint 1 Lum 1 nu d x == x * (d * d).
Proof. intros; unfold convert, to_base, from_base; split; field; auto. Qed.

(* ---------- C18: filter_output as a single pass ---------- *)
Section Split.
Variable A : Type. Variable good : A -> bool.
(* code-shaped: one pass, each record appended to exactly one of two writers *)
Fixpoint pass (recs : list A) (g b : list A) : list A * list A :=
  match recs with [] => (g, b) | r :: rs => if good r then pass rs (g ++ [r]) b else pass rs g (b ++ [r]) end.
Lemma pass_spec recs : forall g b, pass recs g b = (g ++ filter good recs, b ++ filter (fun r => negb (good r)) recs).
Proof. induction recs as [|r rs IH]; intros g b; simpl; [now rewrite !app_nil_r|].
  destruct (good r); simpl; rewrite IH, <- app_assoc; reflexivity. Qed.
Theorem C18_partition recs : let '(g, b) := pass recs [] [] in
  g = filter good recs /\ b = filter (fun r => negb (good r)) recs /\ Permutation (g ++ b) recs.
Proof. rewrite pass_spec. simpl. repeat split.
  induction recs as [|r rs IH]; simpl; [constructor|]. destruct (good r); simpl.
  - now constructor.
  - apply Permutation_sym, Permutation_cons_app, Permutation_sym, IH. Qed.
End Split.

Print Assumptions C15_compose.
Print Assumptions C18_partition.
