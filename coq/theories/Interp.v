From Coq Require Import QArith Lqa Lia List Bool.
Import ListNotations.
Open Scope Q_scope.
From SedV Require Import PLin.

(* value at a knot *)
Lemma lin_at_left p0 p1 : ~ fst p1 - fst p0 == 0 -> lin p0 p1 (fst p0) == snd p0.
Proof. intros H. unfold lin. field. exact H. Qed.
Lemma lin_at_right p0 p1 : ~ fst p1 - fst p0 == 0 -> lin p0 p1 (fst p1) == snd p1.
Proof. intros H. unfold lin. field. exact H. Qed.

Lemma le_bool a b : Qle_bool a b = true <-> a <= b.
Proof. apply Qle_bool_iff. Qed.

(* fval is exact at every knot of an increasing table *)
Theorem fval_knot l : incr l -> forall p, In p l -> fval l (fst p) == snd p.
Proof.
  induction l as [|p0 r IH]; intros Hi p Hin; [destruct Hin|].
  destruct r as [|p1 r'].
  - destruct Hin as [<-|[]]. reflexivity.
  - destruct Hi as [H01 Hi]. cbn [fval].
    destruct Hin as [<-|Hin].
    + assert (E : Qle_bool (fst p0) (fst p1) = true) by (apply le_bool; lra). rewrite E.
      apply lin_at_left. lra.
    + destruct (Qle_bool (fst p) (fst p1)) eqn:E.
      * apply le_bool in E.
        (* p is in p1 :: r' and fst p <= fst p1, so p has abscissa fst p1 *)
        destruct Hin as [<-|Hin']; [apply lin_at_right; lra|].
        pose proof (incr_forall p1 r' Hi) as F. rewrite Forall_forall in F. specialize (F p Hin'). lra.
      * apply IH; assumption.
Qed.

(* between two neighbouring knots it is the linear interpolant *)
Theorem fval_between pre p0 p1 post t : incr (pre ++ p0 :: p1 :: post) -> fst p0 < t -> t <= fst p1 ->
  fval (pre ++ p0 :: p1 :: post) t = lin p0 p1 t.
Proof.
  induction pre as [|q pre IH]; intros Hi H0 H1.
  - cbn [app fval]. assert (E : Qle_bool t (fst p1) = true) by (now apply le_bool). now rewrite E.
  - destruct pre as [|q' pre'].
    + cbn [app] in *. destruct Hi as [Hq Hi]. cbn [fval].
      assert (E : Qle_bool t (fst p0) = false) by (apply nle_bool; lra). rewrite E.
      apply (IH Hi H0 H1).
    + cbn [app] in *. destruct Hi as [Hq Hi].
      assert (Hq' : fst q' < t).
      { pose proof (incr_forall q' (pre' ++ p0 :: p1 :: post) Hi) as F. rewrite Forall_forall in F.
        assert (X : In p0 (pre' ++ p0 :: p1 :: post)) by (apply in_or_app; right; now left).
        specialize (F p0 X). lra. }
      change (fval (q :: q' :: pre' ++ p0 :: p1 :: post) t)
        with (if Qle_bool t (fst q') then lin q q' t else fval (q' :: pre' ++ p0 :: p1 :: post) t).
      assert (E : Qle_bool t (fst q') = false) by (apply nle_bool; lra). rewrite E.
      apply (IH Hi H0 H1).
Qed.

(* re-scaling the abscissae (unit change) does not change interpolated values *)
Definition scalex (k : Q) (l : list pt) : list pt := map (fun p => (k * fst p, snd p)) l.
Lemma lin_scale k p0 p1 t : 0 < k -> ~ fst p1 - fst p0 == 0 ->
  lin (k * fst p0, snd p0) (k * fst p1, snd p1) (k * t) == lin p0 p1 t.
Proof. intros Hk H. unfold lin; simpl.
  assert (H' : ~ k * fst p1 - k * fst p0 == 0).
  { intro X. apply H. assert (k * (fst p1 - fst p0) == 0) by lra. nra. }
  assert (Hk' : ~ k == 0) by lra.
  field. repeat split; auto. Qed.

Theorem fval_scale k l t : 0 < k -> incr l -> fval (scalex k l) (k * t) == fval l t.
Proof.
  intros Hk. induction l as [|p0 r IH]; intros Hi; [reflexivity|].
  destruct r as [|p1 r']; [reflexivity|].
  destruct Hi as [H01 Hi]. cbn [scalex map fval fst snd].
  assert (E : Qle_bool (k * t) (k * fst p1) = Qle_bool t (fst p1)).
  { destruct (Qle_bool t (fst p1)) eqn:E1.
    - apply le_bool in E1. apply le_bool. nra.
    - apply nle_bool in E1. apply nle_bool. nra. }
  rewrite E. destruct (Qle_bool t (fst p1)).
  - apply lin_scale; [exact Hk|lra].
  - apply (IH Hi).
Qed.

(* extinction: normalisation at V and scale invariance, for any interpolated values *)
Definition get_av (chi_l chi_v : Q) : Q := -(4#10) * chi_l / chi_v.
Lemma C14_at_V v : ~ v == 0 -> get_av v v == -(4#10).
Proof. intros H. unfold get_av. field. exact H. Qed.
Lemma C14_scale c l v : ~ c == 0 -> ~ v == 0 -> get_av (c * l) (c * v) == get_av l v.
Proof. intros Hc Hv. unfold get_av. field. split; assumption. Qed.
Print Assumptions fval_knot.
Print Assumptions fval_between.
Print Assumptions fval_scale.
