"""C03 (borderline - see report.json): a limit whose flux is 0 (or +inf) poisons the fit.

Clause attacked: "A lower (2) or upper (3) limit never enters the least-squares
solution ... so confidence 0 is equivalent to flag 0".

A lower limit of 0 mJy ("the flux is >= 0") can never be violated, and with
confidence 0 the limit is switched off altogether.  Yet Source.get_log_fluxes
turns the limit flux into log10(0) = -inf, and Models.fit multiplies that by the
zero weight of the limit: -inf * 0 = NaN enters the sums of the linear
regression, so A_V, scale and chi^2 of EVERY model become NaN.  The same source
with that band flagged 0 is fitted normally.  (Only flags 0 and 9 are protected
against non-finite logarithms in Models.fit.)
"""
import os
import sys
import tempfile

import numpy as np
from astropy import units as u

from sedfitter.convolved_fluxes import ConvolvedFluxes
from sedfitter.extinction import Extinction
from sedfitter.fit import Fitter
from sedfitter.source import Source

d = tempfile.mkdtemp()
os.makedirs(os.path.join(d, 'convolved'))
rng = np.random.RandomState(1)
names = np.array(['m%03d' % i for i in range(6)])
wav = [0.5, 1.2, 3.6, 8.0]
for k in range(4):
    c = ConvolvedFluxes()
    c.central_wavelength = wav[k] * u.micron
    c.model_names = names
    c.apertures = None
    c.flux = rng.uniform(0.5, 50, (6, 1)) * u.mJy
    c.error = c.flux * 0.01
    c.write(os.path.join(d, 'convolved', 'f%d.fits' % k))
with open(os.path.join(d, 'models.conf'), 'w') as f:
    f.write("name = test\nlength_subdir = 0\naperture_dependent = no\nlogd_step = 0.05\n")

e = Extinction()
e.wav = np.logspace(-2., 3., 60) * u.micron
e.chi = e.wav.value ** -1.5 * u.cm ** 2 / u.g

fitter = Fitter(['f0', 'f1', 'f2', 'f3'], [3., 3., 3., 3.] * u.arcsec, d,
                extinction_law=e, av_range=[0., 10.],
                distance_range=[0.5, 3.] * u.kpc)


def run(valid, flux, error):
    s = Source()
    s.name = 's'
    s.x = 0.
    s.y = 0.
    s.valid = valid
    s.flux = flux
    s.error = error
    info = fitter.fit(s)
    o = np.argsort(info.model_id)
    return info.av[o], info.sc[o], info.chi2[o]


flux = [3.0, 5.0, 7.0, 0.0]   # 4th band: lower limit "flux >= 0 mJy"
ref = run([1, 1, 1, 0], flux, [0.3, 0.5, 0.7, 0.0])    # band not used
for conf in (0.0, 0.5, 1.0):
    got = run([1, 1, 1, 2], flux, [0.3, 0.5, 0.7, conf])
    for name, a, b in zip(('av', 'sc', 'chi2'), ref, got):
        assert np.array_equal(a, b), (
            "C03 violated: lower limit of 0 mJy with confidence %g (never violated, so "
            "it must add nothing and must not enter the least-squares solution; for "
            "confidence 0 it must be equivalent to flag 0) changes %s of the fit:\n"
            "  with flag 0 : %s\n  with flag 2 : %s" % (conf, name, a, b))
print("no violation")
