(* C02 — distance-dependent fits pick the grid optimum of correctly scaled model fluxes.
   Model: Grid.ndist / gridlog_m, FitModel.scaled_flux_m / interp_clamp_m / fit3_one / fit3_pkg, Fit3.av_at_distance.
   Proofs: Grid, Fit3, Fit3Proofs, Interp. *)
From Coq Require Import QArith List ZArith.
Import ListNotations.
From SedV Require Import Clamp FitCore Flags Fit3 PLin Interp Xnum FilterOut Grid FitModel Fit3Proofs.
From SedV Require RadiusM ResolvedM GridGuard.
Open Scope Q_scope.

(* the number of trial distances n = ceil(1 + L/step): at least both ends, spacing not above the step,
   and one point fewer would be too coarse (fewest points) *)
Theorem C02_grid : forall L step, 0 < L -> 0 < step ->
  let n := ndist L step in
  (2 <= n)%Z /\ L / (inject_Z n - 1) <= step /\ ((2 < n)%Z -> step < L / (inject_Z n - 2)).
Proof. exact Grid.C02_grid. Qed.

(* the grid is uniform in log distance and contains both ends of the requested range *)
Theorem C02_grid_ends : forall lo hi n, (2 <= n)%nat ->
  nth 0 (gridlog_m lo hi n) 0 == lo /\ nth (n - 1) (gridlog_m lo hi n) 0 == hi /\
  forall i, (Datatypes.S i < n)%nat -> nth (Datatypes.S i) (gridlog_m lo hi n) 0 - nth i (gridlog_m lo hi n) 0 == (hi - lo) / (inject_Z (Z.of_nat n) - 1).
Proof. exact Grid.C02_grid_ends. Qed.

(* the model flux at distance d: the tabulated flux interpolated to theta*d (AU), times (1 kpc/d)^2;
   beyond the largest aperture the largest is used, below the smallest the request is refused *)
Theorem C02_flux : forall tab theta d f, interp_clamp_m tab (theta * (d * 1000)) = Some f ->
  scaled_flux_m tab theta d = Some (f * ((1 / d) * (1 / d))).
Proof. exact scaled_flux_spec. Qed.

Theorem C02_flux_inside : forall tab r, (2 <= length tab)%nat -> tab_lo tab <= r -> r <= tab_hi tab ->
  interp_clamp_m tab r = Some (fval tab r).
Proof. exact interp_clamp_inside. Qed.

Theorem C02_flux_knot : forall l, incr l -> forall p, In p l -> fval l (fst p) == snd p.
Proof. exact fval_knot. Qed.

Theorem C02_flux_between : forall pre p0 p1 post t, incr (pre ++ p0 :: p1 :: post) -> fst p0 < t -> t <= fst p1 ->
  fval (pre ++ p0 :: p1 :: post) t = lin p0 p1 t.
Proof. exact fval_between. Qed.

Theorem C02_flux_above : forall tab r, (2 <= length tab)%nat -> tab_lo tab <= r -> tab_hi tab < r ->
  interp_clamp_m tab r = Some (snd (last tab (0, 0))).
Proof. exact interp_clamp_above. Qed.

Theorem C02_flux_below : forall tab r, (2 <= length tab)%nat -> r < tab_lo tab -> interp_clamp_m tab r = None.
Proof. exact interp_clamp_below. Qed.

(* at any one distance the A_V is the least-squares optimum clipped to the range *)
Theorem C02_av : forall lo hi rows, 0 < m11 rows -> lo <= hi ->
  let av := av_at_distance lo hi rows in
  lo <= av <= hi /\ forall av', lo <= av' <= hi -> S1 rows av <= S1 rows av'.
Proof. exact Fit3.C02_av. Qed.

(* the reported scale is a grid log-distance, A_V / chi^2 / predictions are those of that distance, and no distance of the
   grid has a smaller chi^2 *)
Theorem C02_min : forall pen lo hi logds per_dist, per_dist <> [] ->
  let r := fit3_one pen lo hi logds per_dist in
  let b := g_best r in
  let rows := nth b per_dist [] in
  (b < length per_dist)%nat /\
  g_sc r = nth b logds 0 /\
  g_av r = av_at_distance lo hi rows /\
  g_chi2 r = Fin (chi2_m pen rows (g_av r) 0) /\
  (forall rows', In rows' per_dist ->
     xlt (Fin (chi2_m pen rows' (av_at_distance lo hi rows') 0)) (g_chi2 r) = false) /\
  g_pred r = map (fun x => g_av r * r_a x + r_lm x) rows.
Proof. exact fit3_one_spec. Qed.

(* non-vacuity: L = 1 dex, step = 0.3 gives 5 trial distances (spacing 0.25) *)
Example C02_example : ndist 1 (3#10) = 5%Z /\ interp_clamp_m [(1, 10); (3, 30)] 2 = Some (fval [(1, 10); (3, 30)] 2) /\ fval [(1, 10); (3, 30)] 2 == 20.
Proof. repeat split. Qed.

(* ---- remove_resolved=True (not part of the property's quantifier; modelled since the seeded faults C11_c and C04_g):
   the "remove extended objects" step of Models.fit with the mask as an input (FitMask).  Without flagged entries it is the
   plain fit; with them the reported distance is unflagged whenever one exists, chi^2 / A_V / predictions are those of the
   reported distance, and no unflagged distance has a smaller chi^2. *)
From SedV Require Import FitMask.
Theorem C02_masked_none : forall pen lo hi logds per_dist ms, (forall m, In m ms -> m = false) ->
  fit3_one_masked pen lo hi logds per_dist ms = fit3_one pen lo hi logds per_dist.
Proof. exact masked_none. Qed.

Theorem C02_masked : forall pen lo hi logds per_dist ms, per_dist <> [] ->
  let r := fit3_one_masked pen lo hi logds per_dist ms in
  let b := g_best r in
  let rows := nth b per_dist [] in
  (b < length per_dist)%nat /\
  g_sc r = nth b logds 0 /\
  g_av r = av_at_distance lo hi rows /\
  g_chi2 r = (if nth b ms false then Xnum.PInf else Xnum.Fin (chi2_m pen rows (g_av r) 0)) /\
  (forall i, (i < length per_dist)%nat -> nth i ms false = false ->
     xlt (Xnum.Fin (chi2_m pen (nth i per_dist []) (av_at_distance lo hi (nth i per_dist [])) 0)) (g_chi2 r) = false) /\
  g_pred r = map (fun x => g_av r * r_a x + r_lm x) rows /\
  ((exists i, (i < length per_dist)%nat /\ nth i ms false = false) -> nth b ms false = false).
Proof. exact fit3_one_masked_spec. Qed.

(* ---- remove_resolved: what the mask is (no property states what it should be; these say what the code computes) ---- *)

(* find_radius_sigma for a given threshold: the last aperture if the outermost ring is above it; 0 if nothing is; otherwise the
   point of the OUTERMOST interval (a, a'] whose inner ring is above the threshold where the straight line through the two
   surface brightnesses meets the threshold *)
Theorem C02_radius_sigma : forall thr aps sg, RadiusM.increasing aps -> (forall a, In a aps -> 0 < a) -> length sg = length aps ->
  (thr < last sg 0 /\ RadiusM.radius_thr thr aps sg = last aps 0) \/
  (Forall (fun x => x <= thr) sg /\ RadiusM.radius_thr thr aps sg = 0) \/
  (exists a a' s s', RadiusM.crossing thr aps sg a a' s s' /\ RadiusM.radius_thr thr aps sg = RadiusM.cross thr a a' s s' /\
                     a < RadiusM.radius_thr thr aps sg /\ RadiusM.radius_thr thr aps sg <= a' /\
                     (RadiusM.radius_thr thr aps sg - a) * (s - s') == (s - thr) * (a' - a)).
Proof. exact RadiusM.radius_thr_spec. Qed.

(* with a fraction of the peak below one the radius is never 0: it lies between the first and the last aperture *)
Theorem C02_radius_sigma_range : forall frac aps fl, RadiusM.increasing aps -> (forall a, In a aps -> 0 < a) -> length fl = length aps ->
  aps <> [] -> 0 < frac -> frac < 1 -> 0 < hd 0 fl ->
  hd 0 aps <= RadiusM.radius_sigma_m frac aps fl /\ RadiusM.radius_sigma_m frac aps fl <= last aps 0.
Proof. exact RadiusM.radius_sigma_range. Qed.

(* Models.read: in one band the trial distances at which a model counts as resolved are an initial segment of the grid *)
Theorem C02_resolved_initial_segment : forall theta ds fl i j, 0 < theta -> RadiusM.increasing ds -> (i <= j)%nat ->
  let aps := ResolvedM.aps_of theta ds in
  let m := RadiusM.ext_mask aps (RadiusM.radius_sigma_m (1 # 2) aps fl) in
  nth j m false = true -> nth i m false = true.
Proof. exact ResolvedM.resolved_initial_segment. Qed.

(* find_radius_cumul on a strictly growing curve of growth: the radius lies in the interval that brackets the requested share
   of the total flux, where the linearly interpolated curve reaches it; outside the curve the end apertures are returned *)
Theorem C02_radius_cumul : forall frac aps fl, RadiusM.increasing aps -> RadiusM.increasing fl -> length fl = length aps ->
  hd 0 fl <= frac * last fl 0 -> frac * last fl 0 < last fl 0 ->
  exists a a' f f', RadiusM.bracket (frac * last fl 0) aps fl a a' f f' /\
    a <= RadiusM.radius_cumul_m frac aps fl /\ RadiusM.radius_cumul_m frac aps fl < a' /\
    (RadiusM.radius_cumul_m frac aps fl - a) * (f' - f) == (frac * last fl 0 - f) * (a' - a).
Proof. exact RadiusM.radius_cumul_spec. Qed.

Theorem C02_radius_cumul_ends : forall frac aps fl,
  (frac * last fl 0 < hd 0 fl -> frac * last fl 0 < last fl 0 -> RadiusM.radius_cumul_m frac aps fl = hd 0 aps) /\
  (last fl 0 <= frac * last fl 0 -> RadiusM.radius_cumul_m frac aps fl = last aps 0).
Proof. exact RadiusM.radius_cumul_ends. Qed.

(* Models.read hands find_radius_sigma the apertures that ConvolvedFluxes.interpolate reset to the largest tabulated one; on strictly
   increasing apertures the model with -inf surface brightnesses (RadiusM.radius_sigma_o) is the plain one *)
Theorem C02_radius_sigma_repeated : forall frac aps fl, (forall a, In a aps -> 0 < a) -> RadiusM.increasing aps ->
  length fl = length aps -> aps <> [] ->
  RadiusM.radius_sigma_o frac aps fl = Some (RadiusM.radius_sigma_m frac aps fl).
Proof. exact RadiusM.radius_sigma_o_increasing. Qed.

(* whatever the fluxes: the radius never exceeds the largest aperture it was computed from ... *)
Theorem C02_radius_sigma_le_last : forall frac aps fl r, RadiusM.nondecreasing aps -> (forall a, In a aps -> 0 < a) ->
  length fl = length aps -> RadiusM.radius_sigma_o frac aps fl = Some r -> r <= last aps 0.
Proof. exact RadiusM.radius_sigma_o_le_last. Qed.

(* ... so remove_resolved never removes a model at a distance whose aperture lies at or beyond the largest tabulated one *)
Theorem C02_resolved_not_beyond_table : forall tab theta ds col b i, (2 <= length tab)%nat -> 0 < tab_hi tab -> 0 < theta ->
  RadiusM.increasing ds -> (forall d, In d ds -> 0 < d) -> length col = length ds -> ds <> [] ->
  ResolvedM.band_res tab theta ds col = Some b ->
  tab_hi tab <= nth i (ResolvedM.aps_of theta ds) 0 -> nth i (ResolvedM.b_mask b) false = false.
Proof. exact ResolvedM.resolved_not_beyond_table. Qed.

(* the count as the code computes it since F64, ceil(1 + L/step - g) with the guard g = 1e-10 against the rounding of L/step:
   it is the exact count or one less ... *)
Theorem C02_grid_guard_near : forall g L step, 0 <= g -> g < 1 ->
  GridGuard.ndist_g g L step = ndist L step \/ GridGuard.ndist_g g L step = (ndist L step - 1)%Z.
Proof. exact GridGuard.ndist_g_near. Qed.

(* ... both ends are still included, the spacing exceeds the step by at most the relative g/(n-1), and one point fewer would be
   too coarse *)
Theorem C02_grid_guard : forall g L step, 0 <= g -> 0 < L -> 0 < step -> g < L / step ->
  let n := GridGuard.ndist_g g L step in
  (2 <= n)%Z /\ L / (inject_Z n - 1) <= step * (1 + g / (inject_Z n - 1)) /\ ((2 < n)%Z -> step < L / (inject_Z n - 2)).
Proof. exact GridGuard.C02_grid_guard_lemma. Qed.
