# ---- shared set-up (inlined copy in every script; public API only) ----
import os, sys, io, tempfile, contextlib
import numpy as np
from astropy.table import Table
from astropy import units as u
from sedfitter import fit, write_parameters
from sedfitter.sed import SED, SEDCube
from sedfitter.filter import Filter
from sedfitter.extinction import Extinction
from sedfitter.convolve import convolve_model_dir
from sedfitter.convolved_fluxes import ConvolvedFluxes
from sedfitter.fit_info import FitInfoFile

NAMES = ['model_%04d' % i for i in range(6)]
FILTERS = ['bob', 'alice', 'eve', 'zed']
APERTURES = [1., 3., 3., 5.]


def quiet(func, *args, **kwargs):
    buf = io.StringIO()
    with contextlib.redirect_stdout(buf), contextlib.redirect_stderr(buf):
        return func(*args, **kwargs)


def make_extinction():
    e = Extinction()
    e.wav = np.logspace(-2., 3., 50) * u.micron
    e.chi = e.wav.value ** -1.5 * u.cm ** 2 / u.g
    return e


def make_filters():
    filters = []
    for name, lo, hi, cw in [('alice', 1., 5., 3.), ('bob', 10., 15., 12.),
                             ('eve', 15., 25., 20.), ('zed', 40., 80., 60.)]:
        w = np.linspace(hi, lo, 60) * u.micron
        f = Filter()
        f.name = name
        f.central_wavelength = cw * u.micron
        f.nu = w.to(u.Hz, equivalencies=u.spectral())
        f.response = 1 + np.sin(np.arange(60)) ** 2
        f.normalize()
        filters.append(f)
    return filters


def model_values(apdep, scale=1.):
    # pairwise non-degenerate SEDs (independent random walks in log flux)
    rng = np.random.RandomState(1)
    nwav = 80
    nap = 8 if apdep else 1
    vals = np.zeros((len(NAMES), nap, nwav))
    for i in range(len(NAMES)):
        base = np.exp(rng.normal(0, 1.5, nwav).cumsum() * 0.3) * (1 + i)
        if apdep:
            vals[i] = np.cumsum(rng.uniform(0.2, 1, (nap, 1)), axis=0) * base[None, :]
        else:
            vals[i, 0] = base
    wav = np.logspace(-1., 3., nwav) * u.micron
    aps = np.logspace(1., 6., nap) * u.au
    return wav, aps, vals * scale


def make_package(directory, version, apdep, perm=None, with_unc=True, scale=1., text_column=False):
    wav, aps, vals = model_values(apdep, scale)
    if version == 1:
        os.mkdir(os.path.join(directory, 'seds'))
        for i, name in enumerate(NAMES):
            s = SED()
            s.name = name
            s.distance = 1 * u.kpc
            s.wav = wav
            s.nu = wav.to(u.Hz, equivalencies=u.spectral())
            s.apertures = aps if apdep else None
            s.flux = vals[i] * u.mJy
            s.error = s.flux * 0.01
            s.write(os.path.join(directory, 'seds', name + '_sed.fits'))
    else:
        c = SEDCube()
        c.names = np.array(NAMES)
        c.distance = 1 * u.kpc
        c.wav = wav
        c.apertures = aps if apdep else None
        c.val = vals * u.mJy
        if with_unc:
            c.unc = c.val * 0.01
        c.write(os.path.join(directory, 'flux.fits'))
    with open(os.path.join(directory, 'models.conf'), 'w') as f:
        f.write("name = test\nlength_subdir = 0\n")
        f.write("aperture_dependent = %s\n" % ('yes' if apdep else 'no'))
        f.write("logd_step = 0.02\n")
        if version == 2:
            f.write("version = 2\n")
    t = Table()
    t['MODEL_NAME'] = np.array(NAMES, dtype='S30')
    t['par1'] = np.arange(len(NAMES)) + 0.5
    t['par2'] = 100. - np.arange(len(NAMES))
    if text_column:
        t['dust'] = np.array(['dust_%i.par' % i for i in range(len(NAMES))], dtype='S12')
    if perm is not None:
        t = t[perm]
    t.write(os.path.join(directory, 'parameters.fits'))
    return t


def plant(directory, model, av0, scale_or_d0, ext, apdep):
    """Photometry of `model` from the package's own convolved files."""
    fluxes = []
    for name, ap in zip(FILTERS, APERTURES):
        c = ConvolvedFluxes.read(os.path.join(directory, 'convolved', name + '.fits'))
        i = list(np.char.strip(np.asarray(c.model_names))).index(model)
        if apdep:
            d0 = scale_or_d0  # kpc
            x = c.apertures.to(u.au).value
            f = np.interp(min(ap * d0 * 1000., x.max()), x, c.flux[i].to(u.mJy).value) / d0 ** 2
        else:
            f = c.flux[i, 0].to(u.mJy).value * 10. ** (-2. * scale_or_d0)
        avl = ext.get_av(u.Quantity([c.central_wavelength]))[0]
        fluxes.append(float(f * 10. ** (av0 * avl)))
    return fluxes


def data_line(name, fluxes, relerr):
    s = "%s 0.0 0.0 " % name + " ".join(['1'] * len(fluxes))
    for f in fluxes:
        s += " %.17e %.17e" % (f, f * relerr)
    return s + "\n"


def run_fit(directory, fluxes, relerr, ext, apdep, drange=(0.5, 4.), tag='out'):
    data = os.path.join(directory, 'data_' + tag)
    with open(data, 'w') as f:
        f.write(data_line('src', fluxes, relerr))
    out = os.path.join(directory, tag + '.fitinfo')
    quiet(fit, data, FILTERS, APERTURES * u.arcsec, directory, out, extinction_law=ext,
          av_range=[0., 10.], distance_range=list(drange) * u.kpc if apdep else None,
          output_format=('N', 3))
    fin = FitInfoFile(out, 'r')
    info = list(fin)[0]
    fin.close()
    return out, info


def distance_grid(drange=(0.5, 4.), step=0.02):
    n = int(np.ceil(1 + (np.log10(drange[1]) - np.log10(drange[0])) / step))
    return np.logspace(np.log10(drange[0]), np.log10(drange[1]), n)
# ---- end of shared set-up ----


def main():
    """C08_3: cube package written without the (optional) UNCERTAINTIES HDU."""
    ext = make_extinction()
    m, av0 = NAMES[3], 1.5
    problems = []
    for apdep in (False, True):
        d = tempfile.mkdtemp()
        make_package(d, 2, apdep, with_unc=False)
        # the cube itself is a legal file: it reads back, without uncertainties
        cube = SEDCube.read(os.path.join(d, 'flux.fits'))
        assert cube.unc is None and cube.val.shape[0] == len(NAMES)
        try:
            quiet(convolve_model_dir, d, make_filters())
        except Exception as e:
            problems.append("convolve_model_dir (aperture_dependent=%s): %s: %s" % (apdep, type(e).__name__, e))
        # fitting at wavelengths taken straight from the cube does not need the convolution
        from sedfitter import Fitter
        try:
            quiet(Fitter, [3. * u.micron, 12. * u.micron, 20. * u.micron], [1., 1., 1.] * u.arcsec, d,
                  extinction_law=ext, av_range=[0., 10.], distance_range=[0.5, 4.] * u.kpc if apdep else None)
        except Exception as e:
            problems.append("Fitter with wavelength filters (aperture_dependent=%s): %s: %s" % (apdep, type(e).__name__, e))
    assert not problems, (
        "C08 'building the convolved fluxes, fitting ... ranks m first' (both formats, both modes): a "
        "version-2 package whose flux.fits has no UNCERTAINTIES extension (SEDCube.write omits it when "
        "unc is None, SEDCube.read accepts that) cannot be taken through the chain at all: "
        + "; ".join(problems) + ". The model values alone determine the fit; the planted model is never recovered.")
    print("no violation observed")


if __name__ == '__main__':
    main()
