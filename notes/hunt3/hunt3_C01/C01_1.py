"""
C01 violated: convolved-flux files that store TOTAL_FLUX in single precision (FITS 'E'
columns, as the published model packages do) in a unit other than mJy (here Jy).

Models.read copies conv.flux (float32, Jy) into its mJy array; astropy converts the
unit *in float32*, so every model flux is rounded a second time (relative error up to
6e-8) instead of being the stored value times 1000.  The reported A_V / scale / chi^2
are then NOT the constrained least-squares optimum for the model fluxes that are in
the package: A_V is off by ~1e-6 mag, chi^2 by ~1e-3 (six orders of magnitude above
double-precision rounding).  The same package written in mJy gives the exact optimum.
"""
import os, io, tempfile, contextlib
import numpy as np
from astropy import units as u
from astropy.io import fits
from sedfitter.convolved_fluxes import ConvolvedFluxes
from sedfitter.extinction import Extinction
from sedfitter.source import Source
from sedfitter.fit import Fitter

rng = np.random.default_rng(5)
nm, nw = 5, 4
names = np.array(['m%d' % i for i in range(nm)])
wavs = [3.6, 4.5, 5.8, 8.0]
flux_jy = (10 ** rng.uniform(-3, 1, (nm, nw))).astype(np.float32)   # what is in the package

d = tempfile.mkdtemp()
os.mkdir(d + '/convolved')
for j, w in enumerate(wavs):
    c = ConvolvedFluxes(wavelength=w * u.micron, model_names=names,
                        flux=flux_jy[:, j:j + 1] * u.Jy, error=flux_jy[:, j:j + 1] * 0 * u.Jy)
    c.write(d + '/convolved/f%d.fits' % j)
open(d + '/models.conf', 'w').write("name = test\nlength_subdir = 0\naperture_dependent = no\nlogd_step = 0.02\n")

# the file really holds single-precision numbers in Jy, bit for bit
h = fits.open(d + '/convolved/f0.fits')
assert h[1].columns['TOTAL_FLUX'].format == 'E' and h[1].columns['TOTAL_FLUX'].unit == 'Jy'
assert np.array_equal(h[1].data['TOTAL_FLUX'][:, 0], flux_jy[:, 0])

ext = Extinction()
ext.wav = np.logspace(-2., 3., 50) * u.micron
ext.chi = ext.wav.value ** -1.5 * u.cm ** 2 / u.g

av_lo, av_hi = -100., 100.
with contextlib.redirect_stdout(io.StringIO()):
    fitter = Fitter(['f0', 'f1', 'f2', 'f3'], np.ones(4) * u.arcsec, d,
                    extinction_law=ext, av_range=(av_lo, av_hi))
k = np.asarray(fitter.av_law, dtype=float)

s = Source()
s.name = 'src'
s.valid = [1, 1, 1, 1]
s.flux = np.array([1., 2., 3., 4.])
s.error = np.array([.01, .02, .03, .04])
info = fitter.fit(s)

# oracle: exact weighted least squares for the fluxes stored in the package (Jy -> mJy is x1000)
L = np.longdouble
true_mjy = flux_jy.astype(L) * 1000
w, y, _ = s.get_log_fluxes()
w = w.astype(L); y = y.astype(L); kk = k.astype(L)
worst_av = 0; worst_chi = 0
for r in range(nm):
    i = list(names).index(str(info.model_name[r]).strip())
    res = y - np.log10(true_mjy[i])
    kb = (w * kk).sum() / w.sum(); rb = (w * res).sum() / w.sum()
    A = (w * (kk - kb) * (res - rb)).sum() / (w * (kk - kb) ** 2).sum()
    A = min(max(A, L(av_lo)), L(av_hi))
    S = -(rb - A * kb) / 2
    chi = (w * (res - A * kk + 2 * S) ** 2).sum()
    worst_av = max(worst_av, abs(float(A) - float(info.av[r])))
    worst_chi = max(worst_chi, abs(float(chi) - float(info.chi2[r])))
    print("%-4s A_V optimum %.10f reported %.10f   chi2 optimum %.6f reported %.6f" %
          (names[i], float(A), float(info.av[r]), float(chi), float(info.chi2[r])))

rel = np.max(np.abs(fitter.models.fluxes.to(u.mJy).value / true_mjy.astype(float) - 1))
print("relative error of the model fluxes used by the fitter:", rel)
assert worst_av < 1e-9 and worst_chi < 1e-6, (
    "C01 (reported A_V/scale/chi^2 are the constrained least-squares optimum) fails for a package whose "
    "convolved files hold float32 fluxes in Jy: model fluxes are re-rounded in single precision during the "
    "Jy->mJy conversion (rel. error %.1e), A_V is off by up to %.2e mag and chi^2 by up to %.2e"
    % (rel, worst_av, worst_chi))
print("no violation")
