import os, io, sys, tempfile, contextlib, warnings
import numpy as np
warnings.simplefilter('ignore')
from astropy import units as u
from sedfitter.convolved_fluxes import ConvolvedFluxes
from sedfitter.extinction import Extinction
from sedfitter.source import Source
from sedfitter.fit import Fitter


def ext():
    e = Extinction()
    e.wav = np.logspace(-2., 3., 50) * u.micron
    e.chi = e.wav.value ** -1.5 * u.cm ** 2 / u.g
    return e


def make_dir(names, fluxes, wavs, apertures=None):
    """Per-file (version 1) package holding only what the fitter reads:
    models.conf and convolved/<filter>.fits.
    fluxes: (n_models, n_wav) or (n_models, n_ap, n_wav), in mJy"""
    d = tempfile.mkdtemp()
    os.mkdir(os.path.join(d, 'convolved'))
    filt_names = ['F%d' % i for i in range(len(wavs))]
    for i in range(len(wavs)):
        c = ConvolvedFluxes()
        c.model_names = np.array(names)
        c.central_wavelength = wavs[i] * u.micron
        if apertures is not None:
            c.apertures = np.array(apertures) * u.au
            c.flux = np.array(fluxes)[:, :, i] * u.mJy
        else:
            c.flux = np.array(fluxes)[:, i].reshape(-1, 1) * u.mJy
        c.error = c.flux * 0.
        c.write(os.path.join(d, 'convolved', filt_names[i] + '.fits'))
    with open(os.path.join(d, 'models.conf'), 'w') as f:
        f.write("name = test\nlength_subdir = 0\naperture_dependent = %s\nlogd_step = 0.02\n"
                % ('yes' if apertures is not None else 'no'))
    return d, filt_names


def quiet(fn, *a, **k):
    with contextlib.redirect_stdout(io.StringIO()):
        return fn(*a, **k)


def src(valid, flux, error):
    s = Source()
    s.name = 's'
    s.x = 0.
    s.y = 0.
    s.valid = np.array(valid)
    s.flux = np.array(flux, dtype=float)
    s.error = np.array(error, dtype=float)
    return s


def row(info, name):
    i = list(info.model_name).index(name)
    return float(info.chi2[i]), float(info.av[i]), float(info.sc[i])

# ---------------------------------------------------------------------------
# C04, clause "a fit result lists every model ... in order of non-decreasing
# chi^2 ... including ... models that end up with infinite chi^2", and "in
# every row ... A_V, scale, chi^2 and predicted fluxes belong to the same model".
#
# Aperture-independent package; model m0 has no flux (0 mJy -> log10 = -inf,
# see Models.valid / Models.log_fluxes_mJy) in band 2, which the source uses
# (flag 1).  The model cannot fit and should come last with chi^2 = 1e30 (the
# value chi_squared() maps infinities to, and the value the aperture-dependent
# fitter does report for the same situation).  Instead linear_regression forms
# inf - inf: chi^2, A_V and scale of the row are NaN, so the chi^2 column is
# not non-decreasing and the row describes no model state at all.
# ---------------------------------------------------------------------------
rng = np.random.RandomState(3)
wavs = [1., 2., 4., 8., 16.]
nm = 4
names = ['m%d' % i for i in range(nm)]
fl = 1 + rng.random_sample((nm, 5))
fl[0, 2] = 0.
d, fn = make_dir(names, fl, wavs)
F = quiet(Fitter, fn, [3.] * 5 * u.arcsec, d, extinction_law=ext(), av_range=[0., 10.],
          distance_range=[1., 3.] * u.kpc)
info = F.fit(src([1, 1, 1, 1, 1], [1., 2., 3., 4., 5.], [.1, .2, .3, .4, .5]))
print('aperture-independent: names', [str(x) for x in info.model_name])
print('  chi2 ', np.asarray(info.chi2))
print('  av   ', np.asarray(info.av))
print('  scale', np.asarray(info.sc))

# same grid as an aperture-dependent package (two apertures, same fluxes): what the other mode reports
fl3 = np.repeat(fl[:, np.newaxis, :], 2, axis=1)
d3, fn3 = make_dir(names, fl3, wavs, apertures=[10., 1e6])
F3 = quiet(Fitter, fn3, [3.] * 5 * u.arcsec, d3, extinction_law=ext(), av_range=[0., 10.],
           distance_range=[1., 3.] * u.kpc)
info3 = F3.fit(src([1, 1, 1, 1, 1], [1., 2., 3., 4., 5.], [.1, .2, .3, .4, .5]))
print('aperture-dependent  : names', [str(x) for x in info3.model_name])
print('  chi2 ', np.asarray(info3.chi2))

chi2 = np.asarray(info.chi2, dtype=float)
assert sorted(info.model_id) == list(range(nm))
assert np.all(np.diff(chi2) >= 0) and not np.any(np.isnan(chi2)), (
    "C04 violated: the chi^2 column of the result is %s - model %s, which has zero flux in a fitted band and should "
    "end with chi^2 = 1e30/inf, gets chi2 = av = scale = NaN, so the rows are not in non-decreasing chi^2 order "
    "(aperture-dependent mode gives %s for the same grid)" % (chi2, [str(x) for x in np.asarray(info.model_name)[np.isnan(chi2)]], np.asarray(info3.chi2)))
print("no violation")
