"""
C07 - clause: "rows follow the package's parameter-table (per-file format) or
cube (cube format) order", quantified over "any row permutation of the
parameter table" and "format in {per-file, cube}".

A cube package (version = 2) whose parameters.fits lists the same models as
flux.fits, but in another row order, cannot be convolved at all:
convolve_model_dir raises ValueError("Model names in SED cube and parameter
file do not match").  The per-file package built from the same SEDs with the
same (permuted) parameter table is convolved without complaint.
"""
import os, sys, tempfile
import numpy as np
from astropy import units as u
from astropy.table import Table
from astropy import log
log.setLevel('ERROR')

from sedfitter.sed import SED, SEDCube
from sedfitter.filter import Filter
from sedfitter.convolve import convolve_model_dir
from sedfitter.convolved_fluxes import ConvolvedFluxes

rng = np.random.RandomState(0)
names = ['m_a', 'm_b', 'm_c', 'm_d']
perm = [2, 0, 3, 1]                       # row order of the parameter table
wav = np.logspace(-1, 2.5, 30) * u.micron
aps = np.array([10., 100., 1000.]) * u.au
val = np.cumsum(rng.random_sample((4, 3, 30)) + 0.5, axis=1)
unc = 0.01 * val


def conf(d, version):
    with open(os.path.join(d, 'models.conf'), 'w') as f:
        f.write("name = test\nlength_subdir = 0\naperture_dependent = yes\nlogd_step = 0.02\n")
        if version == 2:
            f.write("version = 2\n")


def partable(d):
    t = Table()
    t['MODEL_NAME'] = np.array(names, dtype='S30')
    t['par1'] = np.arange(4.)
    t[perm].write(os.path.join(d, 'parameters.fits'))


# per-file package
d1 = tempfile.mkdtemp()
os.mkdir(os.path.join(d1, 'seds'))
for i, n in enumerate(names):
    s = SED()
    s.name = n
    s.distance = 1 * u.kpc
    s.wav = wav
    s.nu = wav.to(u.Hz, equivalencies=u.spectral())
    s.apertures = aps
    s.flux = val[i] * u.mJy
    s.error = unc[i] * u.mJy
    s.write(os.path.join(d1, 'seds', n + '_sed.fits'))
conf(d1, 1)
partable(d1)

# cube package from the same SEDs, same parameter table
d2 = tempfile.mkdtemp()
c = SEDCube()
c.names = np.array(names)
c.distance = 1 * u.kpc
c.wav = wav
c.apertures = aps
c.val = val * u.mJy
c.unc = unc * u.mJy
c.write(os.path.join(d2, 'flux.fits'))
conf(d2, 2)
partable(d2)

fw = np.linspace(5., 1., 20) * u.micron
f = Filter(name='fa', central_wavelength=3. * u.micron,
           nu=fw.to(u.Hz, equivalencies=u.spectral()), response=np.ones(20))
f.normalize()

convolve_model_dir(d1, [f])
a = ConvolvedFluxes.read(os.path.join(d1, 'convolved', 'fa.fits'))
assert list(np.char.strip(a.model_names)) == [names[i] for i in perm]
print("per-file package, permuted parameter table: convolved, rows in table order")

try:
    convolve_model_dir(d2, [f])
except Exception as e:
    raise AssertionError(
        "C07 violated: a cube package whose parameter table is a row permutation "
        "(%s) of the cube order (%s) is refused by convolve_model_dir (%s: %s); the "
        "statement promises a convolved file in cube order for any row permutation "
        "of the parameter table, and the per-file package with the same table is "
        "convolved" % ([names[i] for i in perm], names, type(e).__name__, e))

b = ConvolvedFluxes.read(os.path.join(d2, 'convolved', 'fa.fits'))
assert list(np.char.strip(b.model_names)) == names, "cube-format rows do not follow the cube order"
o = [perm.index(i) for i in range(4)]
assert np.allclose(a.flux[o].value, b.flux.value, rtol=1e-10)
print("OK")
