"""
C12, clause "Writing ... an SED cube and reading it back returns the same
value for every (model, aperture, wavelength) cell".

The documented way of building a cube in one go - the keyword arguments of
SEDCube(names=..., distance=..., wav=... or nu=..., apertures=..., val=...,
unc=...) listed in the BaseCube docstring - crashes with AttributeError in the
wav / nu property setters (each setter looks at the *other* private attribute
before __init__ has created it), so such a cube can never be written. Building
the very same cube by attribute assignment works and round-trips.
"""
import os
import sys
import tempfile

import numpy as np
from astropy import units as u

from sedfitter.sed import SEDCube

tmp = tempfile.mkdtemp()

names = np.array(['m1', 'm2'])
wav = np.array([1., 2., 5.]) * u.micron
val = np.arange(6.).reshape(2, 1, 3) * u.mJy

# Control: attribute assignment works
c = SEDCube()
c.names = names
c.distance = 1. * u.kpc
c.wav = wav
c.val = val
c.write(os.path.join(tmp, 'a.fits'))
r = SEDCube.read(os.path.join(tmp, 'a.fits'), order='wav')
assert np.array_equal(r.val.value, val.value)

failures = []
for key, spectral in (('wav', wav), ('nu', wav.to(u.Hz, equivalencies=u.spectral()))):
    try:
        c2 = SEDCube(names=names, distance=1. * u.kpc, val=val, **{key: spectral})
        c2.write(os.path.join(tmp, 'b_%s.fits' % key))
        r2 = SEDCube.read(os.path.join(tmp, 'b_%s.fits' % key), order='wav')
        assert np.array_equal(r2.val.value, val.value)
    except Exception as exc:
        failures.append("SEDCube(%s=...) -> %s: %s" % (key, type(exc).__name__, exc))

if failures:
    print("C12 VIOLATED: a 2-model, 3-wavelength cube given through the documented "
          "constructor keywords cannot be created (hence not written / read back):")
    for f in failures:
        print("   ", f)
    sys.exit(1)
print("no violation")
