import sys; sys.path.insert(0, 'hunt_out')
import t1
from t1 import *
import harness
cases = [
 dict(aps=(3., 5000., 3., 800.)),
 dict(aps=(3., 5., 3., 8.), apmin=3.2, apmax=4.2, drange=(1., 3.) * u.kpc),
 dict(drange=(0.01, 300.) * u.kpc, apmin=-1, apmax=8),
 dict(drange=(1e-3, 1e-2) * u.kpc, apmin=-3, apmax=8),
]
for c in cases:
    for st in ['interp', 'largest', 'largest+smallest', 'all']:
        try:
            w = run(sed_type=st, verbose=False, **c)
            print('CASE', c, st, 'worst', w, 'BAD' if not w < 2e-3 else '')
        except Exception as e:
            print('CASE', c, st, 'EXC', type(e).__name__, str(e)[:200])
# extinction variants
orig = harness.make_ext
def ext_AA():
    e = Extinction()
    e.wav = (np.logspace(-2, 4, 60) * u.micron).to(u.AA)
    e.chi = ((np.logspace(-2, 4, 60)) ** -1.5 * 100 + 1) * u.cm**2 / u.g
    e.chi = e.chi.to(u.m**2/u.kg)
    return e
def ext_narrow():
    e = Extinction()
    e.wav = np.logspace(-0.5, 1.5, 30) * u.micron
    e.chi = (e.wav.value ** -1.5 * 100 + 1) * u.cm**2 / u.g
    return e
for name, fn in [('AA', ext_AA), ('narrow', ext_narrow)]:
    t1.make_ext = fn
    for st in ['interp', 'all']:
        try:
            w = run(sed_type=st, verbose=False)
            print('CASE ext', name, st, 'worst', w, 'BAD' if not w < 2e-3 else '')
        except Exception as e:
            print('CASE ext', name, st, 'EXC', type(e).__name__, str(e)[:200])
