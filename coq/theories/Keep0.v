(* Keep0 — FitInfo.keep for a source WITHOUT fitted points (n_data = 0: limits only), which Fitter.fit can produce.
   numpy evaluates chi2 / 0 as +inf (chi2 > 0), nan (chi2 = 0 or nan) or -inf (chi2 < 0); the division is modelled as such
   (xdiv0) instead of Coq's total x / 0 = 0. *)
From Coq Require Import QArith Lqa Lia List Bool ZArith.
Import ListNotations.
From SedV Require Import Xnum Keep.
Close Scope Q_scope.

Definition xdiv0 (x : xnum) : xnum :=
  match x with
  | Fin q => if Qle_bool q 0 then (if Qle_bool 0 q then NaN else NInf) else PInf
  | o => o
  end.

Definition crit0 (s : sel) (c0 : xnum) (x : xnum) : bool :=
  match s with
  | SelE v => xle (xdiv0 x) (Fin v)
  | SelF v => xle (xdiv0 (xsub x c0)) (Fin v)
  | _ => crit s 1 c0 x
  end.

Definition nkeepN (s : sel) (nd : N) (chi : list xnum) : nat :=
  match nd with
  | Npos p => nkeep s p chi
  | N0 => match chi with
          | [] => 0
          | c0 :: _ => match s with SelA => length chi | SelN n => n | _ => count xnum (crit0 s c0) chi end
          end
  end.

Definition xnonneg (x : xnum) : Prop := match x with Fin q => (0 <= q)%Q | NInf => False | _ => True end.

Lemma xdiv0_nonneg_not_le x v : xnonneg x -> xle (xdiv0 x) (Fin v) = false.
Proof.
  destruct x as [q| | |]; simpl; intro H; try reflexivity; try contradiction.
  destruct (Qle_bool q 0) eqn:A; [|reflexivity].
  destruct (Qle_bool 0 q) eqn:B; [reflexivity|].
  apply Qle_bool_iff in H. congruence.
Qed.

Lemma count_false (P : xnum -> bool) l : (forall x, In x l -> P x = false) -> count xnum P l = 0.
Proof.
  induction l as [|x r IH]; intro H; [reflexivity|]. simpl. rewrite (H x (or_introl eq_refl)). simpl.
  apply IH. intros y Hy. apply H. right; exact Hy.
Qed.

(* with n_data = 0 the per-point selectors keep nothing: chi2 / 0 is never below a (finite) threshold *)
Theorem nd0_E v chi : Forall xnonneg chi -> nkeepN (SelE v) 0 chi = 0.
Proof.
  intro H. destruct chi as [|c0 r]; [reflexivity|]. unfold nkeepN. apply count_false.
  intros x Hx. simpl. apply xdiv0_nonneg_not_le. rewrite Forall_forall in H. apply H; exact Hx.
Qed.

Lemma xsub_nonneg c0 x : noninf c0 -> xord c0 x -> xnonneg (xsub x c0).
Proof.
  destruct c0 as [c| | |], x as [y| | |]; simpl; intros N H; try exact I; try contradiction.
  lra.
Qed.

Theorem nd0_F v chi : ranked chi -> nkeepN (SelF v) 0 chi = 0.
Proof.
  intros [S N]. destruct chi as [|c0 r]; [reflexivity|]. unfold nkeepN. apply count_false.
  intros x Hx. simpl. apply xdiv0_nonneg_not_le. apply xsub_nonneg.
  - inversion N; assumption.
  - pose proof (head_le_all c0 r S) as H. rewrite Forall_forall in H. apply H; exact Hx.
Qed.

(* the selectors that do not divide by n_data do not depend on it *)
Theorem nd0_others s p chi : match s with SelE _ | SelF _ => True | _ => nkeepN s 0 chi = nkeep s p chi end.
Proof. destruct s; try exact I; destruct chi; reflexivity. Qed.

Theorem ndpos s p chi : nkeepN s (Npos p) chi = nkeep s p chi.
Proof. reflexivity. Qed.
