"""Full model packages (SEDs + filters + parameter table) in both formats; used by C07, C08, C16, C17."""
import math
import os

from common import F

C_LIGHT = 299792458.0


def key(name):
    return int.from_bytes(name.encode().ljust(24, b'\0'), 'big')


def gen_package(rng, nm=None, nap=None, nw=None, nfilt=None, positive=True):
    nm = nm or rng.randint(1, 8)
    nap = nap or rng.randint(1, 5)
    nw = nw or rng.randint(5, 24)
    names = []
    while len(names) < nm:
        n = rng.choice(['model_', 'm', 'zz_', 'A']) + '%04d' % rng.randint(0, 9999)
        if n not in names:
            names.append(n)
    # file names whose sorted order differs from both the name order and the parameter order
    fnames = {}
    for n in names:
        fnames[n] = '%s%s_sed.fits' % (rng.choice('abcdxyz'), n)
    par_order = list(names)
    rng.shuffle(par_order)
    exp = rng.choice([40, 44, 46])
    nus = sorted(set(rng.dyadic(1.0, 16.0, 12) * 2.0 ** exp for _ in range(nw)))
    aps = None if nap == 1 else sorted(set(rng.logdyadic(10.0, 1e5, 10) for _ in range(nap)))
    if aps is not None and len(aps) < 2:
        aps = [100.0, 1000.0]
    na = 1 if aps is None else len(aps)
    seds = {}
    for n in names:
        fl = []
        base = [rng.logdyadic(0.01, 100.0, 10) for _ in nus]
        acc = [b * rng.dyadic(0.2, 1.0, 6) for b in base]
        for a in range(na):
            fl.append(list(acc))
            acc = [x + b * rng.dyadic(0.0, 1.0, 6) for x, b in zip(acc, base)]
        er = [[x * rng.dyadic(0.001, 0.2, 8) for x in row] for row in fl]
        seds[n] = dict(flux=fl, err=er, order=rng.choice(['incr', 'decr']), stored=rng.choice(['incr', 'decr']), columns=rng.choice(['standard', 'standard', 'reordered']))     # order: as handed to SED.write; stored: as it lies in the file
    filters = []
    for k in range(nfilt or rng.randint(1, 3)):
        lo, hi = nus[0], nus[-1]
        w = hi - lo
        kind = rng.choice(['inside', 'inside', 'partial', 'wide'])
        if kind == 'inside':
            a, b = lo + w * rng.dyadic(0.05, 0.4, 6), hi - w * rng.dyadic(0.05, 0.4, 6)
        elif kind == 'partial':
            a, b = lo - w * rng.dyadic(0.1, 0.5, 6), lo + w * rng.dyadic(0.3, 0.8, 6)
        else:
            a, b = lo - w * 0.25, hi + w * 0.25
        a = max(a, lo * 0.25)
        nn = rng.randint(3, 12)
        fnu = sorted(set([a, b] + [rng.dyadic(a, b, 12) for _ in range(nn - 2)]))
        resp = [rng.dyadic(0.1, 4.0, 8) for _ in fnu]
        if rng.random() < 0.5:
            resp[0] = resp[-1] = 0.0
        filters.append(dict(name='F%s' % 'ABC'[k], wav=rng.dyadic(0.5, 20.0, 8), nu=fnu, resp=resp, order=rng.choice(['incr', 'decr']),
                            normalize=rng.random() < 0.7, wunit=rng.choice(['micron', 'micron', 'mm', 'nm', 'Angstrom'])))     # wunit: the unit the central wavelength is declared in
    # flux_unit: the unit the fluxes are stored in (the numbers are in that unit; the model works in mJy); C07 also draws Jy
    return dict(flux_unit='mJy', names=names, fnames=fnames, par_order=par_order, par1={n: rng.dyadic(0, 100, 10) for n in names},
                nu=nus, aps=aps, seds=seds, filters=filters, cube_order=rng.choice(['incr', 'decr']), cube_columns=rng.choice(['standard', 'standard', 'reordered']))


def own_grids(rng, pkg):
    """per-file packages may hold SEDs on different frequency grids: give every SED after the first its own grid —
    the shared one, one with the same length and end points but other interior points, or a shorter one"""
    nus = pkg['nu']
    for n in pkg['names'][1:]:
        sd = pkg['seds'][n]
        kind = rng.choice(['same', 'interior', 'interior', 'shorter'])
        if kind == 'interior' and len(nus) >= 3:
            mid = set()
            while len(mid) < len(nus) - 2:
                x = rng.dyadic(nus[0], nus[-1], 12)
                if nus[0] < x < nus[-1]:
                    mid.add(x)
            sd['nu'] = [nus[0]] + sorted(mid) + [nus[-1]]
        elif kind == 'shorter' and len(nus) >= 4:
            drop = rng.randint(1, len(nus) - 2)
            sd['nu'] = nus[:drop] + nus[drop + 1:]
            sd['flux'] = [r[:drop] + r[drop + 1:] for r in sd['flux']]
            sd['err'] = [r[:drop] + r[drop + 1:] for r in sd['err']]
    pkg['v1only'] = True
    return pkg


def _ord(v, order):
    return list(v) if order == 'incr' else list(reversed(v))


def make_filters(pkg):
    import numpy as np
    from astropy import units as u
    from sedfitter.filter import Filter
    out = []
    for f in pkg['filters']:
        flt = Filter(name=f['name'], central_wavelength=(f['wav'] * u.micron).to(u.Unit(f.get('wunit', 'micron'))), nu=np.array(_ord(f['nu'], f['order'])) * u.Hz,
                     response=np.array(_ord(f['resp'], f['order'])))
        if f['normalize']:
            flt.normalize()
        out.append(flt)
    return out


def write_conf(d, aperture_dependent, version=None, logd_step=0.02):
    with open(os.path.join(d, 'models.conf'), 'w') as f:
        f.write("name = test\nlength_subdir = 0\n")
        f.write("aperture_dependent = %s\n" % ('yes' if aperture_dependent else 'no'))
        f.write("logd_step = %r\n" % logd_step)
        if version:
            f.write("version = %d\n" % version)


def write_params(d, pkg):
    import numpy as np
    from astropy.table import Table
    t = Table()
    t['MODEL_NAME'] = np.array(pkg['par_order'], dtype='S30')
    t['par1'] = np.array([pkg['par1'][n] for n in pkg['par_order']], dtype=float)
    t.write(os.path.join(d, 'parameters.fits'))


UNIT_MJY = {'mJy': 1, 'Jy': 1000}
KPC_CM = 3.0856775814913674e21          # (1 kpc).to(cm) in astropy: the distance every harness SED / cube is given


def to_mjy(pkg, x, nu):
    """exact value in mJy of the number x stored in the package's flux unit at frequency nu (Hz), for a source at 1 kpc"""
    unit = pkg.get('flux_unit', 'mJy')
    if unit == 'YJy':                    # 1e24 Jy: the stored numbers are the package's numbers times 2**flux_pow2 (about 1e-27, as in cgs flux densities)
        return F(x) * F(2.0 ** pkg.get('flux_pow2', 0)) * 10 ** 27
    if unit in UNIT_MJY:
        return F(x) * UNIT_MJY[unit]
    if unit == 'erg / (cm2 s)':          # nu F_nu
        return F(x) / F(nu) * 10 ** 26
    if unit == 'erg / s':                # nu L_nu
        return F(x) / (F(KPC_CM) * F(KPC_CM)) / F(nu) * 10 ** 26
    raise ValueError(unit)


def make_sed(pkg, n, unit=None):
    unit = unit or pkg.get('flux_unit', 'mJy')
    import numpy as np
    from astropy import units as u
    from sedfitter.sed import SED
    s = SED()
    sd = pkg['seds'][n]
    s.name = n
    s.distance = 1.0 * u.kpc
    if 'wav' in pkg:     # wavelengths (micron, increasing) are primary; index k of 'wav' pairs with index n-1-k of the flux rows (which run along increasing nu)
        wav = np.array(_ord(list(reversed(pkg['wav'])), sd['order']))
        s.wav = wav * u.micron
        s.nu = s.wav.to(u.Hz, equivalencies=u.spectral())
        if pkg.get('wav_file_unit'):                # the WAVELENGTH column of the file in another unit (the numbers chosen so that they stay exact)
            s.wav = s.wav.to(u.Unit(pkg['wav_file_unit']))
        if pkg.get('wav_dtype') == 'float32':       # the spectral columns in single precision, as the package-format page prescribes ('E')
            s.wav, s.nu = s.wav.astype(np.float32), s.nu.astype(np.float32)
    else:
        nu = np.array(_ord(sd.get('nu', pkg['nu']), sd['order']))     # per-SED grid (per-file packages only) or the shared one
        s.nu = nu * u.Hz
        s.wav = s.nu.to(u.micron, equivalencies=u.spectral())
        if pkg.get('nu_dtype') == 'float32':        # FREQUENCY in single precision (every frequency of the package is a single-precision number)
            s.nu = s.nu.astype(np.float32)
    s.apertures = None if pkg['aps'] is None else np.array(pkg['aps']) * u.au
    sc = 2.0 ** pkg.get('flux_pow2', 0)
    s.flux = np.array([_ord(row, sd['order']) for row in sd['flux']]) * sc * u.Unit(unit)
    s.error = np.array([_ord(row, sd['order']) for row in sd['err']]) * sc * u.Unit(unit)
    return s


def store_decreasing(path):
    """SED.write always stores a spectrum in increasing frequency; packages in the wild (and the property's quantifier) also hold files
    stored the other way round: reverse the WAVELENGTHS rows and the spectral axis of the SEDS arrays of a written file"""
    import numpy as np
    from astropy.io import fits
    with fits.open(path, mode='update', memmap=False) as h:
        w = np.array(h['WAVELENGTHS'].data).copy()
        for col in w.dtype.names:
            h['WAVELENGTHS'].data[col][:] = w[col][::-1]
        sd = np.array(h['SEDS'].data).copy()
        for col in sd.dtype.names:
            h['SEDS'].data[col][:] = sd[col][:, ::-1]
        h.flush()


def reorder_columns(path):
    """the documentation of the package format says the order of the columns is not important: rewrite a written SED file with
    FREQUENCY before WAVELENGTH and an extra STELLAR_FLUX column (in another unit) in front of TOTAL_FLUX / TOTAL_FLUX_ERR"""
    import numpy as np
    from astropy.io import fits
    with fits.open(path, memmap=False) as h:
        def col(hdu, name, newname=None, unit=None, scale=1.0):
            c = hdu.columns[name]
            return fits.Column(name=newname or c.name, format=c.format, unit=unit or c.unit, dim=c.dim, array=np.array(hdu.data[name]) * scale)
        w, a, sd = h['WAVELENGTHS'], h['APERTURES'], h['SEDS']
        h1 = fits.BinTableHDU.from_columns([col(w, 'FREQUENCY'), col(w, 'WAVELENGTH')], header=None, name='WAVELENGTHS')
        h3 = fits.BinTableHDU.from_columns([col(sd, 'TOTAL_FLUX', 'STELLAR_FLUX', 'ergs/cm^2/s', 0.5), col(sd, 'TOTAL_FLUX'), col(sd, 'TOTAL_FLUX_ERR')], name='SEDS')
        out = fits.HDUList([h[0].copy(), h1, a.copy(), h3])
        out.writeto(path, overwrite=True)


def reorder_cube_columns(path):
    """the same for a cube file: SPECTRAL_INFO rewritten with FREQUENCY before WAVELENGTH (both correctly named, with their units)"""
    import numpy as np
    from astropy.io import fits
    with fits.open(path, memmap=False) as h:
        w = h['SPECTRAL_INFO']
        cols = [fits.Column(name=w.columns[n].name, format=w.columns[n].format, unit=w.columns[n].unit, array=np.array(w.data[n])) for n in ('FREQUENCY', 'WAVELENGTH')]
        new = fits.BinTableHDU.from_columns(cols, name='SPECTRAL_INFO')
        out = fits.HDUList([x.copy() if x.name != 'SPECTRAL_INFO' else new for x in h])
        out.writeto(path, overwrite=True)


def write_v1(d, pkg, logd_step=0.02):
    os.mkdir(os.path.join(d, 'seds'))
    for n in pkg['names']:
        p = os.path.join(d, 'seds', pkg['fnames'][n])
        make_sed(pkg, n).write(p)
        if pkg['seds'][n].get('stored') == 'decr':
            store_decreasing(p)
        if pkg['seds'][n].get('columns') == 'reordered':
            reorder_columns(p)
    write_conf(d, pkg['aps'] is not None, logd_step=logd_step)
    write_params(d, pkg)


def make_cube(pkg, with_unc=True):
    import numpy as np
    from astropy import units as u
    from sedfitter.sed import SEDCube
    c = SEDCube()
    order = pkg.get('cube_names', pkg['par_order'])        # the cube lists the models in its own order (by default that of the parameter table)
    c.names = np.array(order)
    c.distance = 1.0 * u.kpc
    o = pkg['cube_order']
    if 'wav' in pkg:
        c.wav = (np.array(_ord(list(reversed(pkg['wav'])), o)) * u.micron).to(u.Unit(pkg.get('wav_unit', 'micron')))
    else:
        c.nu = np.array(_ord(pkg['nu'], o)) * u.Hz
    c.apertures = None if pkg['aps'] is None else np.array(pkg['aps']) * u.au
    cu = u.Unit(pkg.get('flux_unit', 'mJy'))
    sc = 2.0 ** pkg.get('flux_pow2', 0)
    dt = np.float32 if pkg.get('cube_dtype') == 'float32' else float
    c.val = (np.array([[_ord(row, o) for row in pkg['seds'][n]['flux']] for n in order]) * sc).astype(dt) * cu
    if with_unc:
        c.unc = (np.array([[_ord(row, o) for row in pkg['seds'][n]['err']] for n in order]) * sc).astype(dt) * cu
    return c


def write_v2(d, pkg, logd_step=0.02):
    make_cube(pkg).write(os.path.join(d, 'flux.fits'))
    if pkg.get('cube_columns') == 'reordered':
        reorder_cube_columns(os.path.join(d, 'flux.fits'))
    write_conf(d, pkg['aps'] is not None, version=2, logd_step=logd_step)
    write_params(d, pkg)


def read_convolved(d, fname):
    from astropy import units as u
    from sedfitter.convolved_fluxes import ConvolvedFluxes
    c = ConvolvedFluxes.read(os.path.join(d, 'convolved', fname + '.fits'))
    return dict(names=[(x.decode() if isinstance(x, bytes) else str(x)).strip() for x in c.model_names],
                flux=[[float(v) for v in row] for row in c.flux.to(u.mJy).value],
                error=[[float(v) for v in row] for row in c.error.to(u.mJy).value],
                filtwav=None if c.central_wavelength is None else float(c.central_wavelength.to(u.micron).value),
                apertures=None if c.apertures is None else [float(v) for v in c.apertures.to(u.au).value])


# ---- model side

def filt_pts(pkg, k, norm_resp=None):
    f = pkg['filters'][k]
    nu, resp = _ord(f['nu'], f['order']), _ord(norm_resp if norm_resp is not None else f['resp'], f['order'])
    return [[F(a), F(b)] for a, b in zip(nu, resp)]


def sedm(pkg, n, order=None):
    sd = pkg['seds'][n]
    o = order or sd['order']
    nus = _ord(sd.get('nu', pkg['nu']), o)
    return [key(n), [F(x) for x in nus], [[to_mjy(pkg, x, v) for x, v in zip(_ord(row, o), nus)] for row in sd['flux']],
            [[to_mjy(pkg, x, v) for x, v in zip(_ord(row, o), nus)] for row in sd['err']]]
