import os, tempfile, sys
import numpy as np
import matplotlib
matplotlib.use('Agg')
from astropy import units as u
from astropy.table import Table
from sedfitter.sed import SEDCube
from sedfitter.extinction import Extinction
from sedfitter.fit import Fitter, fit
from sedfitter.source import Source
from sedfitter.plot import plot
from sedfitter.fit_info import FitInfoFile


def make_package(d, n_models=6, n_ap=5, n_wav=30, aperture_dependent=True, val_unit=u.mJy,
                 wav_unit=u.micron, ap_unit=u.au, seed=1, unc=True, names=None, wav=None, aps=None,
                 reverse_wav=False):
    rng = np.random.RandomState(seed)
    cube = SEDCube()
    cube.names = np.array(names if names is not None else ['m%03d' % i for i in range(n_models)])
    n_models = len(cube.names)
    cube.distance = 1 * u.kpc
    w = np.logspace(-1, 2.5, n_wav) if wav is None else np.asarray(wav)
    if reverse_wav:
        w = w[::-1]
    cube.wav = (w * u.micron).to(wav_unit)
    if n_ap is None:
        cube.apertures = None
        nn = 1
    else:
        a = np.logspace(1.5, 5.5, n_ap) if aps is None else np.asarray(aps)
        cube.apertures = (a * u.au).to(ap_unit)
        nn = n_ap
    v = np.cumsum(0.1 + rng.random_sample((n_models, nn, n_wav)), axis=1)
    cube.val = v * val_unit
    if unc:
        cube.unc = cube.val * 0.01
    cube.write(os.path.join(d, 'flux.fits'))
    with open(os.path.join(d, 'models.conf'), 'w') as f:
        f.write("name = test\nlength_subdir = 0\naperture_dependent = %s\nlogd_step = 0.02\nversion = 2\n" % ('yes' if aperture_dependent else 'no'))
    t = Table()
    t['MODEL_NAME'] = np.array(cube.names, dtype='S')
    t['par1'] = rng.random_sample(n_models)
    t.write(os.path.join(d, 'parameters.fits'))
    return cube


def make_ext():
    e = Extinction()
    e.wav = np.logspace(-2., 3., 60) * u.micron
    e.chi = e.wav.value ** -1.5 * u.cm ** 2 / u.g
    return e


def check(info_or_file, sed_type, n_sel, infos=None, rtol=1e-9, **kw):
    figs = plot(info_or_file, select_format=('N', n_sel), sed_type=sed_type, **kw)
    fin = FitInfoFile(info_or_file, 'r')
    filters = fin.meta.filters
    wav = np.array([f['wav'].to(u.micron).value for f in filters])
    ap = np.array([f['aperture_arcsec'] for f in filters])
    out = []
    for info in fin:
        info.keep(('N', n_sel))
        segs = figs[info.source.name]['lines'].get_segments()
        if sed_type == 'interp':
            nshow = 1
            aps_shown = None
        elif sed_type == 'largest':
            nshow = 1; aps_shown = [ap.max()]
        elif sed_type == 'largest+smallest':
            nshow = 2; aps_shown = [ap.min(), ap.max()]
        else:
            aps_shown = list(np.unique(ap)); nshow = len(aps_shown)
        assert len(segs) == info.n_fits * nshow, (len(segs), info.n_fits, nshow)
        # order: worst first, best last
        for k, i in enumerate(range(info.n_fits - 1, -1, -1)):
            pred = 10. ** info.model_fluxes[i] * 1e-26 * (299792458. / (wav * 1e-6)) * (3.0856775814913673e21 / 3.086e21) ** 2
            for j in range(len(wav)):
                if sed_type == 'interp':
                    seg = segs[k]
                else:
                    if ap[j] not in aps_shown:
                        continue
                    seg = segs[k * nshow + aps_shown.index(ap[j])]
                idx = np.argmin(np.abs(np.log(seg[:, 0]) - np.log(wav[j])))
                assert abs(seg[idx, 0] / wav[j] - 1) < 1e-9, (seg[idx, 0], wav[j])
                r = seg[idx, 1] / pred[j]
                out.append(r)
                assert abs(r - 1) < rtol, "source %s fit %d filter %d mode %s: drawn %g predicted %g ratio %g" % (info.source.name, i, j, sed_type, seg[idx, 1], pred[j], r)
    fin.close()
    return np.array(out)
