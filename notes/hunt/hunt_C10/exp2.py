import sys; sys.path.insert(0, 'hunt_out')
from common import *
from sedfitter import fit, Fitter, write_parameters, write_parameter_ranges, extract_parameters, plot, plot_params_1d, plot_params_2d, filter_output
from sedfitter.source import Source
from sedfitter.fit_info import FitInfoFile
import copy, hashlib, traceback
tmp = tempfile.mkdtemp()
cnt = [0]
def fresh(p='o'):
    cnt[0] += 1
    return os.path.join(tmp, '%s%d' % (p, cnt[0]))
def snap(i):
    return copy.deepcopy(i.__getstate__())
def same_state(a, b):
    for k in ['av', 'sc', 'chi2', 'model_id', 'model_name', 'model_fluxes']:
        if not arr_eq(a[k], b[k]): return False
    return src_eq(a['source'], b['source'])
def dirdump(d):
    out = {}
    for f in sorted(os.listdir(d)):
        out[f] = open(os.path.join(d, f), 'rb').read()
    return out
for version, apdep in [(1, False), (2, True)]:
    md = fresh('m'); os.mkdir(md)
    build(md, version, apdep)
    ext = extlaw()
    lines = [
     "s1 0.0 0.0 1 1 1 0.2 0.1 1.3 0.2 1.5 0.3",
     "s2 1.0 2.0 1 0 1 0.2 0.05 1.2 0.1 1.8 0.3",
     "s4 1.0 2.0 1 4 9 0.2 0.05 -0.2 0.1 1.8 0.3",
     "s5 1.0 2.0 2 3 1 0.2 0.5 1.2 0.9 1.8 0.3",
    ]
    df = fresh('d'); open(df, 'w').write("\n".join(lines) + "\n")
    filt = ['bob', 'alice', 'eve']; aps = [1., 3., 3.] * u.arcsec
    kw = dict(extinction_law=ext, distance_range=[1., 2.] * u.kpc, av_range=[0., 0.1])
    for of, oc in [(('A', 0), True), (('C', 1e-9), False), (('N', 3), True)]:
        out = fresh()
        quiet(fit, df, filt, aps, md, out, n_data_min=1, output_format=of, output_convolved=oc, **kw)
        meta, recs = read_all(out)
        fitter = quiet(Fitter, filt, aps, md, **kw)
        recs2 = []
        for l in lines:
            i = fitter.fit(Source.from_ascii(l))
            if not oc: i.model_fluxes = None
            i.keep(of); recs2.append(i)
        forms = {'file': out, 'list': recs, 'tuple': tuple(recs), 'objlist': recs2}
        sels = [('N', 2), ('A', 0), ('F', 1.), ('N', 1), ('C', 3.), ('N', 0)]
        def run(form, inp):
            res = []
            for sel in sels:
                o = fresh('wp'); quiet(write_parameters, inp, o, select_format=sel); res.append(open(o).read())
                o = fresh('wr'); quiet(write_parameter_ranges, inp, o, select_format=sel); res.append(open(o).read())
                o = fresh('ex'); os.mkdir(o); quiet(extract_parameters, inp, o + '/', '.txt', select_format=sel); res.append(dirdump(o))
                figs = quiet(plot, inp, select_format=sel, sed_type='all')
                res.append({k: [p.vertices.tolist() for p in v['lines'].get_paths()] if 'lines' in v else None for k, v in figs.items()})
                if oc:
                    o = fresh('pl'); quiet(plot, inp, o, select_format=sel, show_convolved=True, format='png', plot_mode='I'); res.append(sorted(os.listdir(o)))
                o = fresh('p1'); quiet(plot_params_1d, inp, 'par1', output_dir=o, select_format=sel, format='png'); res.append(sorted(os.listdir(o)))
                o = fresh('p2'); quiet(plot_params_2d, inp, 'par1', 'par2', output_dir=o, select_format=sel, format='png'); res.append(sorted(os.listdir(o)))
            return res
        results = {}
        for name, inp in forms.items():
            before = None if name == 'file' else [snap(i) for i in inp]
            bfile = open(out, 'rb').read()
            try:
                results[name] = run(name, inp)
            except Exception as e:
                print("CRASH", version, of, oc, name); traceback.print_exc(); continue
            assert open(out, 'rb').read() == bfile
            if before is not None:
                for b, i in zip(before, inp):
                    if not same_state(b, i.__getstate__()):
                        print("MUTATED", version, of, oc, name, i.source.name)
        for name in results:
            if results[name] != results['file']:
                for j, (a, b) in enumerate(zip(results[name], results['file'])):
                    if a != b: print("DIFFERS", version, of, oc, name, j)
        # single object
        for k in range(len(recs)):
            o1 = fresh('wp'); quiet(write_parameters, recs[k], o1, select_format=('A', 0))
            o2 = fresh('wp'); quiet(write_parameters, [recs[k]], o2, select_format=('A', 0))
            assert open(o1).read() == open(o2).read()
        # two reads
        _, recsb = read_all(out)
        try:
            o = fresh('wp'); quiet(write_parameters, [recs[0], recsb[1]], o)
        except Exception as e:
            print("TWO-READ list refused:", repr(e))
        # filter_output
        try:
            g, b = fresh('g'), fresh('b')
            quiet(filter_output, out, g, b, cpd=3.)
            g2, b2 = fresh('g'), fresh('b')
            quiet(filter_output, recs, g2, b2, cpd=3.)
            assert open(g, 'rb').read() == open(g2, 'rb').read() and open(b, 'rb').read() == open(b2, 'rb').read()
        except Exception as e:
            print("filter_output", of, repr(e))
print("done")
