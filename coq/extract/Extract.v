(* Extraction of the executable model.  Directives used: those of the stdlib files
   ExtrOcamlBasic and ExtrOcamlZBigInt (positive/Z/N -> zarith big integers), nothing of ours. *)
Require Coq.extraction.Extraction.
Require Import ExtrOcamlBasic ExtrOcamlZBigInt.
From SedV Require Import Xnum Keep SrcAscii FilterOut.
Extraction Language OCaml.
Extraction "sedmodel.ml" Keep.nkeep SrcAscii.from_ascii_m FilterOut.filter_output_m.
