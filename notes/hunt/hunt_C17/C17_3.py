"""C17 violation: display mode 'all' with more than 11 distinct apertures.

plot() colours the curves of the multi-curve display modes with color['full'][j] /
color['faded'][j], lists that have only 11 entries.  A 12-filter fit in which every
filter has its own aperture makes sed_type='all' raise IndexError instead of
returning 12 curves per selected fit."""
import os, io, sys, tempfile, contextlib
import numpy as np
import matplotlib
matplotlib.use('Agg')
from astropy import units as u
from sedfitter.sed import SEDCube
from sedfitter.extinction import Extinction
from sedfitter.source import Source
from sedfitter.fit import Fitter
from sedfitter.plot import plot

d = tempfile.mkdtemp()
rng = np.random.RandomState(1)
n_models, n_ap, n_wav = 5, 6, 40
cube = SEDCube()
cube.names = np.array(['model_%04d' % i for i in range(n_models)])
cube.distance = 1 * u.kpc
cube.wav = np.logspace(-1., 3., n_wav) * u.micron
cube.apertures = np.logspace(1., 6., n_ap) * u.au
cube.val = (np.cumsum(rng.random_sample((n_models, n_ap, n_wav)), axis=1) + 1) * u.mJy
cube.unc = cube.val * 0.01
cube.write(os.path.join(d, 'flux.fits'))
with open(os.path.join(d, 'models.conf'), 'w') as f:
    f.write("name = test\nlength_subdir = 0\naperture_dependent = yes\nlogd_step = 0.02\nversion = 2\n")

ext = Extinction()
ext.wav = np.logspace(-2, 4, 60) * u.micron
ext.chi = (ext.wav.value ** -1.5 * 100 + 1) * u.cm ** 2 / u.g

n = 12
wavs = [cube.wav[i] for i in range(3, 39, 3)]
aps = 2. + 0.5 * np.arange(n)                      # 12 distinct apertures
with contextlib.redirect_stdout(io.StringIO()):
    fitter = Fitter(wavs, aps * u.arcsec, d, extinction_law=ext, av_range=(0., 10.),
                    distance_range=(0.5, 3.) * u.kpc)
s = Source()
s.name = 'src'; s.x = 0.; s.y = 0.
s.valid = [1] * n; s.flux = list(1. + np.arange(n)); s.error = list(0.1 * (1. + np.arange(n)))
info = fitter.fit(s)

nsel = 2
# the other display modes are fine
for mode, ncurves in [('interp', 1), ('largest', 1), ('largest+smallest', 2)]:
    segs = plot(info, select_format=('N', nsel), sed_type=mode)['src']['lines'].get_segments()
    assert len(segs) == nsel * ncurves
try:
    figs = plot(info, select_format=('N', nsel), sed_type='all')
except IndexError as e:
    raise AssertionError("C17 'number of curves = selected fits x apertures shown, for every display mode' fails: "
                         "plot(sed_type='all') on a 12-filter fit with 12 distinct apertures raises IndexError(%s) "
                         "(only 11 colours are defined) instead of returning %d curves" % (e, nsel * n))
assert len(figs['src']['lines'].get_segments()) == nsel * n
