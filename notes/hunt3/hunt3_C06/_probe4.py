import os, sys, tempfile, shutil
import numpy as np
from astropy import units as u
sys.path.insert(0, os.path.dirname(__file__))
from _lib import *
from sedfitter.filter import Filter
from sedfitter.convolve import convolve_model_dir
from sedfitter.fit import Fitter
from sedfitter.source import Source
from sedfitter.extinction import Extinction
from sedfitter.sed import SEDCube

ext = Extinction(); ext.wav = np.logspace(-2, 4, 60) * u.micron; ext.chi = ext.wav.value ** -1.5 * u.cm**2 / u.g
rng = np.random.default_rng(int(sys.argv[1]) if len(sys.argv) > 1 else 0)
bad = 0
for trial in range(25):
    tmp = tempfile.mkdtemp()
    d1 = os.path.join(tmp, 'v1'); d2 = os.path.join(tmp, 'v2'); os.mkdir(d1); os.mkdir(d2)
    nm = rng.integers(1, 9); nap = rng.integers(1, 6); nw = rng.integers(5, 81)
    apdep = bool(nap > 1 and rng.random() < 0.7)
    names = ['mod_%d' % i for i in rng.permutation(50)[:nm]]
    nu = np.sort(rng.uniform(1e13, 3e13, nw))
    aps = np.sort(np.concatenate([[10.], rng.uniform(100, 1e5, nap - 1)]))
    flux = np.cumsum(rng.uniform(0.1, 10, (nm, nap, nw)), axis=1); err = flux * rng.uniform(0.01, 0.1, (nm, nap, nw))
    for k, n in enumerate(names):
        write_sed_raw(os.path.join(d1, 'seds', n + '_sed.fits'), n, nu, flux[k], err[k], aps, reverse=rng.random() < 0.5, gz=rng.random() < 0.3)
    perm = rng.permutation(nm); pnames = [names[i] for i in perm]
    write_conf(d1, 1, apdep); write_params(d1, pnames)
    cube = SEDCube(); cube.names = np.array(pnames); cube.distance = 1 * u.kpc
    rev = rng.random() < 0.5
    cube.nu = (nu[::-1] if rev else nu) * u.Hz
    cube.apertures = aps * u.au
    cf = flux[perm]; ce = err[perm]
    if rev: cf = cf[:, :, ::-1]; ce = ce[:, :, ::-1]
    cube.val = cf * u.mJy; cube.unc = ce * u.mJy
    cube.write(os.path.join(d2, 'flux.fits')); write_conf(d2, 2, apdep); write_params(d2, pnames)
    filters = []
    nfil = rng.integers(3, 6)
    for j in range(nfil):
        nf = rng.integers(2, 61)
        lo, hi = np.sort(rng.uniform(1.0e13, 3.0e13, 2))
        fnu = np.sort(rng.uniform(lo, hi, nf)); fr = rng.uniform(0.1, 1, nf)
        if rng.random() < 0.5: fnu = fnu[::-1]
        f = Filter(name='filt%d' % j, central_wavelength=(299792458. / np.mean(fnu) * 1e6) * u.micron, nu=fnu * u.Hz, response=fr)
        f.normalize(); filters.append(f)
    convolve_model_dir(d1, filters); convolve_model_dir(d2, filters, memmap=bool(rng.random() < 0.5))
    fn = ['filt%d' % j for j in rng.permutation(nfil)]
    apa = rng.uniform(1, 20, nfil) * u.arcsec
    kw = dict(extinction_law=ext, av_range=[0., 10.], distance_range=[0.5, 3.] * u.kpc, remove_resolved=bool(rng.random() < 0.5))
    res = []
    for d, mm in ((d1, False), (d2, False), (d2, True)):
        ft = Fitter(fn, apa, d, use_memmap=mm, **kw)
        out = []
        for s_i in range(2):
            s = Source(); s.name = 's%d' % s_i; s.x = 0; s.y = 0
            r2 = np.random.default_rng(trial * 10 + s_i)
            s.valid = r2.choice([1, 1, 1, 4, 2, 3, 0], nfil); 
            if np.sum((s.valid == 1) | (s.valid == 4)) < 2: s.valid[:] = 1
            s.flux = r2.uniform(1, 50, nfil); s.error = s.flux * r2.uniform(0.05, 0.2, nfil)
            s.error[(s.valid == 2) | (s.valid == 3)] = 0.9
            info = ft.fit(s)
            out.append(info)
        res.append(out)
    for s_i in range(2):
        a, b, c = res[0][s_i], res[1][s_i], res[2][s_i]
        fin = np.isfinite(a.chi2)
        ok = list(a.model_name) == list(b.model_name) and np.allclose(a.chi2[fin], b.chi2[fin], rtol=1e-9) and np.allclose(a.av, b.av, rtol=1e-9, atol=1e-12) and np.allclose(a.sc, b.sc, rtol=1e-9, atol=1e-12) and np.array_equal(np.isfinite(a.chi2), np.isfinite(b.chi2))
        if not ok:
            bad += 1; print("V1/V2 MISMATCH", trial, s_i, a.model_name, b.model_name, a.chi2, b.chi2, a.av, b.av, a.sc, b.sc)
        # memmap: tolerant, compare by name
        ia = np.argsort(a.model_name); ic = np.argsort(c.model_name)
        if not (np.allclose(a.chi2[ia][np.isfinite(a.chi2[ia])], c.chi2[ic][np.isfinite(c.chi2[ic])], rtol=1e-3, atol=1e-3)):
            bad += 1; print("MEMMAP MISMATCH", trial, s_i, a.chi2[ia], c.chi2[ic])
    shutil.rmtree(tmp)
print('bad', bad)
