import sys; sys.path.insert(0, 'hunt_out/scratch')
from c11lib import *
import io, contextlib, copy, pickle
from sedfitter import fit
from sedfitter.fit_info import FitInfoFile
e = ext()
def quiet(f, *a, **k):
    with contextlib.redirect_stdout(io.StringIO()):
        return f(*a, **k)
rng = np.random.default_rng(11)
nf, nm = 4, 8
names = ['m%02i' % i for i in range(nm)][::-1]
fn = ['b', 'a', 'ab', 'B']; fw = [3., 1., 10., 30.]
fl = rng.uniform(0.1, 20, (nm, 1, nf))
d = make_v1(names, fn, fw, fl)
for avr in [[0., 10.], [-5., 5.], [2., 2.], [0., 0.], [3., 40.]]:
    kw = dict(extinction_law=e, av_range=avr, distance_range=[0.5, 3.] * u.kpc)
    F = quiet(Fitter, fn, [3.]*nf * u.arcsec, d, **kw)
    srcs = []
    for k in range(6):
        valid = rng.choice([0,1,1,1,2,3,4,9], nf); valid[:2] = 1
        flux = rng.uniform(0.5, 30, nf); err = flux * rng.uniform(0.02, 0.3, nf)
        lim = (valid == 2) | (valid == 3); err[lim] = rng.uniform(0.1, 0.9, lim.sum())
        srcs.append(make_source(valid.tolist(), flux, err, name='s%i' % k))
    solo = []
    for s in srcs:
        F1 = quiet(Fitter, fn, [3.]*nf * u.arcsec, d, **kw)
        solo.append(F1.fit(s))
    import itertools
    for order in [list(range(6)), list(range(6))[::-1], [0,0,3,3,5,1], [2,4,2,4,2,4]]:
        for i in order:
            s0 = copy.deepcopy(srcs[i])
            r = F.fit(srcs[i])
            assert srcs[i] == s0
            for attr in ['av', 'sc', 'chi2']:
                assert np.array_equal(getattr(r, attr), getattr(solo[i], attr), equal_nan=True), (avr, i, attr)
            assert list(r.model_name) == list(solo[i].model_name)
            # consumer mutates the result
            r.av[:] = 99; r.sc[:] = 99; r.chi2[:] = -1; r.keep(('N', 1)); r.model_fluxes[:] = 0
    # scaling with clipping
    for s in srcs:
        base = as_map(F.fit(s))
        for c in [1e-4, 1e4, 7.]:
            lim = (s.valid == 2) | (s.valid == 3); l4 = s.valid == 4
            f2 = s.flux * c; e2 = s.error * c; e2[lim] = s.error[lim]; f2[l4] = s.flux[l4] + np.log10(c); e2[l4] = s.error[l4]
            w = cmp_maps(base, as_map(F.fit(make_source(s.valid, f2, e2))), dsc=-0.5*np.log10(c))
            assert w < 1e-9, (avr, c, w)
print("history/scale ok")
# module-level fit with several sources
data = tempfile.mktemp()
with open(data, 'w') as f:
    for s in srcs: f.write(s.to_ascii() + '\n')
out = tempfile.mktemp()
quiet(fit, data, fn, [3.]*nf*u.arcsec, d, out, extinction_law=e, av_range=[0., 10.], distance_range=[0.5,3]*u.kpc, output_format=('A', 0), n_data_min=2, output_convolved=True)
fin = FitInfoFile(out, 'r')
F = quiet(Fitter, fn, [3.]*nf * u.arcsec, d, extinction_law=e, av_range=[0., 10.], distance_range=[0.5,3]*u.kpc)
n = 0
for info in fin:
    s = Source.from_ascii(srcs[n].to_ascii())
    r = F.fit(s)
    assert np.allclose(r.chi2, info.chi2) and list(r.model_name) == list(info.model_name), n
    n += 1
print('fit() ok', n)
