(* ResolvedM — the `extended` array of Models.read with remove_resolved=True, as the code computes it: for each model and band the
   surface-brightness radius (RadiusM.radius_sigma_m, fraction 1/2) of the ALREADY distance-interpolated and 1/d^2-scaled fluxes,
   taken over the aperture radii theta*d of the trial distances, compared with those same radii.  No property states what
   remove_resolved should remove; this file says what it does, and RadiusM what that means. *)
From Coq Require Import QArith List Bool Arith Lia Lqa.
Import ListNotations.
From SedV Require Import PLin FitModel RadiusM.

Open Scope Q_scope.

Definition aps_of (theta : Q) (ds : list Q) : list Q := map (fun d => theta * (d * 1000)) ds.

Definition column (j : nat) (fl : list (list Q)) : list Q := map (fun row => nth j row 0) fl.

(* the apertures ConvolvedFluxes.interpolate leaves behind: those beyond the table reset to the largest tabulated one (tables with
   a single aperture are repeated and nothing is reset) *)
Definition clamped (tab : list pt) (aps : list Q) : list Q :=
  match tab with
  | _ :: _ :: _ => map (fun a => if Qlt_le_dec (tab_hi tab) a then tab_hi tab else a) aps
  | _ => aps
  end.

(* per band: the radius, the mask over the distances, and (for the correspondence check's tie detection) the threshold and the
   finite surface brightnesses the radius was computed from.  None: a surface brightness was +inf or nan (outside the model) *)
Record bandres := { b_radius : Q; b_mask : list bool; b_thr : Q; b_sigma : list Q }.

Definition band_res (tab : list pt) (theta : Q) (ds : list Q) (col : list Q) : option bandres :=
  let aps := aps_of theta ds in
  let capped := clamped tab aps in
  match sigma_o capped col with
  | Some sg => let thr := (1 # 2) * qmax (somes sg) in
               let r := radius_thr_o thr capped sg in
               Some {| b_radius := r; b_mask := ext_mask aps r; b_thr := thr; b_sigma := somes sg |}
  | None => None
  end.

Fixpoint band_masks (j : nat) (tabs : list (list pt)) (thetas ds : list Q) (fl : list (list Q)) : list (option bandres) :=
  match tabs, thetas with
  | tab :: tr, theta :: thr => band_res tab theta ds (column j fl) :: band_masks (S j) tr thr ds fl
  | _, _ => []
  end.

Definition ext_rows (n : nat) (bm : list bandres) : list (list bool) :=
  map (fun i => map (fun b => nth i (b_mask b) false) bm) (seq 0 n).

(* one model: per-band results and the mask [distance][band] *)
Definition resolved_model (thetas ds : list Q) (tabs : list (list pt)) : option (list bandres * list (list bool)) :=
  match all_some (map (fun d => all_some (scaled_band_list tabs thetas d)) ds) with
  | Some fl => match all_some (band_masks 0 tabs thetas ds fl) with
               | Some bm => Some (bm, ext_rows (length ds) bm)
               | None => None
               end
  | None => None
  end.

Definition resolved_pkg (thetas ds : list Q) (models : list (list (list pt))) : list (option (list bandres * list (list bool))) :=
  map (resolved_model thetas ds) models.

(* the radius is the one RadiusM describes, computed on the reset apertures; the mask compares it with the requested ones *)
Lemma band_res_spec tab theta ds col b : band_res tab theta ds col = Some b ->
  radius_sigma_o (1 # 2) (clamped tab (aps_of theta ds)) col = Some (b_radius b) /\
  b_mask b = ext_mask (aps_of theta ds) (b_radius b).
Proof.
  unfold band_res, radius_sigma_o. destruct (sigma_o _ col) as [sg|]; [|discriminate].
  intro H. injection H as <-. split; reflexivity.
Qed.

(* a model is never marked as resolved at a distance whose aperture lies at or beyond the largest tabulated one *)
Lemma clamped_nondecreasing tab aps : increasing aps -> nondecreasing (clamped tab aps).
Proof.
  intro I. unfold clamped. destruct tab as [|p [|p' t]].
  1,2: induction I; constructor; try lra; assumption.
  set (hi := tab_hi (p :: p' :: t)). induction I as [| |a a' r L I IH]; simpl; try constructor.
  - destruct (Qlt_le_dec hi a), (Qlt_le_dec hi a'); lra.
  - exact IH.
Qed.

Lemma clamped_last_le tab aps : 0 < tab_hi tab -> (forall a, In a aps -> 0 < a) -> aps <> [] -> (2 <= length tab)%nat ->
  last (clamped tab aps) 0 <= tab_hi tab.
Proof.
  intros H P NE L. unfold clamped. destruct tab as [|p [|p' t]]; [simpl in L; lia|simpl in L; lia|].
  set (hi := tab_hi (p :: p' :: t)) in *. clearbody hi.
  induction aps as [|a r IH]; [congruence|]. destruct r as [|b r'].
  - simpl. destruct (Qlt_le_dec hi a); lra.
  - change (last (map (fun a0 => if Qlt_le_dec hi a0 then hi else a0) (a :: b :: r')) 0)
      with (last (map (fun a0 => if Qlt_le_dec hi a0 then hi else a0) (b :: r')) 0).
    apply IH; [intros x Hx; apply P; right; exact Hx|discriminate].
Qed.

Theorem resolved_not_beyond_table tab theta ds col b i : (2 <= length tab)%nat -> 0 < tab_hi tab -> 0 < theta ->
  increasing ds -> (forall d, In d ds -> 0 < d) -> length col = length ds -> ds <> [] ->
  band_res tab theta ds col = Some b ->
  tab_hi tab <= nth i (aps_of theta ds) 0 -> nth i (b_mask b) false = false.
Proof.
  intros Lt Hh Ht I Pd Lc NE Hb Hi.
  destruct (band_res_spec _ _ _ _ _ Hb) as [Hr Hm].
  assert (Pa : forall a, In a (aps_of theta ds) -> 0 < a).
  { intros a Ha. unfold aps_of in Ha. apply in_map_iff in Ha. destruct Ha as (d & <- & Hd). specialize (Pd d Hd). nra. }
  assert (Ia : increasing (aps_of theta ds)).
  { clear -Ht I. induction I as [| |a a' r L I IH]; simpl; try constructor; [nra|exact IH]. }
  assert (NEa : aps_of theta ds <> []) by (unfold aps_of; destruct ds; [congruence|discriminate]).
  assert (Pc : forall a, In a (clamped tab (aps_of theta ds)) -> 0 < a).
  { unfold clamped. destruct tab as [|p [|p' t]]; try exact Pa. intros a Ha. apply in_map_iff in Ha. destruct Ha as (x & <- & Hx).
    destruct (Qlt_le_dec _ x); [exact Hh|apply Pa; exact Hx]. }
  assert (Lcl : length col = length (clamped tab (aps_of theta ds))).
  { unfold clamped, aps_of. destruct tab as [|p [|p' t]]; rewrite ?map_length; exact Lc. }
  pose proof (radius_sigma_o_le_last (1 # 2) _ col (b_radius b) (clamped_nondecreasing tab _ Ia) Pc Lcl Hr) as R.
  pose proof (clamped_last_le tab _ Hh Pa NEa Lt) as C.
  rewrite Hm. unfold ext_mask.
  destruct (Nat.lt_ge_cases i (length (aps_of theta ds))) as [Li|Li].
  - rewrite (nth_indep _ false ((fun a => if Qlt_le_dec a (b_radius b) then true else false) 0)) by (rewrite map_length; exact Li).
    rewrite (map_nth (fun a => if Qlt_le_dec a (b_radius b) then true else false)).
    destruct (Qlt_le_dec (nth i (aps_of theta ds) 0) (b_radius b)); [lra|reflexivity].
  - apply nth_overflow. rewrite map_length. exact Li.
Qed.

(* a larger distance never turns an unresolved model into a resolved one (per band): the mask is an initial segment of the grid *)
Lemma aps_increasing theta ds : 0 < theta -> increasing ds -> increasing (aps_of theta ds).
Proof.
  intros T I. induction I as [| |a a' r L I IH]; simpl; try constructor.
  - nra.
  - exact IH.
Qed.

Theorem resolved_initial_segment theta ds fl i j : 0 < theta -> increasing ds -> (i <= j)%nat ->
  let aps := aps_of theta ds in
  let m := ext_mask aps (radius_sigma_m (1 # 2) aps fl) in
  nth j m false = true -> nth i m false = true.
Proof.
  intros T I Hij aps m. apply ext_mask_initial; [apply aps_increasing; assumption|exact Hij].
Qed.
