"""C19 — every truncation offset of real fit files: FitInfoFile against the framing model (Frame.scan / Reader.read_all /
StreamM.reader_m) and the prefix-or-error clause."""
import math
import os
import tempfile

from common import Rng
import fitutil

PROP = 'C19'
MODEL_OPS = 'Reader.read_all on the whole file and sampled cuts (opcode classes from pickletools.genops), StreamM.reader_m / Reader.cut_status at EVERY offset'
RULE = ('real fit files with 1-4 records of varying size, with and without predicted fluxes, NaN/inf chi2; pickletools.genops maps every opcode to a framing class '
        '(unknown opcodes fail closed) and every instruction is checked to have the length its class predicts; EVERY truncation offset 0..len-1 is read by '
        'FitInfoFile and by the model. quick: 2 files + 1 file of equal-length records; thorough: 16 + 4 files. evaluations = offsets read; non-trivial case = a file with >= 2 records.')
EXHAUSTIVE = {'quick': True, 'thorough': True}
ASSUMPTIONS = ["CPython's unpickler never returns an object before STOP and raises on an incomplete pickle (pickle's contract; exercised at every offset)",
               'which exception ends a truncated stream (EOFError / UnpicklingError / ...) is not compared']


def generate(tier, seed):
    rng = Rng(seed * 611953 + 19)
    cases = []
    nfiles = 2 if tier == 'quick' else 16
    for k in range(nfiles):
        nrec = [2, 4, 1, 3][k % 4]
        recs = []
        for i in range(nrec):
            m = rng.randint(1, 6)
            chi = sorted(rng.dyadic(0, 40, 8) for _ in range(m)) + rng.choice([[], [math.inf], [math.nan]])
            recs.append(dict(name='s%d_%s' % (i, 'x' * rng.randint(0, 9)), nd=rng.choice([1, 2, 3, 5]), chi2=chi, fluxes=(k + i) % 2 == 0))
        cases.append(dict(recs=recs))
    # files whose consecutive records have exactly the same serialized length (same shape, names of equal length, same numbers)
    for k in range(1 if tier == 'quick' else 4):
        m = rng.randint(1, 4)
        chi = sorted(rng.dyadic(0, 40, 8) for _ in range(m))
        pad = 'y' * rng.randint(0, 5)
        cases.append(dict(recs=[dict(name='t%d_%s' % (i, pad), nd=2, chi2=list(chi), fluxes=k % 2 == 0) for i in range(rng.randint(2, 3))]))
    return cases


def _classes(data):
    """per pickle in the stream: list of (opcode byte, class spec, position, encoded length); fails closed on anything unknown"""
    import io
    import pickletools
    frames, pos = [], 0
    while pos < len(data):
        ops = list(pickletools.genops(io.BytesIO(data[pos:])))
        insts = []
        for i, (op, arg, p) in enumerate(ops):
            nxt = ops[i + 1][2] if i + 1 < len(ops) else None
            code = op.code.encode('latin1')[0]
            if op.name == 'STOP':
                cls, ln = ['S'], 1
            elif op.arg is None:
                cls = ['F', 0]
            elif op.arg.n >= 0:
                cls = ['F', op.arg.n]
            elif op.arg.n == pickletools.TAKEN_FROM_ARGUMENT1:
                cls = ['L', 1]
            elif op.arg.n in (pickletools.TAKEN_FROM_ARGUMENT4, pickletools.TAKEN_FROM_ARGUMENT4U):
                cls = ['L', 4]
            elif op.arg.n == pickletools.TAKEN_FROM_ARGUMENT8U:
                cls = ['L', 8]
            elif op.arg.n == pickletools.UP_TO_NEWLINE and op.arg.name == 'stringnl_noescape_pair':
                cls = ['2']
            else:
                raise ValueError('opcode %s has an argument kind the framing model does not know' % op.name)
            if op.name != 'STOP':
                ln = nxt - p
            # the class must predict the encoded length
            b = data[pos + p: pos + p + ln]
            if cls[0] == 'F':
                ok = ln == 1 + cls[1]
            elif cls[0] == 'L':
                ok = ln == 1 + cls[1] + int.from_bytes(b[1:1 + cls[1]], 'little')
            elif cls[0] == '2':
                ok = b.count(b'\n') == 2 and b.endswith(b'\n')
            else:
                ok = True
            if not ok:
                raise ValueError('opcode %s at %d does not have the length its class predicts' % (op.name, pos + p))
            insts.append([code, cls, pos + p, ln])
        end = pos + ops[-1][2] + 1
        frames.append(dict(start=pos, length=end - pos, insts=insts))
        pos = end
    return frames


def impl(case):
    from sedfitter.fit_info import FitInfoFile
    meta = fitutil.make_meta()
    infos = [fitutil.make_info(r['name'], [1] * r['nd'] + [0, 9], r['chi2'], meta=meta, fluxes=r['fluxes']) for r in case['recs']]
    written = [fitutil.info_state(i) for i in infos]
    with tempfile.TemporaryDirectory() as d:
        p = os.path.join(d, 'full.fitinfo')
        f = FitInfoFile(p, 'w')
        for i in infos:
            f.write(i)
        f.close()
        data = open(p, 'rb').read()
        try:
            frames, framing_error = _classes(data), None
        except Exception as e:      # the file is not the stream of pickles the framing model describes
            frames, framing_error = [], '%s: %s' % (type(e).__name__, e)
        results = []
        q = os.path.join(d, 'cut.fitinfo')
        for k in range(len(data)):
            with open(q, 'wb') as g:
                g.write(data[:k])
            try:
                fin = FitInfoFile(q, 'r')
            except Exception as e:
                results.append(['openerror', type(e).__name__])
                continue
            got, ended = [], 'eof'
            try:
                for info in fin:
                    try:
                        st = fitutil.info_state(info)
                    except Exception as e:      # an object that is not even a well-formed record
                        st = {'garbage': type(e).__name__}
                    got.append(st)
            except Exception as e:
                ended = 'error:' + type(e).__name__
            try:
                fin.close()
            except Exception:
                pass
            results.append(['ok', len(got), ended, got == written[:len(got)]])
    table = {}
    for fr in frames:
        for code, cls, _, _ in fr['insts']:
            if table.setdefault(code, cls) != cls:
                raise ValueError('opcode %d maps to two classes' % code)
    return dict(size=len(data), framing_error=framing_error, lens=[fr['length'] for fr in frames], ninst=[len(fr['insts']) for fr in frames],
                table=[[c, table[c]] for c in sorted(table)], data=list(data), results=results, nrec=len(infos))


MODEL_NEEDS_IMPL = True


def model_requests(case, im):
    if not isinstance(im, dict) or 'lens' not in im or im.get('framing_error'):
        return []
    n = im['size']
    fuel = len(im['lens']) + 2
    cuts = sorted(set([n, n - 1, im['lens'][0], im['lens'][0] + 1, sum(im['lens'][:3]), sum(im['lens'][:3]) + 7, n // 2]))
    reqs = [('reader', [im['lens'], list(range(n))])]
    for c in cuts:
        reqs.append(('scan_file', [im['table'], fuel, im['data'][:c]]))
    return reqs


def sample(case, im, mo):
    if not isinstance(im, dict) or 'lens' not in im or not im['lens']:
        return dict(case=case, impl=(im.get('framing_error') if isinstance(im, dict) else im))
    return dict(case=case, file_size=im['size'], pickle_lengths=im['lens'], opcode_classes=im['table'],
                offsets_sample=[[k, im['results'][k]] for k in (0, im['lens'][0], sum(im['lens'][:3]), sum(im['lens'][:3]) + 5, im['size'] - 1)])


def judge(case, im, mo):
    tags = ['nrec=%d' % len(case['recs'])]
    if 'exc' in im:
        return dict(disagree=['implementation / framing validation raised ' + im['msg']], fail=[], nontrivial=False, tags=tags + ['raised'])
    if any(isinstance(m, tuple) for m in mo):
        return dict(disagree=['driver %r' % ([m for m in mo if isinstance(m, tuple)][:1],)], fail=[], nontrivial=False)
    disagree, fail = [], []
    if im.get('framing_error'):
        # the framing model does not apply to this file; the property itself is still judged at every offset
        evals = 0
        for k, res in enumerate(im['results']):
            evals += 1
            if res[0] == 'ok' and (not res[3] or res[1] > im['nrec']):
                fail.append('wrong: file cut at byte %d yields %d records, and they are %s the written ones' % (k, res[1], 'a prefix of' if res[3] else 'NOT a prefix of'))
        return dict(disagree=['the fit file is not a stream of pickles as the framing model assumes: ' + im['framing_error']], fail=fail[:5], nontrivial=False, evals=evals, tags=tags + ['framing-broken'])
    n, lens = im['size'], im['lens']
    if len(lens) != 3 + im['nrec'] or sum(lens) != n:
        disagree.append('the file does not consist of 3 header pickles + one pickle per record')
    reader = mo[0]
    # scan_file on the whole file and sampled cuts must agree with the frame boundaries
    cuts = sorted(set([n, n - 1, lens[0], lens[0] + 1, sum(lens[:3]), sum(lens[:3]) + 7, n // 2]))
    for c, r in zip(cuts, mo[1:]):
        chunks, status = r
        want, acc = [], 0
        for l in lens:
            if acc + l > c:
                break
            want.append(l)
            acc += l
        wstat = 'eof' if acc == c else 'trunc'
        if chunks != want or status != wstat:
            disagree.append('Reader.read_all on the first %d bytes yields %r/%s, the pickle boundaries say %r/%s' % (c, chunks, status, want, wstat))
    evals = 0
    for k, (res, (mcount, mstat)) in enumerate(zip(im['results'], reader)):
        evals += 1
        if res[0] == 'openerror':
            if mcount != []:
                disagree.append('offset %d: implementation cannot open, model yields %r records' % (k, mcount))
            continue
        _, cnt, ended, match = res
        if not match:
            fail.append('wrong: file cut at byte %d yields a record that differs from the written one' % k)
        if cnt > im['nrec']:
            fail.append('invented: file cut at byte %d yields %d records, %d were written' % (k, cnt, im['nrec']))
        if mcount == []:
            disagree.append('offset %d: implementation opens the file, model says a header pickle is incomplete' % k)
        elif mcount[0] != cnt:
            disagree.append('offset %d: implementation yields %d records, model %d' % (k, cnt, mcount[0]))
        elif (mstat == 'eof') != (ended == 'eof'):
            # a cut inside a pickle must not look like a clean end only if something was lost silently; both are 'stop'
            pass
    return dict(disagree=disagree[:5], fail=fail[:5], nontrivial=len(case['recs']) >= 2, evals=evals, tags=tags + ['size=%dk' % (n // 1000)])
