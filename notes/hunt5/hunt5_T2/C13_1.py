"""
C13 - "returns the tabulated value at a tabulated radius ... requests inside, on,
above and below the table, in the table's unit or another length unit, passed as
bare numbers (AU) or quantities".

SED.interpolate_variable and SED.interpolate convert a request that is given as
a *single-precision* Quantity to AU / to the table's unit IN SINGLE PRECISION
(Quantity.to keeps the dtype).  The tabulated apertures are converted in double
precision, so a request that is exactly a tabulated radius

  (a) is refused ("Aperture(s) requested too small") by interpolate_variable
      when it is the smallest tabulated radius, given in the table's own unit
      (table in cm / km / m, request the very same numbers as float32), and
  (b) otherwise comes back with an error of 1e-7 (not the tabulated value) -
      interpolate_variable for a table in pc, interpolate for a table in km
      asked in m.

The same requests in double precision give the tabulated values exactly.
(ConvolvedFluxes.interpolate is not affected: it makes a double-precision copy
of the request before converting.)
"""
import sys
import numpy as np
from astropy import units as u
from sedfitter.sed import SED


def make_sed(apertures):
    s = SED()
    s.name = 'x'
    s.distance = 1 * u.kpc
    s.wav = np.array([1., 2., 3.]) * u.micron
    s.apertures = apertures
    s.flux = np.array([[1., 2., 3.], [2., 4., 6.], [5., 10., 15.]]) * u.mJy
    s.error = s.flux * 0.1
    return s


failures = []
filter_wav = np.array([1., 2., 3.])          # micron, = the SED wavelengths
expected_var = np.array([1., 4., 15.])       # flux[j, j]: filter j <-> aperture j

# (a) table in cm, request = the tabulated radii themselves, in cm
for unit in (u.cm, u.km, u.m):
    radii = np.array([4., 8., 16.])
    s = make_sed(radii * unit)
    ref = s.interpolate_variable(filter_wav, radii.astype(np.float64) * unit)
    assert np.allclose(ref, expected_var, rtol=1e-13), ref    # double precision is fine
    try:
        got = s.interpolate_variable(filter_wav, radii.astype(np.float32) * unit)
    except Exception as exc:
        failures.append("interpolate_variable, table [4,8,16] %s, request the same radii as a "
                        "float32 Quantity in %s: refused with %r (the request equals the tabulated "
                        "radii; the float64 request returns %s)" % (unit, unit, exc, ref))
    else:
        err = np.max(np.abs(got / expected_var - 1))
        if err > 1e-12:
            failures.append("interpolate_variable, table in %s, float32 request on the nodes: "
                            "relative error %.2e" % (unit, err))

# (b) table in pc, request the tabulated radii as float32 pc
radii = np.array([7., 9., 20.])
s = make_sed(radii * u.pc)
got = s.interpolate_variable(filter_wav, radii.astype(np.float32) * u.pc)
err = np.max(np.abs(np.asarray(got) / expected_var - 1))
if err > 1e-12:
    failures.append("interpolate_variable, table [7,9,20] pc, request [7,9,20] pc as float32 "
                    "Quantity: got %r instead of the tabulated %r (relative error %.2e)"
                    % (np.asarray(got), expected_var, err))

# (b') SED.interpolate: table in km, request the same radii in m as float32
s = make_sed(np.array([3., 6., 12.]) * u.km)
got = s.interpolate(np.array([3000., 6000., 12000.], dtype=np.float32) * u.m)
expected = s.flux.value.T
err = np.max(np.abs(got / expected - 1))
if err > 1e-12:
    failures.append("interpolate, table [3,6,12] km, request [3000,6000,12000] m as float32 "
                    "Quantity: relative error %.2e at tabulated radii (float64 request: %.1e)"
                    % (err, np.max(np.abs(s.interpolate(np.array([3000., 6000., 12000.]) * u.m) / expected - 1))))

if failures:
    print("C13 VIOLATED: a request on a tabulated radius does not return the tabulated value")
    for f in failures:
        print(" -", f)
    sys.exit(1)
print("no violation")
