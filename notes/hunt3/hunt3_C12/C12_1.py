"""
C12, clause "Extracting one model from a cube gives the SED that was put in"
(call history: two extractions of the same model from one cube).

SEDCube.get_sed() hands out *views* of the cube's value / uncertainty arrays
(and of its wavelength array).  An in-place update of an extracted SED - e.g.
`s.flux *= 2` to rescale it, which is the natural thing to do with the result
of an "extract" call - therefore silently rewrites the cube itself: the next
get_sed() of the same model, and the next cube.write(), no longer give the SED
that was put in.  Happens for cubes built in memory and for cubes read from
disk with memmap on or off.
"""
import os
import tempfile
import warnings

import numpy as np
from astropy import units as u

from sedfitter.sed import SEDCube

warnings.simplefilter('ignore')

tmp = tempfile.mkdtemp()

val = np.arange(2 * 3 * 4, dtype=float).reshape(2, 3, 4) + 1.
unc = 0.1 * val

cube = SEDCube(names=['a', 'b'], distance=1. * u.kpc,
               wav=[1., 2., 3., 4.] * u.micron,
               apertures=[10., 20., 30.] * u.au,
               val=val.copy() * u.mJy, unc=unc.copy() * u.mJy)
filename = os.path.join(tmp, 'flux.fits')
cube.write(filename)

problems = []

for memmap in (True, False):

    c = SEDCube.read(filename, order='wav', memmap=memmap)

    first = c.get_sed('a')
    assert np.all(first.flux.value == val[0]), "first extraction is already wrong"

    # the user rescales HIS extracted SED (a separate object) in place
    first.flux *= 2.
    first.error *= 2.

    second = c.get_sed('a')
    if not np.all(second.flux.value == val[0]):
        problems.append("memmap=%s: second get_sed('a') returns %s, the cube "
                        "was written with %s" % (memmap, second.flux[0], val[0, 0]))

    # ... and the cube written out again is not the cube that was read
    out = os.path.join(tmp, 'flux_copy_%s.fits' % memmap)
    c.write(out)
    c2 = SEDCube.read(out, order='wav', memmap=False)
    if not np.all(c2.val.value == val):
        problems.append("memmap=%s: cube re-written after the extraction "
                        "differs from the cube that was read" % memmap)

assert not problems, ("C12 'extracting one model from a cube gives the SED that "
                      "was put in' fails after an in-place update of a "
                      "previously extracted SED (get_sed returns views of the "
                      "cube):\n  " + "\n  ".join(problems))
print("OK")
