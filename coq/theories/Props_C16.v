(* C16 — monochromatic convolution emits every in-range wavelength at any memory limit.
   Model: Window.jlo / jhi (the two searchsorted on the reversed wavelength array), Mono.emit_fixed (the chunk loop with its
   inner loop and jmax), MonoM.mono_m, MonoM.nearest_m (nearest tabulated wavelength for cube packages); rows per file are
   re-ordered by sort_to_match (C07_sort_to_match).  Proofs: Mono, Window, MonoM, Table. *)
From Coq Require Import ZArith QArith List.
Import ListNotations.
From SedV Require Import Xnum FilterOut Table Mono Window MonoM.
Close Scope Q_scope.

(* every index of the window is emitted exactly once, in order, for any chunk size >= 1 *)
Theorem C16_emitted : forall jlo jhi c, (1 <= c)%Z -> (jlo <= jhi + 1)%Z ->
  emit_fixed jlo jhi c = zseq jlo (Z.to_nat (jhi - jlo + 1)).
Proof. exact emitted_all. Qed.

Theorem C16_emits_window : forall wavs wmin wmax chunk,
  let '(lo, hi, out) := mono_m wavs wmin wmax chunk in
  (lo <= hi)%Z -> out = zseq lo (Z.to_nat (hi - lo + 1)).
Proof. exact mono_emits_window. Qed.

(* a window holding no tabulated wavelength (e.g. [w, w], whose only wavelength is its excluded upper end) writes nothing *)
Theorem C16_empty_window : forall wavs wmin wmax chunk,
  let '(lo, hi, out) := mono_m wavs wmin wmax chunk in (hi < lo)%Z -> out = [].
Proof. exact mono_empty_window. Qed.

(* the set of files does not depend on the memory limit - any limit, also one too small for a single wavelength, and any window *)
Theorem C16_chunk_independent : forall wavs wmin wmax c c',
  mono_m wavs wmin wmax c = mono_m wavs wmin wmax c'.
Proof. exact mono_chunk_independent. Qed.

(* which indices the window holds: in the decreasing wavelength array, index j holds a wavelength < v exactly when
   j >= n - #{w < v}; hence [jlo, jhi] = the wavelengths in [wav_min, wav_max) *)
Theorem C16_window : forall wavs v j, decr wavs -> (j < length wavs)%nat ->
  ((nth j wavs 0 < v)%Q <-> (length wavs - cnt_lt v wavs <= j)%nat).
Proof. exact C16_window_index. Qed.

(* rows of every file follow the parameter table (the same re-ordering as the broadband files) *)
Theorem C16_rows : forall a r, NoDup r -> Permutation.Permutation a r -> gatherK a (order_to_match a r) = r.
Proof. exact C07_sort_to_match. Qed.

(* cube packages: the slice used for a requested wavelength is one of minimal distance *)
Theorem C16_nearest : forall wavs w0, wavs <> [] ->
  (nearest_m wavs w0 < length wavs)%nat /\
  forall w, In w wavs -> xlt (Fin (Qabsd w w0)) (Fin (Qabsd (nth (nearest_m wavs w0) wavs 0%Q) w0)) = false.
Proof. exact nearest_spec. Qed.

(* the loop as it stood before the repair is refuted: three wavelengths with chunk size 2 lose the last one,
   a one-wavelength window emits nothing *)
Theorem C16_unrepaired_loop_refuted : emit_current 0 2 2 = [0; 1]%Z /\ emit_current 3 3 1 = [] /\
  emit_fixed 0 2 2 = [0; 1; 2]%Z /\ emit_fixed 3 3 1 = [3]%Z.
Proof. repeat split. Qed.

Example C16_example : mono_m [8; 4; 2; 1]%Q (3#2)%Q 5%Q 1 = (1, 2, [1; 2])%Z.
Proof. reflexivity. Qed.

(* the set of files does not depend on the unit in which the wavelengths and the window are expressed (F52) *)
From SedV Require Import WindowUnits.
Theorem C16_units : forall k wavs wmin wmax chunk, (0 < k)%Q ->
  mono_m (map (Qmult k) wavs) (k * wmin)%Q (k * wmax)%Q chunk = mono_m wavs wmin wmax chunk.
Proof. exact mono_units. Qed.
