"""
C07 - cube packages whose flux.fits has no UNCERTAINTIES extension.

SEDCube treats the uncertainties as optional (BaseCube.read/write skip the
UNCERTAINTIES HDU when unc is None, get_sed copes with it), so a cube written by the
public API without `unc` is a legal flux.fits.  convolve_model_dir crashes on it with
AttributeError("'NoneType' object has no attribute 'unit'") in _convolve_model_dir_2
(sed_cube.unc.unit) instead of writing the convolved fluxes.  [Lowest-confidence item:
the statement speaks of "flux and error", so a package without errors may be regarded
as outside it.]
"""
import os
import tempfile

import numpy as np
from astropy import units as u
from astropy.table import Table

from sedfitter.filter import Filter
from sedfitter.sed import SEDCube
from sedfitter.convolve import convolve_model_dir
from sedfitter.convolved_fluxes import ConvolvedFluxes

names = ['m_a', 'm_b', 'm_c']
wav = np.logspace(-1., 3., 30) * u.micron
ap = np.array([100., 1000.]) * u.au
c = np.array([1., 2., 5.])
fw = np.linspace(1., 3., 12) * u.micron
filt = Filter(name='F', central_wavelength=2. * u.micron,
              nu=fw.to(u.Hz, equivalencies=u.spectral()), response=np.ones(12))
filt.normalize()

d2 = tempfile.mkdtemp()
cube = SEDCube()
cube.names = np.array(names)
cube.distance = 1 * u.kpc
cube.wav = wav
cube.apertures = ap
cube.val = np.ones((3, 2, 30)) * c[:, None, None] * u.mJy
cube.write(os.path.join(d2, 'flux.fits'))          # no uncertainties: accepted
assert SEDCube.read(os.path.join(d2, 'flux.fits')).unc is None
with open(os.path.join(d2, 'models.conf'), 'w') as f:
    f.write("name = test\nlength_subdir = 0\naperture_dependent = yes\nlogd_step = 0.02\nversion = 2\n")
t = Table()
t['MODEL_NAME'] = np.array(names, dtype='S30')
t['par1'] = np.arange(3.)
t.write(os.path.join(d2, 'parameters.fits'))
try:
    convolve_model_dir(d2, [filt])
except Exception as exc:
    raise AssertionError("C07: cube package written without uncertainties (legal for SEDCube) "
                         "cannot be convolved: %r" % exc)
c2 = ConvolvedFluxes.read(os.path.join(d2, 'convolved', 'F.fits'))
assert np.allclose(c2.flux[:, 0].value, c)
print("no violation")
