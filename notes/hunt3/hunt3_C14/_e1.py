import numpy as np, pickle, copy, tempfile, os
from astropy import units as u
from astropy.table import Table, QTable
from sedfitter.extinction import Extinction

def ref(wt, ct, q):
    # all in micron
    q = np.atleast_1d(q)
    v = np.interp(q, wt, ct, left=0, right=0)
    return -0.4 * v / np.interp(0.55, wt, ct)

rng = np.random.RandomState(3)
def mk(n, wunit=u.micron, cunit=u.cm**2/u.g, lo=0.1, hi=10):
    while True:
        w = np.sort(np.exp(rng.uniform(np.log(lo), np.log(hi), n)))
        if w[0] <= 0.55 <= w[-1] and np.all(np.diff(w) > 0): break
    c = np.exp(rng.uniform(-3, 8, n))
    e = Extinction()
    e.wav = (w * u.micron).to(wunit)
    e.chi = (c * u.cm**2/u.g).to(cunit)
    return e, w, c

r = mk(5)
e, w, c = r
out = e.get_av([0.55, 1.] * u.micron)
print(type(out), out, getattr(out, 'unit', None))
print(type(e.get_av(0.55 * u.micron)), e.get_av(0.55*u.micron))
print(e.get_av(np.array([[0.55, 1]]) * u.micron))
worst = 0
for n in (2, 3, 7, 50, 200):
  for wunit in (u.micron, u.nm, u.AA, u.m, u.cm, u.mm, u.pc, u.imperial.inch):
    for cunit in (u.cm**2/u.g, u.m**2/u.kg, u.cm**2/u.kg, u.pc**2/u.Msun):
      e, w, c = mk(n, wunit, cunit)
      q = np.concatenate([w, (w[:-1] + w[1:]) / 2, [w[0] * 0.5, w[-1] * 2, 0.55, w[0]*(1-1e-9), w[-1]*(1+1e-9)]])
      for qunit in (u.micron, u.nm, u.AA, u.m, u.cm, u.km, wunit):
          for ee in (e, pickle.loads(pickle.dumps(e)), copy.deepcopy(e), Extinction.from_table(e.to_table()), Extinction.from_table(QTable(e.to_table()))):
              got = ee.get_av((q * u.micron).to(qunit))
              got = np.asarray(got.value if hasattr(got, 'value') else got) * (got.unit.to(1) if hasattr(got, 'unit') else 1)
              exp = ref(w, c, q)
              err = np.max(np.abs(got - exp) / np.maximum(np.abs(exp), 1e-300) * (exp != 0) + (exp == 0) * np.abs(got))
              if err > 1e-9:
                  print('BAD', n, wunit, cunit, qunit, err, got[np.abs(got-exp) > 1e-9*abs(exp)][:4], exp[np.abs(got-exp) > 1e-9*abs(exp)][:4])
              worst = max(worst, err)
              k = list(q).index(0.55)
              # exactly -0.4
              if got[k] != -0.4: print('NOT EXACT', n, wunit, cunit, qunit, got[k] + 0.4)
print('worst', worst)
