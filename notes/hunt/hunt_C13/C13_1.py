"""
C13 violation: ConvolvedFluxes.interpolate (and SED.interpolate_variable) clamp
radii beyond the table by WRITING INTO THE CALLER'S REQUEST ARRAY.  A request
array that is re-used for a second table (several calls, one request) is
therefore silently changed by the first call, and the second table - on which
the request lies strictly INSIDE the tabulated range - does not return the
linear interpolant at the requested radius but the value at the first table's
largest aperture.

Clauses violated: "the linear interpolant between neighbouring radii" (second
call) / state leaking between calls.
"""
import sys
import numpy as np
from astropy import units as u
from sedfitter.convolved_fluxes import ConvolvedFluxes
from sedfitter.sed import SED


def table(aps):
    c = ConvolvedFluxes()
    c.central_wavelength = 2. * u.micron
    c.model_names = np.array(['m0', 'm1', 'm2'])
    c.apertures = np.array(aps, dtype=float) * u.au
    n = len(aps)
    c.flux = (np.arange(3)[:, None] * 100. + np.arange(n)[None, :] ** 2 + 1.) * u.mJy
    c.error = c.flux * 0.1
    return c


small = table([10., 100.])            # largest tabulated radius 100 AU
large = table([10., 100., 1000.])     # largest tabulated radius 1000 AU

request = np.array([50., 500.]) * u.au     # 500 AU: above `small`, inside `large`
request_before = request.copy()

small.interpolate(request)            # legal: 500 AU is clamped to 100 AU
got = large.interpolate(request).flux.to(u.mJy).value

# reference: the linear interpolant on `large` at 50 and 500 AU
x = large.apertures.value
expected = np.array([np.interp([50., 500.], x, row) for row in large.flux.value])

problems = []
if not np.all(request == request_before):
    problems.append("the caller's request array was changed in place by "
                    "ConvolvedFluxes.interpolate: %s -> %s" % (request_before, request))
if not np.allclose(got, expected, rtol=1e-12, atol=0):
    problems.append("second table (10,100,1000 AU) asked for 500 AU returned %s, "
                    "the linear interpolant at 500 AU is %s (it returned the value "
                    "at 100 AU, the largest radius of the table used in the "
                    "previous call)" % (got[:, 1], expected[:, 1]))

# Same mechanism in the wavelength-dependent variant used for plotting
def sed(aps):
    s = SED()
    s.name = 'x'
    s.distance = 1. * u.kpc
    s.wav = np.array([1., 10., 100.]) * u.micron
    s.apertures = np.array(aps, dtype=float) * u.au
    n = len(aps)
    s.flux = (np.arange(n)[:, None] ** 2 * 10. + np.arange(3)[None, :] + 1.) * u.mJy
    s.error = s.flux * 0.1
    return s

s_small, s_large = sed([10., 100.]), sed([10., 100., 1000.])
fw = np.array([1., 10., 100.])
fa = np.array([50., 500., 500.])
fa_before = fa.copy()
s_small.interpolate_variable(fw, fa)
got_v = np.asarray(s_large.interpolate_variable(fw, fa))
exp_v = np.array([np.interp(a, s_large.apertures.value, s_large.flux.value[:, i])
                  for i, a in enumerate(fa_before)])
if not np.allclose(got_v, exp_v, rtol=1e-12, atol=0):
    problems.append("SED.interpolate_variable: after a call on a 2-aperture SED the same "
                    "request array (now %s instead of %s) gives %s on the 3-aperture SED, "
                    "linear interpolant at each filter's aperture is %s"
                    % (fa, fa_before, got_v, exp_v))

if problems:
    print("C13 VIOLATED:")
    for p in problems:
        print(" - " + p)
    sys.exit(1)
print("no violation")
