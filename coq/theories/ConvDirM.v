(* convolve_model_dir, both package formats: which SED ends up in which row of the convolved-flux file. *)
From Coq Require Import QArith List Arith Lia Permutation Bool ZArith.
Import ListNotations.
From SedV Require Import PLin Argsort Table FTable ConvolveM.
Close Scope Q_scope.

(* one model SED as stored: name, frequencies in storage order, per aperture the fluxes and errors along that order *)
Record sedm := { sd_name : K; sd_nu : list Q; sd_flux : list (list Q); sd_err : list (list Q) }.

(* SED.read / SEDCube.read with order='nu': reverse the spectral axis of everything when frequencies decrease *)
Definition nu_decreasing (nu : list Q) : bool :=
  match nu with [] => false | x :: _ => negb (Qle_bool x (last nu 0%Q)) end.
Definition read_nu_order (s : sedm) : sedm :=
  if nu_decreasing (sd_nu s)
  then {| sd_name := sd_name s; sd_nu := rev (sd_nu s); sd_flux := map (@rev Q) (sd_flux s); sd_err := map (@rev Q) (sd_err s) |}
  else s.

(* one row of a convolved-flux table: name, per aperture flux and squared error *)
Record crow := { cr_name : K; cr_flux : list Q; cr_var : list Q }.
Definition conv_sed (filt : list pt) (s : sedm) : crow :=
  let s' := read_nu_order s in
  let R := rebin_m filt (sd_nu s') in
  {| cr_name := sd_name s'; cr_flux := map (fun f => conv_m f R) (sd_flux s'); cr_var := map (fun e => conv_var_m e R) (sd_err s') |}.

Definition dcrow : crow := {| cr_name := 0%Z; cr_flux := []; cr_var := [] |}.
Definition dsed : sedm := {| sd_name := 0%Z; sd_nu := []; sd_flux := []; sd_err := [] |}.

(* per-file format: sorted(glob(...)), one row per file, then sort_to_match(parameter-table names) with its post-check *)
Definition conv_dir1_m (filt : list pt) (files : list (K * sedm)) (par_names : list K) : option (list crow) :=
  let sorted_files := gather (K * sedm) (0%Z, dsed) files (argsortK (map fst files)) in
  let rows := map (fun f => conv_sed filt (snd f)) sorted_files in
  let order := order_to_match (map cr_name rows) par_names in
  let out := gather crow dcrow rows order in
  if list_eq_dec Z.eq_dec (map cr_name out) par_names then Some out else None.

(* cube format: the cube and the parameter table must hold the same names (in any order, since the repair F56: the code compares
   the sorted lists); rows stay in cube order *)
Definition same_multiset (a b : list K) : bool :=
  forallb (fun n => Nat.eqb (count_occ Z.eq_dec a n) (count_occ Z.eq_dec b n)) (a ++ b).

Lemma same_multiset_perm a b : same_multiset a b = true <-> Permutation a b.
Proof.
  unfold same_multiset. split.
  - intro H. apply (proj2 (Permutation_count_occ Z.eq_dec a b)). intro x.
    rewrite forallb_forall in H.
    destruct (in_dec Z.eq_dec x (a ++ b)) as [I|I].
    + apply Nat.eqb_eq. exact (H x I).
    + assert (~ In x a) by (intro X; apply I, in_or_app; left; exact X).
      assert (~ In x b) by (intro X; apply I, in_or_app; right; exact X).
      rewrite (proj1 (count_occ_not_In Z.eq_dec a x)) by assumption.
      rewrite (proj1 (count_occ_not_In Z.eq_dec b x)) by assumption. reflexivity.
  - intro P. apply forallb_forall. intros x _. apply Nat.eqb_eq.
    apply (proj1 (Permutation_count_occ Z.eq_dec a b) P).
Qed.

Definition conv_dir2_m (filt : list pt) (cube : list sedm) (par_names : list K) : option (list crow) :=
  if same_multiset (map sd_name cube) par_names then Some (map (conv_sed filt) cube) else None.

Lemma conv_sed_name filt s : cr_name (conv_sed filt s) = sd_name s.
Proof. unfold conv_sed, read_nu_order. destruct (nu_decreasing (sd_nu s)); reflexivity. Qed.

(* rows of the per-file format: in parameter-table order, and the row labelled X is computed from the SED named X *)
Theorem rows_v1 filt files par_names :
  NoDup par_names -> Permutation (map (fun f => sd_name (snd f)) files) par_names ->
  exists out, conv_dir1_m filt files par_names = Some out /\ map cr_name out = par_names /\
              forall r, In r out -> exists f, In f files /\ r = conv_sed filt (snd f).
Proof.
  intros N P. unfold conv_dir1_m.
  set (sorted_files := gather (K * sedm) (0%Z, dsed) files (argsortK (map fst files))).
  set (rows := map (fun f => conv_sed filt (snd f)) sorted_files).
  assert (Ps : Permutation sorted_files files).
  { unfold sorted_files. apply gather_perm. unfold argsortK.
    pose proof (argsort_perm K Z.leb 0%Z (map fst files)) as H. rewrite map_length in H. exact H. }
  assert (Pn : Permutation (map cr_name rows) par_names).
  { unfold rows. rewrite map_map. rewrite (map_ext _ (fun f => sd_name (snd f))) by (intros; apply conv_sed_name).
    rewrite (Permutation_map _ Ps). exact P. }
  pose proof (C07_sort_to_match (map cr_name rows) par_names N Pn) as H.
  set (order := order_to_match (map cr_name rows) par_names) in *.
  assert (Hidx : forall i, In i order -> (i < length rows)%nat).
  { intros i Hi. unfold order, order_to_match, gather in Hi. apply in_map_iff in Hi. destruct Hi as (j & <- & Hj).
    unfold argsortn in Hj. apply argsort_bound in Hj. unfold argsortK in Hj. rewrite argsort_length in Hj.
    assert (Ln : length (map cr_name rows) = length par_names) by (apply Permutation_length; exact Pn).
    assert (B : (nth j (argsortK (map cr_name rows)) 0 < length (map cr_name rows))%nat).
    { apply (argsort_bound Z.leb 0%Z). apply nth_In. unfold argsortK. rewrite argsort_length. unfold K in *. rewrite Ln. exact Hj. }
    rewrite map_length in B. exact B. }
  assert (Hn : map cr_name (gather crow dcrow rows order) = par_names).
  { rewrite <- H. unfold gatherK. apply (gather_map cr_name dcrow rows order Hidx). }
  destruct (list_eq_dec Z.eq_dec _ par_names) as [E|E]; [|contradiction].
  eexists. split; [reflexivity|]. split; [exact Hn|].
  intros r Hr. unfold gather in Hr. apply in_map_iff in Hr. destruct Hr as (i & <- & Hi).
  specialize (Hidx i Hi). assert (X : In (nth i rows dcrow) rows) by (apply nth_In; exact Hidx).
  unfold rows in X. apply in_map_iff in X. destruct X as (f & Ef & Hf).
  exists f. split; [eapply Permutation_in; [exact Ps|exact Hf]|now symmetry].
Qed.

(* two permutations of each other with the same duplicate-free key sequence are equal *)
Lemma perm_same_keys {A} (g : list (K * A)) : forall g', NoDup (map fst g) -> map fst g = map fst g' -> Permutation g g' -> g = g'.
Proof.
  induction g as [|a g IH]; intros g' Ng Kg Pgg.
  - destruct g'; [reflexivity|discriminate].
  - destruct g' as [|a' g']; [discriminate|]. simpl in Kg. injection Kg as Ka Kt.
    inversion Ng as [|? ? Na Ng']; subst.
    assert (a = a').
    { assert (Ia : In a (a' :: g')) by (eapply Permutation_in; [exact Pgg|now left]).
      destruct Ia as [->|Ia]; [reflexivity|]. exfalso. apply Na. rewrite Kt. now apply in_map. }
    subst a'. f_equal. apply IH; [exact Ng'|exact Kt|]. eapply Permutation_cons_inv; exact Pgg.
Qed.

(* the directory-listing order of the SED files does not matter *)
Theorem listing_order filt files files' par_names :
  NoDup (map fst files) -> Permutation files files' ->
  conv_dir1_m filt files par_names = conv_dir1_m filt files' par_names.
Proof.
  intros N P. unfold conv_dir1_m.
  assert (E : gather (K * sedm) (0%Z, dsed) files (argsortK (map fst files)) =
              gather (K * sedm) (0%Z, dsed) files' (argsortK (map fst files'))).
  { (* both are the key-sorted list of the same set of files *)
    assert (S : forall fs, map fst (gather (K * sedm) (0%Z, dsed) fs (argsortK (map fst fs))) = sortK (map fst fs)).
    { intros fs. etransitivity; [apply (gather_map (@fst K sedm) (0%Z, dsed) fs)|reflexivity].
      intros i Hi. unfold argsortK in Hi. apply argsort_bound in Hi. now rewrite map_length in Hi. }
    assert (Pg : forall fs, Permutation (gather (K * sedm) (0%Z, dsed) fs (argsortK (map fst fs))) fs).
    { intros fs. apply gather_perm. unfold argsortK. pose proof (argsort_perm K Z.leb 0%Z (map fst fs)) as H. now rewrite map_length in H. }
    set (g := gather (K * sedm) (0%Z, dsed) files (argsortK (map fst files))).
    set (g' := gather (K * sedm) (0%Z, dsed) files' (argsortK (map fst files'))).
    assert (Kg : map fst g = map fst g').
    { unfold g, g'. rewrite !S. apply sortK_perm_eq.
      - eapply Permutation_NoDup; [apply Permutation_map; exact P|exact N].
      - apply Permutation_map. exact P. }
    assert (Pgg : Permutation g g') by (unfold g, g'; rewrite (Pg files), (Pg files'); exact P).
    assert (Ng : NoDup (map fst g)) by (eapply Permutation_NoDup; [apply Permutation_map, Permutation_sym, (Pg files)|exact N]).
    apply perm_same_keys; assumption. }
  now rewrite E.
Qed.

(* cube format: rows in cube order, row i computed from cube slice i; the parameter table may list the same models in any order *)
Theorem rows_v2 filt cube par_names out : conv_dir2_m filt cube par_names = Some out ->
  map cr_name out = map sd_name cube /\ Permutation (map cr_name out) par_names /\ out = map (conv_sed filt) cube.
Proof.
  unfold conv_dir2_m. destruct (same_multiset (map sd_name cube) par_names) eqn:E; [|discriminate].
  intros H. inversion H; subst.
  assert (N : map cr_name (map (conv_sed filt) cube) = map sd_name cube).
  { rewrite map_map. apply map_ext. intros; apply conv_sed_name. }
  split; [exact N|]. split; [|reflexivity]. rewrite N. apply same_multiset_perm. exact E.
Qed.

Theorem rows_v2_accepts filt cube par_names : Permutation (map sd_name cube) par_names ->
  conv_dir2_m filt cube par_names = Some (map (conv_sed filt) cube).
Proof.
  intro P. unfold conv_dir2_m. rewrite (proj2 (same_multiset_perm _ _) P). reflexivity.
Qed.

(* both formats built from the same SEDs give the same row for every model name *)
Theorem formats_agree filt files cube par_names out1 out2 :
  NoDup par_names -> map (fun f => snd f) files = cube \/ Permutation (map (fun f => snd f) files) cube ->
  conv_dir1_m filt files par_names = Some out1 -> conv_dir2_m filt cube par_names = Some out2 ->
  Permutation (map (fun f => sd_name (snd f)) files) par_names ->
  (forall s s', In s cube -> In s' cube -> sd_name s = sd_name s' -> s = s') ->
  forall r1 r2, In r1 out1 -> In r2 out2 -> cr_name r1 = cr_name r2 -> r1 = r2.
Proof.
  intros N Hc H1 H2 P U r1 r2 I1 I2 En.
  assert (Pc : Permutation (map (fun f => snd f) files) cube) by (destruct Hc as [<-|Hc]; [reflexivity|exact Hc]).
  destruct (rows_v1 filt files par_names N P) as (o & Ho & _ & Hrows). rewrite H1 in Ho. inversion Ho; subst o.
  destruct (Hrows r1 I1) as (f & Hf & ->).
  destruct (rows_v2 filt cube par_names out2 H2) as (_ & _ & ->).
  apply in_map_iff in I2. destruct I2 as (s & <- & Hs).
  rewrite !conv_sed_name in En.
  assert (Hin : In (snd f) cube) by (eapply Permutation_in; [exact Pc|apply in_map_iff; exists f; split; [reflexivity|exact Hf]]).
  now rewrite (U (snd f) s Hin Hs En).
Qed.

(* ---- the spectral order in which an SED (or the cube) is stored does not matter ---- *)
From Coq Require Import Lqa.
Definition rev_spectral (s : sedm) : sedm :=
  {| sd_name := sd_name s; sd_nu := rev (sd_nu s); sd_flux := map (@rev Q) (sd_flux s); sd_err := map (@rev Q) (sd_err s) |}.

Lemma hd_rev_q (l : list Q) : hd 0%Q (rev l) = last l 0%Q.
Proof.
  induction l as [|x r IH]; [reflexivity|]. cbn [rev]. destruct r as [|y r']; [reflexivity|].
  change (last (x :: y :: r') 0%Q) with (last (y :: r') 0%Q). rewrite <- IH. cbn [rev]. destruct (rev r'); reflexivity.
Qed.
Lemma last_rev_q (l : list Q) : last (rev l) 0%Q = hd 0%Q l.
Proof. destruct l as [|x r]; [reflexivity|]. cbn [rev]. now rewrite last_last. Qed.

Lemma nu_decreasing_spec (nu : list Q) : nu <> [] -> nu_decreasing nu = negb (Qle_bool (hd 0%Q nu) (last nu 0%Q)).
Proof. destruct nu; [congruence|reflexivity]. Qed.

Lemma map_rev_rev (l : list (list Q)) : map (@rev Q) (map (@rev Q) l) = l.
Proof. rewrite map_map. rewrite <- (map_id l) at 2. apply map_ext. intros; apply rev_involutive. Qed.

Theorem storage_order_irrelevant (s : sedm) : sd_nu s <> [] ->
  (hd 0%Q (sd_nu s) < last (sd_nu s) 0%Q \/ last (sd_nu s) 0%Q < hd 0%Q (sd_nu s))%Q ->
  read_nu_order (rev_spectral s) = read_nu_order s.
Proof.
  intros Hne Hord. unfold read_nu_order.
  assert (Hne' : rev (sd_nu s) <> []) by (intros E; apply Hne; rewrite <- (rev_involutive (sd_nu s)), E; reflexivity).
  cbn [rev_spectral sd_nu sd_name sd_flux sd_err].
  rewrite (nu_decreasing_spec _ Hne'), (nu_decreasing_spec _ Hne), hd_rev_q, last_rev_q.
  destruct Hord as [Inc|Dec].
  - assert (E1 : Qle_bool (hd 0%Q (sd_nu s)) (last (sd_nu s) 0%Q) = true) by (apply Qle_bool_iff; lra).
    assert (E2 : Qle_bool (last (sd_nu s) 0%Q) (hd 0%Q (sd_nu s)) = false).
    { destruct (Qle_bool (last (sd_nu s) 0%Q) (hd 0%Q (sd_nu s))) eqn:E; [apply Qle_bool_iff in E; lra|reflexivity]. }
    rewrite E1, E2. cbn [negb]. rewrite rev_involutive, !map_rev_rev. destruct s; reflexivity.
  - assert (E1 : Qle_bool (hd 0%Q (sd_nu s)) (last (sd_nu s) 0%Q) = false).
    { destruct (Qle_bool (hd 0%Q (sd_nu s)) (last (sd_nu s) 0%Q)) eqn:E; [apply Qle_bool_iff in E; lra|reflexivity]. }
    assert (E2 : Qle_bool (last (sd_nu s) 0%Q) (hd 0%Q (sd_nu s)) = true) by (apply Qle_bool_iff; lra).
    rewrite E1, E2. cbn [negb]. reflexivity.
Qed.

Corollary conv_sed_storage_order filt s : sd_nu s <> [] ->
  (hd 0%Q (sd_nu s) < last (sd_nu s) 0%Q \/ last (sd_nu s) 0%Q < hd 0%Q (sd_nu s))%Q ->
  conv_sed filt (rev_spectral s) = conv_sed filt s.
Proof. intros H1 H2. unfold conv_sed. now rewrite (storage_order_irrelevant s H1 H2). Qed.
