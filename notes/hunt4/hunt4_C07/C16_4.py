"""
C16 - clause: "writes exactly one file per SED wavelength lying inside the
requested wavelength window", quantified over "every window [wav_min, wav_max]
whose ends fall between or on tabulated wavelengths, including windows holding
a single wavelength".

The two ends of the window are treated differently: a tabulated wavelength
equal to wav_min is written, one equal to wav_max is not
(searchsorted(..., side='left') is used for both ends).  Hence
  [3.6, 24]  micron  -> files for 3.6 and 8 only (24 missing),
  [24, 24]   micron  -> no file at all, although the closed window holds
                        exactly one tabulated wavelength,
while [3.6, 3.6+eps] writes the 3.6 micron file.  Whatever reading of
"inside" is taken (closed or open), one of the two ends contradicts it.
"""
import os, sys, glob, shutil, tempfile
import numpy as np
from astropy import units as u
from astropy.table import Table
from astropy import log
log.setLevel('ERROR')

from sedfitter.sed import SED
from sedfitter.convolve import convolve_model_dir_monochromatic

rng = np.random.RandomState(0)
names = ['m_a', 'm_b']
w = np.array([0.5, 1.2, 3.6, 8.0, 24., 70.])
wav = w * u.micron
aps = np.array([10., 100.]) * u.au
val = np.cumsum(rng.random_sample((2, 2, 6)) + 0.5, axis=1)

d1 = tempfile.mkdtemp()
os.mkdir(os.path.join(d1, 'seds'))
for i, n in enumerate(names):
    s = SED()
    s.name = n
    s.distance = 1 * u.kpc
    s.wav = wav
    s.nu = wav.to(u.Hz, equivalencies=u.spectral())
    s.apertures = aps
    s.flux = val[i] * u.mJy
    s.error = 0.01 * val[i] * u.mJy
    s.write(os.path.join(d1, 'seds', n + '_sed.fits'))
with open(os.path.join(d1, 'models.conf'), 'w') as f:
    f.write("name = test\nlength_subdir = 0\naperture_dependent = yes\nlogd_step = 0.02\n")
t = Table()
t['MODEL_NAME'] = np.array(names, dtype='S30')
t['par1'] = np.arange(2.)
t.write(os.path.join(d1, 'parameters.fits'))


def emitted(lo, hi):
    shutil.rmtree(os.path.join(d1, 'convolved'), ignore_errors=True)
    tab = convolve_model_dir_monochromatic(d1, wav_min=lo * u.micron, wav_max=hi * u.micron)
    files = sorted(glob.glob(os.path.join(d1, 'convolved', 'MO*.fits')))
    # file MOnnn holds the nnn-th wavelength in decreasing order
    return sorted(float(w[::-1][int(os.path.basename(x)[2:5]) - 1]) for x in files)


lower_inclusive = 3.6 in emitted(3.6, 10.)
upper_inclusive = 24. in emitted(3.6, 24.)
single = emitted(24., 24.)
print("wavelength == wav_min written:", lower_inclusive)
print("wavelength == wav_max written:", upper_inclusive)
print("window [24, 24] ->", single)
assert lower_inclusive == upper_inclusive and single == [24.], (
    "C16 violated: the ends of the window are not treated alike: a tabulated wavelength equal "
    "to wav_min is %swritten, one equal to wav_max is %swritten; window [3.6, 24] micron gives "
    "%s, window [24, 24] (one tabulated wavelength in the closed window) gives %s"
    % ("" if lower_inclusive else "not ", "" if upper_inclusive else "not ",
       emitted(3.6, 24.), single))
print("OK")
