"""
C02 (clause: "trial distances form a log-uniform grid that includes both ends of
the requested range with the FEWEST points whose spacing does not exceed the
package's log-distance step").

BORDERLINE - the cause is a rounding error, but its effect is discrete (one
extra grid point, all interior grid distances move by up to ~0.01 dex).

Input: logd_step = 0.1, distance_range = [13, 130] kpc (also [10.5, 105],
[14, 140], [17, 170] ..., and the same with logd_step 0.02, 0.05, 0.2, 0.25).
130/13 is exactly 10, so the range is exactly 1 dex; 11 points have a spacing of
exactly 0.1 dex, which does not exceed the step (the double 0.1 is
0.1000000000000000055...).  The code evaluates log10(130) - log10(13) =
1.0000000000000002, divides by the step, and ceil() turns the last-bit error
into a 12th point (spacing 0.0909 dex).
"""
import os
import io
import math
import shutil
import tempfile
import contextlib
from fractions import Fraction

import numpy as np
from astropy import units as u

from sedfitter.convolved_fluxes import ConvolvedFluxes
from sedfitter.extinction import Extinction
from sedfitter.fit import Fitter

step = 0.1
dmin, dmax = 13., 130.

d = tempfile.mkdtemp()
os.mkdir(os.path.join(d, 'convolved'))
with open(os.path.join(d, 'models.conf'), 'w') as f:
    f.write("name = test\nlength_subdir = 0\naperture_dependent = yes\nlogd_step = 0.1\n")
c = ConvolvedFluxes(wavelength=2. * u.micron, model_names=np.array(['A', 'B']),
                    apertures=np.array([100., 1.e6]) * u.au,
                    flux=np.array([[1., 2.], [2., 3.]]) * u.mJy,
                    error=np.array([[1., 2.], [2., 3.]]) * 0.01 * u.mJy)
c.write(os.path.join(d, 'convolved', 'f0.fits'))

ext = Extinction()
ext.wav = np.logspace(-2, 3, 50) * u.micron
ext.chi = ext.wav.value ** -1.5 * u.cm ** 2 / u.g

with contextlib.redirect_stdout(io.StringIO()):
    fitter = Fitter(['f0'], [1.] * u.arcsec, d, extinction_law=ext, av_range=(0., 10.),
                    distance_range=[dmin, dmax] * u.kpc)
shutil.rmtree(d)

n_code = len(fitter.models.distances)

# exact arithmetic on the actual (binary) inputs: the range is exactly 1 dex
assert Fraction(dmax) / Fraction(dmin) == 10
range_dex = Fraction(1)
n_fewest = 1 + math.ceil(range_dex / Fraction(step))        # fewest N with range/(N-1) <= step
spacing_fewest = range_dex / (n_fewest - 1)
assert spacing_fewest <= Fraction(step)

print("points used by the code :", n_code, " spacing", float(range_dex / (n_code - 1)))
print("fewest points           :", n_fewest, " spacing", float(spacing_fewest), "<= step", step)

assert n_code == n_fewest, (
    "C02 'fewest points' clause: for distance_range = [13, 130] kpc and logd_step = 0.1 the grid has %d "
    "points (spacing %.4f dex) although %d points, spacing exactly 0.1 dex <= step, already satisfy the "
    "condition; log10(130) - log10(13) evaluates to %r and ceil() rounds the last-bit error up"
    % (n_code, float(range_dex / (n_code - 1)), n_fewest, float(np.log10(dmax) - np.log10(dmin))))
