"""C15 — SED.read(unit_flux=...) for every stored/requested unit pair against Misc.convert and the consistency clauses."""
import math
import os
import tempfile
from fractions import Fraction

from common import Rng, F, close

PROP = 'C15'
MODEL_OPS = 'Misc.convert (family + exact scale factor)'
RULE = ('read order nu or wav (drawn per case); all 5x5 stored/requested pairs of {mJy, Jy, erg cm-2 s-1, erg s-1, W m-2}, 1-5 apertures, the uncertainty column stored in the unit of the flux column or in another one, distances over 6 decades, random frequency grids (2-12 points, either order); '
        'per pair: read in the requested unit (vs the model), write that SED and read it back in the stored unit (A->B->A) and in a third unit (A->B->C vs A->C); '
        'an unsupported requested unit must be refused; a twin SED (same units, distance, length and end frequencies, other interior frequencies) is read afterwards in the same process. quick: 25 pairs x 8; thorough: 25 x 200. non-trivial = stored and requested units differ.')
EXHAUSTIVE = {'quick': True, 'thorough': True}
ASSUMPTIONS = ['unit scale factors are exact rationals (mJy = 1e-26, Jy = 1e-23 erg cm-2 s-1 Hz-1; W m-2 = 1e3 erg cm-2 s-1); distance in cm from astropy\'s kpc (oracle value taken from the implementation)',
               'float rounding: relative tolerance 1e-12']

UNITS = {'mJy': ('Fnu', Fraction(1, 10 ** 26)), 'Jy': ('Fnu', Fraction(1, 10 ** 23)), 'erg / (cm2 s)': ('Fint', Fraction(1)),
         'erg / s': ('Lum', Fraction(1)), 'W / m2': ('Fint', Fraction(1000))}


def generate(tier, seed):
    rng = Rng(seed * 67867967 + 15)
    cases = []
    reps = 8 if tier == 'quick' else 200
    names = list(UNITS)
    for a in names:
        for b in names:
            for r in range(reps):
                nw = rng.randint(2, 12)
                nu = sorted(set(rng.dyadic(1.0, 16.0, 10) * 2.0 ** rng.choice([38, 42, 46]) for _ in range(nw)))
                nap = rng.randint(1, 5)
                twin = None
                if len(nu) >= 3:
                    mid = sorted(set(x for x in (rng.dyadic(nu[0], nu[-1], 12) for _ in range(4 * len(nu))) if nu[0] < x < nu[-1] and x not in nu))[:len(nu) - 2]
                    if len(mid) == len(nu) - 2:
                        twin = [nu[0]] + mid + [nu[-1]]
                cases.append(dict(columns=('reordered' if r % 3 == 1 else 'standard'), legacy=(r % 4 == 3), err_unit=(a if rng.random() < 0.5 else rng.choice(names)), twin_nu=twin, stored=a, requested=b, third=rng.choice(names), nu=nu, order=rng.choice(['incr', 'decr']),
                                  flux=[[rng.logdyadic(1e-3, 1e3, 10) for _ in nu] for _ in range(nap)], dist_kpc=rng.logdyadic(1e-3, 1e3, 8),
                                  bad=rng.choice(['K', 'm', 'Hz', 'kg', 'W / Hz', 'Jy / sr', 'erg / (s cm3)', 'mJy2', 'erg / (s cm2 micron)']) if r == 0 else None, read_order=rng.choice(['nu', 'wav'])))
    for k, c in enumerate(cases):
        if k % 5 == 2:
            # a file whose arrays are stored in single precision (as the SED files shipped with the package are), holding faint fluxes:
            # all values are single-precision numbers, only an intermediate F / nu would not be
            c['f32'] = True
            c['flux'] = [[x * 2.0 ** -110 for x in row] for row in c['flux']]
    return cases


def impl(case):
    import numpy as np
    from astropy import units as u
    from sedfitter.sed import SED
    o = case['order']
    nu = case['nu'] if o == 'incr' else list(reversed(case['nu']))
    s = SED()
    s.name = 'x'
    s.distance = case['dist_kpc'] * u.kpc
    s.nu = np.array(nu) * u.Hz
    s.wav = s.nu.to(u.micron, equivalencies=u.spectral())
    s.apertures = None if len(case['flux']) == 1 else np.arange(1, len(case['flux']) + 1) * 100.0 * u.au
    s.flux = np.array([r if o == 'incr' else list(reversed(r)) for r in case['flux']], dtype=np.float32 if case.get('f32') else float) * u.Unit(case['stored'])
    if case.get('f32'):
        s.nu = np.array(nu, dtype=np.float32) * u.Hz
    # the uncertainty column may be stored in another unit than the flux column (SED.write keeps the two units apart)
    s.error = s.flux.value * 0.5 * u.Unit(case.get('err_unit', case['stored']))
    out = {}
    with tempfile.TemporaryDirectory() as d:
        p = os.path.join(d, 's_sed.fits')
        s.write(p)
        if case.get('columns') == 'reordered':
            import pkgcase
            pkgcase.reorder_columns(p)
        if case.get('legacy'):      # files of older packages carry no DISTANCE keyword: SED.read then assumes 1 kpc (whatever distance this harness gave)
            from astropy.io import fits
            with fits.open(p, mode='update', memmap=False) as h:
                del h[0].header['DISTANCE']
                h.flush()

        def rd(path, unit):
            r = SED.read(path, unit_flux=u.Unit(unit), order=case.get('read_order', 'nu'))
            return r, dict(nu=[float(x) for x in r.nu.to(u.Hz).value], flux=[[float(x) for x in row] for row in r.flux.to(u.Unit(unit)).value],
                           error=[[float(x) for x in row] for row in r.error.to(u.Unit(unit)).value], unit=str(r.flux.unit), d_cm=float(r.distance.to(u.cm).value))
        rb, out['B'] = rd(p, case['requested'])
        q = os.path.join(d, 'b_sed.fits')
        rb.write(q)
        _, out['ABA'] = rd(q, case['stored'])
        _, out['ABC'] = rd(q, case['third'])
        _, out['AC'] = rd(p, case['third'])
        _, out['AA'] = rd(p, case['stored'])
        # a second SED read afterwards in the same process: same units, distance, length and end frequencies, other interior frequencies
        if case.get('twin_nu'):
            t = SED()
            t.name = 'twin'
            t.distance = s.distance
            tn = case['twin_nu'] if o == 'incr' else list(reversed(case['twin_nu']))
            t.nu = np.array(tn) * u.Hz
            t.wav = t.nu.to(u.micron, equivalencies=u.spectral())
            t.apertures = s.apertures
            t.flux = s.flux
            t.error = s.flux * 0.5
            pt = os.path.join(d, 't_sed.fits')
            t.write(pt)
            _, out['twin'] = rd(pt, case['requested'])
        if case['bad']:
            try:
                SED.read(p, unit_flux=u.Unit(case['bad']))
                out['bad'] = 'accepted'
            except Exception as e:
                out['bad'] = 'refused:' + type(e).__name__
    return out


MODEL_NEEDS_IMPL = True


def unit_desc(name):
    """a unit the way astropy decomposes it: [scale to SI, exponent of kg, of m, of s, sum of |exponents| of any other base]"""
    from astropy import units as u
    un = u.Unit(name).decompose()
    pw = {str(b): int(p) if float(p).is_integer() else None for b, p in zip(un.bases, un.powers)}
    other = sum(abs(p) if p is not None else 1 for b, p in pw.items() if b not in ('kg', 'm', 's'))
    if any(pw.get(b) is None for b in ('kg', 'm', 's') if b in pw):
        other += 1
    return [Fraction(float(un.scale)).limit_denominator(10 ** 40), pw.get('kg') or 0, pw.get('m') or 0, pw.get('s') or 0, other]


def model_requests(case, im):
    if not isinstance(im, dict) or 'B' not in im:
        return []
    fa, ka = UNITS[case['stored']]
    fb, kb = UNITS[case['requested']]
    d = F(im['B']['d_cm'])
    reqs = []
    nu = sorted(case['nu'])
    for j, v in enumerate(nu):
        reqs.append(('convert', [fa, ka, fb, kb, F(v), d, [F(row[j]) for row in case['flux']]]))
    # the same conversion with the families derived from the units' dimensions (UnitM.convert_u), and the refusal of the unsupported unit
    ua, ub = unit_desc(case['stored']), unit_desc(case['requested'])
    reqs.append(('convert_u', [ua, ub, F(nu[0]), d, [F(row[0]) for row in case['flux']]]))
    if case['bad']:
        reqs.append(('convert_u', [ua, unit_desc(case['bad']), F(nu[0]), d, [F(case['flux'][0][0])]]))
    return reqs


def _same(a, b, tol=1e-12):
    return all(abs(x - y) <= tol * abs(y) for ra, rb in zip(a, b) for x, y in zip(ra, rb))


def judge(case, im, mo):
    tags = ['stored=' + case['stored'].replace(' ', ''), 'req=' + case['requested'].replace(' ', '')]
    if 'exc' in im:
        return dict(disagree=['implementation raised ' + im['msg']], fail=['raised: %s' % im['msg']], nontrivial=False, tags=tags + ['raised'])
    if any(isinstance(m, tuple) for m in mo):
        return dict(disagree=['driver %r' % ([m for m in mo if isinstance(m, tuple)][:1],)], fail=[], nontrivial=False)
    disagree, fail = [], []
    B = im['B']
    nu = sorted(case['nu'])
    pos = {}
    for v in nu:      # column of the returned arrays that holds frequency v (either read order)
        k = min(range(len(B['nu'])), key=lambda t: abs(B['nu'][t] - v))
        pos[v] = k
    # UnitM.convert_u: families derived from the units' dimensions; an unsupported unit is refused
    mu = mo[len(nu)] if len(mo) > len(nu) else None
    if mu is not None:
        tags.append('unit-dims')
        for a, w in enumerate(mu):
            got = B['flux'][a][pos[nu[0]]]
            if w == [] or not close(got, w[0], 1e-12, 0):
                disagree.append('%s -> %s (families from dimensions) aperture %d: implementation %r, model %r' % (case['stored'], case['requested'], a, got, None if w == [] else float(w[0])))
                break
        if case['bad'] and len(mo) > len(nu) + 1:
            mb = mo[len(nu) + 1]
            model_refuses = all(w == [] for w in mb)
            if model_refuses != str(im.get('bad', '')).startswith('refused'):
                disagree.append('unsupported unit %s: implementation %s, model %s' % (case['bad'], im.get('bad'), 'refuses' if model_refuses else 'accepts'))
    for j, col in enumerate(mo[:len(nu)]):
        for a, want in enumerate(col):
            got = B['flux'][a][pos[nu[j]]]
            if not close(got, want, 1e-12, 0):
                disagree.append('%s -> %s at nu=%r aperture %d: implementation %r, model %r' % (case['stored'], case['requested'], nu[j], a, got, float(want)))
                break
        if disagree:
            break
    # property: relations between families, evaluated directly
    fa, ka = UNITS[case['stored']]
    fb, kb = UNITS[case['requested']]
    d = F(B['d_cm'])
    for j, v in enumerate(nu):
        for a, row in enumerate(case['flux']):
            x = F(row[j]) * ka
            base = x * F(v) if fa == 'Fnu' else (x if fa == 'Fint' else x / (d * d))           # erg/cm2/s
            want = (base / F(v) if fb == 'Fnu' else (base if fb == 'Fint' else base * d * d)) / kb
            if abs(F(B['flux'][a][pos[v]]) - want) > Fraction(1, 10 ** 11) * abs(want):
                fail.append('relations: %r %s at nu=%r, d=%r cm read (order=%s) as %r %s; F = nu F_nu, L = F d^2 give %r' % (row[j], case['stored'], v, float(d), case.get('read_order'), B['flux'][a][pos[v]], case['requested'], float(want)))
                break
        if fail:
            break
    # the uncertainties obey the same relations, from the unit THEIR column was stored in
    fe, ke = UNITS[case.get('err_unit', case['stored'])]
    for j, v in enumerate(nu):
        bad = False
        for a, row in enumerate(case['flux']):
            x = F(row[j]) * F(0.5) * ke
            base = x * F(v) if fe == 'Fnu' else (x if fe == 'Fint' else x / (d * d))
            want = (base / F(v) if fb == 'Fnu' else (base if fb == 'Fint' else base * d * d)) / kb
            if abs(F(B['error'][a][pos[v]]) - want) > Fraction(1, 10 ** 11) * abs(want):
                fail.append('relations(error): uncertainty %r %s (flux column in %s) at nu=%r read as %r %s; the relations give %r'
                            % (row[j] * 0.5, case.get('err_unit', case['stored']), case['stored'], v, B['error'][a][pos[v]], case['requested'], float(want)))
                bad = True
                break
        if bad:
            break
    if im.get('twin') and case.get('twin_nu'):
        T = im['twin']
        d = F(T['d_cm'])            # the twin keeps its DISTANCE keyword even when the first file is a legacy one
        tnu = sorted(case['twin_nu'])
        done = False
        for j, v in enumerate(tnu):
            k = min(range(len(T['nu'])), key=lambda t: abs(T['nu'][t] - v))
            for a, row in enumerate(case['flux']):
                x = F(row[j]) * ka
                base = x * F(v) if fa == 'Fnu' else (x if fa == 'Fint' else x / (d * d))
                want = (base / F(v) if fb == 'Fnu' else (base if fb == 'Fint' else base * d * d)) / kb
                if abs(F(T['flux'][a][k]) - want) > Fraction(1, 10 ** 11) * abs(want):
                    fail.append('history: a second SED (same units, distance, length and end frequencies, other interior frequencies) read after the first: %r %s at nu=%r read as %r %s; the relations give %r'
                                % (row[j], case['stored'], v, T['flux'][a][k], case['requested'], float(want)))
                    done = True
                    break
            if done:
                break
    if not _same(im['ABA']['flux'], im['AA']['flux'], 1e-11) or not _same(im['ABA']['error'], im['AA']['error'], 1e-11):
        fail.append('roundtrip: %s -> %s -> %s is not the identity' % (case['stored'], case['requested'], case['stored']))
    if not _same(im['ABC']['flux'], im['AC']['flux'], 1e-11):
        fail.append('compose: %s -> %s -> %s differs from %s -> %s' % (case['stored'], case['requested'], case['third'], case['stored'], case['third']))
    if case['bad'] and im.get('bad') == 'accepted':
        fail.append('refuse: the unsupported unit %s was accepted' % case['bad'])
    return dict(disagree=disagree[:2], fail=fail[:3], nontrivial=case['stored'] != case['requested'], tags=tags)
