import sys; sys.path.insert(0, '/tmp/hunt3_C14/hunt_out')
exec(open('/tmp/hunt3_C14/hunt_out/_t4.py').read().split("ext = Extinction()")[0])
ext = Extinction(); ext.wav = np.logspace(-2, 4, 50) * u.micron; ext.chi = ext.wav.value ** -1.5 * u.cm**2 / u.g
wavs = [0.5, 1, 2, 4, 9]
for unit in (u.mJy, u.Jy, u.erg/u.cm**2/u.s, u.erg/u.s):
  for memmap in (False, True):
    d, c = build_cube(wavs, n_ap=3, apdep=True, unit=unit)
    qs = [0.4, 1.1, 2.9, 3.1, 100.] 
    filt = [q * u.micron for q in qs]
    aps = np.array([0.05, 0.1, 0.3, 0.5, 0.9])
    f = Fitter(filt, aps * u.arcsec, d, extinction_law=ext, av_range=[0, 1], distance_range=[1, 2] * u.kpc, use_memmap=memmap)
    m = f.models
    dk = m.distances.to(u.kpc).value
    for k, q in enumerate(qs):
        i = int(np.argmin(np.abs(np.array(wavs) - q)))
        v = c.val[:, :, i]
        nu = 299792458. / (wavs[i] * 1e-6)
        if unit.is_equivalent(u.erg/u.s): v = (v / (1*u.kpc)**2 / (nu*u.Hz)).to(u.mJy).value
        elif unit.is_equivalent(u.erg/u.cm**2/u.s): v = (v / (nu*u.Hz)).to(u.mJy).value
        else: v = v.to(u.mJy).value
        ap_au = aps[k] * dk * 1000.
        for im in range(3):
            e = np.interp(ap_au, [10, 100, 1000], v[im]) / dk**2
            if not np.allclose(m.fluxes[im, :, k].value, e, rtol=2e-6): print('MISMATCH', unit, memmap, q, im, m.fluxes[im, :, k].value[:3], e[:3])
    print(unit, memmap, m.wavelengths)
