"""
C11, clause "Fit results are unchanged by ... permuting the models inside the
package" -- BORDERLINE (tie-breaking).

A limit with confidence 1 gives every violating model chi^2 = 1e30 + (small) which
is *exactly* 1e30 in double precision, so all violating models tie exactly (this is
generic, not a measure-zero coincidence).  FitInfo.sort() orders with a plain
np.argsort(chi2), so the order of the tied rows -- and hence which of them survive
keep(('N', k)) / what fit(..., output_format=('N', k)) writes -- is decided by the
order in which the models happen to be stored in the package.

Package A and package B below contain the same 20 models (same names, same
fluxes); B merely lists them in reverse order in the convolved-flux files.
"""
import os, sys, io, tempfile, contextlib
import numpy as np
from astropy import units as u
from sedfitter.fit import Fitter
from sedfitter.source import Source
from sedfitter.extinction import Extinction
from sedfitter.convolved_fluxes import ConvolvedFluxes

rng = np.random.default_rng(11)
nm = 20
names = np.array(['model_%02d' % i for i in range(nm)])
wavs = [1.2, 2.2, 3.6, 8.0]
filt = ['fa', 'fb', 'fc', 'fd']
flux = 10 ** rng.uniform(0, 1, (nm, 4))
flux[:, 3] = 10 ** np.linspace(-1, 3, nm)      # spread in the band carrying the limit


def package(order):
    d = tempfile.mkdtemp()
    os.mkdir(os.path.join(d, 'convolved'))
    with open(os.path.join(d, 'models.conf'), 'w') as f:
        f.write("name = test\nlength_subdir = 0\naperture_dependent = no\nlogd_step = 0.02\n")
    for i, fn in enumerate(filt):
        c = ConvolvedFluxes(wavelength=wavs[i] * u.micron, model_names=names[order],
                            flux=flux[order, i].reshape(nm, 1) * u.mJy,
                            error=0.01 * flux[order, i].reshape(nm, 1) * u.mJy)
        c.write(os.path.join(d, 'convolved', fn + '.fits'))
    return d


ext = Extinction()
ext.wav = np.logspace(-2., 3., 50) * u.micron
ext.chi = ext.wav.value ** -1.5 * u.cm ** 2 / u.g


def fitter(d):
    with contextlib.redirect_stdout(io.StringIO()):
        return Fitter(filt, [3., 3., 3., 3.] * u.arcsec, d, extinction_law=ext, av_range=[0., 10.])


FA = fitter(package(np.arange(nm)))
FB = fitter(package(np.arange(nm)[::-1]))

s = Source()
s.name = 'src'
s.x = 0.
s.y = 0.
s.valid = [1, 1, 1, 3]
s.flux = [3., 4., 5., 0.5]
s.error = [0.3, 0.4, 0.5, 1.0]     # upper limit with confidence 1

a = FA.fit(s)
b = FB.fit(s)

# As a mapping name -> (av, sc, chi2) the two results agree ...
da = {n: (x, y, z) for n, x, y, z in zip(a.model_name, a.av, a.sc, a.chi2)}
db = {n: (x, y, z) for n, x, y, z in zip(b.model_name, b.av, b.sc, b.chi2)}
assert set(da) == set(db)
for k in da:
    assert np.allclose(da[k], db[k], rtol=1e-10, atol=1e-10), k

n_ok = int(np.sum(a.chi2 < 1e30))
n_tied = int(np.sum(a.chi2 == 1e30))
print("models allowed by the limit:", n_ok, " models with chi2 == 1e30 exactly:", n_tied)
assert n_tied >= 5

# ... but the sorted result lists differ, and so does what the user keeps
a.keep(('N', n_ok + 3))
b.keep(('N', n_ok + 3))
print("package A keeps:", list(a.model_name))
print("package B keeps:", list(b.model_name))
assert list(a.model_name) == list(b.model_name), \
    ("C11 (permuting the models inside the package): same models, same source, but the "
     "fits kept with ('N', %d) differ: A -> %s, B -> %s.  All models that violate the "
     "confidence-1 upper limit have chi2 == 1e30 exactly and FitInfo.sort() breaks the tie "
     "by storage order." % (n_ok + 3, list(a.model_name), list(b.model_name)))
