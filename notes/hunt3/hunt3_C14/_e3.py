import numpy as np, tempfile, os, warnings
from astropy import units as u
from astropy.table import Table, QTable
from sedfitter.extinction import Extinction
d = tempfile.mkdtemp()
w = np.array([0.1, 0.3, 0.55, 1.0, 2.2, 10.])
c = np.array([900., 400., 210., 80., 20., 3.])
q = np.array([0.05, 0.1, 0.2, 0.55, 5., 10., 11.]) * u.micron
for wu, cu in ((u.micron, u.cm**2/u.g), (u.AA, u.m**2/u.kg), (u.m, u.cm**2/u.kg)):
    e = Extinction(); e.wav = (w*u.micron).to(wu); e.chi = (c*u.cm**2/u.g).to(cu)
    r = e.get_av(q)
    t = e.to_table()
    for fmt, ext in (('fits', 'fits'), ('ascii.ecsv', 'ecsv'), ('votable', 'xml'), ('ascii.ipac', 'tbl'), ('hdf5', 'h5'), ('parquet', 'pq')):
        fn = d + '/t.' + ext
        try:
            kw = {'path': 'x'} if fmt == 'hdf5' else {}
            t.write(fn, format=fmt, overwrite=True, **kw)
        except Exception as ex:
            print(fmt, 'write fail', repr(ex)[:80]); continue
        for cls in (Table, QTable):
            try:
                t2 = cls.read(fn, format=fmt, **kw)
                e2 = Extinction.from_table(t2)
                r2 = e2.get_av(q)
                print(wu, fmt, cls.__name__, type(t2['wav']).__name__, type(r2).__name__, np.allclose(np.asarray(r2), np.asarray(r), rtol=1e-12), e2 == e)
            except Exception as ex:
                print(wu, fmt, cls.__name__, 'FAIL', repr(ex)[:150])
    # masked
    tm = Table(t, masked=True)
    try:
        e2 = Extinction.from_table(tm); r2 = e2.get_av(q); print('masked', type(r2), np.allclose(np.asarray(r2), np.asarray(r)))
    except Exception as ex: print('masked FAIL', repr(ex)[:150])
