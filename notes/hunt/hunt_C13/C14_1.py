"""
C14 violation: an opacity table tabulated in Angstrom whose first row is 5500 A
covers 0.55 micron, yet get_av(0.55 micron) returns 0 instead of -0.4.

(0.55*u.micron).to(u.AA) evaluates to 5499.999999999999, one ulp below the
first node, so the numerator np.interp(..., left=0) is 0 while the denominator
(no left/right) clamps to chi[0].  In exact arithmetic the double 0.55 (micron)
is 5500.00000000000044 A, i.e. INSIDE the table, which the script checks with
rational arithmetic.

Clauses violated: "exactly -0.4 at 0.55 micron"; "does not change when
wavelengths ... are expressed in other units" (the same table in micron, and
the same query written as 5500 A, both give -0.4).
"""
import sys
from fractions import Fraction
import numpy as np
from astropy import units as u
from sedfitter.extinction import Extinction

wav_A = np.array([5500., 10000., 22000., 100000.])      # increasing, in Angstrom
chi = np.array([200., 80., 25., 3.])                    # positive opacities

law = Extinction()
law.wav = wav_A * u.AA
law.chi = chi * u.cm ** 2 / u.g

# 0.55 micron (as a double) lies inside [5500 A, 100000 A] in exact arithmetic
q_exact_A = Fraction(0.55) * 10000
assert Fraction(5500.0) <= q_exact_A <= Fraction(100000.0), "premise: table covers 0.55 micron"

v_micron = law.get_av(np.array([0.55]) * u.micron)
v_angstrom = law.get_av(np.array([5500.]) * u.AA)

# same table expressed in micron
law_um = Extinction()
law_um.wav = np.array([0.55, 1.0, 2.2, 10.0]) * u.micron
law_um.chi = chi * u.cm ** 2 / u.g
v_um_table = law_um.get_av(np.array([0.55]) * u.micron)

print("table in Angstrom, query 0.55 micron :", v_micron)
print("table in Angstrom, query 5500 A      :", v_angstrom)
print("table in micron,   query 0.55 micron :", v_um_table)

val = float(np.asarray(u.Quantity(v_micron).value).ravel()[0])
if abs(val - (-0.4)) > 1e-12:
    print("C14 VIOLATED: table [5500, 10000, 22000, 100000] Angstrom covers 0.55 micron but "
          "get_av(0.55 micron) = %r instead of -0.4 (the same query written as 5500 A gives %r, "
          "the same table written in micron gives %r)"
          % (val, float(u.Quantity(v_angstrom).value[0]), float(u.Quantity(v_um_table).value[0])))
    sys.exit(1)
print("no violation")
