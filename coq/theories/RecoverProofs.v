(* C08: planted models in the aperture-dependent branch, and non-negativity of chi^2. *)
From Coq Require Import QArith Lqa Lia List Bool ZArith.
Import ListNotations.
Open Scope Q_scope.
From SedV Require Import Clamp FitCore Flags Fit3 Recover FitModel FitModelProofs FlagsProofs.

Definition planted1 (A0 : Q) (r : row) : Prop := resid r == A0 * r_a r.

Lemma planted1_moments A0 rows : Forall (planted1 A0) rows -> c1 rows == A0 * m11 rows.
Proof. unfold c1, m11. induction 1 as [|r rs Hr _ IH]; simpl; [ring|]. unfold planted1 in Hr. rewrite IH, Hr. ring. Qed.

Lemma S1_planted A0 rows : Forall (planted1 A0) rows -> S1 rows A0 == 0.
Proof. unfold S1. induction 1 as [|r rs Hr _ IH]; simpl; [reflexivity|]. unfold planted1 in Hr. rewrite IH, Hr. ring. Qed.

(* at the planted distance the fitted A_V is the planted one and the weighted residual vanishes *)
Theorem exact_3d lo hi A0 rows : Forall (planted1 A0) rows -> 0 < m11 rows -> lo <= A0 <= hi ->
  av_at_distance lo hi rows == A0 /\ S1 rows (av_at_distance lo hi rows) == 0.
Proof.
  intros HP H11 Hr. pose proof (planted1_moments A0 rows HP) as E1.
  assert (E : optscale_av_m rows == A0) by (unfold optscale_av_m; rewrite E1; field; lra).
  assert (Ea : av_at_distance lo hi rows == A0).
  { unfold av_at_distance, clip. destruct (Qlt_le_dec (optscale_av_m rows) lo); [lra|]. destruct (Qlt_le_dec hi (optscale_av_m rows)); [lra|exact E]. }
  split; [exact Ea|]. rewrite S1_moments. pose proof (S1_planted A0 rows HP) as Z. rewrite S1_moments in Z. rewrite Ea. exact Z.
Qed.

(* every chi^2 is non-negative (non-negative weights and penalties): a model with chi^2 = 0 is in the leading tie group *)
Theorem chi2_nonneg pen rows av sc : Forall (fun r => 0 <= w r) rows -> (forall c q, pen c = Some q -> 0 <= q) ->
  0 <= chi2_m pen rows av sc.
Proof.
  intros Hw Hp. unfold chi2_m. apply qsum_nonneg. intros r Hr. apply chi_term_nonneg; [|exact Hp].
  rewrite Forall_forall in Hw. now apply Hw.
Qed.
