"""
C02 - a single-precision distance range makes the whole distance grid single
precision; the first trial distance then falls ~6e-8 (relative) below dmin and
a legal configuration (theta*dmin == smallest tabulated aperture) is refused
with "Aperture(s) requested too small".

The same numbers given in double precision are accepted and fitted.
"""
import os
import tempfile

import numpy as np
from astropy import units as u

from sedfitter.convolved_fluxes import ConvolvedFluxes
from sedfitter.extinction import Extinction
from sedfitter.source import Source
from sedfitter.fit import Fitter


def make_package():
    d = tempfile.mkdtemp()
    os.mkdir(os.path.join(d, 'convolved'))
    with open(os.path.join(d, 'models.conf'), 'w') as f:
        f.write("name = test\nlength_subdir = 0\naperture_dependent = yes\nlogd_step = 0.02\n")
    c = ConvolvedFluxes(wavelength=3.6 * u.micron,
                        model_names=np.array(['model_a', 'model_b']),
                        apertures=np.array([125., 1000., 8000.]) * u.au,
                        flux=np.array([[1., 2., 4.], [3., 3.5, 3.7]]) * u.mJy,
                        error=np.array([[.1, .2, .4], [.3, .35, .37]]) * u.mJy)
    c.write(os.path.join(d, 'convolved', 'F1.fits'))
    return d


ext = Extinction()
ext.wav = np.logspace(-2., 3., 50) * u.micron
ext.chi = ext.wav.value ** -1.5 * u.cm ** 2 / u.g

pkg = make_package()
theta = [1.] * u.arcsec          # theta * dmin = 1" * 125 pc = 125 AU = smallest aperture

s = Source()
s.name = 'src'
s.valid = [1]
s.flux = np.array([0.5])
s.error = np.array([0.05])

# control: double precision
dr64 = np.array([0.125, 32.]) * u.kpc
info = Fitter(['F1'], theta, pkg, extinction_law=ext, av_range=(0., 10.),
              distance_range=dr64).fit(s)
assert len(info.chi2) == 2

# the same (exactly representable) numbers in single precision
dr32 = np.array([0.125, 32.], dtype=np.float32) * u.kpc
assert np.all(dr32.value == dr64.value)
try:
    fitter = Fitter(['F1'], theta, pkg, extinction_law=ext, av_range=(0., 10.),
                    distance_range=dr32)
except Exception as exc:
    raise AssertionError(
        "C02 violated: distance_range = [0.125, 32] kpc given as a float32 "
        "Quantity, theta = 1 arcsec, smallest tabulated aperture = 125 AU "
        "(theta*dmin is NOT below the smallest aperture), yet the fitter "
        "refuses the configuration with %r; the identical range in float64 "
        "is fitted. Cause: log10/logspace are evaluated in single precision, "
        "so the first grid distance is 0.125*(1-6e-8) kpc." % (exc,))
print("no violation")
