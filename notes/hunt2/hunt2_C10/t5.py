import sys; sys.path.insert(0, '/tmp/hunt2_C10/hunt_out')
from _helper import *
import warnings; warnings.simplefilter('ignore')
from sedfitter import fit, Fitter, filter_output
from sedfitter.source import Source
from sedfitter.fit_info import FitInfoFile
d, md = build(True)
rng = np.random.RandomState(5)
ext = extinction()
kw = dict(extinction_law=ext, distance_range=[1., 2.] * u.kpc, av_range=[0., 10.])
def read(p):
    if os.path.getsize(p) == 0: return []
    return list(FitInfoFile(p, 'r'))
for trial in range(25):
    n = rng.randint(1, 11)
    lines = []
    for k in range(n):
        flags = rng.choice([1, 1, 1, 4, 0, 2, 3, 9], 3)
        if not np.any((flags == 1) | (flags == 4)): flags[0] = 1
        fl = 10 ** rng.uniform(-1, 2, 3); er = fl * rng.uniform(0.01, 0.5, 3)
        vals = []
        for j in range(3):
            if flags[j] == 4: vals += [np.log10(fl[j]), 0.1]
            elif flags[j] in (2, 3): vals += [fl[j], rng.uniform(0, 1)]
            else: vals += [fl[j], er[j]]
        lines.append("src%d_%d 1 2 %d %d %d " % (trial, rng.randint(100), *flags) + " ".join("%r" % float(v) for v in vals))
    sub = d + '/t%d' % trial; os.mkdir(sub)
    open(sub + '/data', 'w').write("\n".join(lines) + "\n")
    out = sub + '/out.fitinfo'
    sel = [('A',), ('N', 1), ('N', 3), ('F', 2.)][trial % 4]
    fit(sub + '/data', ['bob', 'alice', 'eve'], [1., 3., 3.] * u.arcsec, md, out, n_data_min=1, output_format=sel, output_convolved=bool(trial % 2), **kw)
    recs = read(out)
    assert len(recs) == n
    best = np.array([r.chi2[0] for r in recs]); nd = np.array([r.source.n_data for r in recs])
    for crit in ['chi', 'cpd']:
        vals = best if crit == 'chi' else best / nd
        for thr in [np.median(vals) * 1.0001, vals.min() * 0.5, vals.max() * 2, float(np.sort(vals)[len(vals) // 3]) + 1e-9, 0, -1, np.float32(np.median(vals)) ]:
          for form in ['file', 'list', 'fileauto']:
            g = sub + '/g_%s_%s' % (crit, form); b = sub + '/b_%s_%s' % (crit, form)
            if form == 'file': filter_output(out, g, b, **{crit: thr})
            elif form == 'list': filter_output(recs if n > 1 or trial % 2 else recs[0], g, b, **{crit: thr})
            else:
                filter_output(out, **{crit: thr}); g = out + '_good'; b = out + '_bad'
            G = read(g); B = read(b)
            expg = [i for i in range(n) if vals[i] < thr]
            expb = [i for i in range(n) if not vals[i] < thr]
            assert len(G) == len(expg) and len(B) == len(expb), (crit, thr, form)
            for lst, idx in [(G, expg), (B, expb)]:
                for r, i in zip(lst, idx):
                    assert not info_eq(r, recs[i])
                    assert r.meta == recs[i].meta
print("C18 OK")
