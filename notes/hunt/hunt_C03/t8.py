from common import *
import gzip, shutil, itertools
from sedfitter import fit
from sedfitter.fit_info import FitInfoFile
rng = np.random.RandomState(11)
wavs = [1., 2., 4., 8., 16.]
nm = 7
names = ['b', 'a', 'ab', 'abc', 'a_1', 'a_10', 'Z']
for mode in ('indep', 'dep'):
    if mode == 'indep':
        fl = 10 ** rng.uniform(-1, 1, (nm, 5)); fl[3] = fl[2]  # exact tie
        d, fn = make_dir(names, fl, wavs)
    else:
        aps = np.logspace(2, 5, 6)
        fl = np.cumsum(10 ** rng.uniform(-1, 1, (nm, 6, 5)), axis=1); fl[3] = fl[2]
        d, fn = make_dir(names, fl, wavs, apertures=aps)
    # gzip one file
    p = os.path.join(d, 'convolved', 'F2.fits')
    with open(p, 'rb') as fi, gzip.open(p + '.gz', 'wb') as fo:
        shutil.copyfileobj(fi, fo)
    os.remove(p)
    lines = []
    srcs = []
    for k, valid in enumerate([(1,1,1,1,1), (1,0,1,9,1), (4,1,2,3,1), (1,1,0,0,0), (3,3,1,1,1), (1,2,1,2,1)]):
        flux = 10 ** rng.uniform(-0.5, 1.5, 5); err = flux * rng.uniform(0.05, 0.3, 5)
        for j, v in enumerate(valid):
            if v in (2, 3): err[j] = [0., 1., 0.7][(k + j) % 3]
            if v == 4: err[j] = err[j]/flux[j]/np.log(10); flux[j] = np.log10(flux[j])
            if v in (0, 9): flux[j] = -999.; err[j] = -999.
        line = "src%d 1.0 2.0 " % k + " ".join(str(v) for v in valid) + " " + " ".join("%r %r" % (float(a), float(b)) for a, b in zip(flux, err))
        lines.append(line)
        srcs.append(Source.from_ascii(line))
    df = os.path.join(d, 'data.txt'); open(df, 'w').write("\n".join(lines) + "\n")
    out = os.path.join(d, 'out.fitinfo')
    kw = dict(extinction_law=ext(), av_range=[0., 4.], distance_range=[1., 1.2]*u.kpc)
    quiet(fit, df, fn, [3.]*5*u.arcsec, d, out, n_data_min=2, output_format=('A', 0), output_convolved=True, **kw)
    F = quiet(Fitter, fn, [3.]*5*u.arcsec, d, **kw)
    fin = FitInfoFile(out, 'r')
    got = list(fin)
    print(mode, len(got), [g.source.name for g in got])
    for g in got:
        s = [x for x in srcs if x.name == g.source.name][0]
        info = F.fit(s)
        assert np.array_equal(info.chi2, g.chi2, equal_nan=True)
        assert np.array_equal(info.model_id, g.model_id), (info.model_id, g.model_id)
        assert np.array_equal(info.model_name, g.model_name)
        assert np.array_equal(info.model_fluxes, g.model_fluxes, equal_nan=True)
        assert sorted(g.model_id) == list(range(nm))
        assert all(names[i] == n for i, n in zip(g.model_id, g.model_name))
        assert np.all(np.diff(g.chi2) >= 0), g.chi2
        lm = F.models.log_fluxes_mJy
        for r in range(nm):
            m = g.model_id[r]
            if mode == 'indep':
                pred = lm[m] + g.av[r] * F.av_law - 2 * g.sc[r]
            else:
                k = np.argmin(np.abs(F.models.logd - g.sc[r]))
                pred = lm[m, k] + g.av[r] * F.av_law
            assert np.allclose(pred, g.model_fluxes[r], atol=1e-12, rtol=0), (pred, g.model_fluxes[r])
        print(g.source.name, g.chi2[:4], g.model_name[:4])
