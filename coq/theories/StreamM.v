(* Executable instances of the fit() driver loop (Loop.fit_file) and of the post-processing history model (History). *)
From Coq Require Import List Arith ZArith QArith Bool.
Import ListNotations.
From SedV Require Import Xnum Keep Loop History.
Close Scope Q_scope.

(* one data line as the driver sees it: a source with n_data fitted points (and an identity), an end-of-input line
   (fewer than three columns), or a line that Source.from_ascii rejects *)
Inductive lkind := LSource (nd : nat) (id : Z) | LEof | LError.

Definition lparse (l : lkind) : parsed (nat * Z) :=
  match l with LSource nd id => PSource _ (nd, id) | LEof => PEof _ | LError => PError _ end.

(* ids of the sources for which fit() writes a record, in file order; None = an exception propagates *)
Definition fit_file_m (nmin : nat) (lines : list lkind) : option (list Z) :=
  fit_file lkind (nat * Z) Z lparse fst snd nmin lines.

(* post-processing histories: a fit = (n_data of its source, chi2) *)
Definition hfit := (positive * xnum)%type.
Definition hnkeep (s : sel) (r : list hfit) : nat :=
  match r with [] => 0 | (nd, _) :: _ => nkeep s nd (map snd r) end.

Definition lens (rs : list (list hfit)) : list nat := map (@length hfit) rs.

(* outputs (numbers of fits listed per source) of a sequence of calls, and the caller's results afterwards *)
Definition history_copy (state : list (list hfit)) (ops : list sel) : list (list nat) * list nat :=
  let '(outs, final) := run_copy hfit sel hnkeep state ops in (map lens outs, lens final).
Definition history_alias (state : list (list hfit)) (ops : list sel) : list (list nat) * list nat :=
  let '(outs, final) := run_alias hfit sel hnkeep state ops in (map lens outs, lens final).
Definition history_file (state : list (list hfit)) (ops : list sel) : list (list nat) :=
  map lens (run_file hfit sel hnkeep state ops).

Theorem history_copy_is_file state ops : history_copy state ops = (history_file state ops, lens state).
Proof. unfold history_copy, history_file. now rewrite C10_history. Qed.

Theorem fit_file_records nmin lines :
  fit_file_m nmin lines =
  option_map (fun ss => map snd (filter (fun s => nmin <=? fst s) ss)) (sources_until_eof lkind (nat * Z) lparse lines).
Proof. unfold fit_file_m. apply C10_records. Qed.

(* ---- a fit file cut at byte k: three header pickles, then one pickle per record ---- *)
From SedV Require Import Frame Reader.

(* None = opening the file fails (a header pickle is incomplete); Some n = n records are yielded before the iteration ends *)
Definition reader_m (lens : list nat) (k : nat) : option nat :=
  let m := prefix_count lens k in if m <? 3 then None else Some (m - 3).

Lemma prefix_count_le lens : forall k, prefix_count lens k <= length lens.
Proof. induction lens as [|l r IH]; intros k; simpl; [auto|]. destruct (l <=? k); [specialize (IH (k - l)); auto with arith|auto with arith]. Qed.

(* what is yielded is an exact prefix of the records that were written *)
Theorem reader_prefix {A} (h1 h2 h3 : A) (recs : list A) m : 3 <= m ->
  skipn 3 (firstn m (h1 :: h2 :: h3 :: recs)) = firstn (m - 3) recs.
Proof. intros H. destruct m as [|[|[|m]]]; try (exfalso; auto with arith; inversion H; inversion H1; inversion H3). simpl. now rewrite Nat.sub_0_r. Qed.
