(* convolve_model_dir_monochromatic: which SED wavelength indices get a file, for any chunk size and window; and the
   nearest-wavelength choice of Models.read for cube packages. *)
From Coq Require Import ZArith QArith Lia List Bool.
Import ListNotations.
From SedV Require Import Xnum FilterOut FitModel Fit3Proofs Mono Window.
Close Scope Q_scope.
Open Scope Z_scope.

(* indices (0-based, into the decreasing wavelength array) for which MO<j+1>.fits is written; repaired loop.
   chunk_size = max(1, min(chunk_size, jhi - jlo + 1)): a memory limit too small for a single wavelength, or a window holding no
   wavelength, still gives a positive step (F36: range() used to be called with step 0) *)
Definition mono_m (wavs : list Q) (wmin wmax : Q) (chunk : Z) : Z * Z * list Z :=
  let lo := jlo wavs wmax in let hi := jhi wavs wmin in
  let c := Z.max 1 (Z.min chunk (hi - lo + 1)) in
  (lo, hi, emit_fixed lo hi c).
(* the loop as it stood before the repair *)
Definition mono_current_m (wavs : list Q) (wmin wmax : Q) (chunk : Z) : Z * Z * list Z :=
  let lo := jlo wavs wmax in let hi := jhi wavs wmin in
  let c := Z.min chunk (hi - lo + 1) in
  (lo, hi, emit_current lo hi c).

Lemma emit_fixed_empty lo hi c : hi < lo -> emit_fixed lo hi c = [].
Proof.
  intros H. unfold emit_fixed, range_step.
  replace (Z.to_nat (hi + 1 - lo)) with 0%nat by lia. reflexivity.
Qed.

Theorem mono_emits_window wavs wmin wmax chunk :
  let '(lo, hi, out) := mono_m wavs wmin wmax chunk in
  lo <= hi -> out = zseq lo (Z.to_nat (hi - lo + 1)).
Proof. unfold mono_m. intros Hle. apply emitted_all; lia. Qed.

(* a window that holds no tabulated wavelength: nothing is written (and the call returns) whatever the memory limit *)
Theorem mono_empty_window wavs wmin wmax chunk :
  let '(lo, hi, out) := mono_m wavs wmin wmax chunk in hi < lo -> out = [].
Proof. unfold mono_m. intros H. apply emit_fixed_empty. exact H. Qed.

Theorem mono_chunk_independent wavs wmin wmax c c' :
  mono_m wavs wmin wmax c = mono_m wavs wmin wmax c'.
Proof.
  unfold mono_m. f_equal.
  destruct (Z_lt_le_dec (jhi wavs wmin) (jlo wavs wmax)) as [H|H].
  - now rewrite !emit_fixed_empty by exact H.
  - rewrite !emitted_all by lia. reflexivity.
Qed.

(* np.argmin(np.abs(cube.wav - w0)) *)
Definition Qabsd (a b : Q) : Q := if Qle_bool b a then (a - b)%Q else (b - a)%Q.
Definition nearest_m (wavs : list Q) (w0 : Q) : nat := argmin_x (map (fun w => Fin (Qabsd w w0)) wavs).

Theorem nearest_spec wavs w0 : wavs <> [] ->
  (nearest_m wavs w0 < length wavs)%nat /\
  forall w, In w wavs -> xlt (Fin (Qabsd w w0)) (Fin (Qabsd (nth (nearest_m wavs w0) wavs 0%Q) w0)) = false.
Proof.
  intros Hne. unfold nearest_m.
  assert (Hm : map (fun w => Fin (Qabsd w w0)) wavs <> []) by (destruct wavs; [congruence|discriminate]).
  destruct (argmin_x_spec _ NaN Hm) as [Hb Hmin]. rewrite map_length in Hb. split; [exact Hb|].
  intros w Hw.
  assert (E : nth (argmin_x (map (fun w1 => Fin (Qabsd w1 w0)) wavs)) (map (fun w1 => Fin (Qabsd w1 w0)) wavs) NaN =
              Fin (Qabsd (nth (argmin_x (map (fun w1 => Fin (Qabsd w1 w0)) wavs)) wavs 0%Q) w0)).
  { rewrite (nth_indep _ NaN (Fin (Qabsd 0%Q w0))) by (rewrite map_length; exact Hb).
    exact (map_nth (fun w1 => Fin (Qabsd w1 w0)) wavs 0%Q _). }
  rewrite <- E. apply Hmin. apply in_map_iff. exists w. split; [reflexivity|exact Hw].
Qed.
