"""C05 — FitInfo.keep against Keep.nkeep (extracted) and against the property clauses."""
import itertools
import math
from fractions import Fraction

from common import Rng, F

PROP = 'C05'
MODEL_OPS = 'Keep0.nkeepN (= Keep.nkeep for n_data >= 1; n_data = 0 with numpy division semantics)'
RULE = ('case = (ranked chi2 vector, n_data); within a case every selector of the grid and every ordered pair of selectors '
        'is applied to a fresh FitInfo whose columns are distinct per row. quick: all non-decreasing vectors of length 0..4 over '
        '{0,1,2.5,7,+inf,nan} x n_data {0,1,2,5} (exhaustive) + 150 random vectors up to length 200; thorough: length 0..5 + 3000 random. '
        'non-trivial = some selector keeps a strict non-empty prefix.')
EXHAUSTIVE = {'quick': True, 'thorough': True}
ASSUMPTIONS = ['numpy argsort places NaN last (the ranked input of keep)',
               'thresholds never equal an attained value (relative margin >= 1e-9, measured exactly)',
               'n_data >= 0 (0: a source with limits only, chi2 / 0 evaluated as numpy does); N selectors have n >= 0']

ALPHA = [0.0, 1.0, 2.5, 7.0, math.inf, math.nan]
THRESH = [-0.5, 0.4, 1.1, 2.6, 6.5, 7.5]
NDATA_FLAGS = {0: [2, 3, 0, 9], 1: [1, 0, 9, 2], 2: [1, 4, 0, 3, 9], 5: [1, 1, 4, 4, 1, 2, 3, 0, 9], 3: [4, 9, 1, 0, 1], 7: [1] * 7 + [0, 2]}


def selectors():
    sels = [['A', 0.0], ['A'], ['A', None]]      # the one-element spelling of the property text, and an ignored value
    sels += [['N', n] for n in range(0, 8)]
    for f in 'CDEF':
        sels += [[f, v] for v in THRESH]
    return sels


def generate(tier, seed):
    rng = Rng(seed * 1000003 + 5)
    maxlen = 4 if tier == 'quick' else 5
    cases = []
    for n in range(0, maxlen + 1):
        for vec in itertools.combinations_with_replacement(range(len(ALPHA)), n):
            for nd in (0, 1, 2, 5):
                cases.append(dict(kind='enum', chi=[ALPHA[i] for i in vec], nd=nd, sels=selectors(), pairs=True))
    nrand = 150 if tier == 'quick' else 3000
    for k in range(nrand):
        n = rng.choice([6, 10, 25, 60, 200]) if k % 3 else rng.randint(1, 12)
        nfin = rng.randint(0, n)
        vals = sorted(rng.choice([rng.dyadic(0, 50, 10), float(rng.randint(0, 9))]) for _ in range(nfin))
        ninf = rng.randint(0, n - nfin)
        chi = vals + [math.inf] * ninf + [math.nan] * (n - nfin - ninf)
        nd = rng.choice([0, 1, 2, 3, 5, 7])
        sels = [['A', 0.0], ['A'], ['N', rng.randint(0, n + 3)], ['N', rng.randint(0, n + 3)]]
        for f in 'CDEF':
            for _ in range(3):
                sels.append([f, rng.dyadic(-1, 60, 12) + 2.0 ** -20])
        cases.append(dict(kind='random', chi=chi, nd=nd, sels=sels, pairs=True))
    return cases


def _mkinfo(chi, nd):
    import numpy as np
    from sedfitter.fit_info import FitInfo
    from sedfitter.source import Source
    n = len(chi)
    s = Source()
    s.name = 'src'
    flags = NDATA_FLAGS[nd]
    s.valid = flags
    s.flux = [1.0] * len(flags)
    s.error = [0.1] * len(flags)
    info = FitInfo(source=s)
    info.chi2 = np.array(chi, dtype=float)
    info.av = np.arange(n) + 0.25
    info.sc = np.arange(n) + 0.5
    info.model_id = np.arange(n) + 100
    info.model_name = np.array(['m%03d' % i for i in range(n)], dtype='U30')
    info.model_fluxes = np.arange(n * 2, dtype=float).reshape(n, 2) + 0.125
    return info


def _cols_prefix(info, chi):
    """number of rows kept if every column is the same-length prefix of the original, else -1"""
    import numpy as np
    k = len(info.chi2)
    ref = _mkinfo(chi, 1)
    for name in ('av', 'sc', 'model_id', 'model_name', 'model_fluxes', 'chi2'):
        a, b = getattr(info, name), getattr(ref, name)[:k]
        if len(a) != k:
            return -1
        if not np.array_equal(a, b, equal_nan=(name == 'chi2')):
            return -1
    return k


def impl(case):
    chi, nd = case['chi'], case['nd']
    single, pair = [], []
    for s in case['sels']:
        info = _mkinfo(chi, nd)
        info.keep(tuple(s))
        single.append([int(info.n_fits), _cols_prefix(info, chi)])
    if case.get('pairs'):
        for s1 in case['sels']:
            row = []
            for s2 in case['sels']:
                info = _mkinfo(chi, nd)
                info.keep(tuple(s1))
                info.keep(tuple(s2))
                row.append(_cols_prefix(info, chi))
            pair.append(row)
    return dict(single=single, pair=pair)


def _xq(x):
    return x if isinstance(x, float) and not math.isfinite(x) else F(x)


def _sel(s):
    return ['A'] if s[0] == 'A' else (['N', int(s[1])] if s[0] == 'N' else [s[0], F(s[1])])


def model_requests(case):
    chi = [_xq(x) for x in case['chi']]
    reqs = []
    for k in range(len(chi) + 1):
        for s in case['sels']:
            reqs.append(('nkeep', [_sel(s), case['nd'], chi[:k]]))
    return reqs


def _crit(form, v, nd, c0, x):
    """the documented criterion with IEEE semantics (python floats)"""
    if form == 'C':
        return x <= v
    if form == 'D':
        return x - c0 <= v
    if form == 'E':
        return _div(x, nd) <= v
    if form == 'F':
        return _div(x - c0, nd) <= v


def _div(x, nd):
    """IEEE division by the integer n_data (0 for a source with limits only)"""
    if nd:
        return x / nd
    return math.nan if (x == 0 or math.isnan(x)) else math.copysign(math.inf, x)


def _margin_ok(form, v, nd, chi):
    """exact relative distance of every attained value from the threshold"""
    fin = [F(x) for x in chi if math.isfinite(x)]
    if not fin or form in 'AN' or (nd == 0 and form in 'EF'):
        return True
    c0 = fin[0] if math.isfinite(chi[0]) else None
    for x in fin:
        if form == 'C':
            q = x
        elif form == 'E':
            q = x / nd
        elif c0 is None:
            continue
        elif form == 'D':
            q = x - c0
        else:
            q = (x - c0) / nd
        if abs(q - F(v)) <= Fraction(1, 10 ** 9) * max(abs(F(v)), 1):
            return False
    return True


def judge(case, im, mo):
    chi, nd, sels = case['chi'], case['nd'], case['sels']
    n, ns = len(chi), len(sels)
    disagree, fail = [], []
    if 'exc' in im:
        return dict(disagree=['implementation raised %s' % im['msg']], fail=['raised: keep() raised %s' % im['msg']], nontrivial=False)
    if any(isinstance(m, tuple) for m in mo):
        return dict(disagree=['driver: %r' % [m for m in mo if isinstance(m, tuple)][:1]], fail=[], nontrivial=False)
    mk = [[min(mo[k * ns + j], k) for j in range(ns)] for k in range(n + 1)]    # mk[k][j]: kept from chi[:k] under sel j
    nontrivial = False
    evals = 0
    # --- single selectors
    for j, s in enumerate(sels):
        evals += 1
        nf, pk = im['single'][j]
        form, v = s[0], (s[1] if len(s) > 1 else None)
        ok_margin = _margin_ok(form, v, nd, chi)
        if pk < 0:
            fail.append('columns: selector %r leaves columns of unequal length or not a common prefix' % (s,))
            continue
        if ok_margin and pk != mk[n][j]:
            disagree.append('selector %r: implementation keeps %d, model %d' % (s, pk, mk[n][j]))
        if 0 < pk < n:
            nontrivial = True
        # property oracle
        if form == 'A':
            want = n
        elif form == 'N':
            want = min(int(v), n)
        else:
            if not ok_margin:
                continue
            c0 = chi[0] if n else 0.0
            flags = [bool(_crit(form, v, nd, c0, x)) for x in chi]
            want = sum(flags)
            if flags != [True] * want + [False] * (n - want):
                continue   # the passing fits do not form a prefix (cannot happen for ranked input without -inf)
        if pk != want:
            fail.append('count: selector %r on %d fits keeps %d, the syntax page says %d' % (s, n, pk, want))
    # --- compositions
    if im['pair']:
        for i, s1 in enumerate(sels):
            k1 = im['single'][i][1]
            for j, s2 in enumerate(sels):
                evals += 1
                got = im['pair'][i][j]
                k2 = im['single'][j][1]
                if got < 0 or k1 < 0 or k2 < 0:
                    fail.append('columns: keep %r then %r leaves unequal columns' % (s1, s2))
                    continue
                if not (_margin_ok(s1[0], s1[1] if len(s1) > 1 else None, nd, chi) and _margin_ok(s2[0], s2[1] if len(s2) > 1 else None, nd, chi)):
                    continue
                m1 = mk[n][i]
                want_model = mk[m1][j]
                if got != want_model:
                    disagree.append('keep %r then %r: implementation %d, model %d' % (s1, s2, got, want_model))
                if k1 >= k2 and got != k2:   # looser selector first (includes selecting twice)
                    fail.append('composition: keep %r (keeps %d) then %r gives %d fits, keep %r alone gives %d' % (s1, k1, s2, got, s2, k2))
    tags = ['len=%d' % min(n, 6), 'kind=' + case['kind']]
    return dict(disagree=disagree[:5], fail=fail[:5], nontrivial=nontrivial, evals=evals, tags=tags)


def shrink(case):
    import copy
    for i in range(len(case['sels'])):
        if len(case['sels']) > 1:
            c = copy.deepcopy(case)
            del c['sels'][i]
            yield c
    for i in range(len(case['chi'])):
        c = copy.deepcopy(case)
        del c['chi'][i]
        yield c
