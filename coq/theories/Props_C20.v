(* C20 — source lines are parsed by the documented column layout or rejected.
   Model: SrcAscii.from_ascii_m (Source.from_ascii statement by statement; int()/float() results are oracle
   fields of the tokens).  Proofs in SrcAscii.v / SrcAscii2.v. *)
From Coq Require Import List Arith ZArith QArith.
Import ListNotations.
Close Scope Q_scope.
From SedV Require Import SrcAscii SrcAscii2.

(* a line laid out as name x y, n flags, n (flux, error) pairs parses to exactly that record *)
Theorem C20_layout : forall name x y flags flux err,
  length flux = length flags -> length err = length flags -> forallb flag_ok flags = true ->
  from_ascii_m (layout name x y flags flux err) =
  Ok {| s_name := name; s_x := x; s_y := y; s_flags := flags; s_flux := flux; s_err := err |}.
Proof. exact SrcAscii2.C20_layout. Qed.

(* a column count that does not fit 3(n+1) is never accepted *)
Theorem C20_reject : forall cols s, from_ascii_m cols = Ok s -> exists n, length cols = 3 * (n + 1).
Proof. exact SrcAscii.C20_reject. Qed.

(* whatever is accepted has the documented shape: nothing is mis-assigned *)
Theorem C20_accept : forall cols s, from_ascii_m cols = Ok s ->
  let n := length (s_flags s) in
  length cols = 3 * (n + 1) /\
  forallb flag_ok (s_flags s) = true /\
  all_some t_int (slice cols 3 (3 + n)) = Some (s_flags s) /\
  (exists fe, all_some t_float (skipn (3 + n) cols) = Some fe /\ s_flux s = stride2 fe /\ s_err s = stride2_1 fe) /\
  length (s_flux s) = n /\ length (s_err s) = n /\
  s_name s = t_key (nth 0 cols (Build_token 0 None None)) /\
  t_float (nth 1 cols (Build_token 0 None None)) = Some (s_x s) /\
  t_float (nth 2 cols (Build_token 0 None None)) = Some (s_y s).
Proof. exact C20_accept_shape. Qed.

(* flags outside {0,1,2,3,4,9} or non-integers are rejected *)
Theorem C20_flags : forall cols s i, from_ascii_m cols = Ok s -> i < length (s_flags s) ->
  exists z, t_int (nth (3 + i) cols (Build_token 0 None None)) = Some z /\ flag_ok z = true.
Proof. exact C20_flags_lemma. Qed.

(* fewer than three columns ends the input *)
Theorem C20_eof : forall cols, length cols < 3 -> from_ascii_m cols = Err E_eof.
Proof. exact C20_eof_lemma. Qed.

(* non-vacuity: a two-band line *)
Example C20_example :
  from_ascii_m (layout 7 (1#2) (3#4) [1%Z; 9%Z] [5#1; -999#1]%Q [1#10; -999#1]%Q) =
  Ok {| s_name := 7; s_x := (1#2)%Q; s_y := (3#4)%Q; s_flags := [1%Z; 9%Z]; s_flux := [5#1; -999#1]%Q; s_err := [1#10; -999#1]%Q |}.
Proof. reflexivity. Qed.
