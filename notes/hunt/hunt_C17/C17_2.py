"""C17 violation: cube whose wavelengths are stored in a unit other than micron.

plot() builds each curve from the bare numbers of s.wav (_to_value(s.wav)) without
converting them to micron, although the axis, the source data points and the fitted
wavelengths are all in micron.  With a cube stored in Angstrom the curve lives at
x = 1e3 .. 1e7 and never passes through the fitted wavelengths 0.3 .. 120 micron."""
import os, io, sys, tempfile, contextlib
import numpy as np
import matplotlib
matplotlib.use('Agg')
from astropy import units as u
from sedfitter.sed import SEDCube
from sedfitter.extinction import Extinction
from sedfitter.source import Source
from sedfitter.fit import Fitter
from sedfitter.plot import plot

d = tempfile.mkdtemp()
rng = np.random.RandomState(1)
n_models, n_ap, n_wav = 5, 6, 40
cube = SEDCube()
cube.names = np.array(['model_%04d' % i for i in range(n_models)])
cube.distance = 1 * u.kpc
cube.wav = (np.logspace(-1., 3., n_wav) * u.micron).to(u.AA)      # <-- Angstrom
cube.apertures = np.logspace(1., 6., n_ap) * u.au
cube.val = (np.cumsum(rng.random_sample((n_models, n_ap, n_wav)), axis=1) + 1) * u.mJy
cube.unc = cube.val * 0.01
cube.write(os.path.join(d, 'flux.fits'))
with open(os.path.join(d, 'models.conf'), 'w') as f:
    f.write("name = test\nlength_subdir = 0\naperture_dependent = yes\nlogd_step = 0.02\nversion = 2\n")

ext = Extinction()
ext.wav = np.logspace(-2, 4, 60) * u.micron
ext.chi = (ext.wav.value ** -1.5 * 100 + 1) * u.cm ** 2 / u.g

wavs = [cube.wav[i] for i in (5, 12, 20, 30)]       # tabulated wavelengths
aps = np.array([3., 5., 3., 8.])
with contextlib.redirect_stdout(io.StringIO()):
    fitter = Fitter(wavs, aps * u.arcsec, d, extinction_law=ext, av_range=(0., 10.),
                    distance_range=(0.5, 3.) * u.kpc)
s = Source()
s.name = 'src'; s.x = 0.; s.y = 0.
s.valid = [1, 1, 1, 1]; s.flux = [1.2, 3.4, 2.2, 5.1]; s.error = [0.1, 0.3, 0.2, 0.5]
info = fitter.fit(s)

figs = plot(info, select_format=('N', 2), sed_type='interp')
segs = figs['src']['lines'].get_segments()
wav_um = np.array([f['wav'].to(u.micron).value for f in figs['src']['filters']])
print("fitted wavelengths (micron):", wav_um)
print("x range of plotted curve   :", segs[-1][:, 0].min(), segs[-1][:, 0].max())

# sanity: the y values are right once x is re-interpreted as Angstrom -> this is purely an x-unit defect
i = 0
for f in range(len(wav_um)):
    j = np.argmin(np.abs(np.log(segs[-1][:, 0] * 1e-4 / wav_um[f])))
    pred = 10. ** (info.model_fluxes[i, f] - 26. + np.log10(2.99792458e8 / (wav_um[f] * 1e-6)))
    assert abs(segs[-1][j, 1] / pred - 1) < 5e-3

for f in range(len(wav_um)):
    rel = np.min(np.abs(segs[-1][:, 0] / wav_um[f] - 1))
    assert rel < 1e-6, ("C17 'at each fitted monochromatic wavelength the curve passes through the predicted flux' "
                        "fails for a cube package whose SPECTRAL_INFO is stored in Angstrom: plot() puts the curve at "
                        "x = %g..%g (Angstrom numbers on a micron axis), so it has no vertex at the fitted wavelength "
                        "%g micron and lies entirely outside the data range" % (segs[-1][:, 0].min(), segs[-1][:, 0].max(), wav_um[f]))
