import sys; sys.path.insert(0, '/tmp/hunt3_C14/hunt_out')
from _lib import *
import shutil, itertools
from sedfitter.convolve import convolve_model_dir_monochromatic as mono
from astropy import log; log.setLevel('ERROR')
import sedfitter.convolve.monochromatic as M
class PB:
    def __init__(self, n): pass
    def update(self): pass
M.ProgressBar = PB
from astropy import constants as const

def run(tag, conv=lambda w, x: x, monokw={}, **kw):
    d, wav, pnames, truth = build(**kw)
    try:
        t = mono(d, **monokw)
    except Exception as e:
        print(tag, 'EXC', repr(e)); return
    files = sorted(os.listdir(d + '/convolved'))
    print(tag, files, list(t['filter']), list(t['wav']))
    for f in files:
        c = ConvolvedFluxes.read(d + '/convolved/' + f)
        w = c.central_wavelength.value
        iw = int(np.argmin(np.abs(wav - w)))
        if abs(wav[iw] - w) > 1e-12 * w: print(tag, 'WAV', w, wav[iw])
        if list(np.char.strip(c.model_names)) != pnames: print(tag, 'NAMES', c.model_names, pnames)
        for k, nm in enumerate(pnames):
            e = conv(wav[iw], truth[nm][0][:, iw])
            if not np.allclose(c.flux[k].to(u.mJy).value, e, rtol=1e-12, atol=0): print(tag, 'FLUX', f, c.flux[k], e)
            e = conv(wav[iw], truth[nm][1][:, iw])
            if not np.allclose(c.error[k].to(u.mJy).value, e, rtol=1e-12, atol=0): print(tag, 'ERR', f, c.error[k], e)
    return d

cc = 299792458.
run('Jy', conv=lambda w, x: x * 1000, flux_unit=u.Jy)
run('cgs', conv=lambda w, x: x / (cc / (w * 1e-6)) * 1e23 * 1e3, flux_unit=u.erg / u.cm**2 / u.s)
run('W/m2', conv=lambda w, x: x / (cc / (w * 1e-6)) * 1e26 * 1e3, flux_unit=u.W / u.m**2)
kpc = 3.0856775814913673e21
run('erg/s', conv=lambda w, x: x / (cc / (w * 1e-6)) * 1e23 * 1e3 / kpc**2, flux_unit=u.erg / u.s)
run('erg/s d2', conv=lambda w, x: x / (cc / (w * 1e-6)) * 1e23 * 1e3 / (2*kpc)**2, flux_unit=u.erg / u.s, distance=2*u.kpc)
run('Lsun', conv=lambda w, x: x * 3.828e33/ (cc / (w * 1e-6)) * 1e23 * 1e3 / kpc**2, flux_unit=u.Lsun)
run('wav m', wav_unit=u.m)
run('wav nm', wav_unit=u.nm)
run('wav AA', wav_unit=u.AA)
run('wav mm', wav_unit=u.mm)
run('ap cm', ap_unit=u.cm)
run('ap pc', ap_unit=u.pc)
run('gz', gz=True)
run('subdir', subdir=True)
run('names', names=['b', 'a', 'ab', 'B', 'a_b', 'a1', 'a10', 'a2'], n_models=8, par_order=[3, 1, 0, 2, 7, 6, 5, 4])
run('names space', names=['a b', 'a', ' a'], n_models=3)
run('inf', monokw=dict(max_ram=np.inf))
run('zero', monokw=dict(max_ram=0))
run('int', monokw=dict(max_ram=1))
run('unit win', monokw=dict(wav_min=1e-6*u.m, wav_max=4e-6*u.m))
run('unit win nm', monokw=dict(wav_min=1000*u.nm, wav_max=4000*u.nm))
run('unit win AA', monokw=dict(wav_min=10000*u.AA, wav_max=40000*u.AA))
run('unit win cm', monokw=dict(wav_min=1e-4*u.cm, wav_max=4e-4*u.cm))
run('9 wav', n_wav=9, n_ap=1, n_models=1)
