import numpy as np, os, tempfile, sys
sys.path.insert(0, os.path.dirname(__file__))
from astropy import units as u
from sedfitter.filter import Filter
from sedfitter.sed import SEDCube
from sedfitter.convolve import convolve_model_dir
from sedfitter.convolved_fluxes import ConvolvedFluxes
from pk import *
from fuzz_c06_ref import ref_R

rng = np.random.default_rng(int(sys.argv[1]) if len(sys.argv) > 1 else 0)
NAMEPOOLS = [
    lambda n: ['model_%04d' % i for i in range(n)],
    lambda n: ['m' + 'x' * i for i in range(n)],            # prefixes of each other
    lambda n: ['%d' % (10 ** i) for i in range(n)],         # numeric-looking
    lambda n: ['Z', 'a', 'B', 'b_1', 'b-1', 'b.1', 'b 1', '_'][:n],
    lambda n: ['3003929', '3003929_1', '30039', '3003929_10', '3003929_2', '0', '00', '000'][:n],
]


def to_unit(fnu_mJy, nu, unit, dist):
    # fnu_mJy: (..., n_wav) array in mJy ; returns Quantity in unit
    q = fnu_mJy * u.mJy
    if unit.is_equivalent(u.mJy):
        return q.to(unit)
    f = (q * nu).to(u.erg / u.cm ** 2 / u.s)
    if unit.is_equivalent(u.erg / u.cm ** 2 / u.s):
        return f.to(unit)
    return (f * dist ** 2).to(unit)


worst = 0
for it in range(int(sys.argv[2]) if len(sys.argv) > 2 else 40):
    nm = rng.integers(1, 9)
    nap = rng.integers(1, 6)
    nw = rng.integers(2, 81)
    names = NAMEPOOLS[rng.integers(0, len(NAMEPOOLS))](nm)
    names = list(rng.permutation(names))
    wav = np.sort(10 ** rng.uniform(-1, 3, nw))
    wav[0], wav[-1] = 0.1, 1000.
    if rng.random() < 0.5:
        wav = wav[::-1]
    wavq = wav * u.micron
    wunit = [u.micron, u.AA, u.mm, u.m][rng.integers(0, 4)]
    wavq = wavq.to(wunit)
    nu = wavq.to(u.Hz, equivalencies=u.spectral())
    ap = np.sort(10 ** rng.uniform(1, 5, nap)) * u.au
    apunit = [u.au, u.pc, u.cm, u.kpc][rng.integers(0, 4)]
    ap = ap.to(apunit)
    dist = [1 * u.kpc, 3.3 * u.kpc, 140 * u.pc][rng.integers(0, 3)]
    F = 10 ** rng.uniform(-3, 3, (nm, nap, nw))
    E = F * rng.uniform(0, 0.1, (nm, nap, nw))
    funit = [u.mJy, u.Jy, u.erg / u.cm ** 2 / u.s, u.erg / u.s, u.W / u.m ** 2, u.Lsun, u.erg / u.cm ** 2 / u.s / u.Hz][rng.integers(0, 7)]
    eunit = funit
    # filters
    nfil = rng.integers(1, 4)
    filters = []
    for k in range(nfil):
        nf = rng.integers(2, 61)
        lo = 10 ** rng.uniform(-0.5, 2)
        fw = np.sort(rng.uniform(lo, lo * rng.uniform(1.1, 3), nf))
        if rng.random() < 0.5:
            fw = fw[::-1]
        fnu = (fw * u.micron).to(u.Hz, equivalencies=u.spectral())
        if rng.random() < 0.3:
            fnu = fnu.to(u.GHz)
        fr = rng.random(nf)
        f = Filter(name='fil.%d' % k if rng.random() < 0.3 else 'fil%d' % k, central_wavelength=(np.mean(fw) * u.micron).to([u.micron, u.AA, u.mm][rng.integers(0, 3)]), nu=fnu, response=fr)
        if rng.random() < 0.7:
            f.normalize()
        filters.append(f)

    # reference
    order = np.argsort(nu.value)
    nus = nu.value[order]
    ref = {}
    for f in filters:
        R = ref_R(f.nu.to(u.Hz).value, f.response, nus)
        ref[f.name] = (np.sum(F[:, :, order] * R, axis=2), np.sqrt(np.sum((E[:, :, order] * R) ** 2, axis=2)))

    # per-file package
    d1 = tempfile.mkdtemp()
    os.mkdir(d1 + '/seds')
    sub = rng.random() < 0.3
    gz = rng.random() < 0.3
    for i, n in enumerate(names):
        sd = d1 + '/seds'
        if sub:
            sd = sd + '/d%d' % (i % 3)
            os.makedirs(sd, exist_ok=True)
        fl = to_unit(F[i], nu, funit, dist)
        er = to_unit(E[i], nu, eunit, dist)
        # individual SED may be stored in opposite order
        if rng.random() < 0.5:
            write_sed_raw(sd + '/' + ('s%d' % ((i * 5) % 8)) + '_sed.fits', n, wavq, ap, fl, er, distance=dist, gz=gz)
        else:
            write_sed_raw(sd + '/' + ('s%d' % ((i * 5) % 8)) + '_sed.fits', n, wavq[::-1], ap, fl[:, ::-1], er[:, ::-1], distance=dist, gz=gz)
    write_conf(d1, 1)
    perm = rng.permutation(nm)
    write_pars(d1, [names[j] for j in perm], S='S30' if rng.random() < 0.5 else None)
    convolve_model_dir(d1, filters)

    # cube package
    d2 = tempfile.mkdtemp()
    cube = SEDCube()
    cube.names = np.array(names)
    cube.distance = dist
    cube.wav = wavq
    cube.apertures = ap
    cube.val = to_unit(F, nu, funit, dist)
    cube.unc = to_unit(E, nu, eunit, dist)
    cube.write(d2 + '/flux.fits')
    write_conf(d2, 2)
    write_pars(d2, names, S='S30' if rng.random() < 0.5 else None)
    convolve_model_dir(d2, filters, memmap=bool(rng.random() < 0.5))

    for f in filters:
        c1 = ConvolvedFluxes.read(d1 + '/convolved/' + f.name + '.fits')
        c2 = ConvolvedFluxes.read(d2 + '/convolved/' + f.name + '.fits')
        rf, re = ref[f.name]
        n1 = [str(x).strip() for x in c1.model_names]
        n2 = [str(x).strip() for x in c2.model_names]
        assert n1 == [names[j] for j in perm], (n1, names, perm)
        assert n2 == names, (n2, names)
        for c, idx in ((c1, perm), (c2, np.arange(nm))):
            assert c.flux.unit == u.mJy
            e1 = np.max(np.abs(c.flux.value - rf[idx]) / rf[idx]) if rf.min() > 0 else np.max(np.abs(c.flux.value - rf[idx]))
            e2 = np.max(np.abs(c.error.value - re[idx]) / (re[idx] + 1e-300))
            worst = max(worst, e1, e2)
            assert e1 < 1e-10 and e2 < 1e-10, (it, e1, e2, funit, f.name)
            assert abs(c.central_wavelength.to(u.micron).value / f.central_wavelength.to(u.micron).value - 1) < 1e-14
            assert np.allclose(c.apertures.to(u.au).value, ap.to(u.au).value, rtol=1e-14), (c.apertures, ap)
            assert c.apertures.unit == ap.unit
print('ok worst', worst)
