(* Resort — FitInfo.sort() as it is written since F39: every column is gathered by the sort order AND so is model_id when the
   result already carries indices (sort called again, on a result that Fitter.fit has sorted, or after keep).  A result is
   "aligned" when every row's columns are those of the model its index names; sorting keeps a result aligned, whatever order is
   used and however often it is applied.  The unrepaired code stored the order itself as model_id (refuted below). *)
From Coq Require Import List Arith Lia Permutation.
Import ListNotations.
From SedV Require Import Argsort.

Section S.
Variable B : Type.          (* what a row carries besides its index: name, A_V, scale, chi^2, predicted fluxes *)
Variable dB : B.
Variable base : nat -> B.   (* model i of the grid has the columns base i *)

Definition aligned (ids : list nat) (cols : list B) : Prop := cols = map base ids.

(* one sort step: gather the columns and the indices by the same order *)
Definition resort (order : list nat) (ids : list nat) (cols : list B) : list nat * list B :=
  (gather nat 0 ids order, gather B dB cols order).
(* the unrepaired step: the order itself becomes model_id *)
Definition resort_old (order : list nat) (ids : list nat) (cols : list B) : list nat * list B :=
  (order, gather B dB cols order).

Theorem resort_keeps_aligned order ids cols : (forall i, In i order -> i < length ids) ->
  aligned ids cols -> let '(ids', cols') := resort order ids cols in aligned ids' cols'.
Proof.
  intros Hb Ha. unfold resort, aligned in *. subst cols. unfold gather. rewrite map_map.
  apply map_ext_in. intros i Hi. specialize (Hb i Hi).
  rewrite (nth_indep _ dB (base 0)) by (rewrite map_length; exact Hb). apply map_nth.
Qed.

(* any number of sort steps, with any orders *)
Theorem resort_many orders : forall ids cols, aligned ids cols ->
  Forall (fun order => Permutation order (seq 0 (length ids))) orders ->
  let '(ids', cols') := fold_left (fun st order => resort order (fst st) (snd st)) orders (ids, cols) in
  aligned ids' cols' /\ Permutation ids' ids.
Proof.
  induction orders as [|o os IH]; intros ids cols Ha Hp; simpl.
  - split; [exact Ha|apply Permutation_refl].
  - inversion Hp as [|? ? Ho Hos]; subst.
    assert (Hb : forall i, In i o -> i < length ids).
    { intros i Hi. eapply Permutation_in in Hi; [|exact Ho]. apply in_seq in Hi. lia. }
    pose proof (resort_keeps_aligned o ids cols Hb Ha) as A1. unfold resort in A1 |- *. cbn [fst snd].
    assert (P1 : Permutation (gather nat 0 ids o) ids) by (apply gather_perm; exact Ho).
    assert (L : length (gather nat 0 ids o) = length ids) by (apply Permutation_length; exact P1).
    specialize (IH (gather nat 0 ids o) (gather B dB cols o) A1).
    rewrite L in IH. specialize (IH Hos).
    destruct (fold_left _ os _) as [ids' cols']. destruct IH as [A2 P2]. split; [exact A2|].
    eapply Permutation_trans; [exact P2|exact P1].
Qed.

End S.

(* the unrepaired step loses the alignment as soon as it is applied to a result that is not in grid order *)
Example resort_old_refuted :
  let base := fun i : nat => i * 10 in
  aligned nat base [2; 0; 1] [20; 0; 10] /\
  resort nat 0 [1; 2; 0] [2; 0; 1] [20; 0; 10] = ([0; 1; 2], [0; 10; 20]) /\
  resort_old nat 0 [1; 2; 0] [2; 0; 1] [20; 0; 10] = ([1; 2; 0], [0; 10; 20]) /\
  ~ aligned nat base [1; 2; 0] [0; 10; 20].
Proof. cbv zeta. repeat split. intro H. unfold aligned in H. simpl in H. discriminate. Qed.
