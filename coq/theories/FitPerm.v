From Coq Require Import QArith Lqa Lia List Bool ZArith Permutation.
Import ListNotations.
Open Scope Q_scope.
From SedV Require Import Clamp FitCore.

(* sums do not depend on the order of the bands *)
Lemma qsum_perm {A} (f : A -> Q) l l' : Permutation l l' -> qsum f l == qsum f l'.
Proof. induction 1; simpl; try lra. Qed.

Lemma fit2_perm lo hi rows rows' : Permutation rows rows' ->
  let '(av, sc) := fit2_avsc lo hi rows in let '(av', sc') := fit2_avsc lo hi rows' in
  0 < m22 rows -> 0 < det rows -> av == av' /\ sc == sc'.
Proof.
  intros P.
  assert (E1 : c1 rows == c1 rows') by (apply qsum_perm, P).
  assert (E2 : c2 rows == c2 rows') by (apply qsum_perm, P).
  assert (E11 : m11 rows == m11 rows') by (apply qsum_perm, P).
  assert (E12 : m12 rows == m12 rows') by (apply qsum_perm, P).
  assert (E22 : m22 rows == m22 rows') by (apply qsum_perm, P).
  unfold fit2_avsc, linreg_m, det.
  set (A := (m22 rows * c1 rows - m12 rows * c2 rows) * (1 / (m11 rows * m22 rows - m12 rows * m12 rows))).
  set (A' := (m22 rows' * c1 rows' - m12 rows' * c2 rows') * (1 / (m11 rows' * m22 rows' - m12 rows' * m12 rows'))).
  assert (EA : A == A') by (unfold A, A'; now rewrite E1, E2, E11, E12, E22).
  assert (EO : forall a, optscale_sc_m a rows == optscale_sc_m a rows').
  { intros a. unfold optscale_sc_m. rewrite E22. rewrite (qsum_perm _ _ _ P). reflexivity. }
  destruct (Qlt_le_dec A lo), (Qlt_le_dec A' lo); try lra.
  - intros _ _. split; [reflexivity|apply EO].
  - destruct (Qlt_le_dec hi A), (Qlt_le_dec hi A'); try lra; intros _ _.
    + split; [reflexivity|apply EO].
    + split; [exact EA|]. now rewrite E1, E2, E11, E12, E22.
Qed.
Print Assumptions fit2_perm.
