"""
C06 - convolve_model_dir refuses a cube package (version = 2) whose flux.fits
has no UNCERTAINTIES extension.

SEDCube treats the uncertainties as optional: SEDCube.write leaves the
UNCERTAINTIES HDU out when unc is None and SEDCube.read accepts such a file.
The property promises, for any SED grid and any filter, the convolved flux
sum_i F_nu(nu_i) * R_i in convolved/<filter>.fits.  _convolve_model_dir_2
evaluates sed_cube.unc.unit unconditionally and dies with AttributeError
before a single flux is computed.
"""
import os
import tempfile

import numpy as np
from astropy import units as u
from astropy.table import Table

from sedfitter.sed import SEDCube
from sedfitter.filter import Filter
from sedfitter.convolve import convolve_model_dir
from sedfitter.convolved_fluxes import ConvolvedFluxes

d = tempfile.mkdtemp()

cube = SEDCube()
cube.names = np.array(['m1', 'm2', 'm3'])
cube.distance = 1 * u.kpc
cube.wav = np.logspace(-1, 2, 40) * u.micron
c = np.array([1., 2., 5.])
cube.val = (c[:, None, None] * np.ones((3, 1, 40))) * u.mJy   # flat spectra F_nu = c
cube.write(os.path.join(d, 'flux.fits'))                        # no uncertainties: allowed by write()

# the file is a legal cube: it reads back
back = SEDCube.read(os.path.join(d, 'flux.fits'))
assert back.unc is None and back.val.shape == (3, 1, 40)

with open(os.path.join(d, 'models.conf'), 'w') as f:
    f.write("name = test\nlength_subdir = 0\naperture_dependent = no\nlogd_step = 0.02\nversion = 2\n")
t = Table()
t['MODEL_NAME'] = np.array(cube.names, dtype='S')
t['par1'] = [1., 2., 3.]
t.write(os.path.join(d, 'parameters.fits'))

# normalised filter well inside the SED range
filt = Filter(name='F', central_wavelength=2 * u.micron,
              nu=(np.array([1.5, 2., 2.5, 3.]) * u.micron).to(u.Hz, equivalencies=u.spectral()),
              response=np.array([0., 1., 1., 0.]))
filt.normalize()

try:
    convolve_model_dir(d, [filt])
except Exception as exc:
    raise AssertionError(
        "C06 (convolved flux = sum F*R_i; a normalised filter inside the SED range returns c "
        "for F_nu = c): convolve_model_dir raised %r for a version-2 package whose flux.fits "
        "was written by SEDCube.write without uncertainties; expected convolved/F.fits with "
        "fluxes %s mJy" % (exc, c))

res = ConvolvedFluxes.read(os.path.join(d, 'convolved', 'F.fits'))
np.testing.assert_allclose(res.flux.value[:, 0], c, rtol=1e-10)
print("ok")
