"""C08 violation (call history + parameter-table permutation, per-file packages):
filters convolved in two convolve_model_dir() calls between which parameters.fits was
re-ordered (a legal permutation of the parameter table) leave convolved/*.fits files with
DIFFERENT model orders (each call sorts its output to the parameter-file order of the
moment).  Models._read_version_1 copies the flux columns of all filters positionally and
takes the model names from the LAST file only, without checking that the files agree, so
the fluxes of different models are silently mixed: the planted model is not recovered and
the parameter row printed next to the best fit belongs to a chimera.
"""
import os, io, tempfile, contextlib
import numpy as np
from astropy import units as u
from astropy.table import Table
from sedfitter.sed import SED
from sedfitter.filter import Filter
from sedfitter.extinction import Extinction
from sedfitter.convolve import convolve_model_dir
from sedfitter.convolved_fluxes import ConvolvedFluxes
from sedfitter.source import Source
from sedfitter.fit import Fitter
from sedfitter import write_parameters


def quiet(fn, *a, **k):
    with contextlib.redirect_stdout(io.StringIO()), contextlib.redirect_stderr(io.StringIO()):
        return fn(*a, **k)


d = tempfile.mkdtemp()
names = ['m_b', 'm_a', 'm_10', 'm_9', 'm_c', 'M_d']
planted, av0, sc0 = 'm_10', 3.3, 0.4
rng = np.random.RandomState(0)
os.mkdir(d + '/seds')
for name in names:
    s = SED()
    s.name = name
    s.distance = 1 * u.kpc
    s.wav = np.logspace(-1, 3, 80) * u.micron
    s.nu = s.wav.to(u.Hz, equivalencies=u.spectral())
    s.apertures = None
    s.flux = (1 + rng.random_sample((1, 80))) * s.wav.value ** rng.uniform(-1, 1) * u.mJy
    s.error = s.flux * 0.01
    s.write(d + '/seds/' + name + '_sed.fits')
with open(d + '/models.conf', 'w') as f:
    f.write("name = test\nlength_subdir = 0\naperture_dependent = no\nlogd_step = 0.02\n")
t = Table()
t['MODEL_NAME'] = np.array(names)
t['par1'] = np.arange(6.) + 1
t[[3, 0, 5, 1, 4, 2]].write(d + '/parameters.fits')

filters = []
frng = np.random.RandomState(1)
for name, lo, hi, cw in [('alice', 1., 5., 3.), ('bob', 10., 15., 12.), ('eve', 15., 25., 20.), ('dan', 40., 60., 50.)]:
    f = Filter()
    f.name = name
    f.central_wavelength = cw * u.micron
    f.nu = (np.linspace(hi, lo, 60) * u.micron).to(u.Hz, equivalencies=u.spectral())
    f.response = 0.5 + frng.random_sample(60)
    f.normalize()
    filters.append(f)

# first two filters convolved with the parameter table in one order ...
quiet(convolve_model_dir, d, filters[:2])
# ... the parameter table is then re-ordered (same rows, another permutation) ...
t[[2, 4, 1, 5, 0, 3]].write(d + '/parameters.fits', overwrite=True)
# ... and two more filters are added to the package
quiet(convolve_model_dir, d, filters[2:])

ext = Extinction()
ext.wav = np.logspace(-2., 3., 50) * u.micron
ext.chi = ext.wav.value ** -1.5 * u.cm ** 2 / u.g

fn = ['bob', 'alice', 'eve', 'dan']
aps = [1., 3., 3., 5.] * u.arcsec
av_law = np.asarray(ext.get_av(u.Quantity([12., 3., 20., 50.], u.micron)))
# independent synthesis: look the planted model up BY NAME in each convolved file
f0 = []
for name in fn:
    c = ConvolvedFluxes.read(d + '/convolved/' + name + '.fits')
    i = list(np.char.strip(c.model_names)).index(planted)
    f0.append(c.flux[i, 0].to(u.mJy).value)
flux = np.array(f0) * 10 ** (-2 * sc0) * 10 ** (av0 * av_law)

src = Source()
src.name = 'src'
src.x = src.y = 0.
src.valid = [1, 1, 1, 1]
src.flux = flux
src.error = flux * 1e-3

fitter = quiet(Fitter, fn, aps, d, extinction_law=ext, av_range=[0., 10.], distance_range=[1., 3.] * u.kpc)
info = fitter.fit(src)
out = os.path.join(d, 'pars.txt')
write_parameters(info, out, select_format=('A', 0))
rows = [r.split() for r in open(out).read().split('\n')[4:] if r.strip()]
for r in rows:
    print(r)
best = rows[0]
ok = best[1] == planted and float(best[2]) < 1e-2 and abs(float(best[3]) - av0) < 1e-2 and abs(float(best[4]) - sc0) < 1e-2
assert ok, (
    "C08 violated (clauses 'ranks m first with chi^2 ~ 0', 'A_V ~ A_V0', 'scale'): per-file package, filters alice+bob "
    "convolved, parameters.fits rows permuted, filters eve+dan convolved, then fit: model %s planted at A_V0=%g scale=%g "
    "but the best fit listed is %s with chi2=%s A_V=%s scale=%s (planted model ranked %d): Models.read mixes the "
    "differently-ordered convolved files positionally" % (planted, av0, sc0, best[1], best[2], best[3], best[4],
                                                           [r[1] for r in rows].index(planted) + 1))
print('OK')
