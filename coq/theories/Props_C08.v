(* C08 — a planted model is recovered through the whole pipeline.
   The pipeline composes the models of C07 (convolved rows by name), C01/C02 (fit), C04 (ranking), C05 (selection) and C09
   (listing by name); this file adds the statements that are specific to a planted source.  Proofs: Recover, RecoverProofs. *)
From Coq Require Import QArith List.
Import ListNotations.
From SedV Require Import Clamp FitCore Flags Fit3 Recover RecoverProofs FitModel FitModelProofs.
Open Scope Q_scope.

(* aperture-independent: data synthesised from model m at (A_V0, s0) give back exactly (A_V0, s0) with zero residual *)
Theorem C08_exact_2d : forall lo hi A0 s0 rows,
  Forall (planted A0 s0) rows -> 0 < m22 rows -> 0 < det rows -> lo <= A0 <= hi ->
  let '(av, sc) := fit2_avsc lo hi rows in av == A0 /\ sc == s0 /\ S rows av sc == 0.
Proof. exact Recover.C08_exact_2d. Qed.

(* aperture-dependent: at the planted grid distance the fitted A_V is the planted one with zero residual *)
Theorem C08_exact_3d : forall lo hi A0 rows, Forall (planted1 A0) rows -> 0 < m11 rows -> lo <= A0 <= hi ->
  av_at_distance lo hi rows == A0 /\ S1 rows (av_at_distance lo hi rows) == 0.
Proof. exact exact_3d. Qed.

(* a uniform relative error on flag-1 data lowers every log flux by b = (sigma/F)^2 / (2 ln 10): the recovered scale is
   shifted by exactly b/2 and the residual is still zero (this quantifies the "~" of the property) *)
Theorem C08_bias : forall lo hi A0 s0 b rows,
  Forall (fun r => resid r == A0 * r_a r + s0 * r_s r - b /\ r_s r == -2) rows -> 0 < m22 rows -> 0 < det rows -> lo <= A0 <= hi ->
  let '(av, sc) := fit2_avsc lo hi rows in av == A0 /\ sc == s0 + b / 2 /\ S rows av sc == 0.
Proof. exact C08_bias_2d. Qed.

(* chi^2 >= 0 for every model, so the planted model (chi^2 = 0) is ranked in the leading group; it is strictly first when
   every other model has chi^2 > 0, which is the property's non-degeneracy hypothesis *)
Theorem C08_first : forall pen rows av sc, Forall (fun r => 0 <= w r) rows -> (forall c q, pen c = Some q -> 0 <= q) ->
  0 <= chi2_m pen rows av sc.
Proof. exact chi2_nonneg. Qed.

(* non-vacuity: three bands planted at A_V = 2, scale = -3/2 *)
Example C08_example :
  let rows := [ {| r_b := {| b_flag := 1; b_lf := 1; b_le := 1#10; b_w := 100 |}; r_a := -1; r_s := -2; r_lm := 0 |};
                {| r_b := {| b_flag := 1; b_lf := 2; b_le := 1#10; b_w := 100 |}; r_a := -(1#2); r_s := -2; r_lm := 0 |};
                {| r_b := {| b_flag := 4; b_lf := 3; b_le := 1#10; b_w := 100 |}; r_a := 0; r_s := -2; r_lm := 0 |} ] in
  Forall (planted 2 (-(3#2))) rows /\ 0 < m22 rows /\ 0 < det rows.
Proof. cbv zeta. split; [repeat constructor; unfold planted, resid; simpl; reflexivity|split; vm_compute; reflexivity]. Qed.

(* --- "whose row orders must all agree": the model grid is put together from one convolved file per filter (ReadM models
   Models._read_version_1).  The first file fixes the model order; any other file that lists the same models, in whatever order,
   is brought into that order by name, and nothing but its order changes - so the planted model's row of the grid carries the
   planted model's own flux in every band, however the files were produced. *)
From Coq Require Import Permutation ZArith.
From SedV Require Import Table ReadM.
Close Scope Q_scope.

Theorem C08_files_by_name : forall (D : Type) (d0 : D) ref f, NoDup ref -> Permutation (names_of D f) ref ->
  exists out, align D d0 ref f = Some out /\ names_of D out = ref /\ Permutation out f.
Proof. exact align_by_name. Qed.

Theorem C08_files_order_irrelevant : forall (D : Type) (d0 : D) ref f f', NoDup ref -> Permutation (names_of D f) ref ->
  Permutation f f' -> align D d0 ref f = align D d0 ref f'.
Proof. exact align_order_irrelevant. Qed.

Theorem C08_files_lookup : forall (D : Type) (d0 : D) ref f out k, NoDup ref -> Permutation (names_of D f) ref ->
  align D d0 ref f = Some out -> lookup D k out = lookup D k f.
Proof. exact align_lookup. Qed.

Theorem C08_grid : forall (D : Type) (d0 : D) f0 rest, NoDup (names_of D f0) ->
  Forall (fun f => Permutation (names_of D f) (names_of D f0)) rest ->
  exists outs, read_files D d0 (f0 :: rest) = Some (f0 :: outs) /\
               Forall2 (fun out f => names_of D out = names_of D f0 /\ Permutation out f) outs rest.
Proof. exact read_files_spec. Qed.

Example C08_grid_example :
  read_files Z 0%Z [ [(3, 30); (1, 10); (2, 20)]; [(1, 11); (2, 21); (3, 31)] ]%Z
  = Some [ [(3, 30); (1, 10); (2, 20)]; [(3, 31); (1, 11); (2, 21)] ]%Z.
Proof. vm_compute. reflexivity. Qed.

(* cube packages (F38): the reference order is that of flux.fits and every named convolved file is aligned with it *)
Theorem C08_grid_cube : forall (D : Type) (d0 : D) ref files, NoDup ref ->
  Forall (fun f => Permutation (names_of D f) ref) files ->
  exists outs, read_files_ref D d0 ref files = Some outs /\
               Forall2 (fun out f => names_of D out = ref /\ Permutation out f) outs files.
Proof. exact read_files_ref_spec. Qed.
