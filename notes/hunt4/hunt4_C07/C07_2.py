"""
C07 - clause: "A per-file package and a cube package built from the same SEDs
produce the same fluxes and errors" (and "the row labelled X holds ... the
flux and error computed from SED X").

Input: ordinary models (fluxes of a few mJy, errors of 1 per cent) stored in
single precision (BITPIX = -32 / 'E' columns, which is what the package-format
page prescribes) in the cgs flux-density unit erg / (s cm2 Hz)
(1 mJy = 1e-26).  The per-file path converts every SED to mJy in double
precision and gives the right errors.  _convolve_model_dir_2 works on the raw
single-precision numbers of the cube and applies the unit factor at the end:
(unc * response) ** 2 ~ 1e-56 underflows in float32, so every TOTAL_FLUX_ERR
of the cube package is exactly 0 (memmap on or off).  The same happens for a
cube in W / (m2 Hz).
"""
import os, sys, tempfile
import numpy as np
from astropy import units as u
from astropy.table import Table
from astropy import log
log.setLevel('ERROR')

from sedfitter.sed import SED, SEDCube
from sedfitter.filter import Filter
from sedfitter.convolve import convolve_model_dir
from sedfitter.convolved_fluxes import ConvolvedFluxes

cgs = u.erg / u.s / u.cm ** 2 / u.Hz
rng = np.random.RandomState(0)
names = ['m_a', 'm_b', 'm_c']
wav = np.logspace(-1, 2.5, 30) * u.micron
aps = np.array([10., 100., 1000.]) * u.au
val_mJy = np.cumsum(rng.random_sample((3, 3, 30)) + 0.5, axis=1)      # 0.5 .. 4.5 mJy
unc_mJy = 0.01 * val_mJy
val = (val_mJy * 1.e-26).astype(np.float32)                            # erg/s/cm2/Hz
unc = (unc_mJy * 1.e-26).astype(np.float32)


def conf(d, version):
    with open(os.path.join(d, 'models.conf'), 'w') as f:
        f.write("name = test\nlength_subdir = 0\naperture_dependent = yes\nlogd_step = 0.02\n")
        if version == 2:
            f.write("version = 2\n")


def partable(d):
    t = Table()
    t['MODEL_NAME'] = np.array(names, dtype='S30')
    t['par1'] = np.arange(3.)
    t.write(os.path.join(d, 'parameters.fits'))


d1 = tempfile.mkdtemp()
os.mkdir(os.path.join(d1, 'seds'))
for i, n in enumerate(names):
    s = SED()
    s.name = n
    s.distance = 1 * u.kpc
    s.wav = wav
    s.nu = wav.to(u.Hz, equivalencies=u.spectral())
    s.apertures = aps
    s.flux = val[i] * cgs
    s.error = unc[i] * cgs
    s.write(os.path.join(d1, 'seds', n + '_sed.fits'))
conf(d1, 1)
partable(d1)

d2 = tempfile.mkdtemp()
c = SEDCube()
c.names = np.array(names)
c.distance = 1 * u.kpc
c.wav = wav
c.apertures = aps
c.val = val * cgs
c.unc = unc * cgs
c.write(os.path.join(d2, 'flux.fits'))
conf(d2, 2)
partable(d2)

fw = np.linspace(5., 1., 20) * u.micron
f = Filter(name='fa', central_wavelength=3. * u.micron,
           nu=fw.to(u.Hz, equivalencies=u.spectral()), response=np.ones(20))
f.normalize()

convolve_model_dir(d1, [f])
a = ConvolvedFluxes.read(os.path.join(d1, 'convolved', 'fa.fits'))

# independent value, in double precision, from the stored numbers
nu = wav.to(u.Hz, equivalencies=u.spectral())[::-1]
R = f.rebin(nu).response
E = np.sqrt(np.sum((unc.astype(float)[:, :, ::-1] * 1.e26 * R) ** 2, axis=2))
F = np.sum(val.astype(float)[:, :, ::-1] * 1.e26 * R, axis=2)
assert np.allclose(a.flux.to(u.mJy).value, F, rtol=1e-6)
assert np.allclose(a.error.to(u.mJy).value, E, rtol=1e-6), "per-file errors wrong"

for memmap in (True, False):
    convolve_model_dir(d2, [f], overwrite=True, memmap=memmap)
    b = ConvolvedFluxes.read(os.path.join(d2, 'convolved', 'fa.fits'))
    assert np.allclose(b.flux.to(u.mJy).value, F, rtol=1e-5), "cube fluxes wrong"
    assert np.allclose(b.error.to(u.mJy).value, a.error.to(u.mJy).value, rtol=1e-4), (
        "C07 violated (memmap=%s): single-precision packages stored in erg/s/cm2/Hz, "
        "fluxes of a few mJy with 1%% errors: the per-file package gives "
        "TOTAL_FLUX_ERR = %s mJy for model %s, the cube package built from the same "
        "SEDs gives %s mJy (the squares of the raw single-precision values underflow); "
        "the statement promises the same errors from both formats"
        % (memmap, a.error[0].to(u.mJy).value, names[0], b.error[0].to(u.mJy).value))
print("OK")
