From Coq Require Import List Arith Lia Bool ZArith QArith ZifyNat ZifyBool.
Import ListNotations.
Close Scope Q_scope.
Ltac Zify.zify_post_hook ::= Z.to_euclidean_division_equations.
From SedV Require Import SrcAscii.

(* a line laid out as the data-format page says: name x y, n flags, then n (flux, error) pairs *)
Definition tok_num (q : Q) : token := {| t_key := 0; t_int := None; t_float := Some q |}.
Definition tok_flag (z : Z) : token := {| t_key := 0; t_int := Some z; t_float := Some (inject_Z z) |}.
Definition tok_name (k : Z) : token := {| t_key := k; t_int := None; t_float := None |}.
Definition layout (name : Z) (x y : Q) (flags : list Z) (flux err : list Q) : list token :=
  tok_name name :: tok_num x :: tok_num y :: map tok_flag flags ++ interleave (map tok_num flux) (map tok_num err).

Lemma all_some_map_flag flags : all_some t_int (map tok_flag flags) = Some flags.
Proof. induction flags as [|z r IH]; simpl; [reflexivity|]. now rewrite IH. Qed.
Lemma all_some_interleave flux err : length flux = length err ->
  all_some t_float (interleave (map tok_num flux) (map tok_num err)) = Some (interleave flux err).
Proof. revert err; induction flux as [|f r IH]; intros [|e er] H; simpl in *; try lia; [reflexivity|]. rewrite IH by lia. reflexivity. Qed.
Lemma interleave_length {A} (f e : list A) : length f = length e -> length (interleave f e) = 2 * length f.
Proof. revert e; induction f as [|x f IH]; intros [|y e] H; simpl in *; try lia. rewrite IH; lia. Qed.

Theorem C20_layout name x y flags flux err :
  length flux = length flags -> length err = length flags -> forallb flag_ok flags = true ->
  from_ascii_m (layout name x y flags flux err) =
  Ok {| s_name := name; s_x := x; s_y := y; s_flags := flags; s_flux := flux; s_err := err |}.
Proof.
  intros Hf He Hok. set (n := length flags).
  assert (Hlen : length (layout name x y flags flux err) = 3 + 3 * n).
  { unfold layout. simpl. rewrite app_length, map_length, interleave_length by (rewrite !map_length; lia).
    rewrite map_length. fold n. lia. }
  unfold from_ascii_m. rewrite Hlen.
  replace (3 + 3 * n <? 3) with false by (symmetry; apply Nat.ltb_ge; lia).
  replace ((3 + 3 * n - 3) / 3) with n by lia.
  unfold layout. cbn [nth t_float tok_num t_key tok_name].
  (* cols[3:3+n] are the flags *)
  unfold slice. replace (3 + n - 3) with n by lia. cbn [skipn].
  rewrite firstn_app, firstn_all2 by (rewrite map_length; fold n; lia).
  rewrite map_length. fold n. replace (n - n) with 0 by lia. rewrite firstn_O, app_nil_r.
  rewrite all_some_map_flag, Hok. cbn [negb].
  (* cols[3+n:] are the alternating flux/error values *)
  replace (3 + n) with (S (S (S n))) by lia. cbn [skipn].
  rewrite skipn_app, skipn_all2 by (rewrite map_length; fold n; lia).
  rewrite map_length. fold n. replace (n - n) with 0 by lia. cbn [skipn app].
  rewrite all_some_interleave by lia.
  rewrite stride2_interleave, stride2_1_interleave by lia.
  rewrite Hf, He, Nat.eqb_refl. reflexivity.
Qed.
Print Assumptions C20_layout.

(* fewer than three columns ends the input *)
Theorem C20_eof_lemma cols : length cols < 3 -> from_ascii_m cols = Err E_eof.
Proof. intros H. unfold from_ascii_m. apply Nat.ltb_lt in H. now rewrite H. Qed.

(* a result is only produced when every flag column parsed as an integer in {0,1,2,3,4,9},
   the flags are exactly columns 3..3+n-1 and the values columns 3+n.. in alternation *)
Theorem C20_accept_shape cols s : from_ascii_m cols = Ok s ->
  let n := length (s_flags s) in
  length cols = 3 * (n + 1) /\
  forallb flag_ok (s_flags s) = true /\
  all_some t_int (slice cols 3 (3 + n)) = Some (s_flags s) /\
  (exists fe, all_some t_float (skipn (3 + n) cols) = Some fe /\ s_flux s = stride2 fe /\ s_err s = stride2_1 fe) /\
  length (s_flux s) = n /\ length (s_err s) = n /\
  s_name s = t_key (nth 0 cols (Build_token 0 None None)) /\
  t_float (nth 1 cols (Build_token 0 None None)) = Some (s_x s) /\
  t_float (nth 2 cols (Build_token 0 None None)) = Some (s_y s).
Proof.
  intros H. destruct (C20_reject cols s H) as [m Hm].
  unfold from_ascii_m in H. destruct (length cols <? 3) eqn:E3; [discriminate|].
  destruct (t_float (nth 1 cols _)) as [x|] eqn:Ex; [|discriminate].
  destruct (t_float (nth 2 cols _)) as [y|] eqn:Ey; [|discriminate].
  replace ((length cols - 3) / 3) with m in H by lia.
  destruct (all_some t_int _) as [flags|] eqn:Ef; [|discriminate].
  destruct (negb (forallb flag_ok flags)) eqn:Eok; [discriminate|].
  destruct (all_some t_float _) as [fe|] eqn:Efe; [|discriminate].
  destruct (negb (length (stride2 fe) =? length flags)) eqn:L1; [discriminate|].
  destruct (negb (length (stride2_1 fe) =? length flags)) eqn:L2; [discriminate|].
  inversion H; subst s; clear H. cbn [s_flags s_flux s_err s_name s_x s_y].
  apply negb_false_iff in Eok. apply negb_false_iff, Nat.eqb_eq in L1. apply negb_false_iff, Nat.eqb_eq in L2.
  assert (Hfl : length flags = m).
  { apply all_some_length in Ef. unfold slice in Ef. rewrite firstn_length, skipn_length in Ef. lia. }
  rewrite Hfl. repeat split; try assumption; try lia.
  exists fe. repeat split; assumption.
Qed.

(* a flag column that is not an integer, or an integer outside {0,1,2,3,4,9}, is rejected *)
Theorem C20_flags_lemma cols s i : from_ascii_m cols = Ok s -> i < length (s_flags s) ->
  exists z, t_int (nth (3 + i) cols (Build_token 0 None None)) = Some z /\ flag_ok z = true.
Proof.
  intros H Hi. destruct (C20_accept_shape cols s H) as (Hlen & Hok & Hfl & _).
  set (n := length (s_flags s)) in *.
  assert (G : forall (l : list token) (zs : list Z), all_some t_int l = Some zs ->
              forall j, j < length zs -> t_int (nth j l (Build_token 0 None None)) = Some (nth j zs 0%Z)).
  { induction l as [|t r IH]; intros zs E j Hj; simpl in E.
    - inversion E; subst. simpl in Hj. lia.
    - destruct (t_int t) eqn:Et; [|discriminate]. destruct (all_some t_int r) eqn:Er; [|discriminate].
      inversion E; subst. destruct j; simpl; [exact Et|]. apply IH; [reflexivity|simpl in Hj; lia]. }
  exists (nth i (s_flags s) 0%Z). split.
  - rewrite <- (G _ _ Hfl i Hi). unfold slice. replace (3 + n - 3) with n by lia.
    assert (Hn : forall (l : list token) k j d, j < k -> nth j (firstn k l) d = nth j l d).
    { induction l as [|a l IHl]; intros k j d Hjk; destruct k, j; simpl; try lia; try reflexivity. apply IHl. lia. }
    rewrite Hn by (fold n; lia).
    assert (Hs : forall (l : list token) k j d, nth j (skipn k l) d = nth (k + j) l d).
    { induction l as [|a l IHl]; intros k j d; destruct k; simpl; try reflexivity; [destruct j; reflexivity|apply IHl]. }
    rewrite Hs. reflexivity.
  - rewrite forallb_forall in Hok. apply Hok. apply nth_In. exact Hi.
Qed.
