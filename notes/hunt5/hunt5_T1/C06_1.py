"""
C06 (theme: single-precision storage) -- Filter.rebin computes the bin edges in
the precision of the SED frequency grid.

A per-file SED whose FREQUENCY column is stored in single precision ('E', as
the package-format page prescribes) is read as a float32 Quantity, and
Filter.rebin forms the midpoints 0.5 * (nu[i-1] + nu[i]) in float32.  Each
midpoint is therefore rounded to the nearest float32 (up to 6e-8 * nu), which
is NOT the midpoint between the adjacent SED frequencies.  For an SED grid
that is finer than the filter (here 80 frequencies over 2.4 per cent in
frequency, i.e. a spectrum of resolution ~3000 under a narrow-band filter) the
bins are ~3e-4 * nu wide, so the R_i are off by up to ~5e-4 relative, and the
convolved flux of a non-smooth SED by ~1e-5 -- two to four orders of magnitude
more than the 1e-7 the storage precision would explain.  The very same
frequencies held in double precision give R_i exact to 1e-12.

Statement violated: "R_i is the exact integral of the piecewise-linear
response over the bin of nu_i (bins bounded by midpoints between adjacent SED
frequencies ...)" and "the convolved flux is sum_i F_nu(nu_i) * R_i".
"""
import os
import sys
import tempfile
import warnings

import numpy as np

warnings.filterwarnings('ignore')

from astropy import units as u
from astropy.table import Table

from sedfitter.filter import Filter
from sedfitter.sed import SED
from sedfitter.convolve import convolve_model_dir
from sedfitter.convolved_fluxes import ConvolvedFluxes

C = 2.99792458e14  # micron * Hz


def exact_R(fnu, fr, nu):
    """Exact (double precision) integral of the piecewise-linear response over
    the bins of nu bounded by midpoints, clipped to the filter range."""
    fnu = np.asarray(fnu, float)
    fr = np.asarray(fr, float)
    nu = np.asarray(nu, float)
    if fnu[0] > fnu[-1]:
        fnu, fr = fnu[::-1], fr[::-1]
    cum = np.concatenate([[0.], np.cumsum(0.5 * (fnu[1:] - fnu[:-1]) * (fr[1:] + fr[:-1]))])

    def F(x):
        x = min(max(x, fnu[0]), fnu[-1])
        i = min(max(np.searchsorted(fnu, x, side='right') - 1, 0), len(fnu) - 2)
        dx = x - fnu[i]
        slope = (fr[i + 1] - fr[i]) / (fnu[i + 1] - fnu[i])
        return cum[i] + fr[i] * dx + 0.5 * slope * dx * dx

    n = len(nu)
    R = np.zeros(n)
    for i in range(n):
        a = nu[0] if i == 0 else 0.5 * (nu[i - 1] + nu[i])
        b = nu[-1] if i == n - 1 else 0.5 * (nu[i] + nu[i + 1])
        R[i] = abs(F(b) - F(a))
    return R


rng = np.random.default_rng(20240601)

# SED grid: 80 wavelengths between 2.964 and 3.036 micron, stored in float32
n_sed = 80
wav32 = np.linspace(3.036, 2.964, n_sed).astype(np.float32)            # decreasing wav
nu32 = (C / wav32.astype(float)).astype(np.float32)                    # increasing nu, float32

# Filter: 40 irregular samples between 2.97 and 3.03 micron, zero edges,
# built in memory in double precision, normalised
fw = np.sort(np.concatenate([[2.97, 3.03], rng.uniform(2.97, 3.03, 38)]))
f = Filter()
f.name = 'narrow'
f.central_wavelength = 3. * u.micron
f.nu = (C / fw) * u.Hz
resp = rng.random(40)
resp[0] = resp[-1] = 0.
f.response = resp
f.normalize()

R_exact = exact_R(f.nu.value, f.response, nu32)          # midpoints of the stored numbers
R_single = f.rebin(nu32 * u.Hz).response                 # what the per-file convolution uses
R_double = f.rebin(nu32.astype(float) * u.Hz).response   # same numbers, held in double

m = R_exact > 0
dev_single = np.max(np.abs(R_single - R_exact)[m] / R_exact[m])
dev_double = np.max(np.abs(R_double - R_exact)[m] / R_exact[m])
print("max relative deviation of R_i from the exact bin integral:")
print("   frequency grid held in float32 : %.3e" % dev_single)
print("   same grid held in float64      : %.3e" % dev_double)

# Now through the public convolution of a per-file package stored in single
# precision, with a non-smooth SED (a few emission lines on a continuum)
flux = np.ones(n_sed)
flux[[17, 33, 34, 52, 61]] = [40., 25., 60., 80., 30.]
flux32 = flux.astype(np.float32)
err32 = (0.1 * flux).astype(np.float32)

d = tempfile.mkdtemp()
os.mkdir(os.path.join(d, 'seds'))
s = SED()
s.name = 'lines'
s.distance = 1. * u.kpc
s.wav = wav32 * u.micron
s.nu = nu32 * u.Hz
s.apertures = None
s.flux = flux32.reshape(1, -1) * u.mJy
s.error = err32.reshape(1, -1) * u.mJy
s.write(os.path.join(d, 'seds', 'lines_sed.fits'))
with open(os.path.join(d, 'models.conf'), 'w') as fh:
    fh.write("name = t\nlength_subdir = 0\naperture_dependent = no\nlogd_step = 0.02\n")
t = Table()
t['MODEL_NAME'] = np.array(['lines'], dtype='S30')
t['par'] = np.array([1.], dtype=np.float32)
t.write(os.path.join(d, 'parameters.fits'))

convolve_model_dir(d, [f])
got = ConvolvedFluxes.read(os.path.join(d, 'convolved', 'narrow.fits'))
got_flux = got.flux[0, 0].to(u.mJy).value
got_err = got.error[0, 0].to(u.mJy).value
want_flux = np.sum(flux32.astype(float) * R_exact)
want_err = np.sqrt(np.sum((err32.astype(float) * R_exact) ** 2))
rel_flux = abs(got_flux / want_flux - 1.)
rel_err = abs(got_err / want_err - 1.)
print("convolved flux  : got %.12g  want %.12g  (rel. diff %.2e)" % (got_flux, want_flux, rel_flux))
print("convolved error : got %.12g  want %.12g  (rel. diff %.2e)" % (got_err, want_err, rel_err))

assert dev_double < 1e-10, "reference computation is off"
assert dev_single < 1e-6 and rel_flux < 1e-6 and rel_err < 1e-6, (
    "C06 violated for an SED frequency grid stored in single precision: Filter.rebin "
    "forms the bin edges 0.5*(nu[i-1]+nu[i]) in float32, so R_i deviates from the exact "
    "integral over the midpoint-bounded bin by %.1e relative (%.1e when the same "
    "frequencies are held in double), and convolve_model_dir's flux for a line SED is off "
    "by %.1e (error by %.1e) relative" % (dev_single, dev_double, rel_flux, rel_err))
print("OK")
