"""C12 — SED / SEDCube / ConvolvedFluxes write-read round trips against SedIOM and the cell-preservation clauses."""
import math
import os
import tempfile

from common import Rng
import pkgcase

PROP = 'C12'
MODEL_OPS = 'SedIOM.sed_roundtrip (SedIO.write_fixed + read with need_reverse), SedIOM.cube_roundtrip'
RULE = ('SED files: 1-5 apertures (or none), 2-40 wavelengths supplied ascending or descending, flux units mJy / Jy / erg cm-2 s-1 / erg s-1, read back in order nu and wav; '
        'cubes: 1-6 models, with/without apertures and uncertainties, memmap on/off, read in both orders, get_sed of every model; convolved-flux tables with/without apertures '
        'and names up to 30 characters. Every cell keyed by (model, aperture, wavelength value) must come back exactly; the model predicts the order of the spectral axis. '
        'non-trivial = at least 3 wavelengths supplied in the order that is not the stored / requested one.')
EXHAUSTIVE = {'quick': False, 'thorough': False}
ASSUMPTIONS = ['FITS stores float64 arrays losslessly (exercised); wavelengths are distinct',
               'cells are compared with relative tolerance 1e-12: SED.read converts Jy-like units to erg/cm2/s and back (x nu, / nu), which is exact only up to rounding', 'flux values are read back in the unit they were stored in (unit conversion is C15)']

UNITS = ['mJy', 'Jy', 'erg / (cm2 s)', 'erg / s']


def generate(tier, seed):
    rng = Rng(seed * 49979687 + 12)
    cases = []
    n = 150 if tier == 'quick' else 2000
    for k in range(n):
        kind = ['sed', 'sed', 'cube', 'conv'][k % 4]
        nw = rng.choice([2, 3, 4, 7, 15, 40])
        wav = sorted(set(rng.dyadic(0.1, 900.0, 10) for _ in range(nw * 2)))[:nw]
        nw = len(wav)
        nap = rng.choice([0, 1, 2, 3, 5])
        aps = None if nap == 0 else sorted(set(rng.logdyadic(10, 1e5, 8) for _ in range(nap)))
        na = 1 if aps is None else len(aps)
        nm = rng.randint(1, 6)
        order = rng.choice(['asc', 'desc'])
        val = [[[float(1000 * m + 100 * a + i) + rng.dyadic(0, 0.5, 4) for i in range(nw)] for a in range(na)] for m in range(nm)]
        names = ['mod_%02d_%s' % (m, 'x' * rng.choice([0, 3, 10, 19])) for m in range(nm)]
        style = rng.choice(['padded', 'unpadded', 'shuffled'])      # the stored order of the names need not be lexicographic
        if style == 'unpadded':
            names = ['run_%d' % (8 + m) for m in range(nm)]
        elif style == 'shuffled':
            rng.shuffle(names)
        cases.append(dict(kind=kind, wav=wav, order=order, aps=aps, val=val, names=names, unit=rng.choice(UNITS), with_unc=rng.random() < 0.7,
                          columns=rng.choice(['standard', 'standard', 'reordered']), dist_kpc=rng.choice([2.5, 0.125, 7.75, 40.0]), stored=rng.choice(['incr', 'decr']), unit_wav=rng.choice(['micron', 'micron', 'cm', 'nm', 'Angstrom']), unit_freq=rng.choice(['Hz', 'Hz', 'GHz', 'THz']), memmap=rng.random() < 0.5, conv_wav=rng.choice([None, rng.dyadic(0.3, 50, 8)])))
    for k, c in enumerate(cases):
        if c['kind'] == 'cube' and k % 8 == 2:
            c['ctor'] = 'wav'
        if c['kind'] == 'cube' and k % 8 == 6:
            c['mutate_sed'] = True
    return cases


def _ord(v, order):
    return list(v) if order == 'asc' else list(reversed(v))


def impl(case):
    import numpy as np
    from astropy import units as u
    wav = _ord(case['wav'], case['order'])
    unit = u.Unit(case['unit'])
    out = {}
    with tempfile.TemporaryDirectory() as d:
        if case['kind'] == 'sed':
            from sedfitter.sed import SED
            s = SED()
            s.name = case['names'][0]
            s.distance = case.get('dist_kpc', 2.5) * u.kpc
            s.wav = np.array(wav) * u.micron
            s.nu = s.wav.to(u.Hz, equivalencies=u.spectral())
            s.apertures = None if case['aps'] is None else np.array(case['aps']) * u.au
            s.flux = np.array([_ord(r, case['order']) for r in case['val'][0]]) * unit
            s.error = s.flux * 0.125
            # another SED with another distance / length written first in the same process (write() must not keep state)
            dec = SED()
            dec.name = 'decoy'
            dec.distance = 1.0 * u.kpc
            dec.wav = np.array([1.0, 2.0, 3.0][:max(2, min(3, len(wav) - 1))]) * u.micron
            dec.nu = dec.wav.to(u.Hz, equivalencies=u.spectral())
            dec.apertures = None
            dec.flux = np.ones((1, len(dec.wav))) * unit
            dec.error = dec.flux * 0.5
            dec.write(os.path.join(d, 'decoy_sed.fits'))
            p = os.path.join(d, 'a_sed.fits')
            s.write(p)
            if case.get('stored') == 'decr':      # SED.write always stores increasing frequency; files stored the other way round exist too
                    pkgcase.store_decreasing(p)
            if case.get('columns') == 'reordered':      # "the order of the columns is not important" (package format page)
                    pkgcase.reorder_columns(p)
            # the units wavelengths / frequencies are asked in (returned values are converted back and snapped to the stored wavelength within 1e-12)
            uw, uf = u.Unit(case.get('unit_wav', 'micron')), u.Unit(case.get('unit_freq', 'Hz'))

            def snap(x):
                best = min(case['wav'], key=lambda w: abs(w - x))
                return best if abs(best - x) <= 1e-12 * best else x
            for o in ('nu', 'wav'):
                r = SED.read(p, unit_wav=uw, unit_freq=uf, unit_flux=unit, order=o)
                if r.wav.unit != uw or r.nu.unit != uf:
                    out['unit_error'] = 'asked for %s / %s, got %s / %s' % (uw, uf, r.wav.unit, r.nu.unit)
                out[o] = dict(name=r.name, wav=[snap(float(x)) for x in r.wav.to(u.micron).value], nu=[float(x) for x in r.nu.to(u.Hz).value],
                              flux=[[float(x) for x in row] for row in r.flux.to(unit).value], error=[[float(x) for x in row] for row in r.error.to(unit).value],
                              apertures=None if r.apertures is None else [float(x) for x in r.apertures.to(u.au).value], distance_kpc=float(r.distance.to(u.kpc).value))
            # the same file read in another unit family, both orders: must be mirror images of each other
            u2 = u.Unit(UNITS[(UNITS.index(case['unit']) + 2) % len(UNITS)])
            ra, rb = SED.read(p, unit_flux=u2, order='nu'), SED.read(p, unit_flux=u2, order='wav')
            out['other_unit'] = dict(unit=str(u2), nu_flux=[[float(x) for x in row] for row in ra.flux.to(u2).value], wav_flux=[[float(x) for x in row] for row in rb.flux.to(u2).value],
                                     nu_err=[[float(x) for x in row] for row in ra.error.to(u2).value], wav_err=[[float(x) for x in row] for row in rb.error.to(u2).value])
        elif case['kind'] == 'cube':
            from sedfitter.sed import SEDCube
            val_ = np.array([[_ord(r, case['order']) for r in m] for m in case['val']]) * unit
            if case.get('ctor'):        # everything handed to the constructor (wavelengths or frequencies)
                spec = dict(wav=np.array(wav) * u.micron) if case['ctor'] == 'wav' else dict(nu=(np.array(wav) * u.micron).to(u.Hz, equivalencies=u.spectral()))
                c = SEDCube(valid=np.ones(len(case['names'])), names=np.array(case['names']), distance=case.get('dist_kpc', 2.5) * u.kpc,
                            apertures=None if case['aps'] is None else np.array(case['aps']) * u.au,
                            val=val_, unc=val_ * 0.125 if case['with_unc'] else None, **spec)
            else:
                c = SEDCube()
                c.names = np.array(case['names'])
                c.distance = case.get('dist_kpc', 2.5) * u.kpc
                c.wav = np.array(wav) * u.micron
                c.apertures = None if case['aps'] is None else np.array(case['aps']) * u.au
                c.val = val_
                if case['with_unc']:
                    c.unc = c.val * 0.125
            # another cube with another distance / shape written first in the same process
            dec = SEDCube()
            dec.names = np.array(['decoy_a', 'decoy_b'])
            dec.distance = 1.0 * u.kpc
            dec.wav = np.array([1.0, 2.0, 3.0]) * u.micron
            dec.apertures = None
            dec.val = np.ones((2, 1, 3)) * unit
            dec.write(os.path.join(d, 'decoy.fits'))
            p = os.path.join(d, 'flux.fits')
            c.write(p)
            if case.get('columns') == 'reordered':      # SPECTRAL_INFO with FREQUENCY before WAVELENGTH
                pkgcase.reorder_cube_columns(p)
            for o in ('nu', 'wav'):
                r = SEDCube.read(p, order=o, memmap=case['memmap'])
                if case.get('mutate_sed') and not case['memmap']:
                    # an extracted SED is changed in place by its user; the cube (and what is extracted from it afterwards) must not change with it
                    tmp = r.get_sed(case['names'][0])
                    tmp.flux *= 2.0
                seds = []
                for nme in case['names']:
                    sd = r.get_sed(nme)
                    seds.append(dict(name=sd.name, wav=[float(x) for x in sd.wav.to(u.micron).value], flux=[[float(x) for x in row] for row in np.asarray(sd.flux.to(unit).value)],
                                     error=None if sd.error is None else [[float(x) for x in row] for row in np.asarray(sd.error.to(unit).value)]))
                out[o] = dict(distance_kpc=float(r.distance.to(u.kpc).value), names=[str(x) for x in r.names], wav=[float(x) for x in r.wav.to(u.micron).value], nu=[float(x) for x in r.nu.to(u.Hz).value],
                              val=[[[float(x) for x in row] for row in m] for m in np.asarray(r.val.to(unit).value)],
                              unc=None if r.unc is None else [[[float(x) for x in row] for row in m] for m in np.asarray(r.unc.to(unit).value)],
                              apertures=None if r.apertures is None else [float(x) for x in r.apertures.to(u.au).value], seds=seds)
        else:
            from sedfitter.convolved_fluxes import ConvolvedFluxes
            na = 1 if case['aps'] is None else len(case['aps'])
            flux = np.array([[m[a][0] for a in range(na)] for m in case['val']]) * u.mJy
            c = ConvolvedFluxes(wavelength=None if case['conv_wav'] is None else case['conv_wav'] * u.micron, model_names=np.array(case['names']),
                                apertures=None if case['aps'] is None else np.array(case['aps']) * u.au, flux=flux, error=flux * 0.25)
            p = os.path.join(d, 'conv.fits')
            c.write(p)
            r = ConvolvedFluxes.read(p)
            out['conv'] = dict(names=[(x.decode() if isinstance(x, bytes) else str(x)).strip() for x in r.model_names],
                               flux=[[float(x) for x in row] for row in r.flux.to(u.mJy).value], error=[[float(x) for x in row] for row in r.error.to(u.mJy).value],
                               wav=None if r.central_wavelength is None else float(r.central_wavelength.to(u.micron).value),
                               apertures=None if r.apertures is None else [float(x) for x in r.apertures.to(u.au).value])
    return out


def model_requests(case):
    if case['kind'] == 'conv':
        return []
    wav = _ord(case['wav'], case['order'])
    keys = [sorted(case['wav']).index(w) for w in wav]        # order-preserving integer keys
    ids = list(range(100, 100 + len(wav)))                      # value ids along the supplied order
    op = 'sed_roundtrip' if case['kind'] == 'sed' else 'cube_roundtrip'
    return [(op, [False, keys, ids]), (op, [True, keys, ids])]


def judge(case, im, mo):
    tags = ['kind=' + case['kind'], 'order=' + case['order'], 'unit=' + case['unit'].replace(' ', ''), 'aps=%s' % (None if case['aps'] is None else len(case['aps']))]
    if 'exc' in im:
        return dict(disagree=['implementation raised ' + im['msg']], fail=['raised: %s' % im['msg']], nontrivial=False, tags=tags + ['raised'],
                    sigdata=dict(msg=im['msg'], unit=case['unit']))
    if any(isinstance(m, tuple) for m in mo):
        return dict(disagree=['driver %r' % ([m for m in mo if isinstance(m, tuple)][:1],)], fail=[], nontrivial=False)
    disagree, fail = [], []
    if im.get('unit_error'):
        fail.append('units: SED.read ' + im['unit_error'])
    wav_in = _ord(case['wav'], case['order'])
    nw = len(wav_in)
    if case['kind'] == 'conv':
        c = im['conv']
        na = 1 if case['aps'] is None else len(case['aps'])
        if c['names'] != [n[:30] for n in case['names']]:
            fail.append('names: %r read back as %r' % (case['names'], c['names']))
        for i, m in enumerate(case['val']):
            if c['flux'][i] != [m[a][0] for a in range(na)] or c['error'][i] != [m[a][0] * 0.25 for a in range(na)]:
                fail.append('cells: convolved flux row %d read back as %r / %r' % (i, c['flux'][i], c['error'][i]))
                break
        if (c['wav'] is None) != (case['conv_wav'] is None) or (c['wav'] is not None and abs(c['wav'] - case['conv_wav']) > 1e-12 * case['conv_wav']):
            fail.append('meta: central wavelength %r read back as %r' % (case['conv_wav'], c['wav']))
        if (c['apertures'] is None) != (case['aps'] is None) or (case['aps'] is not None and c['apertures'] != case['aps']):
            fail.append('meta: apertures %r read back as %r' % (case['aps'], c['apertures']))
        return dict(disagree=[], fail=fail[:3], nontrivial=len(case['names']) >= 2, tags=tags)
    skeys = sorted(case['wav'])
    for want_wav, o, m in ((False, 'nu', mo[0]), (True, 'wav', mo[1])):
        r = im[o]
        mk, mid = m
        # model: order of the spectral axis
        if [skeys.index(w) if w in skeys else -1 for w in r['wav']] != mk:
            disagree.append('order=%s: wavelengths come back as %r, model order %r' % (o, r['wav'], [skeys[k] for k in mk]))
        rows_in = case['val'][0] if case['kind'] == 'sed' else None
        # cells
        def cells_ok(rows_back, rows_supplied, what):
            for a, (rb, rs) in enumerate(zip(rows_back, rows_supplied)):
                sup = dict(zip(wav_in, _ord(rs, case['order'])))
                if len(rb) != nw or any(w not in sup or abs(v - sup[w]) > 1e-12 * abs(sup[w]) for w, v in zip(r['wav'], rb)):
                    fail.append('cells: order=%s %s aperture %d: values %r at wavelengths %r; stored %r' % (o, what, a, rb[:6], r['wav'][:6], [sup.get(w) for w in r['wav']][:6]))
                    return False
            return True
        if sorted(r['wav']) != skeys:
            fail.append('wav: order=%s wavelengths %r are not the stored ones' % (o, r['wav'][:8]))
            continue
        if o == 'wav' and r['wav'] != skeys or o == 'nu' and r['wav'] != list(reversed(skeys)):
            fail.append('order: order=%s returns wavelengths %r' % (o, r['wav'][:8]))
        if any(abs(nu * w - 299792458.0e6) > 1e-6 * 299792458.0e6 for nu, w in zip(r['nu'], r['wav'])):
            fail.append('nu: order=%s frequencies are not reversed together with the wavelengths' % o)
        if case['kind'] == 'sed':
            ok = cells_ok(r['flux'], case['val'][0], 'flux')
            if ok:
                cells_ok([[x / 0.125 for x in row] for row in r['error']], case['val'][0], 'error')
            if r['name'] != case['names'][0] or abs(r['distance_kpc'] - case.get('dist_kpc', 2.5)) > 1e-12 * case.get('dist_kpc', 2.5):
                fail.append('meta: name / distance read back as %r / %r' % (r['name'], r['distance_kpc']))
            if case['aps'] is not None and r['apertures'] != case['aps']:
                fail.append('meta: apertures %r read back as %r' % (case['aps'], r['apertures']))
            mids = [mid.index(i) for i in range(100, 100 + nw)]   # position of each supplied value in the model's output
        else:
            if r['names'] != case['names']:
                fail.append('names: cube names read back as %r' % (r['names'],))
            if 'distance_kpc' in r and abs(r['distance_kpc'] - case.get('dist_kpc', 2.5)) > 1e-12 * case.get('dist_kpc', 2.5):
                fail.append('meta: the cube was stored with distance %r kpc and reads back with %r kpc (another cube was written before it in the same process)' % (case.get('dist_kpc', 2.5), r['distance_kpc']))
            for mi, mrows in enumerate(case['val']):
                if not cells_ok(r['val'][mi], mrows, 'model %d value' % mi):
                    break
                if case['with_unc'] and r['unc'] is not None and not cells_ok([[x / 0.125 for x in row] for row in r['unc'][mi]], mrows, 'model %d uncertainty' % mi):
                    break
                sd = r['seds'][mi]
                if sd['name'] != case['names'][mi] or sd['wav'] != r['wav'] or sd['flux'] != r['val'][mi]:
                    fail.append('get_sed: get_sed(%s) does not return the slice of that model' % case['names'][mi])
                    break
            if case['with_unc'] != (r['unc'] is not None):
                fail.append('optional: uncertainties %s but read back %s' % ('written' if case['with_unc'] else 'absent', 'absent' if r['unc'] is None else 'present'))
            if (case['aps'] is None) != (r['apertures'] is None):
                fail.append('optional: apertures %r read back as %r' % (case['aps'], r['apertures']))
    if 'other_unit' in im:
        ou = im['other_unit']
        for a, b in ((ou['nu_flux'], ou['wav_flux']), (ou['nu_err'], ou['wav_err'])):
            if any(any(abs(x - y) > 1e-12 * abs(y) for x, y in zip(ra, reversed(rb))) for ra, rb in zip(a, b)):
                fail.append('reverse: read in %s, the order=wav values are not the mirror image of the order=nu values' % ou['unit'])
                break
    if im['nu']['wav'] != list(reversed(im['wav']['wav'])):
        fail.append('reverse: the two read orders are not mirror images of each other')
    return dict(disagree=disagree[:3], fail=fail[:4], nontrivial=nw >= 3, tags=tags)


def signature(case, im, mo, v):
    return None
