"""
C13 violation: SED.interpolate_variable (the wavelength-dependent variant used
for plotting) takes bare numbers in AU.  If they are passed as an INTEGER array
and a radius lies beyond the table, the in-place clamp
    apertures[apertures > max] = max
truncates the table's largest radius to an integer, so the result is the
interpolant slightly INSIDE the table instead of "the largest-aperture value
for radii beyond the table".  (SED.interpolate, given the same integers,
returns the correct largest-aperture value.)
"""
import sys
import numpy as np
from astropy import units as u
from sedfitter.sed import SED

s = SED()
s.name = 'x'
s.distance = 1. * u.kpc
s.wav = np.array([1., 10., 100.]) * u.micron
s.apertures = np.array([10.5, 100.5, 1000.5]) * u.au      # increasing, 3 radii
s.flux = np.array([[1., 2., 3.], [11., 12., 13.], [1011., 1012., 1013.]]) * u.mJy
s.error = s.flux * 0.1

filter_wav = np.array([1., 10., 100.])           # micron, = SED wavelengths
filter_ap = np.array([5000, 5000, 5000])         # bare numbers (AU), beyond the table

largest = s.flux.value[-1, :]                    # largest-aperture value at each wavelength
ref = np.asarray(s.interpolate(filter_ap)).diagonal()
assert np.allclose(ref, largest, rtol=1e-12), "SED.interpolate itself is fine"

got = np.asarray(s.interpolate_variable(filter_wav, filter_ap.copy()))

if not np.allclose(got, largest, rtol=1e-12, atol=0):
    print("C13 VIOLATED (clamped above): SED.interpolate_variable with integer AU radii "
          "[5000 5000 5000] beyond a table ending at 1000.5 AU returned %s; the "
          "largest-aperture value (and SED.interpolate at each filter's aperture) is %s. "
          "The clamp wrote 1000.5 into the integer request array, giving 1000." % (got, largest))
    sys.exit(1)
print("no violation")
