"""kf.py <id> <property> <fixed|known> <commit|-> <what> [corpus] — append an entry to known_findings.json (run by hand, never by a check)."""
import json, sys
p = '/verif/known_findings.json'
d = json.load(open(p))
i, prop, status, commit, what = sys.argv[1:6]
e = dict(id=i, property=prop, status=status, what=what)
if status == 'fixed':
    e['commit'] = commit
    e['line'] = 'fixed: property=%s %s %s' % (prop, commit, what)
if len(sys.argv) > 6:
    e['corpus'] = sys.argv[6]
d['findings'] = [x for x in d['findings'] if x['id'] != i] + [e]
json.dump(d, open(p, 'w'), indent=1)
