(* Aperture-dependent branch: argmin over the distance grid, per-distance A_V, flux scaling. *)
From Coq Require Import QArith Lqa Lia List Bool ZArith.
Import ListNotations.
Open Scope Q_scope.
From SedV Require Import Clamp FitCore Flags Fit3 PLin Interp Xnum FilterOut FitModel.

(* ---- IEEE < on extended numbers ---- *)
Lemma xlt_fin x y : xlt (Fin x) (Fin y) = true <-> x < y.
Proof. simpl. rewrite negb_true_iff. split; intros H.
  - destruct (Qlt_le_dec x y) as [L|L]; [exact L|]. apply Qle_bool_iff in L. congruence.
  - destruct (Qle_bool y x) eqn:E; [|reflexivity]. apply Qle_bool_iff in E. lra. Qed.

Lemma xlt_irrefl a : xlt a a = false.
Proof. destruct a as [x| | |]; try reflexivity. destruct (xlt (Fin x) (Fin x)) eqn:E; [|reflexivity]. apply xlt_fin in E. lra. Qed.

Lemma xlt_trans a b c : xlt a b = true -> xlt b c = true -> xlt a c = true.
Proof.
  destruct a as [x| | |], b as [y| | |], c as [z| | |]; intros H1 H2; try discriminate; try reflexivity.
  apply xlt_fin in H1. apply xlt_fin in H2. apply xlt_fin. lra.
Qed.

Lemma xlt_asym a b : xlt a b = true -> xlt b a = false.
Proof. intros H. destruct (xlt b a) eqn:E; [|reflexivity]. pose proof (xlt_trans _ _ _ H E) as T. now rewrite xlt_irrefl in T. Qed.

(* ---- first-minimum argmin ---- *)
Fixpoint amv (best : nat) (bv : xnum) (i : nat) (l : list xnum) : nat * xnum :=
  match l with
  | [] => (best, bv)
  | x :: r => if xlt x bv then amv i x (Datatypes.S i) r else amv best bv (Datatypes.S i) r
  end.

Lemma amv_fst l : forall b v i, fst (amv b v i l) = argmin_from b v i l.
Proof. induction l as [|x r IH]; intros b v i; simpl; [reflexivity|]. destruct (xlt x v); apply IH. Qed.

Lemma amv_spec l : forall b v i d,
  let '(r, rv) := amv b v i l in
  (rv = v \/ xlt rv v = true) /\
  (forall y, In y l -> xlt y rv = false) /\
  ((r = b /\ rv = v) \/ ((i <= r < i + length l)%nat /\ nth (r - i) l d = rv)).
Proof.
  induction l as [|x l IH]; intros b v i d; simpl.
  - split; [now left|]. split; [intros y []|left; split; reflexivity].
  - destruct (xlt x v) eqn:E.
    + specialize (IH i x (Datatypes.S i) d). destruct (amv i x (Datatypes.S i) l) as [r rv].
      destruct IH as (I1 & I2 & I3). split; [|split].
      * right. destruct I1 as [->|I1]; [exact E|exact (xlt_trans _ _ _ I1 E)].
      * intros y [<-|Hy]; [|now apply I2]. destruct I1 as [->|I1]; [apply xlt_irrefl|now apply xlt_asym].
      * right. destruct I3 as [[-> ->]|[Hr Hn]].
        -- split; [lia|]. now rewrite Nat.sub_diag.
        -- split; [lia|]. replace (r - i)%nat with (Datatypes.S (r - Datatypes.S i)) by lia. exact Hn.
    + specialize (IH b v (Datatypes.S i) d). destruct (amv b v (Datatypes.S i) l) as [r rv].
      destruct IH as (I1 & I2 & I3). split; [exact I1|split].
      * intros y [<-|Hy]; [|now apply I2]. destruct I1 as [->|I1]; [exact E|].
        destruct (xlt x rv) eqn:Ey; [|reflexivity]. pose proof (xlt_trans _ _ _ Ey I1). congruence.
      * destruct I3 as [I3|[Hr Hn]]; [now left|right]. split; [lia|].
        replace (r - i)%nat with (Datatypes.S (r - Datatypes.S i)) by lia. exact Hn.
Qed.

(* the chosen index is in range and no entry of the list is strictly smaller than the chosen one *)
Theorem argmin_x_spec l d : l <> [] ->
  (argmin_x l < length l)%nat /\ forall y, In y l -> xlt y (nth (argmin_x l) l d) = false.
Proof.
  destruct l as [|x l]; [congruence|]. intros _. unfold argmin_x. rewrite <- amv_fst.
  pose proof (amv_spec l 0%nat x 1%nat d) as H. destruct (amv 0 x 1 l) as [r rv]. cbn [fst].
  destruct H as (I1 & I2 & I3).
  assert (Hv : nth r (x :: l) d = rv).
  { destruct I3 as [[-> ->]|[Hr Hn]]; [reflexivity|]. destruct r as [|r]; [lia|]. cbn [nth]. replace (Datatypes.S r - 1)%nat with r in Hn by lia. exact Hn. }
  split.
  - destruct I3 as [[-> _]|[Hr _]]; simpl; lia.
  - rewrite Hv. intros y [<-|Hy]; [|now apply I2].
    destruct I1 as [->|I1]; [apply xlt_irrefl|now apply xlt_asym].
Qed.

Section F3.
Variable pen : Q -> option Q.

(* Models.fit, ndim == 3, one model: the reported distance index minimises chi^2 over the grid, the reported scale is that
   grid log-distance, and A_V, chi^2 and the predictions are those computed at that distance *)
Theorem fit3_one_spec lo hi logds per_dist : per_dist <> [] ->
  let r := fit3_one pen lo hi logds per_dist in
  let b := g_best r in
  let rows := nth b per_dist [] in
  (b < length per_dist)%nat /\
  g_sc r = nth b logds 0 /\
  g_av r = av_at_distance lo hi rows /\
  g_chi2 r = Fin (chi2_m pen rows (g_av r) 0) /\
  (forall rows', In rows' per_dist ->
     xlt (Fin (chi2_m pen rows' (av_at_distance lo hi rows') 0)) (g_chi2 r) = false) /\
  g_pred r = map (fun x => g_av r * r_a x + r_lm x) rows.
Proof.
  intros Hne. unfold fit3_one. cbn [g_best g_sc g_av g_chi2 g_pred].
  set (res := map (chi_at pen lo hi) per_dist).
  assert (Hres : map snd res <> []) by (destruct per_dist; [congruence|discriminate]).
  destruct (argmin_x_spec (map snd res) NaN Hres) as [Hb Hmin].
  set (b := argmin_x (map snd res)) in *.
  assert (Hlen : length (map snd res) = length per_dist) by (unfold res; now rewrite !map_length).
  assert (Hb' : (b < length per_dist)%nat) by lia.
  assert (Hn : nth b res (0, NaN) = chi_at pen lo hi (nth b per_dist [])).
  { unfold res. rewrite (nth_indep _ (0, NaN) (chi_at pen lo hi [])) by (rewrite map_length; exact Hb').
    apply map_nth. }
  rewrite Hn. unfold chi_at. cbn [fst snd].
  repeat split; try assumption; try reflexivity.
  intros rows' Hin.
  assert (Hs : nth b (map snd res) NaN = snd (nth b res (0, NaN))).
  { rewrite (nth_indep _ NaN (snd (0, NaN))) by (rewrite map_length; unfold res; rewrite map_length; exact Hb'). apply map_nth. }
  rewrite Hn in Hs. unfold chi_at in Hs. cbn [snd] in Hs. rewrite <- Hs. apply Hmin.
  unfold res. rewrite map_map. apply in_map_iff. exists rows'. split; [reflexivity|exact Hin].
Qed.
End F3.

(* ---- ConvolvedFluxes.interpolate for one radius: exact at knots, linear between, last value above, refused below ---- *)
Lemma tab_lo_cons p q l : tab_lo (p :: q :: l) = fst p. Proof. reflexivity. Qed.

Theorem interp_clamp_below tab r : (2 <= length tab)%nat -> r < tab_lo tab -> interp_clamp_m tab r = None.
Proof. intros L H. unfold interp_clamp_m. destruct tab as [|p [|q l]]; simpl in L; try lia.
  destruct (Qlt_le_dec r (tab_lo (p :: q :: l))); [reflexivity|lra]. Qed.

Theorem interp_clamp_above tab r : (2 <= length tab)%nat -> tab_lo tab <= r -> tab_hi tab < r ->
  interp_clamp_m tab r = Some (snd (last tab (0, 0))).
Proof. intros L H1 H2. unfold interp_clamp_m. destruct tab as [|p [|q l]]; simpl in L; try lia.
  destruct (Qlt_le_dec r (tab_lo (p :: q :: l))); [lra|]. destruct (Qlt_le_dec (tab_hi (p :: q :: l)) r); [reflexivity|lra]. Qed.

Theorem interp_clamp_inside tab r : (2 <= length tab)%nat -> tab_lo tab <= r -> r <= tab_hi tab ->
  interp_clamp_m tab r = Some (fval tab r).
Proof. intros L H1 H2. unfold interp_clamp_m. destruct tab as [|p [|q l]]; simpl in L; try lia.
  destruct (Qlt_le_dec r (tab_lo (p :: q :: l))); [lra|]. destruct (Qlt_le_dec (tab_hi (p :: q :: l)) r); [lra|reflexivity]. Qed.

Theorem interp_clamp_single p r : interp_clamp_m [p] r = Some (snd p).
Proof. reflexivity. Qed.

(* flux used at distance d: interpolated to theta*d[pc] AU, times (1 kpc / d)^2 *)
Theorem scaled_flux_spec tab theta d f : interp_clamp_m tab (theta * (d * 1000)) = Some f ->
  scaled_flux_m tab theta d = Some (f * ((1 / d) * (1 / d))).
Proof. intros H. unfold scaled_flux_m. now rewrite H. Qed.
