(* C17 — plotted model SEDs are the fitted models.
   Model: PlotM.curve_list (which curves plot() appends, in which order), PlotM.curve_val (SED flux interpolated to the aperture,
   scaled to the fitted distance, reddened); the aperture interpolation itself is C13 (interp_clamp_m / aperture_at).
   matplotlib, colours, axes and file output are not modelled. *)
From Coq Require Import QArith List Arith.
Import ListNotations.
From SedV Require Import PlotM PlotProofs.

(* number of curves = selected fits x curves per fit of the display mode *)
Theorem C17_count : forall m nu n, length (curve_list m nu n) = (n * ncurves_m m nu)%nat.
Proof. exact curve_count. Qed.

(* the best fit is drawn last *)
Theorem C17_best_last : forall n, (0 < n)%nat -> last (draw_order n) 0%nat = 0%nat.
Proof. exact best_last. Qed.

(* a curve passes through the prediction stored with the fit, lg(f/d^2) + A_V k, up to the constant 2 lg(D/K) that converts the
   SED's distance D to the plotting code's kpc constant K (for log10 / 10** oracles with lg(xy) = lg x + lg y and lg(pw t) = t) *)
Theorem C17_through : forall lg pw : Q -> Q,
  (forall x y, 0 < x -> 0 < y -> lg (x * y) == lg x + lg y) -> (forall t, lg (pw t) == t) -> (forall t, 0 < pw t) ->
  (forall x y, x == y -> lg x == lg y) ->
  forall f D d K av k, 0 < f -> 0 < D -> 0 < d -> 0 < K ->
  lg (curve_val pw f D d K av k) == (lg (f * ((1 / d) * (1 / d))) + av * k) + (lg (D / K) + lg (D / K)).
Proof. exact curve_through_prediction. Qed.

(* exactly the curves (fit i, curve j) with i < n_fits and j < curves-per-fit are drawn: none missing, none foreign *)
Theorem C17_members : forall m nu n i j, In (i, j) (curve_list m nu n) <-> (i < n /\ j < ncurves_m m nu)%nat.
Proof. exact curve_list_in. Qed.

(* no curve is drawn twice *)
Theorem C17_no_duplicate : forall m nu n, NoDup (curve_list m nu n).
Proof. exact curve_list_nodup. Qed.

(* fits are drawn worst first: the fit index never increases along the list of curves *)
Theorem C17_worst_first : forall m nu n, nonincr (map fst (curve_list m nu n)).
Proof. exact curve_list_worst_first. Qed.

(* the very last curve drawn belongs to the best fit (and is its last aperture curve) *)
Theorem C17_best_on_top : forall m nu n i j, (0 < n)%nat -> (0 < ncurves_m m nu)%nat ->
  last (curve_list m nu n) (i, j) = (0, ncurves_m m nu - 1)%nat.
Proof. exact curve_list_best_on_top. Qed.

Example C17_example : curve_list LargestSmallest 3 2 = [(1, 0); (1, 1); (0, 0); (0, 1)]%nat /\ ncurves_m AllAp 3 = 3%nat.
Proof. split; reflexivity. Qed.
