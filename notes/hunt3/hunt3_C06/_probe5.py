import os, sys, tempfile, shutil
import numpy as np
from astropy import units as u
sys.path.insert(0, os.path.dirname(__file__))
from _lib import *
from sedfitter.filter import Filter
from sedfitter.convolve import convolve_model_dir
from sedfitter.convolved_fluxes import ConvolvedFluxes
from sedfitter.sed import SEDCube, SED

# A int nu, duplicates
f = Filter(name='a', central_wavelength=1 * u.micron, nu=np.array([10, 20, 20, 40, 70]) * u.THz, response=np.array([0., 0., 2., 2., 0.]))
snu = np.array([5, 15, 20, 22, 39, 41, 80]) * 1e12
b = f.rebin(snu * u.Hz)
# reference by splitting
exp_total = 0.5*0*10 + 2*20 + 0.5*2*30
print('A sum', b.response.sum(), exp_total * 1e12, b.response)
f = Filter(name='a', central_wavelength=1 * u.micron, nu=np.array([10, 20, 40, 70]) * u.THz, response=np.array([0, 1, 2, 0]))
b = f.rebin(np.array([5, 15, 20, 22, 39, 41, 80]) * u.THz)
print('A2', b.response, ref_R(np.array([10, 20, 40, 70.]) * 1e12, [0, 1, 2, 0], snu))

tmp = tempfile.mkdtemp()
d1 = os.path.join(tmp, 'v1'); os.mkdir(d1)
rng = np.random.default_rng(5)
names = ['b', 'a', 'c', 'd']
grids = [np.sort(rng.uniform(1e13, 3e13, 30)), np.sort(rng.uniform(1e13, 3e13, 30)), np.sort(rng.uniform(1e13, 3e13, 41)), None]
grids[3] = grids[0] * (1 + 1e-13)
aps = np.array([1., 2., 5.])  # pc
fl = {}; er = {}
units = ['mJy', 'Jy', 'ergs/cm^2/s', 'mJy']
for k, n in enumerate(names):
    nu = grids[k]
    fl[n] = rng.uniform(1, 2, (3, len(nu))); er[n] = rng.uniform(0.1, 0.2, (3, len(nu)))
    write_sed_raw(os.path.join(d1, 'seds', n + '.fits'), n, nu, fl[n], er[n], aps, reverse=k % 2 == 0, flux_unit=units[k],
                  wav_unit='Angstrom', wav_scale=1e4, nu_unit='GHz', nu_scale=1e-9, ap_unit='pc', distance_cm=None if k == 1 else 3.0856775814913674e21)
write_conf(d1, 1); write_params(d1, ['c', 'a', 'd', 'b'])
fnu = np.sort(rng.uniform(1.5e13, 2.5e13, 20)); fr = rng.uniform(0, 1, 20)
F = Filter(name='X.1', central_wavelength=150000 * u.AA, nu=(fnu * u.Hz).to(u.THz), response=fr); F.normalize()
convolve_model_dir(d1, (F,))
c = ConvolvedFluxes.read(os.path.join(d1, 'convolved', 'X.1.fits'))
print(c.model_names, c.apertures, c.central_wavelength)
for row, n in enumerate(['c', 'a', 'd', 'b']):
    k = names.index(n); nu = grids[k]
    R = ref_R(fnu, F.response, nu)
    f_ = fl[n].copy(); e_ = er[n].copy()
    if units[k] == 'Jy': f_ *= 1e3; e_ *= 1e3
    if units[k] == 'ergs/cm^2/s': f_ = f_ / nu * 1e26; e_ = e_ / nu * 1e26
    print(n, c.flux[row].value / np.sum(f_ * R, axis=1), c.error[row].value / np.sqrt(np.sum((e_ * R)**2, axis=1)))
shutil.rmtree(tmp)
