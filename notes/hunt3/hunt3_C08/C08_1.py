"""
C08 violation: with remove_resolved=True the nearest distance of the trial grid
is excluded for EVERY model of EVERY distance-dependent package - even for
models that are tabulated in a single aperture and therefore have no spatial
extent at all.  A source synthesised from model m at A_V0 and d0 = d_min is then
not recovered: chi^2 >> 0, A_V != A_V0 and scale != log10(d0).

Cause (sedfitter/models.py, both readers): the "50% surface-brightness radius"
is computed with find_radius_sigma() on the ConvolvedFluxes object that has
ALREADY been interpolated onto the per-distance apertures and multiplied by
(1 kpc / d)^2.  Its "aperture" axis is thus the distance axis, and the
"surface brightness profile" is the 1/d^2 dilution.  The first bin always holds
the maximum, so the radius always falls between the apertures of the first two
distances and `apertures_au < radius` is True at distance index 0.
"""
import os
import sys
import io
import tempfile
import contextlib
import warnings

import numpy as np
from astropy import units as u
from astropy.table import Table

warnings.filterwarnings('ignore')

from sedfitter import fit, write_parameters
from sedfitter.sed import SED, SEDCube
from sedfitter.filter import Filter
from sedfitter.extinction import Extinction
from sedfitter.convolve import convolve_model_dir
from sedfitter.convolved_fluxes import ConvolvedFluxes

NAMES = ['mod_%02d' % i for i in range(6)]
WAV = np.logspace(-1., 2.5, 80)


def quiet(fn, *args, **kwargs):
    with contextlib.redirect_stdout(io.StringIO()), contextlib.redirect_stderr(io.StringIO()):
        return fn(*args, **kwargs)


def shape(k):
    # pairwise non-degenerate SED shapes (log-normal bumps of different
    # position and width on a floor)
    return (1 + k) * np.exp(-0.5 * ((np.log10(WAV) - (0.2 + 0.25 * k)) / (0.3 + 0.07 * k)) ** 2) + 0.05 + 0.01 * np.sin(WAV + k)


def write_conf(d, version):
    with open(os.path.join(d, 'models.conf'), 'w') as f:
        f.write("name = test\nlength_subdir = 0\naperture_dependent = yes\nlogd_step = 0.05\n")
        if version == 2:
            f.write("version = 2\n")
    t = Table()
    t['MODEL_NAME'] = np.array(NAMES, dtype='S30')
    t['par1'] = np.arange(len(NAMES)) * 10. + 1.
    t.write(os.path.join(d, 'parameters.fits'))


def build_per_file(d):
    os.mkdir(os.path.join(d, 'seds'))
    for k, n in enumerate(NAMES):
        s = SED()
        s.name = n
        s.distance = 1. * u.kpc
        s.wav = WAV * u.micron
        s.nu = s.wav.to(u.Hz, equivalencies=u.spectral())
        s.apertures = None                      # a single aperture: a point source
        s.flux = shape(k)[np.newaxis, :] * u.mJy
        s.error = s.flux * 0.01
        s.write(os.path.join(d, 'seds', n + '_sed.fits'))
    write_conf(d, 1)


def build_cube(d):
    cube = SEDCube()
    cube.names = np.array(NAMES)
    cube.distance = 1. * u.kpc
    cube.wav = WAV * u.micron
    cube.apertures = None                       # a single aperture: point sources
    cube.val = np.array([shape(k)[np.newaxis, :] for k in range(len(NAMES))]) * u.mJy
    cube.unc = cube.val * 0.01
    cube.write(os.path.join(d, 'flux.fits'))
    write_conf(d, 2)


def filters():
    out = []
    for name, lo, hi, cw in [('fa', 1., 2., 1.5), ('fb', 3., 5., 4.), ('fc', 8., 12., 10.), ('fd', 20., 30., 24.)]:
        wav = np.linspace(hi, lo, 40) * u.micron
        f = Filter()
        f.name = name
        f.central_wavelength = cw * u.micron
        f.nu = wav.to(u.Hz, equivalencies=u.spectral())
        f.response = 1. + np.sin(np.linspace(0., 3., 40))
        f.normalize()
        out.append(f)
    return out


def run(builder, label):

    d = tempfile.mkdtemp()
    builder(d)
    fs = filters()
    quiet(convolve_model_dir, d, fs)

    law = Extinction()
    law.wav = np.logspace(-2., 3., 60) * u.micron
    law.chi = 200. * law.wav.value ** -1.5 * u.cm ** 2 / u.g

    fnames = [f.name for f in fs]
    apertures = [3., 3., 3., 3.] * u.arcsec
    d_min, d_max = 1., 4.
    m, av0, relerr = 2, 2.0, 1.e-3

    # Synthesise the photometry independently of the fitter: model m of the
    # package (its convolved fluxes, tabulated at 1 kpc in a single aperture)
    # seen at d0 = d_min = 1 kpc through A_V0 magnitudes of extinction.
    wav = [f.central_wavelength.to(u.micron).value for f in fs] * u.micron
    av_law = np.asarray(law.get_av(wav))
    flux = np.zeros(4)
    for j, f in enumerate(fs):
        c = ConvolvedFluxes.read(os.path.join(d, 'convolved', f.name + '.fits'))
        i = list(np.char.strip(c.model_names)).index(NAMES[m])
        flux[j] = c.flux[i, 0].to(u.mJy).value * (1. / d_min) ** 2 * 10. ** (av0 * av_law[j])
    err = flux * relerr

    data = os.path.join(d, 'data.txt')
    with open(data, 'w') as fh:
        fh.write('src 0. 0. 1 1 1 1 ' + ' '.join('%.16e %.16e' % (a, b) for a, b in zip(flux, err)) + '\n')

    results = {}
    for rr in (False, True):
        out = os.path.join(d, 'fits_%s.fitinfo' % rr)
        quiet(fit, data, fnames, apertures, d, out, extinction_law=law,
              av_range=[0., 10.], distance_range=[d_min, d_max] * u.kpc,
              output_format=('N', 1), remove_resolved=rr)
        txt = os.path.join(d, 'pars_%s.txt' % rr)
        write_parameters(out, txt, select_format=('N', 1))
        row = open(txt).read().split('\n')[4].split()
        results[rr] = dict(name=row[1], chi2=float(row[2]), av=float(row[3]), sc=float(row[4]))
        print(label, 'remove_resolved=%s ->' % rr, results[rr])

    ref = results[False]
    assert ref['name'] == NAMES[m] and ref['chi2'] < 1e-2 and abs(ref['av'] - av0) < 1e-2 and abs(ref['sc'] - np.log10(d_min)) < 1e-3, \
        "sanity: the planted model should be recovered with remove_resolved=False: %r" % ref

    got = results[True]
    ok = got['name'] == NAMES[m] and got['chi2'] < 1e-2 and abs(got['av'] - av0) < 1e-2 and abs(got['sc'] - np.log10(d_min)) < 1e-3
    return ok, got, (NAMES[m], av0, np.log10(d_min))


if __name__ == '__main__':
    failures = []
    for builder, label in ((build_per_file, 'per-file package'), (build_cube, 'cube package')):
        ok, got, truth = run(builder, label)
        if not ok:
            failures.append("%s: planted (model, A_V, log10 d) = %r but remove_resolved=True reports %r" % (label, truth, got))
    assert not failures, (
        "C08 'chi^2 ~ 0, A_V ~ A_V0 and scale ~ log10 d0' fails for single-aperture (unresolvable) models planted "
        "at the nearest grid distance when remove_resolved=True: the nearest trial distance is always flagged as "
        "'resolved'. " + " | ".join(failures))
    print("no violation")
