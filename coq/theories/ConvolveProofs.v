(* C06: the re-binned response of a bin is the exact integral of the piecewise-linear filter over the bin;
   the responses add up to the integral over the overlap; flat spectrum, linearity, quadrature. *)
From Coq Require Import QArith Qminmax Lqa Lia List Bool.
Import ListNotations.
Open Scope Q_scope.
From SedV Require Import PLin Xnum Slice Interp Isub IsubProofs Rebin ConvolveM.

Lemma G_proper l : forall t t', t == t' -> G l t == G l t'.
Proof.
  induction l as [|p0 r IH]; intros t t' E; [reflexivity|]. destruct r as [|p1 r']; [reflexivity|]. cbn [G].
  rewrite (Qle_bool_proper t t' (fst p1) (fst p1) E (Qeq_refl _)).
  destruct (Qle_bool t' (fst p1)); [unfold area, lin; simpl; now rewrite E|now rewrite (IH t t' E)].
Qed.

(* integrate_subset with either order of the limits: the integral between the smaller and the larger limit *)
Theorem isub_full_exact l a b :
  let l' := orient l in
  incr l' -> (2 <= length l')%nat -> x0 l' <= Qmin a b -> Qmax a b <= xn l' ->
  isub_full l a b == G l' (Qmax a b) - G l' (Qmin a b).
Proof.
  intros l' Hi L H0 Hn. unfold isub_full. fold l'.
  destruct (Qle_bool a b) eqn:E.
  - apply Qle_bool_iff in E.
    pose proof (Q.min_l a b E) as Emin. pose proof (Q.max_r a b E) as Emax.
    rewrite (G_proper l' _ _ Emax), (G_proper l' _ _ Emin). rewrite Emin in H0. rewrite Emax in Hn.
    destruct (Qeq_bool a b) eqn:Eq.
    + apply Qeq_bool_iff in Eq. rewrite (G_proper l' b a (Qeq_sym _ _ Eq)). ring.
    + assert (a < b). { destruct (Qlt_le_dec a b); [assumption|]. assert (X : a == b) by lra. apply Qeq_bool_iff in X. congruence. }
      apply isub_fixed_exact; assumption || lra.
  - apply nle_bool in E. assert (E' : b <= a) by lra.
    pose proof (Q.min_r a b E') as Emin. pose proof (Q.max_l a b E') as Emax.
    rewrite (G_proper l' _ _ Emax), (G_proper l' _ _ Emin). rewrite Emin in H0. rewrite Emax in Hn.
    destruct (Qeq_bool b a) eqn:Eq; [apply Qeq_bool_iff in Eq; lra|].
    apply isub_fixed_exact; assumption || lra.
Qed.

(* the clip keeps every bin edge inside the filter's range *)
Lemma clip_range fmin fmax x : fmin <= fmax -> fmin <= clip fmin fmax x <= fmax.
Proof. intros H. unfold clip. split.
  - apply Q.min_glb; [apply Q.le_max_r|exact H].
  - apply Q.le_min_r. Qed.

Lemma clip_mono fmin fmax x y : x <= y -> clip fmin fmax x <= clip fmin fmax y.
Proof. intros H. unfold clip. apply Q.min_le_compat_r. apply Q.max_le_compat_r. exact H. Qed.

(* ---- sums ---- *)
Lemma dot_const c r : dot (map (fun _ => c) r) r == c * qsuml r.
Proof. induction r as [|y r IH]; simpl; [ring|]. rewrite IH. ring. Qed.

Lemma dot_linear al be : forall f f' r, length f = length r -> length f' = length r ->
  dot (map (fun p => al * fst p + be * snd p) (combine f f')) r == al * dot f r + be * dot f' r.
Proof.
  induction f as [|x f IH]; intros [|x' f'] [|y r] H H'; simpl in *; try discriminate; try ring.
  rewrite IH by congruence. ring.
Qed.


(* ---- orientation of the filter ---- *)
Lemma x0_rev l : x0 (rev l) = xn l.
Proof.
  unfold x0, xn. induction l as [|p r IH]; [reflexivity|]. cbn [rev].
  destruct r as [|q r']; [reflexivity|].
  change (last (p :: q :: r') (0, 0)) with (last (q :: r') (0, 0)). rewrite <- IH.
  cbn [rev]. destruct (rev r') as [|z zs]; reflexivity.
Qed.
Lemma xn_rev l : xn (rev l) = x0 l.
Proof. unfold x0, xn. destruct l as [|p r]; [reflexivity|]. cbn [rev]. now rewrite last_last. Qed.

Lemma orient_ends l : let l' := orient l in x0 l' <= xn l' ->
  x0 l' == Qmin (x0 l) (xn l) /\ xn l' == Qmax (x0 l) (xn l).
Proof.
  unfold orient. destruct (Qle_bool (x0 l) (xn l)) eqn:E; cbv zeta.
  - apply Qle_bool_iff in E. intros _. split; [symmetry; now apply Q.min_l|symmetry; now apply Q.max_r].
  - apply nle_bool in E. rewrite x0_rev, xn_rev. intros _. split; [symmetry; apply Q.min_r; lra|symmetry; apply Q.max_l; lra].
Qed.

Lemma incr_ends l : incr l -> (2 <= length l)%nat -> x0 l < xn l.
Proof.
  intros Hi L. destruct l as [|p r]; [simpl in L; lia|]. destruct r as [|q r']; [simpl in L; lia|].
  pose proof (incr_forall p (q :: r') Hi) as F. rewrite Forall_forall in F. unfold x0, xn. cbn [hd fst].
  apply F. change (last (p :: q :: r') (0, 0)) with (last (q :: r') (0, 0)). apply last_in. discriminate.
Qed.

Lemma nth_map_seq (f : nat -> Q) n i : (i < n)%nat -> nth i (map f (seq 0 n)) 0 = f i.
Proof.
  intros H. rewrite (nth_indep _ 0 (f 0%nat)) by (rewrite map_length, seq_length; exact H).
  rewrite map_nth, seq_nth by exact H. reflexivity.
Qed.

(* C06: the response of bin i is the exact integral of the piecewise-linear filter between the bin's (clipped) edges *)
Theorem rebin_bins l nu i :
  let l' := orient l in
  let fmin := Qmin (x0 l) (xn l) in let fmax := Qmax (x0 l) (xn l) in
  let a := nu1 nu fmin fmax i in let b := nu2 nu fmin fmax i in
  incr l' -> (2 <= length l')%nat -> (i < length nu)%nat ->
  nth i (rebin_m l nu) 0 == G l' (Qmax a b) - G l' (Qmin a b).
Proof.
  intros l' fmin fmax a b Hi L Hlt.
  pose proof (incr_ends l' Hi L) as He.
  destruct (orient_ends l) as [E0 En]; [fold l'; lra|]. fold l' fmin fmax in E0, En.
  assert (Hmm : fmin <= fmax) by lra.
  unfold rebin_m. fold fmin fmax. rewrite nth_map_seq by exact Hlt. cbv zeta. fold a b.
  destruct (Qeq_bool b a) eqn:Eq.
  - apply Qeq_bool_iff in Eq.
    assert (X : Qmax a b == Qmin a b).
    { rewrite Q.max_l by lra. rewrite Q.min_r by lra. symmetry. exact Eq. }
    rewrite (G_proper l' _ _ X). ring.
  - apply isub_full_exact; try assumption.
    + destruct (clip_range fmin fmax (if Nat.eqb i 0 then nuat nu 0 else (1#2) * (nuat nu (i - 1) + nuat nu i)) Hmm) as [A1 _].
      destruct (clip_range fmin fmax (if Nat.eqb i (Rebin.n nu - 1) then nuat nu (Rebin.n nu - 1) else (1#2) * (nuat nu i + nuat nu (i + 1))) Hmm) as [B1 _].
      fold (nu1 nu fmin fmax i) in A1. fold (nu2 nu fmin fmax i) in B1. fold a in A1. fold b in B1.
      apply Qle_trans with fmin; [apply Qle_lteq; right; exact E0|apply Q.min_glb; assumption].
    + destruct (clip_range fmin fmax (if Nat.eqb i 0 then nuat nu 0 else (1#2) * (nuat nu (i - 1) + nuat nu i)) Hmm) as [_ A2].
      destruct (clip_range fmin fmax (if Nat.eqb i (Rebin.n nu - 1) then nuat nu (Rebin.n nu - 1) else (1#2) * (nuat nu i + nuat nu (i + 1))) Hmm) as [_ B2].
      fold (nu1 nu fmin fmax i) in A2. fold (nu2 nu fmin fmax i) in B2. fold a in A2. fold b in B2.
      apply Qle_trans with fmax; [apply Q.max_lub; assumption|apply Qle_lteq; right; symmetry; exact En].
Qed.

(* ---- conservation for an increasing SED frequency grid ---- *)
Lemma qsuml_app l1 l2 : qsuml (l1 ++ l2) == qsuml l1 + qsuml l2.
Proof. induction l1 as [|x r IH]; simpl; [ring|]. rewrite IH. ring. Qed.

Lemma qsuml_map_seq (f : nat -> Q) n : qsuml (map f (seq 0 n)) == qsumn f n.
Proof. induction n as [|n IH]; [reflexivity|]. rewrite seq_S, map_app, qsuml_app, IH. simpl. ring. Qed.

Lemma qsumn_ext (f g : nat -> Q) n : (forall i, (i < n)%nat -> f i == g i) -> qsumn f n == qsumn g n.
Proof. induction n as [|n IH]; intros H; [reflexivity|]. simpl. rewrite IH by (intros; apply H; lia). rewrite (H n) by lia. reflexivity. Qed.

Lemma edges_ordered nu fmin fmax i :
  (forall j, (Datatypes.S j < length nu)%nat -> nuat nu j <= nuat nu (Datatypes.S j)) -> (i < length nu)%nat ->
  nu1 nu fmin fmax i <= nu2 nu fmin fmax i.
Proof.
  intros Hm Hi. unfold nu1, nu2. apply clip_mono. unfold Rebin.n.
  destruct (Nat.eqb i 0) eqn:E0; destruct (Nat.eqb i (length nu - 1)) eqn:En.
  - apply Nat.eqb_eq in E0. apply Nat.eqb_eq in En. subst i. rewrite <- En. lra.
  - apply Nat.eqb_eq in E0. apply Nat.eqb_neq in En. subst i. specialize (Hm 0%nat ltac:(lia)). simpl (0 + 1)%nat. lra.
  - apply Nat.eqb_neq in E0. apply Nat.eqb_eq in En. specialize (Hm (i - 1)%nat ltac:(lia)).
    replace (Datatypes.S (i - 1)) with i in Hm by lia. rewrite <- En. lra.
  - apply Nat.eqb_neq in E0. apply Nat.eqb_neq in En.
    pose proof (Hm (i - 1)%nat ltac:(lia)) as H1. replace (Datatypes.S (i - 1)) with i in H1 by lia.
    pose proof (Hm i ltac:(lia)) as H2. replace (i + 1)%nat with (Datatypes.S i) by lia. lra.
Qed.

Theorem rebin_conservation l nu :
  let l' := orient l in
  let fmin := Qmin (x0 l) (xn l) in let fmax := Qmax (x0 l) (xn l) in
  incr l' -> (2 <= length l')%nat -> (0 < length nu)%nat ->
  (forall j, (Datatypes.S j < length nu)%nat -> nuat nu j <= nuat nu (Datatypes.S j)) ->
  qsuml (rebin_m l nu) == G l' (clip fmin fmax (nuat nu (length nu - 1))) - G l' (clip fmin fmax (nuat nu 0)).
Proof.
  intros l' fmin fmax Hi L Hn Hm.
  rewrite <- (C06_conservation nu fmin fmax (G l') Hn).
  assert (E : rebin_m l nu = map (fun i => nth i (rebin_m l nu) 0) (seq 0 (length nu))).
  { unfold rebin_m. fold fmin fmax. apply map_ext_in. intros i Hin. apply in_seq in Hin.
    symmetry. rewrite nth_map_seq by lia. reflexivity. }
  rewrite E, qsuml_map_seq. apply qsumn_ext. intros i Hlt.
  rewrite (rebin_bins l nu i Hi L Hlt). fold l' fmin fmax.
  pose proof (edges_ordered nu fmin fmax i Hm Hlt) as O.
  rewrite (G_proper l' _ _ (Q.max_r _ _ O)), (G_proper l' _ _ (Q.min_l _ _ O)). reflexivity.
Qed.
