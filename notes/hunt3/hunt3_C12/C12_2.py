"""
C12, clauses "whether the spectral axis was supplied in increasing or
decreasing wavelength", "requesting the other order only reverses the spectral
axis of wavelengths, frequencies, values and uncertainties together"
(and C15 "F(erg/cm^2/s) = nu * F_nu") - on an SED object that is re-used after
its spectral axis was re-assigned.

`SED.nu` is documented as, and for a freshly built SED behaves as, a quantity
derived from `SED.wav`.  But an SED that comes from SED.read() or from
SEDCube.get_sed() carries a *separately stored* copy of the frequencies, and
the `wav` setter does not invalidate it (the SEDCube setter does).  A user who
turns such an SED round to supply it in increasing wavelength

    s.wav = s.wav[::-1]; s.flux = s.flux[:, ::-1]; s.error = s.error[:, ::-1]

gets an object whose nu is silently stale.  SED.write() stores that stale
FREQUENCY column next to the new WAVELENGTH column, and on reading back
  * nu is not c / wav,
  * order='nu' and order='wav' return the SAME order (no reversal),
  * fluxes converted between F_nu and nu*F_nu use the wrong frequencies.
The same steps on a freshly built SED (only wav assigned) work.
"""
import os
import tempfile
import warnings

import numpy as np
from astropy import units as u

from sedfitter.sed import SED, SEDCube

warnings.simplefilter('ignore')

tmp = tempfile.mkdtemp()

wav = np.array([1., 2., 5., 10.])          # micron, increasing
fnu = np.array([[1., 2., 3., 4.]])          # mJy, one aperture

cube = SEDCube(names=['a'], distance=1. * u.kpc, wav=wav * u.micron,
               apertures=[10.] * u.au,
               val=fnu[np.newaxis] * u.mJy, unc=0.1 * fnu[np.newaxis] * u.mJy)
cube_file = os.path.join(tmp, 'flux.fits')
cube.write(cube_file)

# default read order is 'nu', i.e. decreasing wavelength
s = SEDCube.read(cube_file, memmap=False).get_sed('a')
assert s.wav[0] > s.wav[-1]

# supply the SED in increasing wavelength instead
s.wav = s.wav[::-1]
s.flux = s.flux[:, ::-1]
s.error = s.error[:, ::-1]
assert np.all(s.wav.value == wav) and np.all(s.flux.value == fnu)

sed_file = os.path.join(tmp, 'a_sed.fits')
s.write(sed_file)

r_wav = SED.read(sed_file, unit_flux=u.mJy, order='wav')
r_nu = SED.read(sed_file, unit_flux=u.mJy, order='nu')
r_cgs = SED.read(sed_file, order='wav')     # erg/cm^2/s = nu * F_nu

c_micron = 299792458. * 1.e6
problems = []

if not np.allclose(r_wav.nu.value, c_micron / r_wav.wav.value, rtol=1e-10, atol=0.):
    problems.append("frequencies read back are not c / wavelengths: wav=%s nu=%s"
                    % (r_wav.wav, r_wav.nu))

if np.all(r_wav.wav.value == r_nu.wav.value):
    problems.append("order='nu' and order='wav' return the same spectral order "
                    "%s: requesting the other order does not reverse the axis"
                    % r_nu.wav)

expected = fnu * 1.e-26 * (c_micron / wav)   # mJy -> erg/cm^2/s
if not np.allclose(r_cgs.flux.value, expected, rtol=1e-10, atol=0.):
    problems.append("nu*F_nu read back at wav=%s is %s, expected %s"
                    % (r_cgs.wav, r_cgs.flux.value[0], expected[0]))

assert not problems, ("C12/C15 fail for an SED extracted from a cube whose "
                      "spectral axis was turned round by assigning .wav "
                      "(the stale .nu of the extracted SED is written out):\n  "
                      + "\n  ".join(problems))
print("OK")
