"""C01 (first clause): the reported (A_V, scale) is NOT the least-squares optimum, and the
reported chi^2 is not the minimum, when one fitted point is much more precise than the others.

fitting_routines.linear_regression solves the 2x2 normal equations by Cramer's rule in
double precision.  The determinant m11*m22 - m12^2 cancels catastrophically when the
weights are very unequal (its relative size is ~ w_small / w_big), so the solution is
garbage although the regression is perfectly non-singular (k values all different) and
every input is a positive finite number.

Input: distance-independent per-file package, 4 filters (1.2, 3.6, 8, 24 micron), 6 models,
one source, all flags 1, fluxes (100, 400, 700, 500) mJy, errors (30, 4e-4, 200, 150) mJy,
A_V range (0, 40) (nothing clamps).  The script exhibits, for every model, an explicit
pair (A_V', scale') inside the range whose objective (evaluated in exact rational
arithmetic on the very same log-fluxes and weights) is far below the reported chi^2.
"""
import os, sys, io, tempfile, contextlib
from fractions import Fraction as F
import numpy as np
from astropy import units as u
from sedfitter.fit import Fitter
from sedfitter.source import Source
from sedfitter.extinction import Extinction
from sedfitter.convolved_fluxes import ConvolvedFluxes

d = tempfile.mkdtemp()
os.makedirs(os.path.join(d, 'convolved'))
open(os.path.join(d, 'models.conf'), 'w').write(
    "name = test\nlength_subdir = 0\naperture_dependent = no\nlogd_step = 0.02\n")
rng = np.random.RandomState(1)
wavs = [1.2, 3.6, 8.0, 24.]
M = 10 ** rng.uniform(0, 1, (6, 4))                     # model fluxes in mJy, strictly positive
names = np.array(['m%d' % i for i in range(6)])
filters = ['F0', 'F1', 'F2', 'F3']
for j, fn in enumerate(filters):
    ConvolvedFluxes(wavelength=wavs[j] * u.micron, model_names=names,
                    flux=M[:, j:j + 1] * u.mJy, error=0.01 * M[:, j:j + 1] * u.mJy
                    ).write(os.path.join(d, 'convolved', fn + '.fits'))

law = Extinction()
law.wav = np.logspace(-2., 3., 50) * u.micron               # increasing wavelength
law.chi = law.wav.value ** -1.5 * u.cm ** 2 / u.g

AV_LO, AV_HI = 0., 40.
with contextlib.redirect_stdout(io.StringIO()):
    fitter = Fitter(filters, [1.] * 4 * u.arcsec, d, extinction_law=law,
                    av_range=(AV_LO, AV_HI), distance_range=[1., 2.] * u.kpc)

s = Source()
s.name = 'precise_point'
s.valid = np.array([1, 1, 1, 1])
s.flux = np.array([100., 400., 700., 500.])               # a red source: every model needs A_V ~ 5-25
s.error = np.array([30., 4.e-4, 200., 150.])              # S/N = 3.3, 1e6, 3.5, 3.3
info = fitter.fit(s)

k = np.asarray(fitter.av_law, dtype=float)
assert len(set(k)) == 4, "regression must be non-singular"
weight, logf, _ = s.get_log_fluxes()                      # the package's own log fluxes / weights


def objective(i, av, sc):
    """sum_j w_j (logF_j - logM_ij - av*k_j + 2*sc)^2, exactly, on the double inputs"""
    tot = F(0)
    for j in range(4):
        r = F(float(logf[j])) - F(float(np.log10(M[i, j]))) - F(av) * F(float(k[j])) + 2 * F(sc)
        tot += F(float(weight[j])) * r * r
    return tot


def exact_optimum(i):
    W = [F(float(x)) for x in weight]; K = [F(float(x)) for x in k]
    R = [F(float(logf[j])) - F(float(np.log10(M[i, j]))) for j in range(4)]
    S = sum(W); Sk = sum(w * x for w, x in zip(W, K)); Skk = sum(w * x * x for w, x in zip(W, K))
    Sr = sum(w * r for w, r in zip(W, R)); Skr = sum(w * x * r for w, x, r in zip(W, K, R))
    a = (Skr * S - Sr * Sk) / (Skk * S - Sk * Sk)
    sc = (a * Sk - Sr) / S / 2
    return a, sc


bad = []
print("%-4s %14s %14s | %14s %14s | %14s %14s" % ('mod', 'A_V reported', 'A_V optimum', 'sc reported', 'sc optimum',
                                                   'chi2 reported', 'true minimum'))
for name, av, sc, chi2 in zip(info.model_name, info.av, info.sc, info.chi2):
    i = list(names).index(name)
    av, sc, chi2 = float(av), float(sc), float(chi2)
    a_opt, s_opt = exact_optimum(i)
    assert AV_LO < a_opt < AV_HI                          # nothing clamps: unconstrained optimum is legal
    best = float(objective(i, a_opt, s_opt))
    at_reported = float(objective(i, av, sc))
    print("%-4s %14.8f %14.8f | %14.8f %14.8f | %14.6f %14.6f" % (name, av, float(a_opt), sc, float(s_opt), chi2, best))
    # the reported chi2 is consistent with the reported (av, sc) ...
    assert abs(at_reported - chi2) <= 1e-6 * chi2
    # ... but (av, sc) is not the minimiser
    if chi2 > best * (1 + 1e-6):
        bad.append((name, chi2, best))

true_order = sorted(names, key=lambda n: float(objective(list(names).index(n), *exact_optimum(list(names).index(n)))))
print("reported ranking :", list(info.model_name))
print("true ranking     :", true_order)

assert not bad, ("C01 violated (clause 'the reported A_V and scale minimise the weighted sum of squares' and "
                 "'the reported chi^2 is that minimum'): for source flux=(100,400,700,500) err=(30,4e-4,200,150), "
                 "flags all 1, A_V range (0,40), a pair (A_V, scale) inside the range has a much smaller "
                 "objective than the reported one: [(model, reported chi2, true minimum)] = %s; "
                 "the best-to-worst ranking of the models is wrong as well" % bad)
