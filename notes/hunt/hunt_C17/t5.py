import sys; sys.path.insert(0, 'hunt_out')
from t1 import *
run(sed_type='all', verbose=False, n_ap=5, aperture_dependent=False)
