from common import *
rng = np.random.RandomState(3)
wavs = [1., 2., 4., 8., 16.]
nm = 4
fl = 1 + rng.random_sample((nm, 5))
fl[0, 4] = 0.
names = ['m%d' % i for i in range(nm)]
d, fn = make_dir(names, fl, wavs)
d4, fn4 = make_dir(names, fl[:, :4], wavs[:4])
F = quiet(Fitter, fn, [3.]*5*u.arcsec, d, extinction_law=ext(), av_range=[0., 10.], distance_range=[1., 3.]*u.kpc)
F4 = quiet(Fitter, fn4, [3.]*4*u.arcsec, d4, extinction_law=ext(), av_range=[0., 10.], distance_range=[1., 3.]*u.kpc)
for v4, c in ((0,.5), (9,.5), (1, .5), (2, .5), (3, .5), (3, 0.), (3,1.), (2, 1.)):
    s = src([1, 1, 1, 1, v4], [1., 2., 3., 4., 5.], [.1, .2, .3, .4, c])
    info = F.fit(s)
    print(v4, c, info.chi2, info.model_id, info.sc, info.av)
s = src([1, 1, 1, 1], [1., 2., 3., 4.], [.1, .2, .3, .4])
info = F4.fit(s)
print('4 bands', info.chi2, info.model_id, info.sc, info.av)
