"""
C07 (theme: single-precision storage; same root cause as C06_1) -- a per-file
package and a cube package built from the same SEDs do not produce the same
fluxes and errors when the FREQUENCY column of the SED files is stored in
single precision.

The per-file convolution hands the float32 frequencies of SED.read to
Filter.rebin, which forms the bin edges 0.5*(nu[i-1]+nu[i]) in float32; the
cube convolution derives its frequencies from the cube's wavelength column in
double precision.  To keep the comparison clean the wavelengths are stored in
double precision and are exactly c / (stored float32 frequency), so both
packages tabulate the SAME frequencies (to 1e-16) -- only the precision in
which they are held differs.  SED: 80 frequencies over 2.4 per cent (finer
than the filter), 2 apertures, 3 models; fluxes and errors stored in float32
in both packages.
"""
import os
import tempfile
import warnings

import numpy as np

warnings.filterwarnings('ignore')

from astropy import units as u
from astropy.table import Table

from sedfitter.filter import Filter
from sedfitter.sed import SED, SEDCube
from sedfitter.convolve import convolve_model_dir
from sedfitter.convolved_fluxes import ConvolvedFluxes

C = 2.99792458e14  # micron * Hz
rng = np.random.default_rng(11)

n_sed, n_ap, n_mod = 80, 2, 3
names = ['mod_a', 'mod_b', 'mod_c']


def build(freq_dtype):
    nu = np.linspace(C / 3.036, C / 2.964, n_sed).astype(np.float32).astype(freq_dtype)
    wav = C / nu.astype(float)             # double precision, consistent with nu
    val = np.ones((n_mod, n_ap, n_sed))
    for im in range(n_mod):
        lines = rng.choice(np.arange(10, 70), 5, replace=False)
        val[im, :, lines] = rng.uniform(20., 90., 5)[:, np.newaxis]
    val[:, 1, :] *= 2.
    val = val.astype(np.float32)
    unc = (0.1 * val).astype(np.float32)
    ap = np.array([100., 1000.], dtype=np.float32)

    d1 = tempfile.mkdtemp()
    os.mkdir(os.path.join(d1, 'seds'))
    for im, name in enumerate(names):
        s = SED()
        s.name = name
        s.distance = 1. * u.kpc
        s.wav = wav * u.micron
        s.nu = nu * u.Hz
        s.apertures = ap * u.au
        s.flux = val[im] * u.mJy
        s.error = unc[im] * u.mJy
        s.write(os.path.join(d1, 'seds', name + '_sed.fits'))
    d2 = tempfile.mkdtemp()
    c = SEDCube()
    c.names = np.array(names)
    c.distance = 1. * u.kpc
    c.wav = wav * u.micron
    c.apertures = ap * u.au
    c.val = val * u.mJy
    c.unc = unc * u.mJy
    c.write(os.path.join(d2, 'flux.fits'))
    for d, v2 in ((d1, False), (d2, True)):
        with open(os.path.join(d, 'models.conf'), 'w') as fh:
            fh.write("name = t\nlength_subdir = 0\naperture_dependent = yes\nlogd_step = 0.02\n")
            if v2:
                fh.write("version = 2\n")
        t = Table()
        t['MODEL_NAME'] = np.array(names, dtype='S30')
        t['par'] = np.arange(n_mod).astype(np.float32)
        t.write(os.path.join(d, 'parameters.fits'))
    return d1, d2


fw = np.sort(np.concatenate([[2.97, 3.03], rng.uniform(2.97, 3.03, 38)]))
f = Filter()
f.name = 'narrow'
f.central_wavelength = 3. * u.micron
f.nu = (C / fw) * u.Hz
resp = rng.random(40)
resp[0] = resp[-1] = 0.
f.response = resp
f.normalize()

res = {}
for freq_dtype in (np.float32, np.float64):
    rng = np.random.default_rng(11)
    d1, d2 = build(freq_dtype)
    convolve_model_dir(d1, [f])
    worst = 0.
    for memmap in (True, False):
        convolve_model_dir(d2, [f], memmap=memmap, overwrite=True)
        a = ConvolvedFluxes.read(os.path.join(d1, 'convolved', 'narrow.fits'))
        b = ConvolvedFluxes.read(os.path.join(d2, 'convolved', 'narrow.fits'))
        assert list(np.char.strip(a.model_names)) == list(np.char.strip(b.model_names)) == names
        df = np.max(np.abs(a.flux.value / b.flux.value - 1.))
        de = np.max(np.abs(a.error.value / b.error.value - 1.))
        worst = max(worst, df, de)
        print("FREQUENCY column %s, memmap=%s: max rel. difference per-file vs cube: flux %.2e, error %.2e"
              % (np.dtype(freq_dtype).name, memmap, df, de))
    res[freq_dtype] = worst

assert res[np.float64] < 1e-10, "double-precision control failed (%.1e)" % res[np.float64]
assert res[np.float32] < 1e-6, (
    "C07 violated: per-file and cube packages built from the same SEDs (same frequencies, "
    "fluxes and errors) give convolved fluxes/errors that differ by %.1e relative when the "
    "SED files store FREQUENCY in single precision (bin edges formed in float32 by the "
    "per-file path); with that column in double precision they agree to %.1e"
    % (res[np.float32], res[np.float64]))
print("OK")
