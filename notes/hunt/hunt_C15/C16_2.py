"""
C16, clause: "For a cube package, a wavelength given instead of a filter name
selects the cube slice at the nearest tabulated wavelength."

A cube package whose flux.fits has no UNCERTAINTIES extension is a legal cube
(SEDCube.write/read treat 'unc' as optional, SEDCube.get_sed supports it), but
MonochromaticFluxes.from_sed_cube indexes cube.unc unconditionally, so asking
for a wavelength instead of a filter name crashes with
"TypeError: 'NoneType' object is not subscriptable" instead of returning the
nearest slice.  The same package WITH uncertainties works (control).
"""
import contextlib
import io
import os
import shutil
import sys
import tempfile

import numpy as np
from astropy import units as u
from astropy.table import Table

from sedfitter.sed import SEDCube
from sedfitter.fit import Fitter
from sedfitter.extinction import Extinction

ext = Extinction()
ext.wav = np.logspace(-2, 4, 50) * u.micron
ext.chi = ext.wav.value ** -2 * u.cm ** 2 / u.g


def build(with_unc):
    rng = np.random.RandomState(3)
    d = tempfile.mkdtemp()
    c = SEDCube()
    c.names = np.array(['m1', 'm2', 'm3'])
    c.distance = 1 * u.kpc
    c.wav = np.array([1., 2., 4., 8.]) * u.micron
    c.apertures = None
    c.val = rng.uniform(1, 100, (3, 1, 4)) * u.mJy
    if with_unc:
        c.unc = c.val * 0.1
    c.write(os.path.join(d, 'flux.fits'))
    with open(os.path.join(d, 'models.conf'), 'w') as f:
        f.write("name = test\nlength_subdir = 0\naperture_dependent = no\nlogd_step = 0.02\nversion = 2\n")
    t = Table()
    t['MODEL_NAME'] = np.array(c.names, dtype='S')
    t['par1'] = rng.uniform(size=3)
    t.write(os.path.join(d, 'parameters.fits'))
    return d, c


def slice_fluxes(d, use_memmap):
    with contextlib.redirect_stdout(io.StringIO()):
        f = Fitter([3.5 * u.micron, 1.2 * u.micron], [1., 1.] * u.arcsec, d,
                   extinction_law=ext, av_range=[0., 1.],
                   distance_range=[1., 2.] * u.kpc, use_memmap=use_memmap)
    return f.models.fluxes.to(u.mJy).value


errors = []
for with_unc in (True, False):
    d, c = build(with_unc)
    expected = np.column_stack([c.val[:, 0, 2].value, c.val[:, 0, 0].value])  # 4 um and 1 um slices
    for use_memmap in (False, True):
        label = "cube %s UNCERTAINTIES, use_memmap=%s" % ('with' if with_unc else 'without', use_memmap)
        try:
            got = slice_fluxes(d, use_memmap)
        except Exception as exc:
            errors.append("%s: wavelength filter raised %r" % (label, exc))
            continue
        if not np.allclose(got, expected, rtol=1e-6):
            errors.append("%s: wrong slice" % label)
    shutil.rmtree(d)

assert not any('with UNCERTAINTIES' in e for e in errors), errors  # control must pass

assert not errors, (
    "C16 violated: a wavelength given instead of a filter name does not select "
    "the nearest cube slice when flux.fits carries no UNCERTAINTIES extension:\n  "
    + "\n  ".join(errors))
print("C16_2: no violation")
