(* C11: permutation of filters, end to end (fit then chi^2). *)
From Coq Require Import QArith Lqa List ZArith Permutation.
Import ListNotations.
From SedV Require Import Clamp FitCore Flags FlagsProofs FitPerm InvarProofs.
Open Scope Q_scope.

(* end to end: permuting filters and photometry alike leaves the chi^2 of the fitted (A_V, scale) unchanged *)
Theorem fit2_perm_chi2 pen lo hi rows rows' : Permutation rows rows' ->
  let '(av, sc) := fit2_avsc lo hi rows in let '(av', sc') := fit2_avsc lo hi rows' in
  0 < m22 rows -> 0 < det rows -> chi2_m pen rows av sc == chi2_m pen rows' av' sc'.
Proof.
  intros P. pose proof (fit2_perm lo hi rows rows' P) as H.
  destruct (fit2_avsc lo hi rows) as [av sc]. destruct (fit2_avsc lo hi rows') as [av' sc'].
  intros H1 H2. destruct (H H1 H2) as [Ea Es].
  rewrite (chi2_perm pen rows rows' av sc P). apply chi2_proper; assumption.
Qed.
