import numpy as np, os, tempfile, sys
sys.path.insert(0, os.path.dirname(__file__))
from astropy import units as u
from sedfitter.filter import Filter
from sedfitter.sed import SEDCube
from sedfitter.convolve import convolve_model_dir
from sedfitter.fit import Fitter
from sedfitter.source import Source
from sedfitter.extinction import Extinction
from pk import *
rng = np.random.default_rng(int(sys.argv[1]))
ext = Extinction(); ext.wav = np.logspace(-2., 3.) * u.micron; ext.chi = ext.wav.value ** -2 * u.cm ** 2 / u.g
for it in range(12):
    apdep = bool(rng.random() < 0.5)
    nm, nap, nw = rng.integers(1, 9), rng.integers(1, 6), rng.integers(20, 60)
    wav = np.logspace(-1, 3, nw)
    if rng.random() < 0.5: wav = wav[::-1]
    wav = wav * u.micron
    nu = wav.to(u.Hz, equivalencies=u.spectral())
    ap = np.logspace(1, 5, nap) * u.au
    ap = ap.to([u.au, u.pc, u.cm][rng.integers(0, 3)])
    names = list(rng.permutation(['m%d' % i for i in range(nm)]))
    F = np.cumsum(10 ** rng.uniform(-2, 2, (nm, nap, nw)), axis=1); E = F * 0.01
    filters = []
    for k, (a, b) in enumerate([(1, 2), (3, 5), (8, 12), (20, 30)]):
        fw = np.linspace(a, b, 15) * u.micron
        f = Filter(name='f%d' % k, central_wavelength=(a + b) / 2 * u.micron, nu=fw.to(u.Hz, equivalencies=u.spectral()), response=rng.random(15)); f.normalize(); filters.append(f)
    d1 = tempfile.mkdtemp(); os.mkdir(d1 + '/seds')
    pn = list(rng.permutation(names))
    for i, n in enumerate(names):
        write_sed_raw(d1 + '/seds/s%d_sed.fits' % i, n, wav, ap, F[i] * u.mJy, E[i] * u.mJy, distance=1 * u.kpc)
    write_conf(d1, 1, apdep); write_pars(d1, pn); convolve_model_dir(d1, filters)
    d2 = tempfile.mkdtemp()
    o = [names.index(n) for n in pn]
    cube = SEDCube(); cube.names = np.array(pn); cube.distance = 1 * u.kpc; cube.wav = wav; cube.apertures = ap
    cube.val = F[o] * u.mJy; cube.unc = E[o] * u.mJy; cube.write(d2 + '/flux.fits'); write_conf(d2, 2, apdep); write_pars(d2, pn); convolve_model_dir(d2, filters, memmap=bool(rng.random() < 0.5))
    res = {}
    s = Source(); s.name = 'x'; s.x = 0; s.y = 0; s.valid = np.array([1, 1, 1, 1]); s.flux = 10 ** rng.uniform(0, 2, 4); s.error = s.flux * 0.05
    for key, d, mm in (('pf', d1, True), ('cube_mm', d2, True), ('cube_nomm', d2, False)):
        ft = Fitter(['f0', 'f1', 'f2', 'f3'], [3., 3., 3., 3.] * u.arcsec, d, extinction_law=ext, av_range=[0., 10.], distance_range=[1., 2.] * u.kpc, use_memmap=mm)
        res[key] = ft.fit(s)
    for k in ('cube_mm', 'cube_nomm'):
        a, b = res[k], res['pf']
        print('RESULT', it, nm, nap, apdep, k, 'chi2 rel', np.max(np.abs(a.chi2 / b.chi2 - 1)), 'av', np.max(np.abs(a.av - b.av)), 'sc', np.max(np.abs(a.sc - b.sc)), 'names', np.all(a.model_name == b.model_name), 'id', np.all(a.model_id == b.model_id))
