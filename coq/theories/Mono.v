From Coq Require Import ZArith Lia List.
Import ListNotations.
Open Scope Z_scope.

(* Python range(start, stop, step) for step > 0, by fuel *)
Fixpoint range_fuel (fuel : nat) (start stop step : Z) : list Z :=
  match fuel with
  | O => []
  | S f => if start <? stop then start :: range_fuel f (start + step) stop step else []
  end.
Definition range_step (start stop step : Z) : list Z :=
  range_fuel (Z.to_nat (stop - start)) start stop step.

Fixpoint zseq (a : Z) (n : nat) : list Z := match n with O => [] | S k => a :: zseq (a + 1) k end.

(* repaired loop: for jmin in range(jlo, jhi+1, c): jmax = min(jmin+c-1, jhi); for j in range(jmax-jmin+1): emit jmin+j *)
Definition emit_fixed (jlo jhi c : Z) : list Z :=
  flat_map (fun jmin => let jmax := Z.min (jmin + c - 1) jhi in zseq jmin (Z.to_nat (jmax - jmin + 1)))
           (range_step jlo (jhi + 1) c).
(* current loop: for jmin in range(jlo, jhi, c): for j in range(c): emit jmin + j  (index error if > n_wav-1) *)
Definition emit_current (jlo jhi c : Z) : list Z :=
  flat_map (fun jmin => zseq jmin (Z.to_nat c)) (range_step jlo jhi c).

Lemma zseq_app n : forall a m, zseq a (n + m) = zseq a n ++ zseq (a + Z.of_nat n) m.
Proof.
  induction n as [|n IH]; intros a m.
  - simpl. now rewrite Z.add_0_r.
  - simpl plus. cbn [zseq app]. f_equal. rewrite IH. f_equal. f_equal. lia.
Qed.

Lemma emit_fuel fuel : forall jlo jhi c, 1 <= c -> (Z.to_nat (jhi + 1 - jlo) <= fuel)%nat -> jlo <= jhi + 1 ->
  flat_map (fun jmin => let jmax := Z.min (jmin + c - 1) jhi in zseq jmin (Z.to_nat (jmax - jmin + 1)))
           (range_fuel fuel jlo (jhi + 1) c) = zseq jlo (Z.to_nat (jhi + 1 - jlo)).
Proof.
  induction fuel as [|f IH]; intros jlo jhi c Hc Hf Hle.
  - simpl. assert (jhi + 1 - jlo = 0) by lia. replace (jhi + 1 - jlo) with 0 by lia. reflexivity.
  - simpl. destruct (jlo <? jhi + 1) eqn:E.
    + apply Z.ltb_lt in E. simpl.
      destruct (Z.le_gt_cases (jlo + c - 1) jhi) as [L|G].
      * rewrite Z.min_l by lia.
        rewrite IH by lia.
        replace (Z.to_nat (jhi + 1 - jlo)) with (Z.to_nat (jlo + c - 1 - jlo + 1) + Z.to_nat (jhi + 1 - (jlo + c)))%nat by lia.
        rewrite zseq_app. f_equal. f_equal. lia.
      * rewrite Z.min_r by lia.
        (* the remaining range is empty *)
        assert (R : range_fuel f (jlo + c) (jhi + 1) c = []).
        { destruct f; [reflexivity|]. simpl. assert (X : (jlo + c <? jhi + 1) = false) by (apply Z.ltb_ge; lia). now rewrite X. }
        rewrite R. simpl. rewrite app_nil_r. f_equal. lia.
    + apply Z.ltb_ge in E. replace (jhi + 1 - jlo) with 0 by lia. reflexivity.
Qed.

Theorem emitted_all jlo jhi c : 1 <= c -> jlo <= jhi + 1 ->
  emit_fixed jlo jhi c = zseq jlo (Z.to_nat (jhi - jlo + 1)).
Proof.
  intros Hc Hle. unfold emit_fixed, range_step.
  rewrite emit_fuel by lia. f_equal. lia.
Qed.

Corollary chunk_independent jlo jhi c c' : 1 <= c -> 1 <= c' -> jlo <= jhi + 1 ->
  emit_fixed jlo jhi c = emit_fixed jlo jhi c'.
Proof. intros. now rewrite !emitted_all. Qed.

(* the current loop is refuted: n_wav = 3 (jlo=0, jhi=2), chunk 2 loses index 2; a one-wavelength window emits nothing *)
Example current_refuted_1 : emit_current 0 2 2 = [0; 1].
Proof. reflexivity. Qed.
Example current_refuted_2 : emit_current 3 3 1 = [].
Proof. reflexivity. Qed.
Example fixed_ok : emit_fixed 0 2 2 = [0; 1; 2] /\ emit_fixed 3 3 1 = [3].
Proof. split; reflexivity. Qed.
Print Assumptions emitted_all.
