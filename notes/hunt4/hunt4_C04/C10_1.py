"""C10 - clause: "every post-processing function accepts a file, one result object
or a list of result objects interchangeably" (quantifier: any output selector).

fit() run with a legal output selector that keeps no fit for a source -- here
('C', 1.): "all models with chi^2 below 0.001"; ('N', 0) does the same --
writes, as the statement requires, one record per eligible source; those records
list zero fits.  The file reads back fine and write_parameters,
write_parameter_ranges, extract_parameters, plot, plot_params_1d and
plot_params_2d all accept it (the code has explicit n_fits == 0 branches), but
filter_output raises IndexError (info.chi2[0]) on the first such record, in all
three input forms, leaving truncated/empty _good/_bad files behind.
"""
import os, sys, io, tempfile, contextlib
import numpy as np
from astropy import units as u
from astropy.table import Table

from sedfitter import fit, filter_output, write_parameters, write_parameter_ranges, extract_parameters
from sedfitter.fit_info import FitInfoFile
from sedfitter.convolved_fluxes import ConvolvedFluxes
from sedfitter.extinction import Extinction

quiet = lambda: contextlib.redirect_stdout(io.StringIO())

d = tempfile.mkdtemp()
os.mkdir(os.path.join(d, 'convolved'))
names = np.array(['model_a', 'model_b', 'model_c', 'model_d'])
wavs = [1.2, 3.6, 8.0]
rng = np.random.RandomState(0)
first = []
for j, w in enumerate(wavs):
    c = ConvolvedFluxes()
    c.model_names = names
    c.central_wavelength = w * u.micron
    c.flux = 10 ** rng.uniform(0, 1, (4, 1)) * u.mJy
    c.error = c.flux * 0.
    first.append(c.flux[0, 0].value)
    c.write(os.path.join(d, 'convolved', 'F%d.fits' % j))
open(os.path.join(d, 'models.conf'), 'w').write(
    "name = test\nlength_subdir = 0\naperture_dependent = no\nlogd_step = 0.02\n")
t = Table()
t['MODEL_NAME'] = names.astype('S30')
t['par1'] = [1., 2., 3., 4.]
t.write(os.path.join(d, 'parameters.fits'))

ext = Extinction()
ext.wav = np.logspace(-2., 3., 50) * u.micron
ext.chi = ext.wav.value ** -1.5 * u.cm ** 2 / u.g

data = os.path.join(d, 'data.txt')
# src1 is model_a seen at 1 kpc without extinction (chi^2 ~ 0); src2 is fitted by no model
open(data, 'w').write("src1 0.0 0.0 1 1 1 %.6e %.6e %.6e %.6e %.6e %.6e\n" % (first[0], first[0] * .1, first[1], first[1] * .1, first[2], first[2] * .1)
                      + "src2 0.0 0.0 1 1 1 2.2 0.05 0.01 0.001 8.8 0.1\n"
                      + "src3 0.0 0.0 1 1 1 %.6e %.6e %.6e %.6e %.6e %.6e\n" % (first[0], first[0] * .1, first[1], first[1] * .1, first[2], first[2] * .1))

out = os.path.join(d, 'output.fitinfo')
with quiet():
    fit(data, ['F0', 'F1', 'F2'], [3., 3., 3.] * u.arcsec, d, out,
        extinction_law=ext, av_range=[0., 5.], distance_range=[1., 2.] * u.kpc,
        output_format=('C', 1.))

f = FitInfoFile(out, 'r')
records = list(f)
f.close()
assert len(records) == 3, "fit() should write one record per eligible source"
nf = [len(r.chi2) for r in records]
assert nf[0] >= 1 and nf[1] == 0 and nf[2] >= 1, "test premise: the selector keeps no fit for src2 only (%s)" % nf

# the other post-processing functions accept these records
with quiet():
    write_parameters(out, os.path.join(d, 'wp.txt'), select_format=('F', 3.))
    write_parameter_ranges(records, os.path.join(d, 'wpr.txt'), select_format=('F', 3.))
    extract_parameters(records[1], output_prefix=os.path.join(d, 'ep_'), select_format=('A',))

failures = []
for label, form in (('file', out), ('list', records), ('single result', records[1])):
    try:
        with quiet():
            filter_output(form, output_good=os.path.join(d, 'good_' + label[:4]),
                          output_bad=os.path.join(d, 'bad_' + label[:4]), chi=3.)
    except Exception as e:
        failures.append("%s -> %s: %s" % (label, type(e).__name__, e))

assert not failures, (
    "C10 (post-processing functions accept a file / a result / a list): filter_output "
    "refuses results written by fit(output_format=('C', 1.)) whose records list zero "
    "fits, although they read back fine and every other post-processing function "
    "accepts them: " + "; ".join(failures))
print("no violation")
