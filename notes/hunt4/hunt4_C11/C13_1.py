"""
C13, clause "returns ... the largest-aperture value for radii beyond the table".

Input: a convolved-flux table with three increasing apertures stored in single
precision in cm (what ConvolvedFluxes.read gives for a file with 'E' columns),
three models, and a request of 1e7 AU - far beyond the largest aperture -
passed as a Quantity in AU (the unit Models.read uses).

ConvolvedFluxes.interpolate resets the request to self.apertures.max(); the
assignment converts the single-precision maximum from cm to AU *in single
precision*, so the reset radius is ~3e-8 (relative) below the largest tabulated
aperture once converted back to cm.  The flux returned is therefore not the
largest-aperture flux but an interpolation between the last two apertures.  For
a model whose flux drops towards the last aperture the difference is far above
single-precision rounding (1e-4 .. 1e-2 here); the same request given in cm
returns the tabulated value (to single-precision rounding, < 1e-7).
"""
import os
import sys
import tempfile

import numpy as np
from astropy import units as u

from sedfitter.convolved_fluxes import ConvolvedFluxes

c = ConvolvedFluxes()
c.model_names = np.array(['drop_2e3', 'drop_2e5', 'rising'])
c.central_wavelength = 1. * u.micron
c.apertures = np.array([1.5e15, 1.5e16, 1.5e17], dtype=np.float32) * u.cm
c.flux = np.array([[1., 1.e3, 0.5],
                   [1., 1.e5, 0.5],
                   [1., 2., 3.]], dtype=np.float32) * u.mJy
c.error = c.flux * 0.1

# as read back from a file (the table is single precision there as well)
fn = os.path.join(tempfile.mkdtemp(), 'F1.fits')
c.write(fn)
c = ConvolvedFluxes.read(fn)
assert c.apertures.dtype.itemsize == 4 and c.apertures.unit == u.cm

largest = c.flux[:, -1].value.astype(float)

beyond_au = np.array([1.e7]) * u.au          # 1.5e20 cm >> 1.5e17 cm
beyond_cm = beyond_au.to(u.cm)

r_cm = c.interpolate(beyond_cm)
r_au = c.interpolate(beyond_au)

assert np.allclose(r_cm.flux[:, 0].value, largest, rtol=1e-6, atol=0), r_cm.flux   # single-precision rounding only

got = r_au.flux[:, 0].value
rel = np.abs(got - largest) / largest
print("largest-aperture fluxes :", largest)
print("request 1e7 AU (in cm)  :", r_cm.flux[:, 0].value)
print("request 1e7 AU (in AU)  :", got)
print("relative deviation      :", rel)
print("reset radius, back in cm:", repr(r_au.apertures.to(u.cm).value[0]),
      "largest tabulated:", repr(float(c.apertures.value.max())))

if np.any(rel > 1.e-6):
    print("C13 VIOLATED: a radius beyond the table (1e7 AU, table in float32 cm "
          "up to %.9g cm) does not return the largest-aperture flux: got %s, "
          "tabulated %s (relative deviation %s); the same radius given in cm "
          "returns the tabulated values to better than 1e-6"
          % (float(c.apertures.value.max()), got, largest, rel))
    sys.exit(1)
print("no violation")
