(* C01 — best-fit A_V and scale are the constrained least-squares optimum (aperture-independent packages).
   Model: FitModel.fit2_pkg / fit2_all / fit2_one (Extinction.get_av, Source.get_log_fluxes, linear_regression,
   the clamp + optimal_scaling re-solve and chi_squared of Models.fit).  Proofs: Clamp, FitCore, Det, FitReal, FitModelProofs. *)
From Coq Require Import QArith List ZArith Reals.
Import ListNotations.
From SedV Require Import Clamp FitCore Flags Det FitReal FitModel FitModelProofs.
Open Scope Q_scope.

(* For the rows of any source and any model (any log10 oracle, any penalty oracle): the reported A_V lies in the
   range, (A_V, scale) minimises S over A_V in [lo,hi] and every rational scale, chi^2 is S plus the limit penalties at the
   same point, and the stored predictions are lm + A_V k - 2 scale. *)
Theorem C01_optimal : forall lg ln10 pen lo hi raws alaw lms,
  let rows := mkrows (bands_of lg ln10 raws) alaw lms in
  0 < m22 rows -> 0 < det rows -> lo <= hi ->
  let r := fit2_one pen lo hi rows in
  lo <= f_av r <= hi /\
  (forall av' sc', lo <= av' <= hi -> S rows (f_av r) (f_sc r) <= S rows av' sc') /\
  (exists c, f_chi2 r = Xnum.Fin c /\
     c == S rows (f_av r) (f_sc r) + qsum (fun x => pen_term pen x (f_av r * r_a x + f_sc r * r_s x)) rows) /\
  f_pred r = map (fun x => f_av r * r_a x + f_sc r * r_s x + r_lm x) rows.
Proof. intros. apply fit2_one_optimal; auto. apply mkrows_wf. Qed.

(* competitors ranging over the reals ("any real scale") *)
Theorem C01_optimal_real : forall lo hi rows,
  (0 < m22 rows)%Q -> (0 < det rows)%Q -> (lo <= hi)%Q ->
  let '(av, sc) := fit2_avsc lo hi rows in
  forall av' sc' : R, (Q2R lo <= av' <= Q2R hi)%R -> (Q2R (S rows av sc) <= SR rows av' sc')%R.
Proof. exact C01_optimal_R. Qed.

(* the scale enters every band with pattern -2, i.e. the objective carries + 2 * scale *)
Theorem C01_scale_pattern : forall bands alaw lms r, In r (mkrows bands alaw lms) -> r_s r = -2.
Proof. exact mkrows_pattern. Qed.

(* "non-singular" in the property's sense (two fitted bands with different extinction coefficients) gives 0 < det,
   and with non-negative weights 0 < det gives 0 < m22 *)
Theorem C01_nonsingular : forall rs, wnonneg rs ->
  (exists i j pre mid post, rs = pre ++ i :: mid ++ j :: post /\ 0 < w i /\ 0 < w j /\
                            ~ r_a i * r_s j - r_a j * r_s i == 0) ->
  0 < det rs.
Proof. exact C01_det_pos. Qed.

Theorem C01_m22 : forall rows, wnonneg rows -> 0 < det rows -> 0 < m22 rows.
Proof. exact m22_pos_of_det. Qed.

(* every model of the grid is fitted by the same one-model routine on its own fluxes *)
Theorem C01_grid : forall lg ln10 pen lo hi raws alaw models i d,
  (i < length models)%nat ->
  nth i (fit2_all lg ln10 pen lo hi raws alaw models) d =
  fit2_one pen lo hi (mkrows (bands_of lg ln10 raws) alaw (map lg (nth i models []))).
Proof.
  intros. unfold fit2_all.
  rewrite (nth_indep _ d (fit2_one pen lo hi (mkrows (bands_of lg ln10 raws) alaw (map lg [])))) by (rewrite map_length; assumption).
  exact (map_nth (fun fl => fit2_one pen lo hi (mkrows (bands_of lg ln10 raws) alaw (map lg fl))) models [] i).
Qed.

(* non-vacuity: three fitted bands planted at A_V = 2, scale = -3/2: the hypotheses hold, the interior fit recovers the
   planted values exactly, and with the range [0, 3/2] the A_V is clamped and the scale re-solved *)
Definition ex_rows : list row :=
  [ {| r_b := {| b_flag := 1; b_lf := 1; b_le := 1#10; b_w := 100 |}; r_a := -1; r_s := -2; r_lm := 0 |};
    {| r_b := {| b_flag := 1; b_lf := 2; b_le := 1#10; b_w := 100 |}; r_a := -(1#2); r_s := -2; r_lm := 0 |};
    {| r_b := {| b_flag := 4; b_lf := 3; b_le := 1#10; b_w := 100 |}; r_a := 0; r_s := -2; r_lm := 0 |} ].
Example C01_example :
  0 < m22 ex_rows /\ 0 < det ex_rows /\
  (let '(a, s) := fit2_avsc 0 10 ex_rows in a == 2 /\ s == -(3#2) /\ S ex_rows a s == 0) /\
  (let '(a, s) := fit2_avsc 0 (3#2) ex_rows in a == 3#2 /\ s == -(11#8) /\ S ex_rows a s == 25#2).
Proof. vm_compute. repeat split; reflexivity || (intro; discriminate). Qed.

(* --- the regression as it is written since F46 (LinregOrtho): the orthogonalised solve is the same solution as Cramer's rule on
   the normal equations, so the optimality theorem above is a statement about the code as it stands; the modified first pattern
   is orthogonal to the second, and it carries the determinant *)
From SedV Require Import LinregOrtho.
Theorem C01_regression_as_written : forall rows, ~ m22 rows == 0 -> ~ det rows == 0 ->
  fst (linreg_ortho_m rows) == fst (linreg_m rows) /\ snd (linreg_ortho_m rows) == snd (linreg_m rows).
Proof. exact linreg_ortho_eq. Qed.
Theorem C01_orthogonal : forall rows, ~ m22 rows == 0 -> qsum (fun r => ortho (beta rows) r * r_s r * w r) rows == 0.
Proof. exact ortho_is_orthogonal. Qed.
Theorem C01_s11 : forall rows, ~ m22 rows == 0 -> s11 rows == det rows / m22 rows.
Proof. exact s11_det. Qed.
