"""
C10, clause: "The fit output file contains exactly one record for each input
line whose number of fitted points reaches n_data_min, in input order".

Input: a data file with 3 eligible sources (n_data = 3 >= n_data_min = 3) in
which an empty line separates the first source from the other two (border of
the quantifier: the empty line is an 'ineligible line' holding no source).
fit() treats the first line with fewer than 3 columns as end-of-file
(Source.from_ascii raises EOFError, fit() breaks), so the two eligible sources
after it silently get no record.
"""
import os, sys, tempfile
sys.path.insert(0, os.path.dirname(os.path.abspath(__file__)))
from common import *
from sedfitter import fit

tmp = tempfile.mkdtemp()
md = os.path.join(tmp, 'models'); os.mkdir(md)
build(md, version=1, apdep=False)
data = os.path.join(tmp, 'data')
open(data, 'w').write("s1 0.0 0.0 1 1 1 0.2 0.1 1.3 0.2 1.5 0.3\n"
                      "\n"
                      "s2 0.0 0.0 1 1 1 0.2 0.05 1.2 0.1 1.8 0.3\n"
                      "s3 0.0 0.0 1 1 1 0.3 0.05 1.1 0.1 1.7 0.3\n")
out = os.path.join(tmp, 'fits')
quiet(fit, data, ['bob', 'alice', 'eve'], [1., 3., 3.] * u.arcsec, md, out,
      extinction_law=extlaw(), distance_range=[1., 2.] * u.kpc, av_range=[0., 0.1],
      output_format=('N', 1), n_data_min=3)
_, recs = read_all(out)
names = [r.source.name for r in recs]
assert names == ['s1', 's2', 's3'], (
    "C10 'exactly one record per eligible input line' fails: data file has eligible sources s1, s2, s3 "
    "(an empty line after s1); fit() wrote records only for %r - every source after the empty line is "
    "silently dropped" % names)
print("no violation")
