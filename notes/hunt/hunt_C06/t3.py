import numpy as np, os, tempfile, sys
sys.path.insert(0, os.path.dirname(__file__))
from astropy import units as u
from sedfitter.filter import Filter
from sedfitter.sed import SEDCube
from sedfitter.convolve import convolve_model_dir
from sedfitter.fit import Fitter
from sedfitter.source import Source
from sedfitter.extinction import Extinction
from pk import *
rng = np.random.default_rng(int(sys.argv[1]))
apdep = sys.argv[2] == '1'
nm, nap, nw = 8, 5, 60
wav = np.logspace(-1, 3, nw) * u.micron
nu = wav.to(u.Hz, equivalencies=u.spectral())
ap = np.logspace(1, 5, nap) * u.au
names = ['m%d' % i for i in range(nm)]
F = np.cumsum(10 ** rng.uniform(-2, 2, (nm, nap, nw)), axis=1); E = F * 0.01
filters = []
for k, (a, b) in enumerate([(1, 2), (3, 5), (8, 12), (20, 30)]):
    fw = np.linspace(a, b, 15) * u.micron
    f = Filter(name='f%d' % k, central_wavelength=(a + b) / 2 * u.micron, nu=fw.to(u.Hz, equivalencies=u.spectral()), response=rng.random(15)); f.normalize(); filters.append(f)
d1 = tempfile.mkdtemp(); os.mkdir(d1 + '/seds')
for i, n in enumerate(names):
    write_sed_raw(d1 + '/seds/s%d_sed.fits' % i, n, wav, ap, F[i] * u.mJy, E[i] * u.mJy, distance=1 * u.kpc)
write_conf(d1, 1, apdep); write_pars(d1, names); convolve_model_dir(d1, filters)
d2 = tempfile.mkdtemp()
cube = SEDCube(); cube.names = np.array(names); cube.distance = 1 * u.kpc; cube.wav = wav; cube.apertures = ap
cube.val = F * u.mJy; cube.unc = E * u.mJy; cube.write(d2 + '/flux.fits'); write_conf(d2, 2, apdep); write_pars(d2, names); convolve_model_dir(d2, filters)
ext = Extinction(); ext.wav = np.logspace(-2., 3.) * u.micron; ext.chi = ext.wav.value ** -2 * u.cm ** 2 / u.g
res = {}
s = Source(); s.name = 'x'; s.x = 0; s.y = 0; s.valid = np.array([1, 1, 1, 1]); s.flux = np.array([1., 3., 8., 20.]); s.error = s.flux * 0.001
for key, d, mm in (('pf', d1, True), ('cube_mm', d2, True), ('cube_nomm', d2, False)):
    ft = Fitter(['f0', 'f1', 'f2', 'f3'], [3., 3., 3., 3.] * u.arcsec, d, extinction_law=ext, av_range=[0., 10.], distance_range=[1., 2.] * u.kpc, use_memmap=mm)
    info = ft.fit(s)
    res[key] = info
    print(key, info.model_name[:4], info.chi2[:4], info.av[:2], info.sc[:2])
for k in ('cube_mm', 'cube_nomm'):
    print(k, 'max rel chi2 diff vs pf', np.max(np.abs(res[k].chi2 / res['pf'].chi2 - 1)), 'same order', np.all(res[k].model_name == res['pf'].model_name))
