import sys; sys.path.insert(0, 'hunt_out/scratch')
from c11lib import *
import io, contextlib
rng = np.random.default_rng(3)
e = ext()
worst_all = {}
def quiet(f, *a, **k):
    with contextlib.redirect_stdout(io.StringIO()):
        return f(*a, **k)
for trial in range(120):
    nf = rng.integers(1, 7); nm = rng.integers(1, 9)
    apdep = trial % 2 == 1
    fnames = ['F%i' % i for i in range(nf)]
    fw = rng.uniform(0.3, 100, nf)
    names = ['model_%03i' % i for i in range(nm)]
    if apdep:
        aps = np.logspace(1, 5, 6) * u.au
        fl = np.cumsum(rng.uniform(0.1, 2, (nm, 6, nf)), axis=1)
    else:
        aps = None
        fl = rng.uniform(0.1, 20, (nm, 1, nf))
    # random zero
    if rng.random() < 0.3:
        fl[rng.integers(nm), :, rng.integers(nf)] = 0.
    unit = [u.mJy, u.Jy][trial % 3 == 0]
    d = make_v1(names, fnames, fw, fl, aps, unit)
    ap_arcsec = rng.uniform(1, 5, nf)
    kw = dict(extinction_law=e, av_range=[0., 10.], distance_range=[0.5, 3.] * u.kpc, remove_resolved=bool(trial % 4 == 3))
    F = quiet(Fitter, fnames, ap_arcsec * u.arcsec, d, **kw)
    pool = [0, 1, 1, 1, 1, 2, 3, 9] if nf > 1 else [1]
    valid = rng.choice(pool, nf)
    valid[:min(3,nf)] = 1
    flux = rng.uniform(0.5, 30, nf); err = flux * rng.uniform(0.02, 0.3, nf)
    err[(valid == 2) | (valid == 3)] = rng.uniform(0.1, 0.9, np.sum((valid == 2) | (valid == 3)))
    s = make_source(valid, flux, err)
    import copy
    s0 = copy.deepcopy(s)
    base = as_map(F.fit(s))
    assert s == s0
    # history
    others = [make_source(rng.choice(pool, nf), rng.uniform(0.5, 30, nf), rng.uniform(0.05, 0.9, nf)) for _ in range(3)]
    for o in others: F.fit(o)
    again = as_map(F.fit(s))
    w = cmp_maps(base, again, tol=0); worst_all['hist'] = max(worst_all.get('hist', 0), w)
    assert s == s0
    # filter perm
    p = rng.permutation(nf)
    F2 = quiet(Fitter, [fnames[i] for i in p], ap_arcsec[p] * u.arcsec, d, **kw)
    s2 = make_source(valid[p], flux[p], err[p])
    w = cmp_maps(base, as_map(F2.fit(s2))); worst_all['fperm'] = max(worst_all.get('fperm', 0), w)
    if w > 1e-9: print('FPERM', trial, w, nf, nm, apdep, valid)
    # model perm
    mp = rng.permutation(nm)
    d3 = make_v1(names, fnames, fw, fl, aps, unit, perm=mp)
    F3 = quiet(Fitter, fnames, ap_arcsec * u.arcsec, d3, **kw)
    w = cmp_maps(base, as_map(F3.fit(s))); worst_all['mperm'] = max(worst_all.get('mperm', 0), w)
    if w > 1e-9: print('MPERM', trial, w, nf, nm, apdep, valid)
    # scale
    if not apdep:
        for c in [1e-4, 1e-2, 3.7, 1e4]:
            lim = (valid == 2) | (valid == 3)
            e2 = err * c; e2[lim] = err[lim]
            s4 = make_source(valid, flux * c, e2)
            w = cmp_maps(base, as_map(F.fit(s4)), dsc=-0.5 * np.log10(c)); worst_all['scale'] = max(worst_all.get('scale', 0), w)
            if w > 1e-9: print('SCALE', trial, c, w, nf, nm, valid)
print(worst_all)
