(* C07 — convolved-flux files keep model identity, identically in both package formats.
   Model: ConvDirM.conv_dir1_m (sorted glob, one row per SED file, utils.misc.order_to_match, sort_to_match with its
   post-check), conv_dir2_m (names check, cube order), conv_sed (read with order='nu', Filter.rebin, the sums of C06).
   Proofs: Argsort, Table (C07_sort_to_match, rank_of_rank), ConvDirM. *)
From Coq Require Import QArith List ZArith Permutation.
Import ListNotations.
From SedV Require Import PLin Argsort Table ConvolveM ConvDirM OrderPerm.
Close Scope Q_scope.

(* per-file format: rows follow the parameter table, the row labelled X is computed from SED X *)
Theorem C07_rows_v1 : forall filt files par_names,
  NoDup par_names -> Permutation (map (fun f => sd_name (snd f)) files) par_names ->
  exists out, conv_dir1_m filt files par_names = Some out /\ map cr_name out = par_names /\
              forall r, In r out -> exists f, In f files /\ r = conv_sed filt (snd f).
Proof. exact rows_v1. Qed.

(* whatever order the directory listing returns the SED files in *)
Theorem C07_listing_order : forall filt files files' par_names,
  NoDup (map fst files) -> Permutation files files' ->
  conv_dir1_m filt files par_names = conv_dir1_m filt files' par_names.
Proof. exact listing_order. Qed.

(* cube format: rows in cube order, row i computed from cube slice i *)
Theorem C07_rows_v2 : forall filt cube par_names out, conv_dir2_m filt cube par_names = Some out ->
  map cr_name out = map sd_name cube /\ Permutation (map cr_name out) par_names /\ out = map (conv_sed filt) cube.
Proof. exact rows_v2. Qed.

(* ... and a cube package is accepted whatever the row order of its parameter table (refused before the repair F56) *)
Theorem C07_rows_v2_any_table_order : forall filt cube par_names, Permutation (map sd_name cube) par_names ->
  conv_dir2_m filt cube par_names = Some (map (conv_sed filt) cube).
Proof. exact rows_v2_accepts. Qed.

(* the two formats built from the same SEDs give the same flux and error row for every model name *)
Theorem C07_formats_agree : forall filt files cube par_names out1 out2,
  NoDup par_names -> map (fun f => snd f) files = cube \/ Permutation (map (fun f => snd f) files) cube ->
  conv_dir1_m filt files par_names = Some out1 -> conv_dir2_m filt cube par_names = Some out2 ->
  Permutation (map (fun f => sd_name (snd f)) files) par_names ->
  (forall s s', In s cube -> In s' cube -> sd_name s = sd_name s' -> s = s') ->
  forall r1 r2, In r1 out1 -> In r2 out2 -> cr_name r1 = cr_name r2 -> r1 = r2.
Proof. exact formats_agree. Qed.

(* the spectral order in which an SED file or the cube stores its arrays does not change its convolved row *)
Theorem C07_storage_order : forall filt s, sd_nu s <> [] ->
  (hd 0%Q (sd_nu s) < last (sd_nu s) 0%Q \/ last (sd_nu s) 0%Q < hd 0%Q (sd_nu s))%Q ->
  conv_sed filt (rev_spectral s) = conv_sed filt s.
Proof. exact conv_sed_storage_order. Qed.

(* the index identity of sort_to_match *)
Theorem C07_sort_to_match : forall a r, NoDup r -> Permutation a r -> gatherK a (order_to_match a r) = r.
Proof. exact Table.C07_sort_to_match. Qed.

(* sort_to_match uses every row exactly once: its index list is a permutation of 0 .. n-1, so no model row is dropped or
   duplicated whatever the two name orders are *)
Theorem C07_sort_rows_once : forall a r, length a = length r -> Permutation (order_to_match a r) (seq 0 (length a)).
Proof. exact order_to_match_perm. Qed.

Theorem C07_sort_length : forall a r, length (order_to_match a r) = length r.
Proof. exact order_to_match_length. Qed.

Example C07_example : order_to_match [30; 10; 20]%Z [20; 30; 10]%Z = [2; 0; 1]%nat.
Proof. reflexivity. Qed.
