(* Linear interpolation between two knots: no overshoot, monotone for a non-decreasing table. *)
From Coq Require Import QArith Lqa List Qminmax.
Import ListNotations.
From SedV Require Import PLin.
Open Scope Q_scope.

(* the interpolated value is a convex combination of the two bracketing table values: it never leaves their range
   (no overshoot between knots) *)
Theorem lin_bracketed p0 p1 r : fst p0 < r -> r <= fst p1 ->
  Qmin (snd p0) (snd p1) <= lin p0 p1 r /\ lin p0 p1 r <= Qmax (snd p0) (snd p1).
Proof.
  intros H0 H1. unfold lin. destruct p0 as [x0 y0], p1 as [x1 y1]. cbn [fst snd] in *.
  assert (Hd : 0 < x1 - x0) by lra.
  set (t := (r - x0) / (x1 - x0)).
  assert (Ht0 : 0 <= t) by (unfold t; apply Qle_shift_div_l; lra).
  assert (Ht1 : t <= 1) by (unfold t; apply Qle_shift_div_r; lra).
  assert (E : y0 + (r - x0) * (y1 - y0) / (x1 - x0) == y0 + t * (y1 - y0)) by (unfold t; field; lra).
  rewrite E. destruct (Qlt_le_dec y0 y1) as [L|L].
  - rewrite Q.min_l, Q.max_r by lra. split; nra.
  - rewrite Q.min_r, Q.max_l by lra. split; nra.
Qed.

(* a table that does not decrease gives an interpolant that does not decrease between two knots *)
Theorem lin_monotone p0 p1 r r' : fst p0 < fst p1 -> snd p0 <= snd p1 -> r <= r' -> lin p0 p1 r <= lin p0 p1 r'.
Proof.
  intros Hx Hy Hr. unfold lin. destruct p0 as [x0 y0], p1 as [x1 y1]. cbn [fst snd] in *.
  assert (Hd : 0 < x1 - x0) by lra.
  assert (E : forall s, y0 + (s - x0) * (y1 - y0) / (x1 - x0) == y0 + (s - x0) * ((y1 - y0) / (x1 - x0))) by (intros; field; lra).
  rewrite !E. assert (Hs : 0 <= (y1 - y0) / (x1 - x0)) by (apply Qle_shift_div_l; lra). nra.
Qed.
