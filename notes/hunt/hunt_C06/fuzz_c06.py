import numpy as np, os, tempfile
from astropy import units as u
from sedfitter.filter import Filter

rng = np.random.default_rng(1)


def cumint(x, y, t):
    # integral of piecewise-linear (x increasing) from x[0] to t
    t = np.clip(t, x[0], x[-1])
    seg = 0.5 * (x[1:] - x[:-1]) * (y[1:] + y[:-1])
    cum = np.concatenate([[0], np.cumsum(seg)])
    k = np.clip(np.searchsorted(x, t, side='right') - 1, 0, len(x) - 2)
    yt = y[k] + (y[k + 1] - y[k]) * (t - x[k]) / (x[k + 1] - x[k])
    return cum[k] + 0.5 * (t - x[k]) * (y[k] + yt)


def ref_R(fnu, fr, snu):
    if fnu[0] > fnu[-1]:
        fnu, fr = fnu[::-1], fr[::-1]
    rev = snu[0] > snu[-1]
    s = snu[::-1] if rev else snu
    edges = np.concatenate([[s[0]], 0.5 * (s[1:] + s[:-1]), [s[-1]]])
    R = np.array([cumint(fnu, fr, edges[i + 1]) - cumint(fnu, fr, edges[i]) for i in range(len(s))])
    return R[::-1] if rev else R


worst = 0
for it in range(4000):
    nf = rng.integers(2, 61)
    ns = rng.integers(2, 81)
    mode = rng.integers(0, 5)
    lo, hi = 1e13, 1e14
    if rng.random() < 0.5:
        fnu = np.sort(rng.uniform(lo, hi, nf))
    else:
        fnu = np.sort(10 ** rng.uniform(np.log10(lo), np.log10(hi), nf))
    if len(np.unique(fnu)) < nf:
        continue
    fr = rng.random(nf)
    if rng.random() < 0.5:
        fr[0] = 0
        fr[-1] = 0
    if rng.random() < 0.2:
        fr[rng.integers(0, nf, nf // 2)] = 0
    if fr.sum() == 0:
        fr[0] = 1.
    if mode == 0:
        slo, shi = lo / 10, hi * 10
    elif mode == 1:
        slo, shi = lo * 2, hi * 10
    elif mode == 2:
        slo, shi = lo / 10, hi / 2
    elif mode == 3:
        slo, shi = fnu[0], fnu[-1]
    else:
        slo, shi = lo * 1.5, hi / 1.5
    snu = np.sort(rng.uniform(slo, shi, ns))
    if mode == 3:
        snu[0], snu[-1] = fnu[0], fnu[-1]
        # sometimes put SED points exactly on filter points
        if ns > 4 and nf > 4:
            snu[1:3] = fnu[1:3]
            snu = np.sort(snu)
    if len(np.unique(snu)) < ns:
        continue
    if rng.random() < 0.5:
        fnu, fr = fnu[::-1], fr[::-1]
    if rng.random() < 0.5:
        snu = snu[::-1]
    f = Filter(name='x', central_wavelength=1 * u.micron, nu=fnu.copy() * u.Hz, response=fr.copy())
    if rng.random() < 0.5:
        f.normalize()
    frn = f.response.copy()
    b = f.rebin(snu.copy() * u.Hz)
    R = ref_R(fnu, frn, snu)
    scale = np.abs(R).sum() + 1e-300
    err = np.abs(b.response - R).max() / scale
    worst = max(worst, err)
    if err > 1e-11:
        print("MISMATCH", it, mode, err, nf, ns)
        break
print("worst", worst)

# file-based
d = tempfile.mkdtemp()
for it in range(300):
    nf = rng.integers(2, 61)
    wav = np.sort(rng.uniform(1, 10, nf))
    if rng.random() < 0.5:
        wav = wav[::-1]
    r = rng.random(nf)
    fn = os.path.join(d, 'f%d.txt' % it)
    with open(fn, 'w') as fh:
        fh.write('# wav = 3.3\n')
        for a, b_ in zip(wav, r):
            fh.write('%r %r\n' % (float(a), float(b_)))
    f = Filter.read(fn)
    assert f.name == 'f%d' % it
    f.normalize()
    ns = rng.integers(2, 81)
    swav = np.sort(rng.uniform(0.5, 20, ns)); swav[0]=0.5; swav[-1]=20.
    snu = (swav * u.micron).to(u.Hz, equivalencies=u.spectral())
    if rng.random() < 0.5:
        snu = snu[::-1]
    b = f.rebin(snu)
    R = ref_R(f.nu.value, f.response, snu.value)
    err = np.abs(b.response - R).max() / R.sum()
    assert err < 1e-11, err
    assert abs(b.response.sum() - 1) < 1e-11, b.response.sum()
print('file ok')
