from common import *
from sedfitter.sed import SEDCube
rng = np.random.RandomState(5)
def make_cube_dir(names, val, wav, apertures=None, unit=u.mJy):
    d = tempfile.mkdtemp()
    cube = SEDCube()
    cube.names = np.array(names)
    cube.distance = 1 * u.kpc
    cube.wav = wav * u.micron
    cube.apertures = None if apertures is None else apertures * u.au
    cube.val = val * unit
    cube.unc = cube.val * 0.01
    cube.write(os.path.join(d, 'flux.fits'))
    with open(os.path.join(d, 'models.conf'), 'w') as f:
        f.write("name = test\nlength_subdir = 0\naperture_dependent = %s\nlogd_step = 0.02\nversion = 2\n" % ('yes' if apertures is not None else 'no'))
    return d
nm = 5
wav = np.logspace(-1, 2, 30)
val = 10 ** rng.uniform(-1, 1, (nm, 1, 30))
names = ['model_%d' % i for i in range(nm)]
d = make_cube_dir(names, val, wav)
filt = [wav[5] * u.micron, wav[10] * u.micron, wav[15] * u.micron, wav[20] * u.micron]
res = {}
for mm in (True, False):
    F = quiet(Fitter, filt, [3.]*4*u.arcsec, d, extinction_law=ext(), av_range=[0., 4.], distance_range=[1., 1.2]*u.kpc, use_memmap=mm)
    print(F.models.fluxes.dtype, F.models.names)
    s = src([1, 1, 1, 1], [1., 2., 3., 4.], [.1, .1, .1, .1])
    info = F.fit(s)
    res[mm] = info
    print(info.chi2, info.av, info.model_id)
    print(F.models.log_fluxes_mJy[0] - np.log10(val[0, 0, [5, 10, 15, 20]]))
