From Coq Require Import QArith Lqa Lia List Bool ZArith.
Import ListNotations.

(* generic: sorted list + antitone predicate => count-prefix = filter *)
Section Antitone.
Variable A : Type.
Variable R : A -> A -> Prop.          (* sort order *)
Variable P : A -> bool.
Hypothesis anti : forall x y, R x y -> P y = true -> P x = true.

Fixpoint count (l : list A) : nat := match l with [] => 0%nat | x :: r => ((if P x then 1 else 0) + count r)%nat end.

Fixpoint sorted (l : list A) : Prop :=
  match l with [] => True | x :: r => Forall (R x) r /\ sorted r end.

Lemma count_zero_filter l : (forall x, In x l -> P x = false) -> filter P l = [] /\ count l = 0%nat.
Proof. induction l as [|x r IH]; intros H; [now split|]. simpl.
  rewrite (H x (or_introl eq_refl)). apply IH. intros y Hy. apply H. now right. Qed.

Lemma antitone_prefix l : sorted l -> firstn (count l) l = filter P l /\
  (forall x, In x (skipn (count l) l) -> P x = false).
Proof.
  induction l as [|x r IH]; intros S; [split; [reflexivity|intros ? []]|].
  destruct S as [F S]. simpl. destruct (P x) eqn:E.
  - simpl. destruct (IH S) as [I1 I2]. split; [now rewrite I1|exact I2].
  - (* everything after x fails too *)
    assert (H : forall y, In y r -> P y = false).
    { intros y Hy. destruct (P y) eqn:Ey; [|reflexivity].
      rewrite Forall_forall in F. rewrite (anti x y (F y Hy) Ey) in E. discriminate. }
    destruct (count_zero_filter r H) as [Hf Hc]. rewrite Hc. simpl. split; [now rewrite Hf|].
    intros y [<-|Hy]; [exact E|now apply H].
Qed.
End Antitone.

(* extended numbers *)
Inductive xnum := Fin (q : Q) | PInf | NInf | NaN.
Open Scope Q_scope.
Definition xle (a b : xnum) : bool :=   (* IEEE <= : false on NaN *)
  match a, b with
  | NaN, _ | _, NaN => false
  | NInf, _ => true | _, PInf => true
  | _, NInf => false | PInf, _ => false
  | Fin x, Fin y => Qle_bool x y
  end.
Definition xsub (a b : xnum) : xnum :=
  match a, b with
  | NaN, _ | _, NaN => NaN
  | PInf, PInf => NaN | NInf, NInf => NaN
  | PInf, _ => PInf | NInf, _ => NInf
  | _, PInf => NInf | _, NInf => PInf
  | Fin x, Fin y => Fin (x - y)
  end.
Definition xdivn (a : xnum) (n : positive) : xnum :=
  match a with Fin x => Fin (x / (Zpos n # 1)) | o => o end.
(* numpy sort order: NaN last *)
Definition xord (a b : xnum) : Prop :=
  match a, b with
  | _, NaN => True | NaN, _ => False
  | NInf, _ => True | _, PInf => True
  | _, NInf => False | PInf, _ => False
  | Fin x, Fin y => x <= y
  end.
Definition noninf (a : xnum) := match a with NInf => False | _ => True end.

(* the four criteria are antitone along xord for finite thresholds and no -inf data *)
Lemma critC_anti (v : Q) x y : xord x y -> xle y (Fin v) = true -> xle x (Fin v) = true.
Proof.
  destruct x as [x| | |], y as [y| | |]; simpl; intros H1 H2; try discriminate; try contradiction; try reflexivity.
  apply Qle_bool_iff in H2. apply Qle_bool_iff. lra.
Qed.
Lemma critD_anti (v : Q) c0 x y : noninf x -> noninf c0 -> xord c0 x -> xord x y ->
  xle (xsub y c0) (Fin v) = true -> xle (xsub x c0) (Fin v) = true.
Proof.
  destruct c0 as [c| | |], x as [x| | |], y as [y| | |]; simpl; intros N1 N0 H0 H1 H2;
    try discriminate; try contradiction; try reflexivity.
  apply Qle_bool_iff in H2. apply Qle_bool_iff. lra.
Qed.
Lemma critE_anti (v : Q) n x y : xord x y -> xle (xdivn y n) (Fin v) = true -> xle (xdivn x n) (Fin v) = true.
Proof.
  destruct x as [x| | |], y as [y| | |]; simpl; intros H1 H2; try discriminate; try contradiction; try reflexivity.
  apply Qle_bool_iff in H2. apply Qle_bool_iff.
  assert (0 < (Z.pos n # 1)) by reflexivity.
  assert (x / (Z.pos n # 1) <= y / (Z.pos n # 1)).
  { unfold Qdiv. apply Qmult_le_compat_r; [exact H1|]. apply Qinv_le_0_compat. lra. }
  lra.
Qed.
Print Assumptions critD_anti.
