import sys; sys.path.insert(0, '/tmp/hunt3_C14/hunt_out')
from _lib import *
import shutil, itertools
from sedfitter.convolve import convolve_model_dir_monochromatic as mono
from astropy import log; log.setLevel('ERROR')
import sedfitter.convolve.monochromatic as M
class PB:
    def __init__(self, n): pass
    def update(self): pass
M.ProgressBar = PB

def check(d, wav, pnames, truth, t, lo, hi, tag):
    exp = [i for i in range(len(wav)) if lo <= wav[i] < hi]
    # file naming: index in descending-wavelength order
    desc = np.argsort(-wav)
    files = sorted(os.listdir(d + '/convolved'))
    got = []
    for f in files:
        c = ConvolvedFluxes.read(d + '/convolved/' + f)
        w = c.central_wavelength.value
        iw = int(np.argmin(np.abs(wav - w)))
        assert abs(wav[iw] - w) < 1e-12 * w, (tag, w)
        got.append(iw)
        assert list(np.char.strip(c.model_names)) == pnames, (tag, c.model_names)
        for k, nm in enumerate(pnames):
            assert np.allclose(c.flux[k].value, truth[nm][0][:, iw], rtol=1e-13, atol=0), (tag, f)
            assert np.allclose(c.error[k].value, truth[nm][1][:, iw], rtol=1e-13, atol=0), (tag, f)
        # table names
        rows = [r for r in t if r['filter'] == f[:-5]]
        assert len(rows) == 1 and abs(rows[0]['wav'] - w) < 1e-12*w, (tag, f, t)
    assert sorted(got) == sorted(exp), (tag, got, exp)
    named = [r['filter'] for r in t if r['filter'] != '']
    assert sorted(named) == [f[:-5] for f in files], (tag, named, files)

n = 0
for n_wav in (2, 3, 4, 5):
  for n_ap in (1, 2, 3):
    for n_models in (1, 2, 5):
        d, wav, pnames, truth = build(n_wav=n_wav, n_ap=n_ap, n_models=n_models)
        ends = sorted(set(list(wav) + list((wav[:-1] + wav[1:]) / 2) + [wav[0] / 2, wav[-1] * 2]))
        for cs in range(1, n_wav + 1):
            max_ram = (cs + 0.5) * 8 * n_models * n_ap / 1024.**3
            for lo, hi in itertools.combinations_with_replacement(ends, 2):
                if os.path.exists(d + '/convolved'): shutil.rmtree(d + '/convolved')
                try:
                    t = mono(d, max_ram=max_ram, wav_min=lo * u.micron, wav_max=hi * u.micron)
                except Exception as e:
                    print('EXC', n_wav, n_ap, n_models, cs, lo, hi, repr(e)); raise
                check(d, wav, pnames, truth, t, lo, hi, (n_wav, n_ap, n_models, cs, lo, hi))
                n += 1
        # default
        shutil.rmtree(d + '/convolved')
        t = mono(d)
        check(d, wav, pnames, truth, t, -np.inf, np.inf, 'default')
        shutil.rmtree(d)
print('ok', n)
