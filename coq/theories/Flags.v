From Coq Require Import QArith Lqa Lia List Bool ZArith.
Import ListNotations.
Open Scope Q_scope.
From SedV Require Import Clamp FitCore.

(* Source.get_log_fluxes, one band; lg = log10 oracle, ln10 constant oracle *)
Section Flags.
Variable lg : Q -> Q.
Variable ln10 : Q.
Variable pen : Q -> option Q.        (* -2 ln(1 - c); None = infinite *)
Definition big : Q := 1000000000000000000000000000000.   (* 1e30 *)
Definition penv (c : Q) : Q := match pen c with Some q => q | None => big end.

Record rawband := { rb_flag : Z; rb_flux : Q; rb_err : Q }.
Definition Qabs' (x : Q) := if Qlt_le_dec x 0 then - x else x.
Definition get_log_fluxes_m (r : rawband) : band :=
  let f := rb_flux r in let e := rb_err r in
  match rb_flag r with
  | 1%Z => let le := Qabs' (e / f) / ln10 in
           {| b_flag := 1; b_lf := lg f - (1#2) * ((e / f) * (e / f)) / ln10; b_le := le; b_w := 1 / (le * le) |}
  | 2%Z => {| b_flag := 2; b_lf := lg f; b_le := e; b_w := 0 |}
  | 3%Z => {| b_flag := 3; b_lf := lg f; b_le := e; b_w := 0 |}
  | 4%Z => {| b_flag := 4; b_lf := f; b_le := e; b_w := 1 / (e * e) |}
  | 9%Z => {| b_flag := 9; b_lf := lg f - (1#2) * ((e / f) * (e / f)) / ln10; b_le := Qabs' (e / f) / ln10; b_w := 0 |}
  | _ => {| b_flag := rb_flag r; b_lf := 0; b_le := 0; b_w := 0 |}
  end.

(* flag 4 carrying the transformed values is the same band as flag 1, up to the flag itself *)
Theorem C03_flag4 f e :
  let b1 := get_log_fluxes_m {| rb_flag := 1; rb_flux := f; rb_err := e |} in
  let b4 := get_log_fluxes_m {| rb_flag := 4; rb_flux := b_lf b1; rb_err := b_le b1 |} in
  b_lf b4 = b_lf b1 /\ b_le b4 = b_le b1 /\ b_w b4 = b_w b1.
Proof. simpl. repeat split; reflexivity. Qed.

(* fitting_routines.chi_squared, one row, given the fitted model value for that row *)
Definition chi_term (r : row) (model : Q) : Q :=
  let base := (resid r - model) * (resid r - model) * w r in
  match b_flag (r_b r) with
  | 0%Z => 0
  | 2%Z => if Qlt_le_dec model (resid r) then penv (b_le (r_b r)) else base
  | 3%Z => if Qlt_le_dec (resid r) model then penv (b_le (r_b r)) else base
  | _ => base
  end.
Definition chi2_m (rows : list row) (av sc : Q) : Q :=
  qsum (fun r => chi_term r (av * r_a r + sc * r_s r)) rows.

(* well-formed rows: weights vanish off the fitted flags *)
Definition fitted (r : row) : bool := (b_flag (r_b r) =? 1)%Z || (b_flag (r_b r) =? 4)%Z.
Definition wf_row (r : row) : Prop := fitted r = false -> w r == 0.

(* two row lists that differ only in the data carried by unused (flag 0 / 9) bands *)
Definition unused (r : row) : bool := (b_flag (r_b r) =? 0)%Z || (b_flag (r_b r) =? 9)%Z.
Definition same_but_unused (r r' : row) : Prop :=
  b_flag (r_b r) = b_flag (r_b r') /\ r_a r = r_a r' /\ r_s r = r_s r' /\ r_lm r = r_lm r' /\
  b_w (r_b r) = b_w (r_b r') /\
  (unused r = false -> b_lf (r_b r) = b_lf (r_b r') /\ b_le (r_b r) = b_le (r_b r')).

Lemma qsum_ext2 {A} (f g : A -> Q) l l' : Forall2 (fun x y => f x == g y) l l' -> qsum f l == qsum g l'.
Proof. induction 1; simpl; [reflexivity|]. rewrite H, IHForall2. reflexivity. Qed.

Lemma unused_notfitted r : unused r = true -> fitted r = false.
Proof. unfold unused, fitted. intros H. apply orb_true_iff in H. apply orb_false_iff.
  destruct H as [H|H]; apply Z.eqb_eq in H; rewrite H; split; reflexivity. Qed.

(* every sum the fit uses is blind to what unused bands carry *)
Lemma term_blind (g : row -> Q) rows rows' :
  Forall2 same_but_unused rows rows' -> Forall wf_row rows ->
  (forall r r', same_but_unused r r' -> unused r = false -> g r = g r') ->
  qsum (fun r => g r * w r) rows == qsum (fun r => g r * w r) rows'.
Proof.
  intros H W G. apply qsum_ext2. induction H as [|r r' l l' Hr _ IH]; constructor.
  - inversion W as [|? ? Wr _]; subst. destruct Hr as (Hf & Ha & Hs & Hl & Hw & Hd).
    destruct (unused r) eqn:U.
    + assert (w r == 0) by (apply Wr, unused_notfitted, U).
      assert (w r' == 0) by (unfold w in *; rewrite <- Hw; assumption).
      rewrite H, H0. ring.
    + unfold w. rewrite <- Hw.
      assert (E : g r = g r').
      { apply G; [|exact U]. unfold same_but_unused. rewrite U. repeat (split; [assumption|]). exact Hd. }
      rewrite E. reflexivity.
  - apply IH. now inversion W.
Qed.
End Flags.
Print Assumptions C03_flag4.
Print Assumptions term_blind.
