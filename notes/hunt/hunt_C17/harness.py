import os, sys, tempfile, io, contextlib
import numpy as np
import matplotlib
matplotlib.use('Agg')
from astropy import units as u
from astropy.table import Table
from sedfitter.sed import SEDCube
from sedfitter.extinction import Extinction
from sedfitter.source import Source
from sedfitter.fit import Fitter, fit
from sedfitter.plot import plot

KPC = 3.086e21

def make_pkg(d, n_models=6, n_ap=10, n_wav=40, distance=1*u.kpc, flux_unit=u.mJy, wav_unit=u.micron,
             ap_unit=u.au, wav_order='inc', seed=1, aperture_dependent=None, names=None, unc=True, apmin=1., apmax=6.):
    rng = np.random.RandomState(seed)
    cube = SEDCube()
    cube.names = np.array(names if names is not None else ['model_%04d' % i for i in range(n_models)])
    cube.distance = distance
    wav = np.logspace(-1., 3., n_wav) * u.micron
    if wav_order == 'dec':
        wav = wav[::-1]
    cube.wav = wav.to(wav_unit)
    if n_ap:
        cube.apertures = (np.logspace(apmin, apmax, n_ap) * u.au).to(ap_unit)
        val = np.cumsum(rng.random_sample((n_models, n_ap, n_wav)), axis=1) + 1
    else:
        cube.apertures = None
        val = 1 + rng.random_sample((n_models, 1, n_wav))
    # val in mJy at cube.distance -> convert
    val = val * u.mJy
    nu = cube.nu
    if flux_unit.is_equivalent(u.mJy):
        v = val.to(flux_unit)
    elif flux_unit.is_equivalent(u.erg/u.cm**2/u.s):
        v = (val * nu).to(flux_unit)
    else:
        v = (val * nu * distance**2).to(flux_unit)
    cube.val = v
    if unc:
        cube.unc = v * 0.01
    cube.write(os.path.join(d, 'flux.fits'))
    if aperture_dependent is None:
        aperture_dependent = bool(n_ap)
    with open(os.path.join(d, 'models.conf'), 'w') as f:
        f.write("name = test\nlength_subdir = 0\naperture_dependent = %s\nlogd_step = 0.02\nversion = 2\n" % ('yes' if aperture_dependent else 'no'))
    t = Table()
    t['MODEL_NAME'] = np.array(cube.names, dtype='S')
    t['par1'] = rng.random_sample(len(cube.names))
    t.write(os.path.join(d, 'parameters.fits'))
    return cube

def make_ext():
    e = Extinction()
    e.wav = np.logspace(-2, 4, 60) * u.micron
    e.chi = (e.wav.value ** -1.5 * 100 + 1) * u.cm**2 / u.g
    return e

def make_source(n, name='src', seed=3):
    rng = np.random.RandomState(seed)
    s = Source()
    s.name = name
    s.x = 1.; s.y = 2.
    s.valid = np.ones(n, dtype=int)
    s.flux = 1 + rng.random_sample(n) * 5
    s.error = 0.1 * s.flux
    return s

def check(info_or_file, figs, infos, mode, tol=2e-3, verbose=True):
    """infos: list of (unfiltered) FitInfo; check figs vs infos"""
    bad = []
    for info in infos:
        fig = figs[info.source.name]
        segs = fig['lines'].get_segments()
        filters = info.meta.filters
        wav = np.array([f['wav'].to(u.micron).value for f in filters])
        ap = np.array([f['aperture_arcsec'] for f in filters])
        bad.append((info, segs, wav, ap))
    return bad

def quiet(fn, *a, **k):
    buf = io.StringIO()
    with contextlib.redirect_stdout(buf):
        return fn(*a, **k)
