"""
C05 - clause "('E'|'F', v) keep exactly the fits whose chi^2/n_data ... is below v,
where n_data counts only flags 1 and 4" - call history: a Source object re-used
after modification.

Fitter.fit(source) stores a *reference* to the caller's Source in the returned
FitInfo, and FitInfo.keep recomputes n_data from that live object.  If the
caller switches one data point off and re-fits the same Source object (the
on-demand / GUI use advertised for the Fitter class), the *first* result - whose
chi^2 values were computed from 4 data points - is afterwards selected with
n_data = 3: ("E", v) drops fits whose chi^2 / 4 is below v.
"""
import os
import sys
import copy
import tempfile
import warnings

import numpy as np
from astropy import units as u
from astropy.table import Table

warnings.simplefilter('ignore')

from sedfitter import Fitter
from sedfitter.convolve import convolve_model_dir
from sedfitter.sed import SEDCube
from sedfitter.filter import Filter
from sedfitter.extinction import Extinction
from sedfitter.source import Source

N_MODELS = 20

tmp = tempfile.mkdtemp()
models_dir = os.path.join(tmp, 'models')
os.mkdir(models_dir)

rng = np.random.RandomState(12345)

cube = SEDCube()
cube.names = np.array(['model_{0:04d}'.format(i) for i in range(N_MODELS)])
cube.distance = 1 * u.kpc
cube.wav = np.logspace(-2., 3., 100) * u.micron
cube.apertures = None
cube.val = (1 + 3 * rng.random_sample((N_MODELS, 1, 100))) * u.mJy
cube.unc = cube.val * 0.01
cube.write(os.path.join(models_dir, 'flux.fits'))

with open(os.path.join(models_dir, 'models.conf'), 'w') as f:
    f.write("name = test\nlength_subdir = 0\naperture_dependent = no\nlogd_step = 0.02\nversion = 2\n")

t = Table()
t['MODEL_NAME'] = np.array(cube.names, dtype='S')
t['par1'] = rng.random_sample(N_MODELS)
t.write(os.path.join(models_dir, 'parameters.fits'))

filters = []
for name, lo, hi, cen in [('alice', 1., 5., 3.), ('bob', 10., 15., 12.), ('eve', 15., 25., 20.), ('dan', 30., 50., 40.)]:
    fl = Filter()
    fl.name = name
    fl.central_wavelength = cen * u.micron
    fl.nu = (np.linspace(hi, lo, 50) * u.micron).to(u.Hz, equivalencies=u.spectral())
    fl.response = np.ones(50)
    fl.normalize()
    filters.append(fl)
convolve_model_dir(models_dir, filters=filters)

ext = Extinction()
ext.wav = np.logspace(-2., 3.) * u.micron
ext.chi = ext.wav.value ** -2 * u.cm ** 2 / u.g

fitter = Fitter(['alice', 'bob', 'eve', 'dan'], [3., 3., 3., 3.] * u.arcsec, models_dir,
                extinction_law=ext, distance_range=[1., 2.] * u.kpc, av_range=[0., 1.])

s = Source.from_ascii('source_1 0.0 0.0 1 1 1 1 0.2 0.02 1.3 0.1 1.5 0.1 0.7 0.05')

info1 = fitter.fit(s)
assert info1.source.n_data == 4
chi2 = info1.chi2.copy()

# pick a threshold v strictly between chi2[k]/4 and chi2[k]/3 for some k, away from all attained values
per4 = chi2 / 4.
k = len(chi2) // 2
v = per4[k] * 1.15          # chi2[k]/4 < v < chi2[k]/3 = per4[k]*1.333
assert np.all(np.abs(per4 - v) > 1e-6), "threshold too close to an attained value"
expected = int(np.sum(per4 < v))
assert expected >= k + 1

# what the selection gives *now*
before = copy.deepcopy(info1)
before.meta = info1.meta
before.keep(('E', v))
assert before.n_fits == expected

# the caller switches the last band off and re-fits the same Source object
s.valid = [1, 1, 1, 0]
info2 = fitter.fit(s)

# selecting on the first result again: its chi^2 values are untouched ...
assert np.array_equal(info1.chi2, chi2)
info1.keep(('E', v))

if info1.n_fits != expected:
    print("")
    print("FAIL: C05 clause \"('E', v) keeps exactly the fits whose chi^2/n_data is below v\": "
          "result of fitting 4 data points (flags 1 1 1 1), v=%.6g: %d fits have chi^2/4 < v and "
          "keep(('E', v)) kept %d before the caller re-used the Source object; after the caller set "
          "source.valid = [1, 1, 1, 0] and re-fitted the same Source (second, independent result), the "
          "same keep(('E', v)) on the unchanged first result kept %d fits, because FitInfo.source "
          "aliases the caller's Source and n_data silently became %d."
          % (v, expected, before.n_fits, info1.n_fits, info1.source.n_data))
    sys.exit(1)
print("OK")
