(* Invariances of the fit: band permutation, model permutation, brightness scaling. *)
From Coq Require Import QArith Lqa Lia List Bool ZArith Permutation.
Import ListNotations.
Open Scope Q_scope.
From SedV Require Import Clamp FitCore Flags Fit3 Xnum FitModel FitModelProofs FlagsProofs FitPerm FitScale.

(* ---- permutation of the bands ---- *)
Lemma chi2_perm pen rows rows' av sc : Permutation rows rows' -> chi2_m pen rows av sc == chi2_m pen rows' av sc.
Proof. intros P. unfold chi2_m. now apply qsum_perm. Qed.

Lemma clip_proper lo hi x y : x == y -> clip lo hi x == clip lo hi y.
Proof. intros E. unfold clip. destruct (Qlt_le_dec x lo), (Qlt_le_dec y lo); try lra.
  destruct (Qlt_le_dec hi x), (Qlt_le_dec hi y); try lra. Qed.

Lemma av3_perm lo hi rows rows' : Permutation rows rows' -> av_at_distance lo hi rows == av_at_distance lo hi rows'.
Proof.
  intros P. unfold av_at_distance. apply clip_proper. unfold optscale_av_m.
  assert (E1 : c1 rows == c1 rows') by (apply qsum_perm, P).
  assert (E2 : m11 rows == m11 rows') by (apply qsum_perm, P).
  now rewrite E1, E2.
Qed.

(* ---- permutation of the models: the per-model results are permuted alike ---- *)
Lemma models_perm {A B} (f : A -> B) l l' : Permutation l l' -> Permutation (map f l) (map f l').
Proof. apply Permutation_map. Qed.

(* ---- multiplying every flux and error by c > 0 ---- *)
Lemma Qabs'_proper x y : x == y -> Qabs' x == Qabs' y.
Proof. intros E. unfold Qabs'. destruct (Qlt_le_dec x 0), (Qlt_le_dec y 0); lra. Qed.

Section Scale.
Variable lg : Q -> Q.
Variable ln10 : Q.
Variable c : Q.
Hypothesis c_pos : 0 < c.
Hypothesis lg_mul : forall x, 0 < x -> lg (c * x) == lg c + lg x.

(* the documented scaling of one band: fluxes and errors times c; a limit's "error" column is a confidence and stays;
   a flag-4 band carries log10 values, so its flux gains lg c *)
Definition scale_raw (r : rawband) : rawband :=
  match rb_flag r with
  | 1%Z => {| rb_flag := 1; rb_flux := c * rb_flux r; rb_err := c * rb_err r |}
  | 9%Z => {| rb_flag := 9; rb_flux := c * rb_flux r; rb_err := c * rb_err r |}
  | 2%Z => {| rb_flag := 2; rb_flux := c * rb_flux r; rb_err := rb_err r |}
  | 3%Z => {| rb_flag := 3; rb_flux := c * rb_flux r; rb_err := rb_err r |}
  | 4%Z => {| rb_flag := 4; rb_flux := rb_flux r + lg c; rb_err := rb_err r |}
  | _ => r
  end.

Definition pos_flux (r : rawband) : Prop :=
  (rb_flag r = 1 \/ rb_flag r = 2 \/ rb_flag r = 3)%Z -> 0 < rb_flux r.

Lemma scale_raw_other r : (rb_flag r <> 1 -> rb_flag r <> 2 -> rb_flag r <> 3 -> rb_flag r <> 4 -> rb_flag r <> 9 -> scale_raw r = r)%Z.
Proof. unfold scale_raw. destruct (rb_flag r) as [|p|p]; try reflexivity. intros. split_pos; try reflexivity; congruence. Qed.

(* effect on the transformed band: log flux + lg c, same log error / confidence, same weight;
   flag-9 and flag-0 bands carry nothing that matters (weight 0) *)
Lemma scale_band r : pos_flux r ->
  let b := get_log_fluxes_m lg ln10 r in let b' := get_log_fluxes_m lg ln10 (scale_raw r) in
  b_flag b' = b_flag b /\ b_w b' == b_w b /\
  ((b_flag b = 1 \/ b_flag b = 2 \/ b_flag b = 3 \/ b_flag b = 4)%Z -> b_lf b' == b_lf b + lg c /\ b_le b' == b_le b) /\
  ((b_flag b = 2 \/ b_flag b = 3)%Z -> b_le b' = b_le b).
Proof.
  unfold pos_flux. intros H.
  destruct (Z.eq_dec (rb_flag r) 1) as [E|N1].
  { assert (P : 0 < rb_flux r) by (apply H; auto).
    assert (R : c * rb_err r / (c * rb_flux r) == rb_err r / rb_flux r) by (field; split; lra).
    pose proof (Qabs'_proper _ _ R) as RA.
    unfold scale_raw, get_log_fluxes_m. rewrite E. cbn [rb_flag rb_flux rb_err b_flag b_lf b_le b_w].
    split; [reflexivity|]. split; [rewrite RA; reflexivity|]. split.
    - intros _. rewrite (lg_mul _ P), RA, R. split; [ring|reflexivity].
    - intros [X|X]; discriminate. }
  destruct (Z.eq_dec (rb_flag r) 2) as [E|N2].
  { assert (P : 0 < rb_flux r) by (apply H; auto).
    unfold scale_raw, get_log_fluxes_m. rewrite E. cbn [rb_flag rb_flux rb_err b_flag b_lf b_le b_w].
    split; [reflexivity|]. split; [reflexivity|]. split; [intros _; rewrite (lg_mul _ P); split; [ring|reflexivity]|reflexivity]. }
  destruct (Z.eq_dec (rb_flag r) 3) as [E|N3].
  { assert (P : 0 < rb_flux r) by (apply H; auto).
    unfold scale_raw, get_log_fluxes_m. rewrite E. cbn [rb_flag rb_flux rb_err b_flag b_lf b_le b_w].
    split; [reflexivity|]. split; [reflexivity|]. split; [intros _; rewrite (lg_mul _ P); split; [ring|reflexivity]|reflexivity]. }
  destruct (Z.eq_dec (rb_flag r) 4) as [E|N4].
  { unfold scale_raw, get_log_fluxes_m. rewrite E. cbn [rb_flag rb_flux rb_err b_flag b_lf b_le b_w].
    split; [reflexivity|]. split; [reflexivity|]. split; [intros _; split; [ring|reflexivity]|reflexivity]. }
  destruct (Z.eq_dec (rb_flag r) 9) as [E|N9].
  { unfold scale_raw, get_log_fluxes_m. rewrite E. cbn [rb_flag rb_flux rb_err b_flag b_lf b_le b_w].
    split; [reflexivity|]. split; [reflexivity|]. split; [intros [X|[X|[X|X]]]; discriminate|intros [X|X]; discriminate]. }
  rewrite (scale_raw_other r N1 N2 N3 N4 N9). cbv zeta.
  split; [reflexivity|]. split; [reflexivity|]. split; [|reflexivity].
  intros F. exfalso. unfold get_log_fluxes_m in F.
  destruct (rb_flag r) as [|p|p]; cbn [b_flag] in F; try (destruct F as [X|[X|[X|X]]]; discriminate).
  revert F. split_pos; cbn [b_flag]; intros F; destruct F as [X|[X|[X|X]]]; try discriminate; congruence.
Qed.
End Scale.

(* ---- from shifted residuals to shifted scale ---- *)
Lemma fit2_shift_of_moments lo hi t rows rows' :
  c1 rows' == c1 rows + t * m12 rows -> c2 rows' == c2 rows + t * m22 rows ->
  m11 rows' == m11 rows -> m12 rows' == m12 rows -> m22 rows' == m22 rows ->
  0 < m22 rows -> 0 < det rows ->
  let '(av, sc) := fit2_avsc lo hi rows in let '(av', sc') := fit2_avsc lo hi rows' in
  av' == av /\ sc' == sc + t.
Proof.
  intros E1 E2 E11 E12 E22 H22 Hd.
  unfold fit2_avsc, linreg_m, det in *.
  set (D := m11 rows * m22 rows - m12 rows * m12 rows) in *.
  set (A := (m22 rows * c1 rows - m12 rows * c2 rows) * (1 / D)).
  set (A' := (m22 rows' * c1 rows' - m12 rows' * c2 rows') * (1 / (m11 rows' * m22 rows' - m12 rows' * m12 rows'))).
  assert (EA : A' == A).
  { unfold A, A'. rewrite E1, E2, E11, E12, E22. unfold D in *. field. lra. }
  assert (EO : forall a, optscale_sc_m a rows' == optscale_sc_m a rows + t).
  { intros a. rewrite !optscale_is_sopt. unfold sopt. rewrite E2, E12, E22. field. lra. }
  destruct (Qlt_le_dec A lo), (Qlt_le_dec A' lo); try lra.
  - split; [reflexivity|apply EO].
  - destruct (Qlt_le_dec hi A), (Qlt_le_dec hi A'); try lra.
    + split; [reflexivity|apply EO].
    + split; [exact EA|]. rewrite E1, E2, E11, E12, E22. unfold D in *. field. lra.
Qed.

(* rows related by a shift of the residual along the scale pattern; rows of zero weight may carry anything *)
Definition shifted_w (t : Q) (r r' : row) : Prop :=
  r_a r' == r_a r /\ r_s r' == r_s r /\ w r' == w r /\ (w r == 0 \/ resid r' == resid r + t * r_s r).

Lemma shift_moments_w t rows rows' : Forall2 (shifted_w t) rows rows' ->
  c1 rows' == c1 rows + t * m12 rows /\ c2 rows' == c2 rows + t * m22 rows /\
  m11 rows' == m11 rows /\ m12 rows' == m12 rows /\ m22 rows' == m22 rows.
Proof.
  unfold c1, c2, m11, m12, m22.
  induction 1 as [|r r' l l' (Ha & Hs & Hw & Hr) _ (I1 & I2 & I3 & I4 & I5)]; simpl; [repeat split; ring|].
  rewrite I1, I2, I3, I4, I5, Ha, Hs, Hw.
  destruct Hr as [W0|Hr].
  - rewrite W0. repeat split; ring.
  - rewrite Hr. repeat split; ring.
Qed.

Section ScaleFit.
Variable lg : Q -> Q.
Variable ln10 : Q.
Variable pen : Q -> option Q.
Variable c : Q.
Hypothesis c_pos : 0 < c.
Hypothesis lg_mul : forall x, 0 < x -> lg (c * x) == lg c + lg x.

Lemma scaled_rows_shifted raws : Forall (pos_flux) raws -> forall alaw lms,
  Forall2 (shifted_w (- lg c / 2))
    (mkrows (bands_of lg ln10 raws) alaw lms)
    (mkrows (bands_of lg ln10 (map (scale_raw lg c) raws)) alaw lms).
Proof.
  induction 1 as [|rb raws Hp _ IH]; intros alaw lms; [constructor|].
  unfold bands_of in *. cbn [map mkrows]. destruct alaw as [|a al]; [constructor|]. destruct lms as [|m ms]; [constructor|].
  constructor; [|apply IH].
  destruct (scale_band lg ln10 c c_pos lg_mul rb Hp) as (Hf & Hw & Hl & _).
  unfold shifted_w, mkrow, w, resid. cbn [r_b r_a r_s r_lm].
  split; [reflexivity|]. split; [reflexivity|]. split; [exact Hw|].
  set (b := get_log_fluxes_m lg ln10 rb) in *.
  destruct (Z.eq_dec (b_flag b) 1) as [F1|N1]; [right; destruct (Hl (or_introl F1)) as [E _]; rewrite E; field|].
  destruct (Z.eq_dec (b_flag b) 4) as [F4|N4]; [right; destruct (Hl (or_intror (or_intror (or_intror F4)))) as [E _]; rewrite E; field|].
  left. pose proof (band_wf lg ln10 rb a m) as W. unfold wf_row, fitted, mkrow, w in W. cbn [r_b] in W. fold b in W.
  apply W. apply orb_false_iff. split; apply Z.eqb_neq; assumption.
Qed.

(* multiplying every flux and error by c shifts the scale by -lg(c)/2 and leaves A_V unchanged *)
Theorem scale_shifts_scale lo hi raws alaw lms : Forall pos_flux raws ->
  let rows := mkrows (bands_of lg ln10 raws) alaw lms in
  let rows' := mkrows (bands_of lg ln10 (map (scale_raw lg c) raws)) alaw lms in
  0 < m22 rows -> 0 < det rows ->
  let '(av, sc) := fit2_avsc lo hi rows in let '(av', sc') := fit2_avsc lo hi rows' in
  av' == av /\ sc' == sc - (1#2) * lg c.
Proof.
  intros Hp rows rows' H22 Hd.
  destruct (shift_moments_w _ _ _ (scaled_rows_shifted raws Hp alaw lms)) as (E1 & E2 & E11 & E12 & E22).
  pose proof (fit2_shift_of_moments lo hi (- lg c / 2) rows rows' E1 E2 E11 E12 E22 H22 Hd) as H.
  destruct (fit2_avsc lo hi rows) as [av sc]. destruct (fit2_avsc lo hi rows') as [av' sc'].
  destruct H as [Ha Hs]. split; [exact Ha|]. rewrite Hs. field.
Qed.
End ScaleFit.

(* ---- chi^2 is unchanged by the brightness scaling ---- *)
Lemma chi_term_other pen r m : (b_flag (r_b r) <> 0)%Z -> (b_flag (r_b r) <> 2)%Z -> (b_flag (r_b r) <> 3)%Z ->
  chi_term pen r m = (resid r - m) * (resid r - m) * w r.
Proof. unfold chi_term. destruct (b_flag (r_b r)) as [|p|p]; try reflexivity; intros; [congruence|]. split_pos; try reflexivity; congruence. Qed.

Lemma chi_term_shift pen r r' m m' d :
  b_flag (r_b r') = b_flag (r_b r) -> w r' == w r -> wf_row r ->
  ((b_flag (r_b r) = 2 \/ b_flag (r_b r) = 3)%Z -> b_le (r_b r') = b_le (r_b r)) ->
  ((b_flag (r_b r) = 1 \/ b_flag (r_b r) = 2 \/ b_flag (r_b r) = 3 \/ b_flag (r_b r) = 4)%Z -> resid r' == resid r + d) ->
  m' == m + d ->
  chi_term pen r' m' == chi_term pen r m.
Proof.
  intros Hf Hw W Hle Hr Hm.
  destruct (Z.eq_dec (b_flag (r_b r)) 0) as [E|N0]; [unfold chi_term; rewrite Hf, E; reflexivity|].
  destruct (Z.eq_dec (b_flag (r_b r)) 2) as [E|N2].
  { assert (R : resid r' == resid r + d) by (apply Hr; auto). assert (L : b_le (r_b r') = b_le (r_b r)) by (apply Hle; auto).
    unfold chi_term. rewrite Hf, E, L. destruct (Qlt_le_dec m' (resid r')), (Qlt_le_dec m (resid r)); try lra; try reflexivity.
    rewrite R, Hm, Hw. ring. }
  destruct (Z.eq_dec (b_flag (r_b r)) 3) as [E|N3].
  { assert (R : resid r' == resid r + d) by (apply Hr; auto). assert (L : b_le (r_b r') = b_le (r_b r)) by (apply Hle; auto).
    unfold chi_term. rewrite Hf, E, L. destruct (Qlt_le_dec (resid r') m'), (Qlt_le_dec (resid r) m); try lra; try reflexivity.
    rewrite R, Hm, Hw. ring. }
  rewrite (chi_term_other pen r m N0 N2 N3), (chi_term_other pen r' m') by (rewrite Hf; assumption).
  destruct (Z.eq_dec (b_flag (r_b r)) 1) as [E|N1]; [rewrite (Hr (or_introl E)), Hm, Hw; ring|].
  destruct (Z.eq_dec (b_flag (r_b r)) 4) as [E|N4]; [rewrite (Hr (or_intror (or_intror (or_intror E)))), Hm, Hw; ring|].
  assert (W0 : w r == 0). { apply W. unfold fitted. apply orb_false_iff. split; apply Z.eqb_neq; assumption. }
  rewrite Hw, W0. ring.
Qed.

Section ScaleChi.
Variable lg : Q -> Q.
Variable ln10 : Q.
Variable pen : Q -> option Q.
Variable c : Q.
Hypothesis c_pos : 0 < c.
Hypothesis lg_mul : forall x, 0 < x -> lg (c * x) == lg c + lg x.

Theorem scale_keeps_chi2 raws : Forall pos_flux raws -> forall alaw lms av av' sc sc',
  av' == av -> sc' == sc - (1#2) * lg c ->
  chi2_m pen (mkrows (bands_of lg ln10 (map (scale_raw lg c) raws)) alaw lms) av' sc' ==
  chi2_m pen (mkrows (bands_of lg ln10 raws) alaw lms) av sc.
Proof.
  intros Hp. unfold chi2_m. induction Hp as [|rb raws Hrb _ IH]; intros alaw lms av av' sc sc' Ea Es; [reflexivity|].
  unfold bands_of in *. cbn [map mkrows]. destruct alaw as [|a al]; [reflexivity|]. destruct lms as [|m ms]; [reflexivity|].
  cbn [qsum]. rewrite (IH al ms av av' sc sc' Ea Es). apply Qplus_inj_r.
  destruct (scale_band lg ln10 c c_pos lg_mul rb Hrb) as (Hf & Hw & Hl & Hle).
  apply (chi_term_shift pen _ _ _ _ (lg c)); unfold mkrow, w, resid; cbn [r_b r_a r_s r_lm].
  - exact Hf.
  - exact Hw.
  - apply band_wf.
  - exact Hle.
  - intros F. destruct (Hl F) as [E _]. rewrite E. ring.
  - rewrite Ea, Es. ring.
Qed.
End ScaleChi.
