import itertools, os, tempfile, warnings
import numpy as np
from astropy import units as u
from sedfitter.sed import SED, SEDCube
from sedfitter.convolved_fluxes import ConvolvedFluxes

tmp = tempfile.mkdtemp()
rng = np.random.default_rng(1)
units = [u.mJy, u.Jy, u.erg/u.cm**2/u.s, u.erg/u.s]
k = 0
bad = []
for n_ap, n_wav, asc, fu, with_ap in itertools.product([1,2,5],[2,3,40],[True,False],units,[True,False]):
    if not with_ap and n_ap != 1: continue
    wav = np.sort(rng.uniform(0.1, 1000, n_wav))
    if not asc: wav = wav[::-1]
    s = SED()
    s.name = 'm1'
    s.distance = 1*u.kpc
    s.wav = wav*u.micron
    s.nu = s.wav.to(u.Hz, equivalencies=u.spectral())
    if with_ap: s.apertures = np.sort(rng.uniform(10,1000,n_ap))*u.au
    s.flux = rng.uniform(1,2,(n_ap,n_wav))*fu
    s.error = rng.uniform(0.1,0.2,(n_ap,n_wav))*fu
    k += 1
    fn = os.path.join(tmp, 's%i.fits'%k)
    try:
        s.write(fn)
    except Exception as e:
        bad.append(('write', n_ap,n_wav,asc,fu,with_ap, repr(e))); continue
    for order in ['nu','wav']:
        try:
            r = SED.read(fn, unit_flux=fu, order=order)
        except Exception as e:
            bad.append(('read', n_ap,n_wav,asc,fu,with_ap,order, repr(e))); continue
        # expected
        w = s.wav; f = s.flux; e = s.error; nu = s.nu
        want_rev = (order=='wav') != asc
        if want_rev:
            w = w[::-1]; nu=nu[::-1]; f=f[:, ::-1]; e=e[:, ::-1]
        ok = (np.allclose(r.wav.value, w.value, rtol=1e-12) and np.allclose(r.nu.value, nu.value, rtol=1e-12)
              and np.allclose(r.flux.value, f.value, rtol=1e-12) and np.allclose(r.error.value, e.value, rtol=1e-12))
        if not ok:
            bad.append(('mismatch', n_ap,n_wav,asc,str(fu),with_ap,order))
print(len(bad))
for b in bad[:20]: print(b)
