"""
C10, clause: "every post-processing function accepts a file, one result object
or a list of result objects interchangeably".

Input: a fit file with 2 records (both sources eligible).  The records are read
back from that ONE file, but through two openings of it (also: the _good/_bad
files that filter_output splits it into, merged again).  Every record carries
value-identical metadata (same model_dir, same filters, same extinction law
arrays), yet a list mixing them is refused with
    ValueError: The meta property of all FitInfo instances should match
whereas the file itself (and each record alone) is accepted.  Cause:
FitInfoMeta.__eq__ compares extinction_law with ==, Extinction has no __eq__,
so two unpickled copies of the same law compare by identity.
"""
import os, sys, tempfile
sys.path.insert(0, os.path.dirname(os.path.abspath(__file__)))
from common import *
from sedfitter import fit, write_parameters, write_parameter_ranges, filter_output
from sedfitter.fit_info import FitInfoFile

tmp = tempfile.mkdtemp()
md = os.path.join(tmp, 'models'); os.mkdir(md)
build(md, version=1, apdep=False)
data = os.path.join(tmp, 'data')
open(data, 'w').write("s1 0.0 0.0 1 1 1 0.2 0.1 1.3 0.2 1.5 0.3\n"
                      "s2 0.0 0.0 1 1 1 0.2 0.05 1.2 0.1 1.8 0.3\n")
out = os.path.join(tmp, 'fits')
quiet(fit, data, ['bob', 'alice', 'eve'], [1., 3., 3.] * u.arcsec, md, out,
      extinction_law=extlaw(), distance_range=[1., 2.] * u.kpc, av_range=[0., 0.1],
      output_format=('A', 0), n_data_min=3)

meta1, first_read = read_all(out)
meta2, second_read = read_all(out)
assert len(first_read) == len(second_read) == 2

# the metadata of the two reads are the same, value for value
assert meta1.model_dir == meta2.model_dir and meta1.filters == meta2.filters
assert np.all(meta1.extinction_law.wav == meta2.extinction_law.wav)
assert np.all(meta1.extinction_law.chi == meta2.extinction_law.chi)

# reference: the file form
ref = os.path.join(tmp, 'ref.txt')
quiet(write_parameters, out, ref, select_format=('A', 0))

# each record alone is accepted
for k, rec in enumerate([first_read[0], second_read[1]]):
    quiet(write_parameters, rec, os.path.join(tmp, 'single%d.txt' % k), select_format=('A', 0))

# the list [record 1 (first read), record 2 (second read)] is refused
problems = []
for fn in (write_parameters, write_parameter_ranges):
    o = os.path.join(tmp, 'list_%s.txt' % fn.__name__)
    try:
        quiet(fn, [first_read[0], second_read[1]], o, select_format=('A', 0))
    except ValueError as e:
        problems.append("%s([rec1 from read #1, rec2 from read #2]) -> ValueError: %s" % (fn.__name__, e))
    else:
        if fn is write_parameters:
            assert open(o).read() == open(ref).read()

# same thing for the good/bad split of filter_output merged again
good, bad = os.path.join(tmp, 'good'), os.path.join(tmp, 'bad')
_, recs = read_all(out)
thr = float(0.5 * (recs[0].chi2[0] + recs[1].chi2[0]))
quiet(filter_output, out, good, bad, chi=thr)
_, g = read_all(good); _, b = read_all(bad)
assert len(g) == 1 and len(b) == 1
try:
    quiet(write_parameters, g + b, os.path.join(tmp, 'merged.txt'), select_format=('A', 0))
except ValueError as e:
    problems.append("write_parameters(good + bad) -> ValueError: %s" % e)

assert not problems, ("C10 'file / one result / list of results are interchangeable' fails: records read back "
                      "from one and the same fit file (value-identical metadata) are refused as a list, while the "
                      "file and each single record are accepted:\n  " + "\n  ".join(problems))
print("no violation")
