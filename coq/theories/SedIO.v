From Coq Require Import List Arith Lia Permutation Bool ZArith.
Import ListNotations.
From SedV Require Import Argsort SortRows.

(* SED.write / SED.read on one aperture row: wavelengths (as integer keys for the probe) and fluxes *)
Section SedIO.
Variable V : Type. Variable dV : V.
Notation K := Z.
Definition sortkey_leb := Z.leb.

(* write: the wavelength table is sorted by frequency, i.e. by decreasing wavelength; keys here = -wavelength *)
Definition order_of (wav : list K) : list nat := argsort K sortkey_leb 0%Z (map Z.opp wav).
Definition write_fixed (wav : list K) (flux : list V) : list K * list V :=
  (gather K 0%Z wav (order_of wav), gather V dV flux (order_of wav)).
Definition write_current (wav : list K) (flux : list V) : list K * list V :=
  (gather K 0%Z wav (order_of wav), flux).                       (* fluxes left in the caller's order *)

(* read: reverse everything along the spectral axis when the requested order is the other one *)
Definition read (reverse : bool) (f : list K * list V) : list K * list V :=
  if reverse then (rev (fst f), rev (snd f)) else f.

Definition cells (f : list K * list V) : list (K * V) := combine (fst f) (snd f).

Lemma combine_app {A B} (a1 a2 : list A) (b1 b2 : list B) : length a1 = length b1 ->
  combine (a1 ++ a2) (b1 ++ b2) = combine a1 b1 ++ combine a2 b2.
Proof. revert b1. induction a1 as [|x a1 IH]; intros [|y b1] H; simpl in *; try lia; [reflexivity|]. f_equal. apply IH. lia. Qed.

Lemma rev_combine {A B} (a : list A) (b : list B) : length a = length b -> combine (rev a) (rev b) = rev (combine a b).
Proof.
  revert b. induction a as [|x a IH]; intros [|y b] H; simpl in *; try lia; [reflexivity|].
  rewrite combine_app by (rewrite !rev_length; lia). rewrite IH by lia. reflexivity.
Qed.

Theorem C12_sed_cells wav flux reverse : length wav = length flux ->
  Permutation (cells (read reverse (write_fixed wav flux))) (combine wav flux).
Proof.
  intros Hl. unfold cells, read, write_fixed.
  assert (Hi : forall i, In i (order_of wav) -> i < length wav).
  { intros i Hi. unfold order_of in Hi. eapply Permutation_in in Hi; [|apply argsort_perm]. apply in_seq in Hi. rewrite map_length in Hi. lia. }
  assert (P : Permutation (order_of wav) (seq 0 (length (combine wav flux)))).
  { rewrite combine_length, <- Hl, Nat.min_id. unfold order_of. rewrite <- (map_length Z.opp wav). apply argsort_perm. }
  destruct reverse; simpl fst; simpl snd.
  - rewrite rev_combine by (unfold gather; rewrite !map_length; reflexivity).
    rewrite <- Permutation_rev. rewrite (gather_combine K V 0%Z dV wav flux _ Hl Hi). now apply gather_perm.
  - rewrite (gather_combine K V 0%Z dV wav flux _ Hl Hi). now apply gather_perm.
Qed.
End SedIO.

(* the current code attaches fluxes to the wrong wavelengths when the SED is given in increasing wavelength *)
Example C12_sed_write_refuted :
  cells Z (write_current Z [1; 2; 4]%Z [10; 20; 40]%Z) = [(4, 10); (2, 20); (1, 40)]%Z.
Proof. vm_compute. reflexivity. Qed.
Example C12_fixed_ok :
  cells Z (write_fixed Z 0%Z [1; 2; 4]%Z [10; 20; 40]%Z) = [(4, 40); (2, 20); (1, 10)]%Z.
Proof. vm_compute. reflexivity. Qed.
Print Assumptions C12_sed_cells.
