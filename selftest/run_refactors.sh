#!/bin/bash
# run_refactors.sh [ids...] — every behaviour-preserving rewrite in selftest/refactors/<id>/patch.diff against ALL quick checks;
# expected: no VIOLATION line at all (a broken proof obligation or correspondence on a harmless rewrite would be a false alarm).
cd /verif
ids=${@:-$(ls selftest/refactors)}
one() {
  g=$1; D=$(mktemp -d /tmp/sedref.XXXXXX)
  git -C /repo worktree add --detach "$D" HEAD >/dev/null 2>&1 || { echo "$g worktree failed"; return; }
  ( cd "$D" && git apply /verif/selftest/refactors/$g/patch.diff ) || { echo "$g STALE (patch does not apply)"; git -C /repo worktree remove --force "$D"; return; }
  for p in C01 C02 C03 C04 C05 C06 C07 C08 C09 C10 C11 C12 C13 C14 C15 C16 C17 C18 C19 C20; do
    VERIF_REPO="$D" ./check $p quick 2>&1 | grep -E "^VIOLATION" | head -2 | sed "s/^/$g $p: /"
  done
  git -C /repo worktree remove --force "$D"; rm -rf "$D"
  echo "$g done"
}
for g in $ids; do one $g & done; wait
