"""
C17 (results passed as object) and C18 (inputs given as a list of results).

A copy of a fit result is not a usable fit result: FitInfo.__getstate__ leaves
out .meta (model directory, filters, extinction law) and __setstate__ starts
from an empty FitInfoMeta, so copy.copy(info), copy.deepcopy(info) and
pickle.loads(pickle.dumps(info)) all return an object with the same fits but
without the information plot() and filter_output() need.  Both then raise
AttributeError where the statements promise curves / two output files.
"""
import sys, os, copy, pickle

# ---- helpers (a small cube package, a 4-band fit, curves vs predicted fluxes) ----
import os
import tempfile
import io
import contextlib
import numpy as np
import matplotlib
matplotlib.use('Agg')
from astropy import units as u
from astropy.table import Table


def make_package(d, names, n_ap=5, n_wav=30, seed=1):
    from sedfitter.sed import SEDCube
    rng = np.random.RandomState(seed)
    cube = SEDCube()
    cube.names = np.array(names)
    n_models = len(names)
    cube.distance = 1 * u.kpc
    cube.wav = np.logspace(-1, 2.5, n_wav) * u.micron
    cube.apertures = np.logspace(1.5, 5.5, n_ap) * u.au
    cube.val = np.cumsum(0.1 + rng.random_sample((n_models, n_ap, n_wav)), axis=1) * u.mJy
    cube.unc = cube.val * 0.01
    cube.write(os.path.join(d, 'flux.fits'))
    with open(os.path.join(d, 'models.conf'), 'w') as f:
        f.write("name = test\nlength_subdir = 0\naperture_dependent = yes\nlogd_step = 0.02\nversion = 2\n")
    t = Table()
    t['MODEL_NAME'] = np.array(cube.names, dtype='S')
    t['par1'] = rng.random_sample(n_models)
    t.write(os.path.join(d, 'parameters.fits'))
    return cube


def make_fit(names=('m000', 'm001', 'm002', 'm003', 'm004', 'm005'), fluxes=(1., 2., 2.5, 3.)):
    """Returns (fitter, info, extinction law): a 4-band fit at tabulated wavelengths."""
    from sedfitter.extinction import Extinction
    from sedfitter.fit import Fitter
    from sedfitter.source import Source
    d = tempfile.mkdtemp()
    cube = make_package(d, list(names))
    cw = np.sort(cube.wav.to(u.micron))
    filters = [cw[i] for i in (5, 12, 20, 25)]
    law = Extinction()
    law.wav = np.logspace(-2., 3., 60) * u.micron
    law.chi = law.wav.value ** -1.5 * u.cm ** 2 / u.g
    with contextlib.redirect_stdout(io.StringIO()):
        fitter = Fitter(filters, [1., 3., 3., 8.] * u.arcsec, d, extinction_law=law,
                        av_range=[0., 10.], distance_range=[0.5, 3.] * u.kpc, use_memmap=False)
    s = Source()
    s.name = 'src'
    s.x = 0.
    s.y = 0.
    s.valid = [1, 1, 1, 1]
    s.flux = list(fluxes)
    s.error = [0.1, 0.1, 0.1, 0.1]
    info = fitter.fit(s)
    return fitter, info, law


def worst_deviation(info, n_sel=3, sed_type='interp'):
    """Largest relative deviation |drawn / predicted - 1| over the selected fits
    and the fitted wavelengths (composite curve of the default display mode).
    The predicted flux is the one stored with the fit (log10 mJy), turned into
    nu F_nu; the rounded constants of plot.py (KPC = 3.086e21) are allowed for
    by the caller's tolerance."""
    from sedfitter.plot import plot
    figs = plot(info, select_format=('N', n_sel), sed_type=sed_type)
    segs = figs[info.source.name]['lines'].get_segments()
    wav = np.array([f['wav'].to(u.micron).value for f in info.meta.filters])
    n = min(n_sel, info.n_fits)
    assert len(segs) == n
    worst = 0.
    for k, i in enumerate(range(n - 1, -1, -1)):   # worst first, best last
        pred = 10. ** np.asarray(info.model_fluxes[i]) * 1e-26 * (299792458. / (wav * 1e-6))
        for j in range(len(wav)):
            idx = np.argmin(np.abs(np.log(segs[k][:, 0]) - np.log(wav[j])))
            worst = max(worst, abs(segs[k][idx, 1] / pred[j] - 1.))
    return worst

# ---- the test proper ----
from sedfitter.plot import plot
from sedfitter.filter_output import filter_output

fitter, info, law = make_fit()
assert worst_deviation(info) < 1e-3          # the original object is fine

problems = []
for label, clone in (('copy.copy', copy.copy(info)),
                     ('copy.deepcopy', copy.deepcopy(info)),
                     ('pickle round trip', pickle.loads(pickle.dumps(info)))):
    assert np.all(clone.chi2 == info.chi2) and np.all(clone.model_name == info.model_name)
    try:
        plot(clone, select_format=('N', 3))
    except Exception as exc:
        problems.append("plot(%s of a result): %s: %s" % (label, type(exc).__name__, exc))
    wd = tempfile.mkdtemp()
    try:
        filter_output([clone], output_good=os.path.join(wd, 'good'), output_bad=os.path.join(wd, 'bad'), chi=1.e9)
    except Exception as exc:
        problems.append("filter_output([%s of a result]): %s: %s" % (label, type(exc).__name__, exc))

assert not problems, (
    "C17/C18 violated for results passed as objects: a copy of a FitInfo silently loses its meta "
    "(model_dir, filters, extinction law): " + " | ".join(problems))
