import sys; sys.path.insert(0, 'hunt_out')
from common import *
from sedfitter import fit, Fitter
from sedfitter.fit_info import FitInfoFile
tmp = tempfile.mkdtemp()
md = os.path.join(tmp, 'm'); os.mkdir(md)
build(md, 2, True, n=7)
ext = extlaw()
lines = [
 "s1 0.0 0.0 1 1 1 0.2 0.1 1.3 0.2 1.5 0.3",
 "s2 1.0 2.0 1 0 1 0.2 0.05 1.2 0.1 1.8 0.3",
 "s4 1.0 2.0 1 4 9 0.2 0.05 -0.2 0.1 1.8 0.3",
 "s5 1.0 2.0 2 3 1 0.2 0.5 1.2 0.9 1.8 0.3",
]
filt = ['bob', 3.4 * u.micron, 'eve']; aps = [1., 3., 3.] * u.arcsec
kw = dict(extinction_law=ext, distance_range=[1., 2.] * u.kpc, av_range=[0., 0.1])
bad = 0; total = 0; kinds = {}
for nrec in (1, 2, 3, 4):
    for of in [('F', 1.), ('A', 0), ('N', 1), ('C', 1e-9)]:
        for oc in (False, True):
            df = os.path.join(tmp, 'd'); open(df, 'w').write("\n".join(lines[:nrec]) + "\n")
            out = os.path.join(tmp, 'o%d%s%d' % (nrec, of[0], oc))
            quiet(fit, df, filt, aps, md, out, n_data_min=1, output_format=of, output_convolved=oc, **kw)
            _, full = read_all(out)
            assert len(full) == nrec
            raw = open(out, 'rb').read()
            tf = os.path.join(tmp, 'trunc')
            for cut in range(len(raw)):
                open(tf, 'wb').write(raw[:cut])
                total += 1
                try:
                    f = FitInfoFile(tf, 'r')
                    got = list(f)
                    f.close()
                except Exception as e:
                    kinds[type(e).__name__] = kinds.get(type(e).__name__, 0) + 1
                    continue
                kinds['ok%d' % len(got)] = kinds.get('ok%d' % len(got), 0) + 1
                if len(got) > nrec or not all(info_eq(a, b) for a, b in zip(got, full)):
                    bad += 1; print("BAD", nrec, of, oc, cut)
print(total, bad, kinds)
