"""
C04 - "in every row the model name, model index, A_V, scale, chi^2 and predicted
fluxes belong to the same model" / "the predicted log10 fluxes stored with a row
equal that model's log10 fluxes plus A_V*k(lambda) and the distance scaling".

Input: a CUBE package (models.conf: version = 2, flux.fits + parameters.fits)
whose convolved/*.fits files list the same five models in different orders
(files made at different times).  For per-file packages (version 1) Models.read
matches the rows of the convolved files by model name (sort_to_match); the
reader of cube packages (Models._read_version_2) still combines them by
POSITION and takes the names from the last file.  Every model is then fitted
with the fluxes of other models in some bands, and the rows of the result mix
several models.
"""
import os, sys, io, tempfile, contextlib
import numpy as np
from astropy import units as u
from astropy.table import Table

from sedfitter.sed import SEDCube
from sedfitter.convolved_fluxes import ConvolvedFluxes
from sedfitter.extinction import Extinction
from sedfitter.source import Source
from sedfitter.fit import Fitter

rng = np.random.RandomState(1)
n = 5
names = np.array(['m%d' % i for i in range(n)])
d = tempfile.mkdtemp()

# --- the cube package ------------------------------------------------------
cube = SEDCube()
cube.names = names
cube.distance = 1 * u.kpc
cube.wav = np.logspace(-1, 2, 20) * u.micron
cube.apertures = None
cube.val = (1 + rng.random_sample((n, 1, 20))) * u.mJy
cube.unc = cube.val * 0.01
cube.write(d + '/flux.fits')
with open(d + '/models.conf', 'w') as f:
    f.write("name = test\nlength_subdir = 0\naperture_dependent = no\n"
            "logd_step = 0.02\nversion = 2\n")
t = Table()
t['MODEL_NAME'] = np.array(names, dtype='S')
t['par1'] = np.arange(n) * 1.
t.write(d + '/parameters.fits')

# --- convolved files: same models, same fluxes per model, different row order
os.mkdir(d + '/convolved')
wavs = [1., 3., 8.]
true_flux = 10 ** rng.uniform(0, 1, (n, 3))          # true_flux[i, j]: model i, band j (mJy)
orders = [np.arange(n), np.array([4, 3, 2, 1, 0]), np.array([2, 0, 1, 4, 3])]
for j, fn in enumerate(['f1', 'f2', 'f3']):
    c = ConvolvedFluxes()
    c.central_wavelength = wavs[j] * u.micron
    c.model_names = names[orders[j]]
    c.flux = true_flux[orders[j], j:j + 1] * u.mJy
    c.error = c.flux * 0.01
    c.write(d + '/convolved/' + fn + '.fits')

law = Extinction()
law.wav = np.logspace(-2., 3., 60) * u.micron
law.chi = law.wav.value ** -1.5 * u.cm ** 2 / u.g

with contextlib.redirect_stdout(io.StringIO()):
    fitter = Fitter(['f1', 'f2', 'f3'], [3., 3., 3.] * u.arcsec, d,
                    extinction_law=law, av_range=[0., 10.],
                    distance_range=[1., 2.] * u.kpc, use_memmap=False)

s = Source()
s.name = 'src'
s.x = 0.
s.y = 0.
s.valid = np.array([1, 1, 1])
s.flux = np.array([2., 3., 4.])
s.error = np.array([0.2, 0.3, 0.4])

info = fitter.fit(s)
k = law.get_av(np.array(wavs) * u.micron)

assert sorted(info.model_name) == sorted(names)
worst = 0.
for r in range(n):
    i = list(names).index(str(info.model_name[r]).strip())
    # the model's own log10 fluxes implied by the row
    implied = info.model_fluxes[r] - info.av[r] * k + 2. * info.sc[r]
    worst = max(worst, np.max(np.abs(implied - np.log10(true_flux[i]))))
    print("row %d  name=%s  implied fluxes [mJy]=%s   fluxes of %s in the package=%s"
          % (r, info.model_name[r], 10 ** implied, info.model_name[r], true_flux[i]))

assert worst < 1e-6, (
    "C04 violated for a cube package (version = 2) whose convolved files list the "
    "models in different orders: the predicted fluxes stored with a row are not "
    "(that model's log10 fluxes + A_V*k - 2*scale); largest difference %.3f dex. "
    "Models._read_version_2 combines the convolved files by row position and "
    "names the rows after the last file, so name / A_V / scale / chi^2 / fluxes of "
    "a row come from different models." % worst)
print("OK")
