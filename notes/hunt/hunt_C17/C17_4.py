"""C17 violation: plot() refuses a fit that the fitter accepted, because the aperture
is recomputed through 10**log10(d).

Fitter:  aperture_AU = arcsec * d.to(pc).value            (1 * 8000.  = 8000.0)
plot() :  aperture_AU = arcsec * 10**info.sc * 1000         (1 * 10**log10(8) * 1000 = 7999.999999999999)
When the smallest tabulated aperture of the cube is exactly the one needed (8000 AU for a
1" aperture at 8 kpc) the fit works but plot() raises "Aperture(s) requested too small" in the
display modes interp, largest+smallest and all."""
import os, io, sys, tempfile, contextlib
import numpy as np
import matplotlib
matplotlib.use('Agg')
from astropy import units as u
from sedfitter.sed import SEDCube
from sedfitter.extinction import Extinction
from sedfitter.source import Source
from sedfitter.fit import Fitter
from sedfitter.plot import plot

d = tempfile.mkdtemp()
rng = np.random.RandomState(1)
cube = SEDCube()
cube.names = np.array(['m%d' % i for i in range(4)])
cube.distance = 1 * u.kpc
cube.wav = np.logspace(-1, 3, 30) * u.micron
cube.apertures = np.array([8000., 16000., 1e5]) * u.au     # 1", 2", 12.5" at 8 kpc
cube.val = (np.cumsum(rng.random_sample((4, 3, 30)), axis=1) + 1) * u.mJy
cube.unc = cube.val * 0.01
cube.write(os.path.join(d, 'flux.fits'))
with open(os.path.join(d, 'models.conf'), 'w') as f:
    f.write("name = test\nlength_subdir = 0\naperture_dependent = yes\nlogd_step = 0.02\nversion = 2\n")

ext = Extinction()
ext.wav = np.logspace(-2, 4, 60) * u.micron
ext.chi = (ext.wav.value ** -1.5 * 100 + 1) * u.cm ** 2 / u.g

wavs = [cube.wav[i] for i in (5, 12, 20)]
with contextlib.redirect_stdout(io.StringIO()):
    fitter = Fitter(wavs, np.array([1., 2., 3.]) * u.arcsec, d, extinction_law=ext, av_range=(0., 10.),
                    distance_range=(8., 8.) * u.kpc)       # source at a known distance of 8 kpc
s = Source()
s.name = 'src'; s.x = 0.; s.y = 0.
s.valid = [1, 1, 1]; s.flux = [1.2, 3.4, 2.2]; s.error = [0.1, 0.3, 0.2]
info = fitter.fit(s)                                       # works
assert info.n_fits == 4 and np.all(np.isfinite(info.chi2))

failed = []
for mode, ncurves in [('interp', 1), ('largest', 1), ('largest+smallest', 2), ('all', 3)]:
    try:
        segs = plot(info, select_format=('N', 2), sed_type=mode)['src']['lines'].get_segments()
        assert len(segs) == 2 * ncurves
    except Exception as e:
        if 'too small' not in str(e):
            raise
        failed.append((mode, str(e)))
assert not failed, ("C17 'for every selected fit, plot() draws that model's SED' fails: the fit at 8 kpc with a 1\" aperture "
                    "succeeded (smallest cube aperture = 8000 AU = exactly 1\" x 8 kpc) but plot() refuses it because it "
                    "recomputes the aperture as 1 * 10**log10(8) * 1000 = %r AU < 8000: %r" % (1. * 10. ** info.sc[0] * 1000., failed))
