"""
C01 - with one very precise measurement the reported A_V is not the minimiser
(residual of the precision problem of the 2-parameter regression).

fitting_routines.linear_regression now orthogonalises the A_V pattern against
the scale pattern, but the right-hand side is still formed from the raw
residuals log10(F_obs) - log10(F_model).  For models that are not absolutely
scaled the residuals carry a large common offset (here ~38 dex, i.e. a scale
of ~ -19: model fluxes of order 1e-36 mJy), and

    np.sum(data * ortho1 * weights)

cancels that offset only up to rounding, i.e. up to
offset * eps * (largest weight) * |ortho1|, which with a weight ratio of 1e12
(one band known to 1e-7, the others to 10 %) is of the order of the whole sum.

Per-file package (double precision everywhere), 5 IRAC/MIPS-like bands, a
power-law extinction law, all flags 1, A_V range 0..10 (not clamping).
The exact optimum is computed in rational arithmetic from the very numbers the
fitter uses.
"""
import os
import io
import tempfile
import contextlib
from fractions import Fraction

import numpy as np
from astropy import units as u
from astropy.table import Table

from sedfitter.convolved_fluxes import ConvolvedFluxes
from sedfitter.extinction import Extinction
from sedfitter.fit import Fitter
from sedfitter.source import Source


def quiet(fn, *a, **k):
    with contextlib.redirect_stdout(io.StringIO()):
        return fn(*a, **k)


wavs = np.array([3.6, 4.5, 5.8, 8.0, 24.0])
names = ['star0', 'star1']
fluxes = np.array([[2.3, 4.1, 7.7, 3.2, 5.9],
                   [6.1, 1.4, 2.9, 8.3, 1.7]]) * 1.e-36       # mJy, all > 0

d = tempfile.mkdtemp()
os.mkdir(d + '/convolved')
for j, w_ in enumerate(wavs):
    c = ConvolvedFluxes()
    c.central_wavelength = w_ * u.micron
    c.model_names = np.array(names)
    c.apertures = None
    c.flux = fluxes[:, j:j + 1] * u.mJy
    c.error = c.flux * 0.01
    c.write(d + '/convolved/B%d.fits' % j)
with open(d + '/models.conf', 'w') as f:
    f.write("name = test\nlength_subdir = 0\naperture_dependent = no\nlogd_step = 0.02\n")
t = Table()
t['MODEL_NAME'] = np.array(names, dtype='S30')
t['par1'] = [0., 1.]
t.write(d + '/parameters.fits')

ext = Extinction()
ext.wav = np.logspace(-1, 2, 30) * u.micron
ext.chi = ext.wav.value ** -1.5 * u.cm ** 2 / u.g
k = np.asarray(ext.get_av(wavs * u.micron))
assert np.ptp(k) > 0.02          # the regression is not singular

fitter = quiet(Fitter, ['B%d' % j for j in range(5)], np.ones(5) * u.arcsec, d,
               extinction_law=ext, av_range=(0., 10.))


def exact_optimum(k, w, r):
    K = [Fraction(float(x)) for x in k]
    W = [Fraction(float(x)) for x in w]
    R = [Fraction(float(x)) for x in r]
    m11 = sum(a * a * c for a, c in zip(K, W))
    m12 = sum(-2 * a * c for a, c in zip(K, W))
    m22 = sum(4 * c for c in W)
    b1 = sum(a * c * e for a, c, e in zip(K, W, R))
    b2 = sum(-2 * c * e for c, e in zip(W, R))
    det = m11 * m22 - m12 * m12
    av0 = (b1 * m22 - b2 * m12) / det
    sc0 = (m11 * b2 - m12 * b1) / det

    def S(a, s):
        a = Fraction(float(a))
        s = Fraction(float(s))
        return float(sum(c * (e - a * kk + 2 * s) ** 2 for c, e, kk in zip(W, R, K)))
    return float(av0), float(sc0), S


rel = np.array([0.1, 0.1, 1.e-7, 0.1, 0.1])       # one band known to 1e-7
s = Source()
s.name = 'src'
s.x = 0.
s.y = 0.
s.valid = [1, 1, 1, 1, 1]
s.flux = np.array([204.331925, 405.477047, 730.007574, 284.413984, 618.588547])    # mJy
s.error = s.flux * rel
info = quiet(fitter.fit, s)
y = np.log10(s.flux) - 0.5 * (s.error / s.flux) ** 2 / np.log(10.)
w = (s.flux * np.log(10.) / s.error) ** 2
name = 'star0'
row = list(info.model_name).index(name)
av0, sc0, S = exact_optimum(k, w, y - np.log10(fluxes[names.index(name)]))
assert 0. < av0 < 10.            # the range does not clamp
av, sc, c2 = float(info.av[row]), float(info.sc[row]), float(info.chi2[row])
worst = (abs(av - av0), s.name, name, av, sc, c2, S(av, sc), av0, sc0, S(av0, sc0), s.flux.copy())

dav, sname, mname, av, sc, c2, Srep, av0, sc0, S0, flux = worst
print("source %s fluxes %s mJy, relative errors %s, model %s" % (sname, flux, rel, mname))
print("reported  A_V=%.6f scale=%.6f chi2=%.6f  S(reported)=%.6f" % (av, sc, c2, Srep))
print("optimum   A_V=%.6f scale=%.6f S=%.6f" % (av0, sc0, S0))
assert dav < 1.e-6 and Srep - S0 < 1.e-6, (
    "C01 violated (clause: the reported A_V and scale minimise the weighted sum): source %s with fluxes %s mJy and "
    "relative errors %s (all flags 1), model %s with fluxes of order 1e-36 mJy (> 0), A_V range 0..10: reported "
    "A_V=%.4f scale=%.4f (S=%.5f, chi2=%.5f) but the minimum S=%.5f is at A_V=%.4f scale=%.4f; A_V is off by %.3f mag"
    % (sname, flux, rel, mname, av, sc, Srep, c2, S0, av0, sc0, dav))
print("no violation")
