From Coq Require Import List Arith Lia Permutation Sorted Bool ZArith.
Import ListNotations.
From SedV Require Import Argsort.
Open Scope Z_scope.

(* keys are integers (order-preserving encodings of model names) *)
Definition K := Z.
Definition gatherK := gather K 0.
Definition argsortK := argsort K Z.leb 0.
Definition sortK (k : list K) : list K := gatherK k (argsortK k).

Lemma ssortedZ_unique (l1 l2 : list Z) :
  StronglySorted Z.lt l1 -> StronglySorted Z.lt l2 -> Permutation l1 l2 -> l1 = l2.
Proof.
  revert l2. induction l1 as [|a r IH]; intros l2 S1 S2 P.
  - now apply Permutation_nil in P.
  - destruct l2 as [|b r2]; [apply Permutation_sym, Permutation_nil in P; discriminate|].
    inversion S1 as [|? ? S1r F1]; inversion S2 as [|? ? S2r F2]; subst.
    assert (a = b).
    { assert (Ha : In a (b :: r2)) by (eapply Permutation_in; [exact P|now left]).
      assert (Hb : In b (a :: r)) by (eapply Permutation_in; [apply Permutation_sym; exact P|now left]).
      destruct Ha as [->|Ha]; [reflexivity|]. destruct Hb as [->|Hb]; [reflexivity|].
      rewrite Forall_forall in F1, F2. specialize (F1 _ Hb). specialize (F2 _ Ha). lia. }
    subst b. f_equal. apply IH; auto. now apply Permutation_cons_inv in P.
Qed.

(* sortK really sorts *)
Lemma ins_sortedK k i l :
  StronglySorted (fun a b => k a <= k b) l -> StronglySorted (fun a b => k a <= k b) (ins K Z.leb k i l).
Proof.
  induction 1 as [|j r S IH F]; simpl.
  - constructor; constructor.
  - destruct (Z.leb (k j) (k i)) eqn:E.
    + apply Z.leb_le in E. constructor; [exact IH|].
      apply Forall_forall. intros x Hx.
      eapply Permutation_in in Hx; [|apply ins_perm].
      destruct Hx as [<-|Hx]; [exact E|]. rewrite Forall_forall in F. now apply F.
    + apply Z.leb_gt in E. constructor; [constructor; assumption|].
      constructor; [lia|]. rewrite Forall_forall in F |- *. intros x Hx. specialize (F x Hx). lia.
Qed.
Lemma sortK_sorted k : StronglySorted Z.le (sortK k).
Proof.
  unfold sortK, gatherK, gather. apply ssorted_map.
  unfold argsortK, argsort. induction (seq 0 (length k)); simpl; [constructor|now apply ins_sortedK].
Qed.
Lemma sortK_perm k : Permutation (sortK k) k.
Proof. apply gather_perm, argsort_perm. Qed.

Lemma sorted_le_nodup_ltZ l : StronglySorted Z.le l -> NoDup l -> StronglySorted Z.lt l.
Proof.
  induction 1 as [|a r S IH F]; intros N; constructor.
  - apply IH. now inversion N.
  - inversion N as [|? ? Hn Hr]; subst. rewrite Forall_forall in F |- *. intros x Hx.
    specialize (F x Hx). assert (a <> x) by (intros ->; contradiction). lia.
Qed.

(* two lists with the same distinct keys sort to the same list *)
Lemma sortK_perm_eq a r : NoDup r -> Permutation a r -> sortK a = sortK r.
Proof.
  intros N P. apply ssortedZ_unique.
  - apply sorted_le_nodup_ltZ; [apply sortK_sorted|].
    eapply Permutation_NoDup; [apply Permutation_sym, sortK_perm|]. eapply Permutation_NoDup; [apply Permutation_sym; exact P|exact N].
  - apply sorted_le_nodup_ltZ; [apply sortK_sorted|]. eapply Permutation_NoDup; [apply Permutation_sym, sortK_perm|exact N].
  - rewrite sortK_perm, sortK_perm. exact P.
Qed.

(* utils/misc.py: order_to_match(array, reference) = argsort(array)[argsort(argsort(reference))] *)
Definition order_to_match (a r : list K) : list nat :=
  gather nat 0%nat (argsortK a) (argsortn (argsortK r)).

Lemma argsort_bound {A} leb (d : A) l i : In i (argsort A leb d l) -> (i < length l)%nat.
Proof. intros H. eapply Permutation_in in H; [|apply argsort_perm]. apply in_seq in H. lia. Qed.
Lemma argsort_length {A} leb (d : A) l : length (argsort A leb d l) = length l.
Proof. rewrite (Permutation_length (argsort_perm A leb d l)). apply seq_length. Qed.

Theorem C07_sort_to_match a r : NoDup r -> Permutation a r -> gatherK a (order_to_match a r) = r.
Proof.
  intros N P. unfold order_to_match, gatherK.
  change (gather nat 0%nat (argsortK a) (argsortn (argsortK r)))
    with (map (fun i => nth i (argsortK a) 0%nat) (argsortn (argsortK r))).
  rewrite <- (gather_gather K 0 a (argsortK a) (argsortn (argsortK r))).
  - fold (gatherK a (argsortK a)). fold (sortK a). rewrite (sortK_perm_eq a r N P).
    unfold sortK, gatherK, argsortK. apply (rank_of_rank K Z.leb 0 r).
  - intros i Hi. unfold argsortn in Hi. apply argsort_bound in Hi.
    unfold argsortK in *. rewrite !argsort_length in *. rewrite (Permutation_length P). exact Hi.
Qed.
Print Assumptions C07_sort_to_match.
