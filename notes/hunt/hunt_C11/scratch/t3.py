import itertools, os, tempfile, warnings
import numpy as np
from astropy import units as u
from sedfitter.sed import SED, SEDCube
from sedfitter.convolved_fluxes import ConvolvedFluxes

tmp = tempfile.mkdtemp()
rng = np.random.default_rng(1)
units = [u.mJy, u.Jy, u.erg/u.cm**2/u.s, u.erg/u.s]
k = 0
bad = []
for n_mod, n_ap, fu, with_ap, with_err, apu in itertools.product([1,2,3,6],[1,2,3,5],units,[True,False],[True,False],[u.au,u.pc,u.cm]):
    if not with_ap and n_ap != 1: continue
    c = ConvolvedFluxes()
    c.model_names = np.array(['m%i'%i for i in range(n_mod)][::-1])
    c.central_wavelength = 3.3*u.micron
    if with_ap: c.apertures = np.sort(rng.uniform(10,1000,n_ap))*apu
    c.flux = rng.uniform(1,2,(n_mod,n_ap))*fu
    if with_err: c.error = rng.uniform(0.1,0.2,(n_mod,n_ap))*fu
    k += 1
    fn = os.path.join(tmp, 's%i.fits'%k)
    cfg = (n_mod,n_ap,str(fu),with_ap,with_err,str(apu))
    try:
        c.write(fn)
    except Exception as e:
        bad.append(('write', cfg, repr(e))); continue
    try:
        r = ConvolvedFluxes.read(fn)
    except Exception as e:
        bad.append(('read', cfg, repr(e))); continue
    try:
      ok = (r.flux.shape == c.flux.shape and np.allclose(r.flux.to(fu).value, c.flux.value, rtol=1e-12) and list(np.char.strip(r.model_names))==list(c.model_names)
        and ((with_ap and np.allclose(r.apertures.to(apu).value, c.apertures.value)) or (not with_ap and r.apertures is None))
        and ((not with_err and r.error is None) or np.allclose(r.error.to(fu).value, c.error.value, rtol=1e-12)))
    except Exception as e:
        bad.append(('cmp', cfg, repr(e))); continue
    if not ok:
        bad.append(('mismatch', cfg, r.flux.shape, r.flux.unit))
print(k, len(bad))
for b in bad[:40]: print(b)
