"""C06, main clause (bins bounded by midpoints between adjacent SED frequencies
*of that SED*) for a per-file package whose SED files store the frequencies as
32-bit floats (FITS format 'E', as the published per-file packages do).

convolve_model_dir re-bins the filters only when the frequency grid of the
current SED differs from the previous one by more than 100 ULP *of the stored
dtype*.  For float32 columns 100 ULP is a relative 6e-6, i.e. 40 % of the bin
width of the (legal, 40-point, finely sampled) grids below.  Model 'b' is
therefore convolved with the R_i of model 'a' and its flux is off by 1.5 %.
"""
import os
import tempfile

import numpy as np
from astropy import units as u
from astropy.io import fits
from astropy.table import Table

from sedfitter.filter import Filter
from sedfitter.convolve import convolve_model_dir
from sedfitter.convolved_fluxes import ConvolvedFluxes

c = 299792458.


def write_sed(path, name, nu_hz, flux_mjy, err_mjy):
    hdu0 = fits.PrimaryHDU()
    hdu0.header['MODEL'] = name
    n = len(nu_hz)
    hdu1 = fits.BinTableHDU.from_columns([
        fits.Column(name='WAVELENGTH', format='E', array=c / nu_hz * 1e6, unit='um'),
        fits.Column(name='FREQUENCY', format='E', array=nu_hz, unit='Hz')])
    hdu1.name = 'WAVELENGTHS'
    hdu2 = fits.BinTableHDU.from_columns([fits.Column(name='APERTURE', format='D', array=np.array([100.]), unit='AU')])
    hdu2.name = 'APERTURES'
    hdu3 = fits.BinTableHDU.from_columns([
        fits.Column(name='TOTAL_FLUX', format='%dE' % n, array=flux_mjy[None, :], unit='mJy'),
        fits.Column(name='TOTAL_FLUX_ERR', format='%dE' % n, array=err_mjy[None, :], unit='mJy')])
    hdu3.name = 'SEDS'
    fits.HDUList([hdu0, hdu1, hdu2, hdu3]).writeto(path)


d = tempfile.mkdtemp()
os.mkdir(os.path.join(d, 'seds'))

base = np.float32(1e14)
ulp = float(np.spacing(base))          # 8388608 Hz
n = 40
nu_a = float(base) + np.arange(n) * 150 * ulp     # all exactly representable in float32
nu_b = nu_a + 60 * ulp                            # a different grid, also exact in float32
assert np.all(nu_a.astype(np.float32) == nu_a) and np.all(nu_b.astype(np.float32) == nu_b)
assert np.all(nu_a != nu_b)

flux = np.where(np.arange(n) % 2 == 0, 1., 3.)     # same flux values on both grids
err = 0.1 * flux
write_sed(os.path.join(d, 'seds', 'a_sed.fits'), 'a', nu_a, flux, err)
write_sed(os.path.join(d, 'seds', 'b_sed.fits'), 'b', nu_b, flux, err)

with open(os.path.join(d, 'models.conf'), 'w') as f:
    f.write("name = test\nlength_subdir = 0\naperture_dependent = no\nlogd_step = 0.02\n")
t = Table()
t['MODEL_NAME'] = np.array(['a', 'b'], dtype='S30')
t['par1'] = [1., 2.]
t.write(os.path.join(d, 'parameters.fits'))

# a normalised box-like filter well inside both grids
fnu = np.array([nu_a[3], nu_a[3] + 1., nu_a[30], nu_a[30] + 1.])
filt = Filter(name='F', central_wavelength=3 * u.micron, nu=fnu * u.Hz, response=np.array([0., 1., 1., 0.]))
filt.normalize()

convolve_model_dir(d, [filt])
got = ConvolvedFluxes.read(os.path.join(d, 'convolved', 'F.fits'))
assert list(np.char.strip(got.model_names)) == ['a', 'b']

msgs = []
for row, nu in enumerate([nu_a, nu_b]):
    R = filt.rebin(nu * u.Hz).response       # the R_i of the statement for THIS model's grid
    exp = np.sum(flux * R)
    val = got.flux[row, 0].to(u.mJy).value
    print("model %s: convolved flux %.8f, sum_i F_i R_i on its own grid %.8f" % ('ab'[row], val, exp))
    if abs(val - exp) > 1e-5 * exp:
        msgs.append("model %s: got %.8f, expected %.8f (rel. error %.2e)" % ('ab'[row], val, exp, abs(val - exp) / exp))

assert not msgs, ("C06 main clause violated: in a per-file package with float32 FREQUENCY columns, a model whose grid "
                  "differs from the previous model's grid by <= 100 float32 ULP is convolved with the previous model's "
                  "bins (filters not re-binned): " + "; ".join(msgs))
print("no violation")
