import os, sys, tempfile
import numpy as np
from astropy import units as u
sys.path.insert(0, os.path.dirname(__file__))
from _lib import *
from sedfitter.filter import Filter
from sedfitter.convolve import convolve_model_dir
tmp = tempfile.mkdtemp()
nu = np.linspace(1e13, 3e13, 10)
write_sed_raw(os.path.join(tmp, 'seds', 'a_sed.fits'), 'a', nu, np.ones((1, 10)), np.ones((1, 10)) * 0.1, [100.])
write_conf(tmp, 1); write_params(tmp, ['a'])
F = Filter(name='X', central_wavelength=15 * u.micron, nu=np.linspace(1.5e13, 2.5e13, 5) * u.Hz, response=np.ones(5)); F.normalize()
convolve_model_dir(tmp, [F])
print("OK")
