import sys, itertools
sys.path.insert(0, '/tmp/hunt3_C03/hunt_out')
from _common import *
from sedfitter.fit import Fitter
rng = np.random.default_rng(2)
nm, nf = 10, 5
names = ['m%03d' % i for i in range(nm)]
wavs = [0.5, 1.2, 3.6, 8.0, 24.]
fn = ['f%d' % i for i in range(nf)]
fl_ind = 10 ** rng.uniform(-1, 2, (nm, 1, nf))
d1 = write_v1(names, fl_ind, wavs, fn)
ext = extinction()
avr = [0., 3.]
F1 = quiet(Fitter, fn, [3.] * nf * u.arcsec, d1, extinction_law=ext, av_range=avr)
avl = F1.av_law
L = np.log10(fl_ind[:, 0, :])
worst = 0
for n in range(2, 6):
    for flags in itertools.product([0, 1, 2, 3, 4, 9], repeat=n):
        flags = np.array(flags)
        if np.sum((flags == 1) | (flags == 4)) < 2: continue
        full = np.zeros(nf, dtype=int); full[:n] = flags
        full = full[rng.permutation(nf)]
        flux = 10 ** rng.uniform(-1, 2, nf); err = flux * rng.uniform(0.02, 0.3, nf)
        lim = (full == 2) | (full == 3)
        err[lim] = rng.choice([0., 1., rng.uniform(0.01, 0.99)], size=lim.sum())
        f4 = full == 4
        lf = np.log10(flux) - 0.5 * (err / flux) ** 2 / np.log(10); le = np.abs(err / flux) / np.log(10)
        fl = flux.copy(); er = err.copy(); fl[f4] = lf[f4]; er[f4] = le[f4]
        s = mksource(full, fl, er)
        r = result_dict(F1.fit(s))
        fit = (full == 1) | (full == 4)
        for i, nme in enumerate(names):
            y = (lf - L[i])[fit]; w = 1 / le[fit] ** 2
            A = np.stack([avl[fit], -2 * np.ones(fit.sum())], axis=1)
            sw = np.sqrt(w)
            sol = np.linalg.lstsq(A * sw[:, None], y * sw, rcond=None)[0]
            av, sc = sol
            if av < avr[0] or av > avr[1]:
                av = min(max(av, avr[0]), avr[1])
                sc = np.sum((y - av * avl[fit]) * (-2) * w) / np.sum(4 * w)
            model = L[i] + av * avl - 2 * sc
            chi = np.sum(((lf - model) ** 2 / le ** 2)[fit])
            for j in np.where(lim)[0]:
                lj = np.log10(flux[j])
                viol = model[j] < lj if full[j] == 2 else model[j] > lj
                if viol:
                    chi += 1e30 if err[j] == 1 else -2 * np.log(1 - err[j])
            a, sc_, c = r[nme]
            dd = max(abs(a - av), abs(sc_ - sc), abs(c - chi) / max(1, abs(chi)))
            if dd > worst:
                worst = dd
                if dd > 1e-8: print(full, err, nme, (a, sc_, c), (av, sc, chi))
print("worst", worst)
