import sys; sys.path.insert(0,'hunt_out')
from harness import *
np.seterr(all='ignore')
rng=np.random.RandomState(7)
d=tempfile.mkdtemp()
nf=5; nmod=15; nap=12
os.makedirs(os.path.join(d,'convolved'))
names=np.array(['m%03d'%i for i in range(nmod)])
wavs=[0.5,1.2,3.6,8.,24.]
aps=np.logspace(1,6,nap)
for k in range(nf):
    c=ConvolvedFluxes(); c.central_wavelength=wavs[k]*u.micron; c.model_names=names; c.apertures=aps*u.au
    R=10**rng.uniform(2,5,nmod)
    tot=rng.uniform(1,50,nmod)
    fl=tot[:,None]*np.minimum(aps[None,:]/R[:,None],1)**2 + 0.01*tot[:,None]*(aps[None,:]/1e6)
    c.flux=fl*u.mJy; c.error=c.flux*0.01
    c.write(os.path.join(d,'convolved','f%d.fits'%k))
open(os.path.join(d,'models.conf'),'w').write("name = test\nlength_subdir = 0\naperture_dependent = yes\nlogd_step = 0.05\n")
filt=['f%d'%k for k in range(nf)]
F=Fitter(filt, [1.,3.,0.5,10,30]*u.arcsec, d, extinction_law=ext(), av_range=[0.,10.], distance_range=[0.05,3.]*u.kpc, remove_resolved=True)
e=F.models.extended
print(e.shape, e.sum(axis=(0,1)), e.mean())
def out(s):
    i=F.fit(s)
    o=np.argsort(i.model_id)
    return i.av[o], i.sc[o], i.chi2[o], i.model_fluxes[o]
n=5; nbad=0
for flags in itertools.product([0,1,2,3,4,9], repeat=n):
    flags=np.array(flags)
    fit=(flags==1)|(flags==4)
    if not fit.any(): continue
    flux=rng.uniform(0.5,40,n); err=flux*rng.uniform(0.02,0.3,n)
    lim=(flags==2)|(flags==3)
    err[lim]=rng.choice([0,0.3,0.9,1.0],lim.sum())
    f4=flags==4
    lf=np.log10(flux)-0.5*(err/flux)**2/np.log(10); le=np.abs(err/flux)/np.log(10)
    fl=flux.copy(); er=err.copy(); fl[f4]=lf[f4]; er[f4]=le[f4]
    base=out(src(flags,fl,er))
    un=(flags==0)|(flags==9)
    for junk in [np.nan,-5.,0.]:
        fl2=fl.copy(); er2=er.copy(); fl2[un]=junk; er2[un]=junk
        o2=out(src(flags,fl2,er2))
        if not all(np.array_equal(a,b,equal_nan=True) for a,b in zip(base,o2)):
            nbad+=1; print('JUNK',flags,junk)
    # dropping 0/9 bands entirely == refit with a fitter on fewer filters? skip; instead change flag 0<->9
    fl5=flags.copy(); fl5[flags==0]=9; fl5[flags==9]=0
    o5=out(src(fl5,np.where(un,3.,fl),np.where(un,.3,er)))
    if not all(np.array_equal(a,b,equal_nan=True) for a,b in zip(base,o5)):
        nbad+=1; print('SWAP09',flags)
    if lim.any():
        er4=er.copy(); er4[lim]=0
        flags4=flags.copy(); flags4[lim]=0
        a=out(src(flags,fl,er4)); b=out(src(flags4,fl,er4))
        if not all(np.array_equal(x,y,equal_nan=True) for x,y in zip(a,b)):
            nbad+=1; print('C0',flags)
    av,sc,chi2,mf=base
    w=np.zeros(n); w[fit]=1/le[fit]**2
    logdata=np.where(fit, lf, np.log10(flux))
    exp=np.sum(((logdata-mf)**2*w)[:,fit],axis=1)
    for j in np.where(lim)[0]:
        viol=(mf[:,j]<logdata[j]) if flags[j]==2 else (mf[:,j]>logdata[j])
        pen=-2*np.log(1-err[j]) if err[j]<1 else 1e30
        exp=exp+np.where(viol,pen,0)
    ok=np.isclose(chi2,exp,rtol=1e-9,atol=1e-9)|np.isinf(chi2)
    if not ok.all():
        nbad+=1; print('LIM',flags,chi2,exp)
print('nbad',nbad)
