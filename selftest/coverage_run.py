"""Which lines of sedfitter do the quick-tier implementation runs execute?  (blind spots of the generators)
usage: PYTHONPATH=/repo:/verif/harness /venv/bin/python selftest/coverage_run.py [seed]   -> prints per-file missing lines"""
import importlib
import io
import contextlib
import os
import sys
import tempfile
import coverage

sys.path.insert(0, os.path.join(os.path.dirname(os.path.abspath(__file__)), '..', 'harness'))
seed = int(sys.argv[1]) if len(sys.argv) > 1 else 1
scratch = tempfile.mkdtemp(prefix='sedcov.')
tempfile.tempdir = scratch
cov = coverage.Coverage(data_file=os.path.join(scratch, '.coverage'), source=['sedfitter'], omit=['*/tests/*', '*/extern/*'])
cov.start()
import sedfitter  # noqa
for k in range(1, 21):
    mod = importlib.import_module('c%02d' % k)
    cases = mod.generate('quick', seed)
    n = 0
    for c in cases[:400]:
        try:
            with contextlib.redirect_stdout(io.StringIO()):
                mod.impl(c)
            n += 1
        except Exception:
            pass
    sys.stderr.write('C%02d: %d cases run\n' % (k, n))
cov.stop()
cov.save()
cov.report(show_missing=True, file=sys.stdout, skip_covered=False)
import shutil
shutil.rmtree(scratch, ignore_errors=True)
