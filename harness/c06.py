"""C06 — Filter.normalize / Filter.rebin / integrate_subset and the broadband sums against ConvolveM and the
exact-integral clauses."""
import math
import os
import tempfile
from fractions import Fraction

from common import Rng, F, close

PROP = 'C06'
MODEL_OPS = 'ConvolveM.rebin_m (isub_full / Isub.isub_m / Rebin.nu1,nu2), normalize_m, conv_m, conv_var_m'
RULE = ('filters with 2-60 samples (irregular spacing, zero / non-zero edges, stored in increasing or decreasing frequency; built in memory or read by Filter.read '
        'from a two-column wavelength/response text file) re-binned onto SED grids with 2-80 frequencies (either order; coarser / finer; disjoint, partial, full overlap; '
        'bin edges placed exactly on filter end points and nodes); values on a dyadic grid. Compared: every R_i, sum R_i, flux = sum F_i R_i for random / flat / '
        'combined spectra, error^2; in-memory filters share their response array with a second band that is normalised afterwards. non-trivial = the SED range overlaps the filter range in more than a point.')
EXHAUSTIVE = {'quick': False, 'thorough': False}
ASSUMPTIONS = ['float rounding: R_i compared with tolerance 1e-9 of the larger of the largest |R_i| and the integral of |response| over the whole filter (exact cancellation of large antiderivative values is not reproduced by floats)',
               'Filter.read: the frequencies astropy derives from the wavelengths are taken from the implementation (text parsing and c/lambda are oracles)']


def _grid(rng, n, lo, hi):
    xs, bits, tries = set(), 10, 0
    while len(xs) < n:
        xs.add(rng.dyadic(lo, hi, bits))
        tries += 1
        if tries > 20 * n:       # a narrow range holds few 10-bit values: refine instead of drawing forever
            bits, tries = bits + 2, 0
    return sorted(xs)


def generate(tier, seed):
    rng = Rng(seed * 86028121 + 6)
    cases = []
    for k in range(300 if tier == 'quick' else 5000):
        nf = rng.choice([2, 3, 4, 5, 8, 15, 30, 60])
        flo = rng.choice([1.0, 8.0, 100.0])
        fhi = flo * rng.choice([1.5, 2.0, 4.0])
        fnu = _grid(rng, nf, flo, fhi)
        resp = [rng.choice([0.0, rng.dyadic(0.0, 4.0, 8), rng.dyadic(0.0, 4.0, 8)]) for _ in fnu]
        if rng.random() < 0.5:
            resp[0] = 0.0
            resp[-1] = 0.0
        if max(resp) == 0.0:
            resp[len(resp) // 2] = 1.5
        ns = rng.choice([2, 3, 4, 6, 10, 20, 40, 80])
        kind = rng.choice(['cover', 'cover', 'partial_lo', 'partial_hi', 'inside', 'disjoint', 'touch'])
        w = fhi - flo
        if kind == 'cover':
            slo, shi = flo - w * rng.dyadic(0.1, 1, 6), fhi + w * rng.dyadic(0.1, 1, 6)
        elif kind == 'partial_lo':
            slo, shi = flo - w * rng.dyadic(0.1, 1, 6), flo + w * rng.dyadic(0.2, 0.8, 6)
        elif kind == 'partial_hi':
            slo, shi = flo + w * rng.dyadic(0.2, 0.8, 6), fhi + w * rng.dyadic(0.1, 1, 6)
        elif kind == 'inside':
            slo, shi = flo + w * rng.dyadic(0.05, 0.4, 6), fhi - w * rng.dyadic(0.05, 0.4, 6)
        elif kind == 'disjoint':
            slo, shi = fhi + w * 0.5, fhi + w * 2
        else:
            slo, shi = fhi, fhi + w
        snu = _grid(rng, ns, max(slo, flo * 0.01), shi)
        # place some SED frequencies / bin edges exactly on filter nodes and end points
        if rng.random() < 0.5 and kind != 'disjoint':
            picks = [rng.choice(fnu) for _ in range(rng.randint(1, 3))] + rng.choice([[], [fnu[0]], [fnu[-1]], [fnu[0], fnu[-1]]])
            snu = sorted(set(snu[:max(2, ns - len(picks))] + picks))
        if rng.random() < 0.25 and len(snu) >= 3 and kind != 'disjoint':
            # make a midpoint between two SED frequencies fall exactly on a filter node
            node = rng.choice(fnu)
            dlt = rng.dyadic(0.01, 0.2, 6) * w
            snu = sorted(set([x for x in snu if abs(x - node) > dlt * 1.5] + [node - dlt, node + dlt]))
        flux = [rng.dyadic(0.0, 8.0, 8) for _ in snu]
        flux2 = [rng.dyadic(0.0, 8.0, 8) for _ in snu]
        err = [rng.dyadic(0.0, 1.0, 8) for _ in snu]
        snu2 = None
        if k % 4 == 2 and len(snu) >= 3 and kind != 'disjoint':
            # a second SED grid of the same size and end points but other interior points (a per-file package holds SEDs on several grids)
            mid = set()
            tries = 0
            while len(mid) < len(snu) - 2 and tries < 2000:
                x = rng.dyadic(snu[0], snu[-1], 14)
                tries += 1
                if snu[0] < x < snu[-1]:
                    mid.add(x)
            if len(mid) == len(snu) - 2:
                snu2 = [snu[0]] + sorted(mid) + [snu[-1]]
        cases.append(dict(rebin_first=(k % 3 == 1), snu2=snu2, fnu=fnu, resp=resp, forder=rng.choice(['incr', 'decr']), source=rng.choice(['memory', 'memory', 'file']),
                          snu=snu, sorder=rng.choice(['incr', 'decr']), flux=flux, flux2=flux2, err=err, alpha=rng.dyadic(-2, 2, 4), beta=rng.dyadic(-2, 2, 4),
                          const=rng.dyadic(0.5, 5, 6), kind=kind, normalize=rng.random() < 0.5))
    return cases


def _ordered(v, order):
    return list(v) if order == 'incr' else list(reversed(v))


def impl(case):
    import numpy as np
    from astropy import units as u
    from sedfitter.filter import Filter
    fnu, resp = _ordered(case['fnu'], case['forder']), _ordered(case['resp'], case['forder'])
    if case['source'] == 'file':
        c = 299792458.0
        with tempfile.TemporaryDirectory() as d:
            p = os.path.join(d, 'FX.txt')
            with open(p, 'w') as f:
                f.write('# wav = 1.25\n')
                for nu, r in zip(fnu, resp):
                    f.write('%s %s\n' % (repr(c / nu * 1e6), repr(r)))     # wavelength in micron
            filt = Filter.read(p)
        twin = None
    else:
        # two bands built from ONE response array (e.g. the same top-hat profile for several filters), as user code does
        shared = np.array(resp)
        filt = Filter(name='FX', central_wavelength=1.25 * u.micron, nu=np.array(fnu) * u.Hz, response=shared)
        twin = Filter(name='TW', central_wavelength=0.4 * u.micron, nu=np.array(fnu) * 3.0 * u.Hz, response=shared)
    used_nu = [float(x) for x in filt.nu.to(u.Hz).value]
    used_resp = [float(x) for x in filt.response]
    if case.get('rebin_first'):
        # the filter is used once before it is normalised / before its response is replaced: later re-binning must follow the current response
        filt.rebin(np.array(_ordered(case['snu'], case['sorder'])) * u.Hz)
        if not case['normalize']:
            filt.response = np.array(filt.response) * 1.0
    if case['normalize']:
        filt.normalize()
        if twin is not None:
            twin.normalize()        # normalising the other band must leave this one as it is
    norm_resp = [float(x) for x in filt.response]
    snu = _ordered(case['snu'], case['sorder'])
    binned = filt.rebin(np.array(snu) * u.Hz)
    R = np.array(binned.response, dtype=float)
    fl, fl2, er = (np.array(_ordered(case[k], case['sorder'])) for k in ('flux', 'flux2', 'err'))
    dirrows = None
    if case.get('snu2'):
        # the same sums as written by convolve_model_dir for a per-file package whose SEDs sit on two different grids
        from astropy.table import Table
        from sedfitter.sed import SED
        from sedfitter.convolve import convolve_model_dir
        from sedfitter.convolved_fluxes import ConvolvedFluxes
        grids = {'sa': (case['snu'], case['flux']), 'sb': (case['snu'], case['flux2']), 'sc': (case['snu2'], case['flux'])}
        with tempfile.TemporaryDirectory() as d:
            os.mkdir(os.path.join(d, 'seds'))
            with open(os.path.join(d, 'models.conf'), 'w') as f:
                f.write("name = test\nlength_subdir = 0\naperture_dependent = no\nlogd_step = 0.02\n")
            t = Table()
            t['MODEL_NAME'] = np.array(['sb', 'sc', 'sa'], dtype='S30')
            t['par1'] = np.array([1.0, 2.0, 3.0])
            t.write(os.path.join(d, 'parameters.fits'))
            for nme, (g, fx) in grids.items():
                sd = SED()
                sd.name = nme
                sd.distance = 1.0 * u.kpc
                sd.nu = np.array(_ordered(g, case['sorder'])) * u.Hz
                sd.wav = sd.nu.to(u.micron, equivalencies=u.spectral())
                sd.apertures = None
                sd.flux = np.array([_ordered(fx, case['sorder'])]) * u.mJy
                sd.error = np.array([_ordered(case['err'], case['sorder'])]) * u.mJy
                sd.write(os.path.join(d, 'seds', nme + '_sed.fits'))
            convolve_model_dir(d, [filt])
            cf = ConvolvedFluxes.read(os.path.join(d, 'convolved', 'FX.fits'))
            nm_ = [(x.decode() if isinstance(x, bytes) else str(x)).strip() for x in cf.model_names]
            dirrows = {n: [float(cf.flux.to(u.mJy).value[i][0]), float(cf.error.to(u.mJy).value[i][0])] for i, n in enumerate(nm_)}
    return dict(dirrows=dirrows, nu=used_nu, resp=used_resp, norm=norm_resp, R=[float(x) for x in R],
                conv=float(np.sum(fl * R)), conv2=float(np.sum(fl2 * R)), conv_comb=float(np.sum((case['alpha'] * fl + case['beta'] * fl2) * R)),
                conv_flat=float(np.sum(np.full(len(R), case['const']) * R)), var=float(np.sum((er * R) ** 2)))


MODEL_NEEDS_IMPL = True


def model_requests(case, im):
    if not isinstance(im, dict) or 'nu' not in im:
        return []
    raw = [[F(a), F(b)] for a, b in zip(im['nu'], im['resp'])]
    snu = [F(x) for x in _ordered(case['snu'], case['sorder'])]
    reqs = [('normalize', [raw])]
    filt = [[F(a), F(b)] for a, b in zip(im['nu'], im['norm'])]     # the (possibly normalised) filter the implementation re-bins
    reqs.append(('rebin', [filt, snu]))
    if case.get('snu2'):
        reqs.append(('rebin', [filt, [F(x) for x in _ordered(case['snu2'], case['sorder'])]]))
    return reqs


def _G(pts, t):
    """exact integral of the piecewise-linear function from the first node to t (nodes increasing)"""
    tot = Fraction(0)
    for (x0, y0), (x1, y1) in zip(pts, pts[1:]):
        if t <= x0:
            break
        hi = min(t, x1)
        yh = y0 + (hi - x0) * (y1 - y0) / (x1 - x0)
        tot += (hi - x0) * (y0 + yh) / 2
    return tot


def judge(case, im, mo):
    tags = ['kind=' + case['kind'], 'forder=' + case['forder'], 'sorder=' + case['sorder'], 'source=' + case['source'], 'norm=%s' % case['normalize']]
    if 'exc' in im:
        return dict(disagree=['implementation raised ' + im['msg']], fail=['raised: %s' % im['msg']], nontrivial=False, tags=tags + ['raised'])
    if any(isinstance(m, tuple) for m in mo):
        return dict(disagree=['driver %r' % ([m for m in mo if isinstance(m, tuple)][:1],)], fail=[], nontrivial=False)
    disagree, fail = [], []
    mnorm, mR = mo[0], mo[1]
    pts = sorted((F(a), F(b)) for a, b in zip(im['nu'], im['norm']))
    # absolute tolerance: 1e-9 of the larger of the largest |R_i| and the filter's whole integral of |response| (an SED bin that only
    # touches the filter where its response vanishes collects rounding noise ~1e-30 from frequencies derived as c / lambda)
    whole = sum((x1 - x0) * (abs(y0) + abs(y1)) / 2 for (x0, y0), (x1, y1) in zip(pts, pts[1:]))
    scale = max([abs(x) for x in mR] + [whole, Fraction(1, 10 ** 30)])
    tol = scale * Fraction(1, 10 ** 9)
    if case['normalize']:
        for a, b in zip(im['norm'], mnorm):
            if not close(a, b, 1e-12, 0):
                disagree.append('normalised response %r vs model %r' % (a, float(b)))
                break
        # property: the normalised filter integrates to 1
        tot = _G(pts, pts[-1][0])
        if abs(tot - 1) > Fraction(1, 10 ** 10):
            fail.append('normalize: the normalised response integrates to %r' % float(tot))
    # ---- correspondence: every R_i
    for i, (a, b) in enumerate(zip(im['R'], mR)):
        if abs(F(a) - b) > tol:
            disagree.append('R[%d]: implementation %r, model %r' % (i, a, float(b)))
            break
    # ---- property: R_i = exact integral over the bin, evaluated independently
    snu = [F(x) for x in _ordered(case['snu'], case['sorder'])]
    fmin, fmax = pts[0][0], pts[-1][0]
    n = len(snu)
    total = Fraction(0)
    for i in range(n):
        e1 = snu[0] if i == 0 else (snu[i - 1] + snu[i]) / 2
        e2 = snu[-1] if i == n - 1 else (snu[i] + snu[i + 1]) / 2
        e1, e2 = min(max(e1, fmin), fmax), min(max(e2, fmin), fmax)
        want = abs(_G(pts, e2) - _G(pts, e1))
        total += want
        if abs(F(im['R'][i]) - want) > tol:
            fail.append('bins: R[%d]=%r, the integral of the response over the bin [%r, %r] is %r' % (i, im['R'][i], float(min(e1, e2)), float(max(e1, e2)), float(want)))
            break
    lo, hi = min(max(min(snu), fmin), fmax), min(max(max(snu), fmin), fmax)
    overlap = _G(pts, hi) - _G(pts, lo)
    if abs(sum(F(x) for x in im['R']) - overlap) > tol * n:
        fail.append('sum: sum R_i = %r, the filter integrates to %r over the overlap' % (float(sum(F(x) for x in im['R'])), float(overlap)))
    # flat spectrum, linearity, quadrature (relations between implementation numbers)
    sR = sum(F(x) for x in im['R'])
    ft = float(scale) * 1e-9 * n * 10
    if abs(im['conv_flat'] - case['const'] * float(sR)) > ft * max(1.0, case['const']):
        fail.append('flat: flat spectrum c=%r gives %r, c * sum R_i = %r' % (case['const'], im['conv_flat'], case['const'] * float(sR)))
    if abs(im['conv_comb'] - (case['alpha'] * im['conv'] + case['beta'] * im['conv2'])) > ft * 40:
        fail.append('linear: conv(aF+bF\') = %r, a conv(F) + b conv(F\') = %r' % (im['conv_comb'], case['alpha'] * im['conv'] + case['beta'] * im['conv2']))
    fl, er = _ordered(case['flux'], case['sorder']), _ordered(case['err'], case['sorder'])
    wantc = sum(F(a) * F(r) for a, r in zip(fl, im['R']))
    if abs(F(im['conv']) - wantc) > tol * n * 10:
        fail.append('flux: convolved flux %r, sum F_i R_i = %r' % (im['conv'], float(wantc)))
    wantv = sum((F(a) * F(r)) ** 2 for a, r in zip(er, im['R']))
    if abs(F(im['var']) - wantv) > Fraction(1, 10 ** 9) * (wantv + scale * scale * Fraction(1, 10 ** 9)):
        fail.append('quadrature: error^2 %r, sum (E_i R_i)^2 = %r' % (im['var'], float(wantv)))
    # ---- the files written by convolve_model_dir for a per-file package with SEDs on two grids: each row is the sum over ITS OWN grid's bins
    if im.get('dirrows') and len(mo) > 2:
        tags.append('dir')
        R2 = mo[2]
        er = _ordered(case['err'], case['sorder'])
        for nme, fx, Rm in (('sa', case['flux'], mR), ('sb', case['flux2'], mR), ('sc', case['flux'], R2)):
            fxo = _ordered(fx, case['sorder'])
            wantf = sum(F(a) * r for a, r in zip(fxo, Rm))
            wante2 = sum((F(a) * r) ** 2 for a, r in zip(er, Rm))
            row = im['dirrows'].get(nme)
            if row is None:
                fail.append('dir: no row labelled %s in the convolved file' % nme)
                continue
            tol2 = max(tol * n * 10, abs(wantf) * Fraction(1, 10 ** 9))
            if abs(F(row[0]) - wantf) > tol2:
                fail.append('dir: convolve_model_dir wrote flux %r for SED %s; sum F_i R_i over the bins of its own frequency grid is %r' % (row[0], nme, float(wantf)))
            elif abs(F(row[1]) ** 2 - wante2) > Fraction(1, 10 ** 8) * (wante2 + scale * scale * Fraction(1, 10 ** 9)):
                fail.append('dir: convolve_model_dir wrote error %r for SED %s; the quadrature sum over its own grid is %r' % (row[1], nme, float(wante2) ** 0.5))
    return dict(disagree=disagree[:3], fail=fail[:4], nontrivial=overlap > 0, tags=tags)


def signature(case, im, mo, v):
    return None


def shrink(case):
    import copy
    for i in range(len(case['snu'])):
        if len(case['snu']) > 2:
            c = copy.deepcopy(case)
            for k in ('snu', 'flux', 'flux2', 'err'):
                del c[k][i]
            yield c
    for i in range(len(case['fnu'])):
        if len(case['fnu']) > 2:
            c = copy.deepcopy(case)
            del c['fnu'][i]
            del c['resp'][i]
            if max(c['resp']) > 0:
                yield c
