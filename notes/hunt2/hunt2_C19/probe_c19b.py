import os, sys, tempfile, io, contextlib, pickle, random
sys.path.insert(0, os.path.dirname(__file__))
import numpy as np
from astropy import units as u
from common import extinction
from sedfitter.fit_info import FitInfoFile, FitInfo
from sedfitter.source import Source

def same(a, b):
    sa, sb = a.__getstate__(), b.__getstate__()
    for k in sa:
        if k == 'source':
            x, y = sa[k], sb[k]
            if not (x.name == y.name and x.x == y.x and x.y == y.y and np.array_equal(x.valid, y.valid) and np.array_equal(x.flux, y.flux) and np.array_equal(x.error, y.error)): return False
        else:
            if (sa[k] is None) != (sb[k] is None): return False
            if sa[k] is not None and not (np.array_equal(sa[k], sb[k]) and sa[k].dtype == sb[k].dtype and sa[k].shape==sb[k].shape): return False
    return True

def readall(fn):
    f = FitInfoFile(fn, 'r')
    out = []; err = None
    try:
        for info in f: out.append(info)
    except Exception as e:
        err = e
    f.close()
    return out, err

rng = np.random.RandomState(0)
def mk(i, nfits, nw, fluxes, namedtype, big=False):
    s = Source(); s.name = 'sré%d'%i if i%2 else 's%d'%i; s.x = float(i); s.y = -1.5
    s.valid = [1]*nw; s.flux = list(rng.rand(nw)+1); s.error = list(rng.rand(nw)*0.1+0.01)
    info = FitInfo(s)
    info.av = rng.rand(nfits); info.sc = rng.rand(nfits); info.chi2 = np.sort(rng.rand(nfits))
    info.model_id = np.arange(nfits); info.model_name = np.array(['m%05d'%j for j in range(nfits)], dtype=namedtype)
    info.model_fluxes = rng.rand(nfits, nw).astype(np.float32 if i%2 else float) if fluxes else None
    return info

d = tempfile.mkdtemp()
ext = extinction()
tot = 0
for fluxes in [False, True]:
  for namedtype in ['S30', 'U30', object]:
    for sizes in [[0], [1,0,3,2], [3,3], [20000, 5, 20000], [1, 70000]]:
        infos = [mk(i, n, 3, fluxes, namedtype) for i, n in enumerate(sizes)]
        for inf in infos:
            inf.meta.model_dir = 'some/dir'; inf.meta.filters = [{'name':'a','aperture_arcsec':3.0,'wav':3*u.micron}]; inf.meta.extinction_law = ext
        fn = os.path.join(d, 'f%d'%tot)
        f = FitInfoFile(fn, 'w')
        for inf in infos: f.write(inf)
        f.close()
        full, err = readall(fn); assert err is None and len(full)==len(infos) and all(same(a,b) for a,b in zip(full,infos))
        raw = open(fn,'rb').read()
        offs = range(len(raw)) if len(raw) < 30000 else sorted(set(random.Random(1).sample(range(len(raw)), 3000)) | set(range(len(raw)-300, len(raw))) | set(range(4000, 6000)))
        hist={}
        for k in offs:
            open(fn+'.t','wb').write(raw[:k])
            try:
                recs, err = readall(fn+'.t')
            except Exception as e:
                hist['ctor']=hist.get('ctor',0)+1; continue
            assert len(recs) <= len(infos)
            if err is None: pass
            for a,b in zip(recs, infos): assert same(a,b), (k,)
            key=(len(recs), type(err).__name__); hist[key]=hist.get(key,0)+1
            tot+=1
        print(fluxes, namedtype, sizes, len(raw), hist)
print(tot)
