import sys; sys.path.insert(0, 'hunt_out')
from common import *
from sedfitter import fit, Fitter
from sedfitter.source import Source
import itertools
tmp = tempfile.mkdtemp()
res = {}
for version in (1, 2):
    for apdep in (False, True):
        md = os.path.join(tmp, 'm%d%d' % (version, apdep)); os.mkdir(md)
        build(md, version, apdep)
        ext = extlaw()
        lines = [
         "s1 0.0 0.0 1 1 1 0.2 0.1 1.3 0.2 1.5 0.3",
         "s2 1.0 2.0 1 0 1 0.2 0.05 1.2 0.1 1.8 0.3",
         "s3 1.0 2.0 0 0 0 0.2 0.05 1.2 0.1 1.8 0.3",
         "s4 1.0 2.0 1 4 9 0.2 0.05 -0.2 0.1 1.8 0.3",
         "s5 1.0 2.0 2 3 1 0.2 0.5 1.2 0.9 1.8 0.3",
         "s6 1.0 2.0 1 1 4 0.2 0.05 1.2 0.1 0.1 0.3",
         "s7 1.0 2.0 0 0 1 0.2 0.05 1.2 0.1 0.1 0.3",
         "s8 1.0 2.0 3 3 3 0.2 0.05 1.2 0.1 0.1 0.3",
        ]
        df = os.path.join(tmp, 'data%d%d' % (version, apdep))
        open(df, 'w').write("\n".join(lines) + "\n")
        filt = ['bob', 'alice', 'eve']
        aps = [1., 3., 3.] * u.arcsec
        kw = dict(extinction_law=ext, distance_range=[1., 2.] * u.kpc, av_range=[0., 0.1])
        fitter = quiet(Fitter, filt, aps, md, **kw)
        k = 0
        for ndm in (0, 1, 2, 3, 4, -1):
            for of in [('F', 3.), ('N', 2), ('A', 0), ('C', 5.), ('D', 1.), ('E', 2.), ('N', 0), ('N', 100), (False, 3)]:
                for oc in (False, True):
                    k += 1
                    out = os.path.join(tmp, 'out%d%d_%d' % (version, apdep, k))
                    try:
                        quiet(fit, df, filt, aps, md, out, n_data_min=ndm, output_format=of, output_convolved=oc, **kw)
                    except Exception as e:
                        print("CRASH", version, apdep, ndm, of, oc, repr(e)); continue
                    exp = []
                    for l in lines:
                        s = Source.from_ascii(l)
                        if s.n_data >= ndm:
                            i = fitter.fit(s)
                            if not oc: i.model_fluxes = None
                            i.keep(of)
                            exp.append(i)
                    if not exp:
                        assert os.path.getsize(out) == 0
                        continue
                    meta, got = read_all(out)
                    if len(got) != len(exp):
                        print("LEN", version, apdep, ndm, of, oc, len(got), len(exp)); continue
                    for a, b in zip(got, exp):
                        why = []
                        if not info_eq(a, b, why):
                            print("DIFF", version, apdep, ndm, of, oc, a.source.name, why)
                    assert meta.model_dir == md
                    assert meta.filters == fitter.filters, (meta.filters, fitter.filters)
                    assert arr_eq(meta.extinction_law.wav.value, ext.wav.value) and meta.extinction_law.wav.unit == ext.wav.unit
                    assert arr_eq(meta.extinction_law.chi.value, ext.chi.value) and meta.extinction_law.chi.unit == ext.chi.unit
print("done")
