"""C08 (borderline - a deliberate refusal): for CUBE packages (models.conf version = 2) the
chain cannot even start when the rows of parameters.fits are a non-trivial permutation of
the cube's model order: convolve_model_dir raises ValueError("Model names in SED cube and
parameter file do not match") although the two files contain exactly the same names.  The
statement quantifies over "any parameter-table permutation, both formats"; per-file
packages accept any permutation (sort_to_match), cube packages accept only the identity.
"""
import os, io, tempfile, contextlib
import numpy as np
from astropy import units as u
from astropy.table import Table
from sedfitter.sed import SEDCube
from sedfitter.filter import Filter
from sedfitter.convolve import convolve_model_dir


def quiet(fn, *a, **k):
    with contextlib.redirect_stdout(io.StringIO()), contextlib.redirect_stderr(io.StringIO()):
        return fn(*a, **k)


names = ['m_b', 'm_a', 'm_10', 'm_9', 'm_c', 'M_d']
rng = np.random.RandomState(0)
f = Filter()
f.name = 'alice'
f.central_wavelength = 3. * u.micron
f.nu = (np.linspace(5., 1., 60) * u.micron).to(u.Hz, equivalencies=u.spectral())
f.response = 0.5 + rng.random_sample(60)
f.normalize()

outcome = {}
for label, perm in (('identity', [0, 1, 2, 3, 4, 5]), ('permuted', [3, 0, 5, 1, 4, 2])):
    d = tempfile.mkdtemp()
    c = SEDCube()
    c.names = np.array(names)
    c.distance = 1 * u.kpc
    c.wav = np.logspace(-1, 3, 80) * u.micron
    c.apertures = None
    c.val = (1 + rng.random_sample((6, 1, 80))) * u.mJy
    c.unc = c.val * 0.01
    c.write(d + '/flux.fits')
    with open(d + '/models.conf', 'w') as fh:
        fh.write("name = test\nlength_subdir = 0\naperture_dependent = no\nlogd_step = 0.02\nversion = 2\n")
    t = Table()
    t['MODEL_NAME'] = np.array(names)
    t['par1'] = np.arange(6.) + 1
    t[perm].write(d + '/parameters.fits')
    try:
        quiet(convolve_model_dir, d, [f])
        outcome[label] = 'ok'
    except Exception as e:
        outcome[label] = repr(e)
    print(label, '->', outcome[label])

assert outcome['identity'] == 'ok'
assert outcome['permuted'] == 'ok', (
    "C08 violated (quantifier 'any parameter-table permutation, both formats'): cube package whose parameters.fits lists "
    "the same 6 models as flux.fits in the order [3,0,5,1,4,2]: convolve_model_dir refuses with %s, so nothing can be "
    "fitted or listed; the same permutation is accepted for per-file packages" % outcome['permuted'])
print('OK')
