import numpy as np, pickle, itertools
from sedfitter.source import Source
rng = np.random.RandomState(0)
flags = [0,1,2,3,4,9]
for n in range(0, 13):
    for L in range(0, 3*n+7):
        cols = ['nm', '1.5', '-2.5'] + [str(rng.choice(flags)) for _ in range(n)] + ['%g' % v for v in rng.randn(2*n+10)]
        line = ' '.join(cols[:L])
        try:
            s = Source.from_ascii(line)
            res = 'ok n_wav=%d' % s.n_wav
            ok = True
        except EOFError:
            res = 'EOF'
        except Exception as e:
            res = 'ERR ' + type(e).__name__
        exp = 'EOF' if L < 3 else ('ok' if L % 3 == 0 else 'ERR')
        if not res.startswith(exp):
            print('n', n, 'L', L, res, 'expected', exp)
# all-numeric flux columns that look like flags
for n in range(1, 6):
  for L in range(3, 3*n+7):
    cols = ['nm', '1', '2'] + ['1'] * (L - 3)
    try:
        s = Source.from_ascii(' '.join(cols)); r = 'ok %d' % s.n_wav
    except Exception as e:
        r = type(e).__name__
    if (L % 3 == 0) != r.startswith('ok'): print('allones', n, L, r)
# roundtrip
for n in range(0, 13):
    for t in range(200):
        s = Source()
        s.name = ''.join(rng.choice(list('abcXYZ_-.0123456789+')) for _ in range(rng.randint(1, 41)))
        s.x = rng.uniform(-360, 360); s.y = rng.uniform(-90, 90)
        s.valid = rng.choice(flags, size=n).astype(int)
        fl = rng.choice([-1, 1], size=n) * 10. ** rng.uniform(-30, 30, size=n)
        er = 10. ** rng.uniform(-30, 30, size=n)
        m = rng.rand(n) < 0.2
        fl[m] = -999.; er[m] = -999.
        s.flux = fl; s.error = er
        line = s.to_ascii()
        s2 = Source.from_ascii(line)
        assert s2.name == s.name, (s.name, s2.name)
        assert np.all(s2.valid == s.valid)
        assert s2.n_wav == n
        for a, b in zip(list(s.flux) + list(s.error), list(s2.flux) + list(s2.error)):
            assert float('%11.3e' % a) == b, (a, b)
        assert float('%9.5f' % s.x) == s2.x and float('%9.5f' % s.y) == s2.y
        s3 = Source.from_dict(s.to_dict()); assert s3 == s
        s4 = pickle.loads(pickle.dumps(s)); assert s4 == s and s4.valid.dtype == s.valid.dtype
        for proto in range(0, 6):
            s4 = pickle.loads(pickle.dumps(s, proto)); assert s4 == s
print('done')
