"""C08 violation: with remove_resolved=True a point-like model planted at the nearest
grid distance (d0 = distance_range[0]) is NOT recovered (chi^2 >> 0, wrong A_V, wrong scale).

Mechanism: Models._read_version_1 (and _read_version_2 with use_memmap=False) evaluate
find_radius_sigma() on the convolved fluxes AFTER they were interpolated onto the
per-distance apertures and multiplied by (1 kpc/d)^2, i.e. on a "flux versus distance"
table instead of the model's flux-versus-aperture table.  The 1/d^2 factor makes every
"surface brightness" but the first negative, so the half-peak radius always falls between
the first two grid distances' apertures, and every model is flagged as resolved at the
nearest grid distance (and only there), whatever its true size.
"""
import os, io, sys, tempfile, contextlib
import numpy as np
from astropy import units as u
from astropy.table import Table
from sedfitter.sed import SED
from sedfitter.filter import Filter
from sedfitter.extinction import Extinction
from sedfitter.convolve import convolve_model_dir
from sedfitter.convolved_fluxes import ConvolvedFluxes
from sedfitter.source import Source
from sedfitter.fit import Fitter
from sedfitter import write_parameters


def quiet(fn, *a, **k):
    with contextlib.redirect_stdout(io.StringIO()), contextlib.redirect_stderr(io.StringIO()):
        return fn(*a, **k)


d = tempfile.mkdtemp()
names = ['m_b', 'm_a', 'm_10', 'm_9', 'm_c', 'M_d']
rng = np.random.RandomState(0)
# apertures 1 AU ... 1e6 AU; all flux is inside the smallest aperture (true point sources:
# half-peak surface brightness radius = 1.5 AU, thousands of times below the 1000-5000 AU
# photometric apertures used below)
apert = np.array([1., 2., 1e3, 1e4, 1e5, 1e6]) * u.au
os.mkdir(d + '/seds')
for name in names:
    s = SED()
    s.name = name
    s.distance = 1 * u.kpc
    s.wav = np.logspace(-1, 3, 80) * u.micron
    s.nu = s.wav.to(u.Hz, equivalencies=u.spectral())
    s.apertures = apert
    base = (1 + rng.random_sample(80)) * s.wav.value ** rng.uniform(-1, 1)
    s.flux = np.repeat(base[None, :], len(apert), axis=0) * u.mJy
    s.error = s.flux * 0.01
    s.write(d + '/seds/' + name + '_sed.fits')
with open(d + '/models.conf', 'w') as f:
    f.write("name = test\nlength_subdir = 0\naperture_dependent = yes\nlogd_step = 0.02\n")
t = Table()
t['MODEL_NAME'] = np.array(names)
t['par1'] = np.arange(6.) + 1
t = t[[3, 0, 5, 1, 4, 2]]
t.write(d + '/parameters.fits')

filters = []
frng = np.random.RandomState(1)
for name, lo, hi, cw in [('alice', 1., 5., 3.), ('bob', 10., 15., 12.), ('eve', 15., 25., 20.), ('dan', 40., 60., 50.)]:
    f = Filter()
    f.name = name
    f.central_wavelength = cw * u.micron
    f.nu = (np.linspace(hi, lo, 60) * u.micron).to(u.Hz, equivalencies=u.spectral())
    f.response = 0.5 + frng.random_sample(60)
    f.normalize()
    filters.append(f)
quiet(convolve_model_dir, d, filters)

ext = Extinction()
ext.wav = np.logspace(-2., 3., 50) * u.micron
ext.chi = ext.wav.value ** -1.5 * u.cm ** 2 / u.g

fn = ['bob', 'alice', 'eve', 'dan']
aps = [1., 3., 3., 5.] * u.arcsec
planted, av0, d0 = 'm_10', 3.3, 1.0  # d0 = distance_range[0] is on the grid, log10 d0 = 0

# Independent synthesis of the photometry: point source => convolved flux does not depend
# on the aperture, so flux(d0) = F_convolved * (1 kpc / d0)^2, then reddened by A_V0.
av_law = np.asarray(ext.get_av(u.Quantity([12., 3., 20., 50.], u.micron)))
f0 = []
for name in fn:
    c = ConvolvedFluxes.read(d + '/convolved/' + name + '.fits')
    i = list(np.char.strip(c.model_names)).index(planted)
    assert np.allclose(c.flux[i].value, c.flux[i, 0].value)
    f0.append(c.flux[i, 0].to(u.mJy).value)
flux = np.array(f0) / d0 ** 2 * 10 ** (av0 * av_law)

src = Source()
src.name = 'src'
src.x = src.y = 0.
src.valid = [1, 1, 1, 1]
src.flux = flux
src.error = flux * 1e-3

res = {}
for rr in (False, True):
    fitter = quiet(Fitter, fn, aps, d, extinction_law=ext, av_range=[0., 10.],
                   distance_range=[1., 3.] * u.kpc, remove_resolved=rr)
    info = fitter.fit(src)
    out = os.path.join(d, 'pars_%s.txt' % rr)
    write_parameters(info, out, select_format=('N', 1))
    row = open(out).read().split('\n')[4].split()
    res[rr] = (row[1], float(row[2]), float(row[3]), float(row[4]))
    print('remove_resolved=%s -> best fit row: %s' % (rr, row))

# sanity: without the option the planted model is recovered
assert res[False][0] == planted and res[False][1] < 1e-2 and abs(res[False][2] - av0) < 1e-2 and abs(res[False][3]) < 1e-3, res[False]

name, chi2, av, sc = res[True]
assert name == planted and chi2 < 1e-2 and abs(av - av0) < 1e-2 and abs(sc - np.log10(d0)) < 1e-3, (
    "C08 violated (clauses 'chi^2 ~ 0', 'A_V ~ A_V0', 'scale ~ log10 d0'): point-like model %s planted at A_V0=%g, "
    "d0=%g kpc (= distance_range[0], on the grid) in a per-file distance-dependent package and fitted with "
    "remove_resolved=True comes out as model=%s chi2=%g A_V=%g scale=%g; the model is point-like (half-peak radius "
    "1.5 AU vs >=1000 AU apertures) so it must not be removed at d0" % (planted, av0, d0, name, chi2, av, sc))
print('OK')
