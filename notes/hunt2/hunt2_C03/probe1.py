import numpy as np, itertools, warnings
from sedfitter.fit_info import FitInfo
from sedfitter.source import Source

def mk(chi, valid=(1,4,2,0,9,3)):
    s = Source(); s.name='a'; s.valid=list(valid); s.flux=[1.]*len(valid); s.error=[.1]*len(valid)
    i = FitInfo(s)
    n=len(chi)
    i.chi2=np.array(chi,dtype=float); i.av=np.arange(n)*1.; i.sc=np.arange(n)*2.
    i.model_name=np.array(['m%d'%k for k in range(n)]); i.model_fluxes=np.arange(n*len(valid)).reshape(n,len(valid))*1.
    i.sort()
    return i
alpha=[0.,1.,1.,2.5,np.inf,np.nan, 7.]
bad=0
for n in range(0,5):
    for chi in itertools.product(alpha,repeat=n):
        for sel in [('A',),('A',3),('N',0),('N',1),('N',3),('N',9),('C',.5),('C',2),('C',np.inf),('D',.5),('D',1.7),('D',-1),('E',.3),('E',.6),('F',.3),('F',.9), ('N', 10**20), ('N', np.int64(2)), ('N', 2.0)]:
            i=mk(chi)
            c0=i.chi2.copy()
            with warnings.catch_warnings():
                warnings.simplefilter('ignore')
                try:
                    i.keep(sel)
                except Exception as e:
                    print('EXC',chi,sel,repr(e)); bad+=1; continue
            # expected
            nd=2
            f=sel[0]
            with np.errstate(all='ignore'):
                if f=='A': m=np.ones(n,bool)
                elif f=='N': m=np.arange(n)<min(sel[1],n)
                elif f=='C': m=c0<sel[1]
                elif f=='D': m=(c0-c0[0]<sel[1]) if n else np.zeros(0,bool)
                elif f=='E': m=c0/nd<sel[1]
                elif f=='F': m=((c0-c0[0])/nd<sel[1]) if n else np.zeros(0,bool)
            k=m.sum()
            if not (np.all(m[:k]) and len(i.chi2)==k and len(i.av)==k and len(i.sc)==k and len(i.model_name)==k and len(i.model_fluxes)==k and len(i.model_id)==k):
                print('BAD',chi,sel,len(i.chi2),k); bad+=1
print('bad',bad)
