"""C03 — flag semantics: paired fits through one Fitter, against the model and the flag clauses."""
import copy
import itertools
import math
from fractions import Fraction

from common import Rng, F, close
import fitcase

PROP = 'C03'
MODEL_OPS = 'FitModel.fit2_pkg / fit3_pkg on the base source and its variants'
RULE = ('every variant is fitted twice: as a fresh Source and on one Source object carried through all variants by re-assigning only the attributes that differ; ' +
        'flag vectors enumerated exhaustively over {0,1,2,3,4,9}^n (quick: n<=3, plus 300 sampled n in {4,5}; thorough: all n<=5) crossed with random photometry; '
        'each case fits, on ONE Fitter: the base source, the same source with hostile values (-999, 0, negative, 1e+-30) in its flag-0/9 bands, '
        'with confidence-0 limits turned into flag 0, with flag-1 bands rewritten as flag 4 (transformed values), and with changed limit values; '
        '40 (400) sources with limits placed exactly on the fitted model (no penalty is due); both fitting modes (mode follows the number of fitted bands: 2-D needs >=2, 3-D >=1). non-trivial = at least one variant differs from the base source.')
EXHAUSTIVE = {'quick': True, 'thorough': True}
ASSUMPTIONS = ['fits of variants are compared with each other exactly where the same arithmetic is expected (NaN-aware) and with 1e-9 tolerance for the flag-4 rewrite',
               'limit bands whose prediction is within 1e-9 of the limit are not judged (near-tie filter)']


def _variants(rng, src):
    import numpy as np
    v = {}
    fl = src['flags']
    if any(f in (0, 9) for f in fl):
        b = copy.deepcopy(src)
        for j, f in enumerate(fl):
            if f in (0, 9):
                b['flux'][j] = rng.choice([-999.0, 0.0, -3.5, 1e30, 1e-30])
                b['err'][j] = rng.choice([-999.0, 0.0, 1e30, 0.5, -1.0])
        v['hostile'] = b
    if any(f in (2, 3) for f in fl):
        c0, c1 = copy.deepcopy(src), copy.deepcopy(src)
        for j, f in enumerate(fl):
            if f in (2, 3) and (rng.random() < 0.6 or 'done' not in c0):
                c0['err'][j] = 0.0
                c1['flags'][j] = 0
                c0['done'] = 1
        c0.pop('done', None)
        v['conf0'], v['conf0_as_flag0'] = c0, c1
        e = copy.deepcopy(src)
        for j, f in enumerate(fl):
            if f in (2, 3):
                e['flux'][j] = src['flux'][j] * rng.choice([0.01, 0.5, 3.0, 100.0])
                e['err'][j] = rng.choice([0.0, 0.3, 0.9, 1.0])
        v['limits_changed'] = e
    if any(f == 1 for f in fl):
        d = copy.deepcopy(src)
        for j, f in enumerate(fl):
            if f == 1:
                x, s = np.float64(src['flux'][j]), np.float64(src['err'][j])
                d['flags'][j] = 4
                d['flux'][j] = float(np.log10(x) - 0.5 * (s / x) ** 2. / np.log(10.))
                d['err'][j] = float(np.abs(s / x) / np.log(10.))
        v['as_flag4'] = d
    return v


def generate(tier, seed):
    rng = Rng(seed * 31337 + 3)
    vecs = []
    maxn = 3 if tier == 'quick' else 5
    for n in range(1, maxn + 1):
        vecs += list(itertools.product(fitcase.FLAGS, repeat=n))
    if tier == 'quick':
        vecs += [tuple(rng.choice(fitcase.FLAGS) for _ in range(rng.choice([4, 5]))) for _ in range(300)]
    cases = []
    # limits placed EXACTLY on the fitted model: not on the forbidden side, so no penalty (the only exact ties that are compared)
    import numpy as np
    for k in range(40 if tier == 'quick' else 400):
        c = fitcase.gen_case(rng, '2d', nb=4, nm=rng.randint(1, 4), flags=[4, 4, rng.choice([2, 3]), rng.choice([2, 3])])
        m = rng.randrange(len(c['names']))
        c['av_range'] = [0.0, 40.0]
        for j in range(4):
            if j < 2:
                c['src']['flux'][j] = float(np.log10(c['flux'][m][j]))      # the model's own log flux: the fit of model m is exact, A_V = scale = 0
                c['src']['err'][j] = 0.0625
            else:
                c['src']['flux'][j] = c['flux'][m][j]                        # the limit sits exactly at the model flux
                c['src']['err'][j] = rng.choice([0.9, 1.0, 0.5])
        c['kind'] = 'on_limit'
        c['planted'] = c['names'][m]
        off = dict(c['src'], flags=[4, 4, 0, 0])
        c['variants'] = {'limits_off': off}
        cases.append(c)
    reps = 1 if tier == 'quick' else 2
    for fl in vecs:
        nfit = sum(1 for f in fl if f in (1, 4))
        for _ in range(reps):
            if nfit == 0:
                cases.append(dict(mode='skip', flags=list(fl)))
                continue
            mode = '3d' if nfit == 1 else rng.choice(['2d', '3d'])
            c = fitcase.gen_case(rng, mode, nb=len(fl), nm=rng.randint(1, 4), flags=list(fl))
            c['variants'] = _variants(rng, c['src'])
            cases.append(c)
    return cases


def impl(case):
    import tempfile
    if case['mode'] == 'skip':
        return {}
    with tempfile.TemporaryDirectory() as d:
        fitcase.write_pkg(d, case)
        fitter = fitcase.make_fitter(d, case)
        out = {'base': fitcase.info_out(fitter.fit(fitcase.make_source(case['src'])), fitter)}
        for k, s in case['variants'].items():
            out[k] = fitcase.info_out(fitter.fit(fitcase.make_source(s)))
        out['base_again'] = fitcase.info_out(fitter.fit(fitcase.make_source(case['src'])))
        # one Source object carried through all variants: after each fit only the attributes that differ are re-assigned
        obj = fitcase.make_source(case['src'])
        cur = case['src']
        fitter.fit(obj)
        for k, s in case['variants'].items():
            if list(s['flags']) != list(cur['flags']):
                obj.valid = list(s['flags'])
            inplace = (len(out) % 2 == 0)       # every other variant: the arrays are updated in place instead of being re-assigned
            if list(s['flux']) != list(cur['flux']):
                if inplace:
                    obj.flux[:] = s['flux']
                else:
                    obj.flux = list(s['flux'])
            if list(s['err']) != list(cur['err']):
                if inplace:
                    obj.error[:] = s['err']
                else:
                    obj.error = list(s['err'])
            cur = s
            out['reuse_' + k] = fitcase.info_out(fitter.fit(obj))
        # the same object with ONLY its flags re-assigned: the first fitted band becomes unused (0) / plot-only (9), then fitted again
        fitted = [j for j, f in enumerate(case['src']['flags']) if f in (1, 4)]
        if fitted:
            obj = fitcase.make_source(case['src'])
            fitter.fit(obj)
            for tag, nf in (('to0', 0), ('to9', 9), ('back', case['src']['flags'][fitted[0]])):
                fl = list(case['src']['flags'])
                fl[fitted[0]] = nf
                obj.valid = fl
                out['reflag_' + tag] = fitcase.info_out(fitter.fit(obj))
                out['reflag_' + tag + '_fresh'] = fitcase.info_out(fitter.fit(fitcase.make_source(dict(case['src'], flags=fl))))
        out['n_data'] = int(fitcase.make_source(case['src']).n_data)
        # plot-only bands turned into unused ones; and, for distance-dependent packages, the same comparisons on a Fitter made with remove_resolved=True
        nine0 = dict(case['src'], flags=[0 if f == 9 else f for f in case['src']['flags']])
        has9 = 9 in case['src']['flags']
        if has9:
            out['nine_as_zero'] = fitcase.info_out(fitter.fit(fitcase.make_source(nine0)))
        if case['mode'] == '3d':
            try:
                import numpy as np
                frr = fitcase.make_fitter(d, case, remove_resolved=True)
                out['rr_base'] = fitcase.info_out(frr.fit(fitcase.make_source(case['src'])))
                for k in ('hostile', 'conf0', 'conf0_as_flag0'):
                    if k in case['variants']:
                        out['rr_' + k] = fitcase.info_out(frr.fit(fitcase.make_source(case['variants'][k])))
                if has9:
                    out['rr_nine_as_zero'] = fitcase.info_out(frr.fit(fitcase.make_source(nine0)))
                out['rr_any'] = bool(np.any(np.asarray(frr.models.extended)))
            except Exception as e:
                out['rr_exc'] = '%s: %s' % (type(e).__name__, e)
    return out


def model_requests(case):
    if case['mode'] == 'skip':
        return []
    reqs = [fitcase.model_request(case)]
    if 'as_flag4' in case['variants']:
        reqs.append(fitcase.model_request(case, case['variants']['as_flag4']))
    return reqs


def _same(a, b, tol=None):
    """two FitInfo outputs equal (NaN-aware); tol=None -> exact"""
    for k in ('av', 'sc', 'chi2'):
        for x, y in zip(a[k], b[k]):
            if math.isnan(x) or math.isnan(y):
                if not (math.isnan(x) and math.isnan(y)):
                    return False
            elif tol is None:
                if x != y:
                    return False
            elif not (fitcase.canon_chi(x) == fitcase.canon_chi(y) == 'HUGE' or abs(x - y) <= tol * (1 + abs(y))):
                return False
    return a['model_name'] == b['model_name'] if tol is None else True


def _by_name(o):
    return {n: i for i, n in enumerate(o['model_name'])}


def judge(case, im, mo):
    if case['mode'] == 'skip':
        return dict(disagree=[], fail=[], nontrivial=False, tags=['no-fitted-band'])
    tags = ['mode=' + case['mode'], 'n=%d' % len(case['src']['flags'])] + ['var=' + k for k in case['variants']]
    if 'exc' in im:
        return dict(disagree=['implementation raised ' + im['msg']], fail=['raised: fit raised %s' % im['msg']], nontrivial=False, tags=tags)
    if any(isinstance(m, tuple) for m in mo):
        return dict(disagree=['driver %r' % ([m for m in mo if isinstance(m, tuple)][:1],)], fail=[], nontrivial=False)
    disagree, fail = [], []
    base = im['base']
    nfit = sum(1 for f in case['src']['flags'] if f in (1, 4))
    if im['n_data'] != nfit:
        fail.append('ndata: n_data=%d but %d bands carry flag 1 or 4' % (im['n_data'], nfit))
    finite = all(math.isfinite(x) for x in base['av'] + base['sc']) and not any(math.isnan(x) for x in base['chi2'])
    # --- correspondence of the base fit with the model (C01/C02 do the fine comparison; here a coarse one)
    m = mo[0]
    res = m[2][0] if case['mode'] == '3d' and m[2] else (m[2] if case['mode'] == '2d' else None)
    cond_ok = True
    if case['mode'] == '2d':
        import c01
        _, _, cond = c01.conditioning(case)
        cond_ok = cond < 1e8
    else:
        cond_ok = m[0] > 0 and F(m[0]) > Fraction(1, 10 ** 6)
    if not cond_ok:
        return dict(disagree=[], fail=fail, nontrivial=False, tags=tags + ['singular-skipped'])
    if not finite:
        fail.append('unused: base fit is not finite (NaN/inf in av, sc or chi2) although every fitted band is positive and finite')
    if res is not None and finite:
        for i, mid in enumerate(base['model_id']):
            r = res[mid]
            if case['mode'] == '3d':
                d3, _ = fitcase.cmp3d_row(base, i, r, 1e-6)
                if d3:
                    disagree.append('base fit of model %d: %s' % (mid, d3[0]))
                    break
            elif not close(base['av'][i], r[0], 1e-6, 1e-7) or not close(base['sc'][i], r[1], 1e-6, 1e-7):
                disagree.append('base fit of model %d: implementation (%r, %r), model (%r, %r)' % (mid, base['av'][i], base['sc'][i], float(r[0]), float(r[1])))
                break
    if case.get('kind') == 'on_limit' and finite:
        disagree = []
        i = base['model_name'].index(case['planted'])
        j = im['limits_off']['model_name'].index(case['planted'])
        if abs(base['chi2'][i] - im['limits_off']['chi2'][j]) > 1e-12 or base['chi2'][i] > 1e-12:
            fail.append('onlimit: model %s lies exactly on the limits (not on the forbidden side) but its chi2 is %r (%r with the limits flagged 0)'
                        % (case['planted'], base['chi2'][i], im['limits_off']['chi2'][j]))
        # (the extracted model is not consulted here: its log10 oracle is OCaml's, one ulp away from numpy's, so it cannot reproduce an exact tie)
        return dict(disagree=disagree, fail=fail, nontrivial=True, tags=tags + ['on_limit'])
    # --- the clauses, between implementation runs
    if not _same(base, im['base_again']):
        fail.append('history: refitting the base source on the same fitter gives a different result')
    for k in case['variants']:
        if 'reuse_' + k in im and not _same(im[k], im['reuse_' + k]):
            fail.append('reuse: a Source object whose flags / values were re-assigned to variant %s after earlier fits is fitted differently from a fresh Source with the same content' % k)
            break
    for tag in ('to0', 'to9', 'back'):
        if 'reflag_' + tag in im and not _same(im['reflag_' + tag], im['reflag_' + tag + '_fresh']):
            fail.append('reflag: after only the flags of an already fitted Source were re-assigned (%s) it is fitted differently from a fresh Source with those flags' % tag)
            break
    if 'hostile' in im and not _same(base, im['hostile']):
        fail.append('unused: values carried by flag-0/9 bands change the fit')
    if 'conf0' in im and not _same(im['conf0'], im['conf0_as_flag0']):
        fail.append('conf0: a limit with confidence 0 is not equivalent to flag 0')
    if 'nine_as_zero' in im and not _same(base, im['nine_as_zero']):
        fail.append('unused: flagging the plot-only (9) bands as unused (0) changes the fit')
    if 'rr_exc' in im:
        fail.append('raised: remove_resolved=True raised %s' % im['rr_exc'])
    if 'rr_base' in im:
        tags.append('rr-mask-nonempty=%s' % im.get('rr_any'))
        tags.append('rr-changes-fit=%s' % (not _same(base, im['rr_base'])))
        if 'rr_hostile' in im and not _same(im['rr_base'], im['rr_hostile']):
            fail.append('unused: with remove_resolved=True, values carried by flag-0/9 bands change the fit')
        if 'rr_nine_as_zero' in im and not _same(im['rr_base'], im['rr_nine_as_zero']):
            fail.append('unused: with remove_resolved=True, a plot-only (9) band decides which models are removed: flagging it 0 changes the fit')
        if 'rr_conf0' in im and not _same(im['rr_conf0'], im['rr_conf0_as_flag0']):
            fail.append('conf0: with remove_resolved=True, a limit with confidence 0 is not equivalent to flag 0')
    if 'limits_changed' in im and case['mode'] == '2d' and finite:
        a, b = _by_name(base), _by_name(im['limits_changed'])
        for n in a:
            if base['av'][a[n]] != im['limits_changed']['av'][b[n]] or base['sc'][a[n]] != im['limits_changed']['sc'][b[n]]:
                fail.append('limits: changing a limit value changes the least-squares (A_V, scale) of %s' % n)
                break
    if 'as_flag4' in im and finite:
        a, b = _by_name(base), _by_name(im['as_flag4'])
        for n in a:
            i, j = a[n], b[n]
            x, y = im['as_flag4'], base
            if not (abs(x['av'][j] - y['av'][i]) <= 1e-7 * (1 + abs(y['av'][i])) and abs(x['sc'][j] - y['sc'][i]) <= 1e-7 * (1 + abs(y['sc'][i]))
                    and (fitcase.canon_chi(x['chi2'][j]) == fitcase.canon_chi(y['chi2'][i]) == 'HUGE' or abs(x['chi2'][j] - y['chi2'][i]) <= 1e-6 * (1 + abs(y['chi2'][i])))):
                # discrete jumps (3-D distance choice, limit sides) can legitimately flip at ties; only flag when the model also says equal
                fail.append('flag4: flag-4 rewrite of the flag-1 bands changes the fit of %s' % n)
                break
    # penalties: chi2 = S + penalties at the reported point, from the predictions stored with the fit
    if finite:
        import numpy as np
        bands = fitcase.log_bands(case['src'])
        for i in range(len(base['chi2'])):
            s, ptot, pinf, tie = Fraction(0), Fraction(0), 0, False
            for (f, lf, le, w), p in zip(bands, base['model_fluxes'][i]):
                pf = F(p)
                if f in (1, 4):
                    s += w * (lf - pf) * (lf - pf)
                elif f in (2, 3):
                    d = pf - lf
                    if abs(d) < Fraction(1, 10 ** 8):
                        tie = True
                    if (f == 2 and d < 0) or (f == 3 and d > 0):
                        c = float(le)
                        if c >= 1:
                            pinf += 1
                        else:
                            ptot += F(float(-2.0 * np.log(1.0 - c)))
            if tie:
                continue
            got = fitcase.canon_chi(base['chi2'][i])
            want = 'HUGE' if pinf else float(s + ptot)
            if (got == 'HUGE') != (want == 'HUGE') or (got != 'HUGE' and abs(got - want) > 1e-6 * (1 + abs(want))):
                fail.append('penalty: chi2 of %s is %r; weighted residuals + limit penalties of its stored prediction give %r' % (base['model_name'][i], base['chi2'][i], want))
                break
    return dict(disagree=disagree[:3], fail=fail[:4], nontrivial=bool(case['variants']), tags=tags)


def signature(case, im, mo, v):
    # F14: a flag-9 band with non-positive flux poisons every sum with NaN * 0
    if 'hostile' in case.get('variants', {}) and isinstance(im, dict) and 'hostile' in im:
        h = case['variants']['hostile']
        if any(f == 9 and (x <= 0 or not math.isfinite(x / x if x else math.nan) or e != e) for f, x, e in zip(h['flags'], h['flux'], h['err'])):
            if all(x.startswith('unused:') for x in v['fail']):
                return 'F14-flag9-nonpositive'
    return None
