"""Regenerates MANIFEST.json from the table below (keeps it valid at all times)."""
import json, os
V = os.path.dirname(os.path.dirname(os.path.abspath(__file__)))
BASE_CMD = "cd /repo && /venv/bin/python -m pytest -ra -q -p no:cacheprovider --timeout=900 --continue-on-collection-errors"
# property -> (technique, level text, level note, design ref)
CLAIMED = {
 'C05': ("Coq proof over the list model of FitInfo.keep (Keep.v: antitone-prefix lemma, 6x6 composition law) + exhaustive correspondence of the extracted model with FitInfo.keep",
         "Theorems C05_A/N/CDEF/prefix/columns/looser_first/idempotent hold for ranked lists of any length over extended rationals; the extracted nkeep is run against FitInfo.keep on every ranked vector of length <=4 (<=5 thorough) over {0,1,2.5,7,inf,nan} x every selector x every selector pair, plus random long vectors.",
         "Trusts: Coq kernel; ExtrOcamlBasic+ExtrOcamlZBigInt; ocaml driver; harness (generator, comparison, oracle). numpy's comparison/slicing semantics are exercised, not proved. Thresholds equal to an attained value are outside the property.", "DESIGN.md 7/C05"),
 'C01': ("Coq proof that the code-shaped 2x2 regression + clamp + re-solved scale minimises the weighted objective over [lo,hi] x Q (and over R via Q2R), chi2 = S + limit penalties; correspondence of the extracted model with Fitter.fit on generated packages",
         "Theorems C01_optimal/optimal_real/scale_pattern/nonsingular/m22/grid over rationals of any size, any number of bands and models; extracted fit2_pkg (extinction law, log-flux transform, regression, clamp, chi2) compared with Fitter.fit on aperture-independent packages; oracle re-evaluates the property's objective exactly at the implementation's (A_V, scale).",
         "Trusts: Coq kernel; stdlib real-number axioms for C01_optimal_real only (ClassicalDedekindReals.sig_forall_dec, FunctionalExtensionality.functional_extensionality_dep); extraction; driver float oracles for log10/ln; harness. Float rounding enters as tolerance 1e-10 x condition number; singular regressions are outside the quantifier.", "DESIGN.md 7/C01"),
 'C02': ("Coq proofs for the distance grid (ceil formula, uniform grid with both ends), aperture interpolation/clamp, per-distance clipped optimum and first-minimum argmin (Grid.v, Fit3.v, Fit3Proofs.v); correspondence of the extracted fit3_pkg with Fitter.fit on aperture-dependent packages",
         "Theorems C02_grid/grid_ends/flux*/av/min for any sizes; extracted ndist, gridlog_m and fit3_pkg compared tie-robustly (at the distance the implementation reports) with Fitter.fit; oracle recomputes the documented flux (interpolated, clamped, x (1kpc/d)^2) and checks grid minimality.",
         "Trusts: Coq kernel; extraction; driver float oracles; harness; np.log10/np.logspace as oracles. Exact argmin ties and 1+L/step within 1e-9 of an integer are not compared. remove_resolved (find_radius_sigma) is not modelled.", "DESIGN.md 7/C02"),
 'C03': ("Coq proofs that unfitted bands have zero weight and never enter the least-squares sums, chi2 = S + penalties exactly when violated, confidence 0/1 clauses, flag 4 = transformed flag 1 (Flags.v, FlagsProofs.v); exhaustive flag-vector correspondence through one Fitter",
         "Theorems C03_weights/not_in_lsq/not_in_lsq_3d/unused_chi2/penalty/conf0/conf1/flag4; every flag vector over {0,1,2,3,4,9}^n (n<=3 quick, <=5 thorough) x random photometry: base source vs hostile ignored values, confidence-0 limits vs flag 0, flag-4 rewrite, changed limit values, in both fit modes, bit-exact between implementation runs and against the model.",
         "Trusts: Coq kernel; extraction; driver; harness. Near-ties of a prediction with a limit are not judged.", "DESIGN.md 7/C03"),
 'C04': ("Coq proofs that one argsort gathered into every column re-orders the zipped rows, yields a permutation, and leaves chi2 sorted in numpy order (SortRows.v, RankProofs.v) + correspondence of rank_m and per-model results with Fitter.fit on grids with ties and 1e30 penalties",
         "Theorems C04_aligned/sorted/sorted_for_C05/perm/any_ranking/pred_2d/pred_3d; implementation rows matched by model index against the model's per-model fit, chi2 monotone, model_id a permutation, order compared with rank_m on the same values (tie groups as multisets), predictions recomputed from the named model.",
         "Trusts: as C01/C02. Order inside exact tie groups is left open (numpy's sort is unstable).", "DESIGN.md 7/C04"),
 'C11': ("Coq proofs of band-permutation invariance (sums are permutation-invariant), model-permutation equivariance, and the brightness-scaling law scale -> scale - lg(c)/2 with A_V and chi2 unchanged (FitPerm.v, InvarProofs.v) + paired implementation runs incl. fit histories on one Fitter",
         "Theorems C11_band_perm(_chi2,_3d)/model_perm/scale/scale_chi2 for any sizes; paired runs: permuted filters, permuted model rows, scaled photometry, up to 6 interleaved fits per Fitter vs fresh Fitters, before/after state of the Source.",
         "Trusts: as C01/C02. History-independence and non-mutation are established by the correspondence runs only (the model is pure by construction) - partial.", "DESIGN.md 7/C11"),
 'C09': ("Coq proof that filter_table's in1d mask + argsort(argsort(names)) gather on the name-sorted table is the by-name lookup for ANY row order of the parameter file (rank_of_rank, uniqueness of strictly sorted permutations; FTable.v, TableProofs.v) and of the (nanmin, best, nanmax) ranges; correspondence through the three writers and filter_table",
         "Theorems C09_lookup/by_name/lookup_sorted/rank_of_rank/prep_perm/ranges for any table size; write_parameters, write_parameter_ranges, extract_parameters and FitInfo.filter_table run on permuted parameter files with NaN cells, additional-parameter dictionaries, all selector forms and file/object/list inputs; outputs parsed back and compared by (source, rank).",
         "Trusts: Coq kernel; extraction; driver; harness (text parsing of the listings, name -> integer key encoding preserving byte order). Text layout is not modelled; values compared to the printed 4 significant digits. plot_params_1d/2d hand-off is represented by the same strip+sort+filter_table sequence, not by running the plot code.", "DESIGN.md 7/C09"),
 'C10': ("Coq proofs that the fit() driver loop = map o filter over the lines before the first end-of-input line (Loop.v), that an uncut stream of well-formed pickles reads back as written (framing model, Reader.v), and that post-processing calls on copies equal the same calls on a file and leave the caller's results unchanged (History.v; the aliasing variant is refuted by a witness); correspondence through fit(), FitInfoFile and all four post-processing functions",
         "Theorems C10_records(_exec)/roundtrip/history(_exec)/aliasing_refuted; fit() run on data files with ineligible, blank and malformed lines and compared record-by-record with Fitter.fit+keep on the parsed lines; hand-built records with NaN/inf round-tripped with metadata; every sequence of <=3 calls of write_parameters/write_parameter_ranges/extract_parameters/filter_output x selectors on file / object / list compared across forms, with a deep before/after comparison of the caller's objects.",
         "Trusts: Coq kernel; extraction; driver; harness. Pickle fidelity and object aliasing are run-time facts: decided by the correspondence runs, the model carries them as the framing model and the explicit copy/alias semantics (partial).", "DESIGN.md 7/C10"),
 'C19': ("Coq proof on a framing model of the pickle stream (opcode classes Fixed/LenPre/Line2/Stop): every proper prefix of a pickle scans as Truncated, a complete pickle is consumed exactly, hence a file cut at ANY byte yields exactly the pickles wholly before the cut and then stops (Frame.v, Reader.v); exhaustive correspondence at every truncation offset of real fit files",
         "Theorems C19_prefix_free/complete/truncation (exact count and end status)/records_prefix/count_bounded for any number and size of records; real files disassembled with pickletools.genops (every opcode mapped to a class, every instruction length checked against its class, unknown opcodes fail closed), Reader.read_all run on the whole file and sampled cuts, FitInfoFile run at EVERY offset and compared with reader_m; yielded records compared with the written ones.",
         "Trusts: Coq kernel; extraction; driver; harness; pickletools' opcode table. That CPython's unpickler behaves like the scanner (no value before STOP, error on an incomplete pickle) is pickle's contract - assumed, exercised at every offset (partial).", "DESIGN.md 7/C19"),
 'C06': ("Coq refinement proof that the statement-by-statement model of integrate_subset (searchsorted slices, two-point interpolation, literal end indices, reversal and limit swap) computes G(b)-G(a) for the piecewise-linear response, that each re-binned R_i is that integral over the clipped midpoint bin, and that the R_i telescope to the overlap integral (PLin, Slice, IsubProofs, Rebin, ConvolveProofs); correspondence with Filter.normalize/rebin",
         "Theorems C06_isub/isub_any_order/bins/conservation/flat/linear/quadrature + the refuted literal index; extracted rebin_m/normalize_m compared with Filter.rebin on 2-60 sample filters (both storage orders, memory or Filter.read) x 2-80 point SED grids (both orders, all overlap kinds, edges on nodes); oracle integrates the response exactly per bin.",
         "Trusts: Coq kernel; extraction; driver; harness. Float rounding: tolerance 1e-9 of the largest R_i. Filter.read's text parsing and c/lambda are oracles (frequencies taken from the implementation). The sums of convolve_model_dir are covered end to end under C07.", "DESIGN.md 7/C06"),
 'C20': ("Coq proof over the statement-by-statement model of Source.from_ascii (SrcAscii.v: slices, strides, truncating division, setter cross-checks) + correspondence on generated token lists incl. every column count",
         "Theorems C20_layout/reject/accept/flags/eof hold for token lists of any length; the extracted from_ascii_m is run against Source.from_ascii on valid lines (all flag vectors n<=3), every column count 0..3n+6 for n<=12, bad flags, bad numbers; round trips through to_ascii, dict and pickle are checked against the printed precision.",
         "Trusts: Coq kernel; extraction directives; driver; harness. int()/float() conversion of tokens is an oracle computed by Python; text formatting (to_ascii) is exercised, not modelled.", "DESIGN.md 7/C20"),
 'C18': ("Coq proof that the one-pass two-writer loop of filter_output equals (filter good, filter not-good) with Python truthiness of chi=/cpd= (FilterOut.v) + correspondence through real fit files",
         "Theorems C18_partition/one_side/chi/cpd hold for any record list; the extracted filter_output_m is run against filter_output on generated fit files (file and list input, automatic and explicit names, chi/cpd/both/none/zero thresholds, inf and NaN best values) and both outputs are read back and compared record by record.",
         "Trusts: Coq kernel; extraction; driver; harness. pickle is a lossless store (exercised). Thresholds equal to the best chi2 are outside the property.", "DESIGN.md 7/C18"),
}
NOT_YET = {}
props = [json.loads(l) for l in open(os.path.join(V, 'properties.jsonl'))]
checks, na = [], []
for p in props:
    i = p['id']
    if i in CLAIMED:
        tech, text, note, ref = CLAIMED[i]
        checks.append(dict(property_id=i, quick_cmd="./check %s quick" % i, thorough_cmd="./check %s thorough" % i,
                           evidence_file="/verif/evidence/%s.json" % i, replay_cmd_template="./check %s --replay {path}" % i,
                           engine="coq-model+correspondence",
                           level_claimed=dict(category="proof", text=text, design_ref=ref), level_note=note, technique=tech))
    else:
        na.append(dict(property_id=i, reason=NOT_YET.get(i, "check not yet assembled in /verif (theorems exist as Coq files under coq/theories, correspondence harness still to be written); not claimed until it runs end to end")))
m = dict(version=1,
         setup_cmd="make -C /verif setup",
         hooks=dict(guard="SEDFITTER_VERIF", enable="none needed: every observation point is public API or a file; checks import /repo's working tree directly (PYTHONPATH=/repo)",
                    baseline_off_cmd=BASE_CMD, source_commits=[], add_only=True),
         engines=[dict(name="coq-model+correspondence", path="/verif/coq, /verif/ocaml, /verif/harness",
                       serves_properties=sorted(CLAIMED), kind_free_text="Coq 8.16 model + theorems (coq/theories), extracted to OCaml (ocaml/driver), run against /repo through the public API by harness/check.py")],
         checks=checks, not_applicable=na,
         notes="See DESIGN.md. ./check <id> quick|thorough|--replay <file>. known_findings.json lists recorded and fixed defects.")
json.dump(m, open(os.path.join(V, 'MANIFEST.json'), 'w'), indent=1)
print(len(checks), 'claimed;', len(na), 'not claimed')
