import sys; sys.path.insert(0, 'hunt_out')
from t1 import *
import traceback
cases = [
 dict(distance=2*u.kpc),
 dict(distance=2*u.kpc, n_ap=0),
 dict(distance=500*u.pc, flux_unit=u.erg/u.cm**2/u.s),
 dict(distance=500*u.pc, flux_unit=u.erg/u.s),
 dict(flux_unit=u.Jy),
 dict(flux_unit=u.erg/u.s),
 dict(flux_unit=u.W/u.m**2),
 dict(flux_unit=u.L_sun),
 dict(wav_unit=u.AA),
 dict(wav_unit=u.m),
 dict(ap_unit=u.pc),
 dict(ap_unit=u.cm),
 dict(wav_order='dec'),
 dict(memmap=False),
 dict(as_file=True),
 dict(drange=(1., 1.)*u.kpc),
 dict(drange=(500, 3000)*u.pc),
 dict(unc=False),
]
for c in cases:
    for st in ['interp', 'all']:
        try:
            w = run(sed_type=st, verbose=False, **c)
            print('CASE', c, st, 'worst', w, 'BAD' if w > 2e-3 else '')
        except Exception as e:
            print('CASE', c, st, 'EXC', type(e).__name__, str(e)[:200])
