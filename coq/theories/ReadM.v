(* ReadM — Models._read_version_1: how the rows of the per-filter convolved files are put together into one model grid.
   The first file fixes the model order; a later file that lists the models in another order is re-sorted by name
   (ConvolvedFluxes.sort_to_match with its "Sorting failed" post-check) before its column is stored.  Until the repair F37 the
   files were combined by position. *)
From Coq Require Import QArith List Arith Lia Permutation Bool ZArith.
Import ListNotations.
From SedV Require Import Argsort Table FTable ConvDirM.
Close Scope Q_scope.

Section R.
Variable D : Type.      (* what one row carries besides its name (fluxes and errors per aperture) *)
Variable d0 : D.

Definition names_of (f : list (K * D)) : list K := map fst f.

Definition sort_to_match_m (f : list (K * D)) (ref : list K) : option (list (K * D)) :=
  let out := gather (K * D) (0%Z, d0) f (order_to_match (names_of f) ref) in
  if list_eq_dec Z.eq_dec (names_of out) ref then Some out else None.

Definition align (ref : list K) (f : list (K * D)) : option (list (K * D)) :=
  if list_eq_dec Z.eq_dec (names_of f) ref then Some f else sort_to_match_m f ref.

Fixpoint align_all (ref : list K) (files : list (list (K * D))) : option (list (list (K * D))) :=
  match files with
  | [] => Some []
  | f :: r => match align ref f, align_all ref r with Some a, Some rs => Some (a :: rs) | _, _ => None end
  end.

Definition read_files (files : list (list (K * D))) : option (list (list (K * D))) :=
  match files with
  | [] => Some []
  | f0 :: rest => match align_all (names_of f0) rest with Some r => Some (f0 :: r) | None => None end
  end.

(* the value stored for model k in the column of one aligned file *)
Fixpoint lookup (k : K) (f : list (K * D)) : option D :=
  match f with [] => None | (k', d) :: r => if Z.eqb k k' then Some d else lookup k r end.

Lemma order_bound (a r : list K) : Permutation a r -> forall i, In i (order_to_match a r) -> (i < length a)%nat.
Proof.
  intros P i Hi. unfold order_to_match, gather in Hi. apply in_map_iff in Hi. destruct Hi as (j & <- & Hj).
  unfold argsortn in Hj. apply argsort_bound in Hj. unfold argsortK in Hj. rewrite argsort_length in Hj.
  assert (Ln : length a = length r) by (apply Permutation_length; exact P).
  apply (argsort_bound Z.leb 0%Z). apply nth_In. unfold argsortK. rewrite argsort_length. unfold K in *. rewrite Ln. exact Hj.
Qed.

(* a file that lists the same models is brought into the reference order, and nothing but the order changes *)
Theorem align_by_name ref f : NoDup ref -> Permutation (names_of f) ref ->
  exists out, align ref f = Some out /\ names_of out = ref /\ Permutation out f.
Proof.
  intros N P. unfold align.
  destruct (list_eq_dec Z.eq_dec (names_of f) ref) as [E|E].
  - exists f. split; [reflexivity|]. split; [exact E|apply Permutation_refl].
  - unfold sort_to_match_m.
    set (order := order_to_match (names_of f) ref).
    assert (Hidx : forall i, In i order -> (i < length f)%nat).
    { intros i Hi. pose proof (order_bound (names_of f) ref P i Hi) as B. unfold names_of in B. now rewrite map_length in B. }
    assert (Hn : names_of (gather (K * D) (0%Z, d0) f order) = ref).
    { unfold names_of. rewrite (gather_map (@fst K D) (0%Z, d0) f order Hidx). apply (C07_sort_to_match (map fst f) ref N P). }
    destruct (list_eq_dec Z.eq_dec _ ref) as [E'|E']; [|contradiction].
    eexists. split; [reflexivity|]. split; [exact Hn|].
    set (out := gather (K * D) (0%Z, d0) f order) in *.
    assert (Nout : NoDup out).
    { apply (NoDup_map_inv fst). fold (names_of out). rewrite Hn. exact N. }
    apply NoDup_Permutation_bis; [exact Nout| |].
    + assert (L1 : length out = length ref) by (rewrite <- Hn; unfold names_of; now rewrite map_length).
      assert (L2 : length f = length ref) by (rewrite <- (Permutation_length P); unfold names_of; now rewrite map_length).
      lia.
    + intros x Hx. unfold out, gather in Hx. apply in_map_iff in Hx. destruct Hx as (i & <- & Hi).
      apply nth_In. apply Hidx. exact Hi.
Qed.

(* the result does not depend on the order in which the file lists its rows *)
Theorem align_order_irrelevant ref f f' : NoDup ref -> Permutation (names_of f) ref -> Permutation f f' ->
  align ref f = align ref f'.
Proof.
  intros N P Pf.
  assert (P' : Permutation (names_of f') ref).
  { unfold names_of. rewrite <- (Permutation_map fst Pf). exact P. }
  destruct (align_by_name ref f N P) as (o & -> & Ho & Po).
  destruct (align_by_name ref f' N P') as (o' & -> & Ho' & Po').
  f_equal. apply perm_same_keys.
  - fold (names_of o). rewrite Ho. exact N.
  - fold (names_of o) (names_of o'). now rewrite Ho, Ho'.
  - rewrite Po, Po'. exact Pf.
Qed.

Lemma lookup_in k d f : NoDup (names_of f) -> In (k, d) f -> lookup k f = Some d.
Proof.
  induction f as [|[k' d'] r IH]; intros N H; [destruct H|].
  simpl. simpl in N. inversion N as [|? ? Nk Nr]; subst.
  destruct H as [H|H].
  - injection H as -> ->. now rewrite Z.eqb_refl.
  - destruct (Z.eqb_spec k k') as [->|Ne].
    + exfalso. apply Nk. change k' with (fst (k', d)). now apply in_map.
    + apply IH; assumption.
Qed.

(* by name: the value stored for model k after aligning is the one the file itself carries for k *)
Theorem align_lookup ref f out k : NoDup ref -> Permutation (names_of f) ref -> align ref f = Some out ->
  lookup k out = lookup k f.
Proof.
  intros N P H. destruct (align_by_name ref f N P) as (o & Ho & Hn & Po). rewrite H in Ho. injection Ho as <-.
  assert (Nf : NoDup (names_of f)) by (eapply Permutation_NoDup; [apply Permutation_sym; exact P|exact N]).
  assert (No : NoDup (names_of out)) by (rewrite Hn; exact N).
  destruct (lookup k f) as [d|] eqn:Lf.
  - assert (I : In (k, d) f).
    { clear -Lf. induction f as [|[k' d'] r IH]; [discriminate|]. simpl in Lf.
      destruct (Z.eqb_spec k k') as [->|Ne]; [injection Lf as ->; now left|right; now apply IH]. }
    apply lookup_in; [exact No|]. eapply Permutation_in; [apply Permutation_sym; exact Po|exact I].
  - destruct (lookup k out) as [d|] eqn:Lo; [|reflexivity].
    assert (I : In (k, d) out).
    { clear -Lo. induction out as [|[k' d'] r IH]; [discriminate|]. simpl in Lo.
      destruct (Z.eqb_spec k k') as [->|Ne]; [injection Lo as ->; now left|right; now apply IH]. }
    assert (I' : In (k, d) f) by (eapply Permutation_in; [exact Po|exact I]).
    rewrite (lookup_in k d f Nf I') in Lf. discriminate.
Qed.

(* the whole grid: every file ends up in the order of the first one, each a re-ordering of itself *)
Theorem read_files_spec f0 rest : NoDup (names_of f0) -> Forall (fun f => Permutation (names_of f) (names_of f0)) rest ->
  exists outs, read_files (f0 :: rest) = Some (f0 :: outs) /\
               Forall2 (fun out f => names_of out = names_of f0 /\ Permutation out f) outs rest.
Proof.
  intros N H. unfold read_files.
  assert (X : exists outs, align_all (names_of f0) rest = Some outs /\
                           Forall2 (fun out f => names_of out = names_of f0 /\ Permutation out f) outs rest).
  { induction H as [|f r Hf _ IH]; [exists []; split; [reflexivity|constructor]|].
    destruct IH as (os & Eo & Fo). destruct (align_by_name (names_of f0) f N Hf) as (o & Ea & Hn & Po).
    exists (o :: os). simpl. rewrite Ea, Eo. split; [reflexivity|]. constructor; [split; assumption|exact Fo]. }
  destruct X as (outs & -> & F). exists outs. split; [reflexivity|exact F].
Qed.

(* version-2 packages: the reference order is the cube's (flux.fits), and every named file is aligned with it (F38) *)
Definition read_files_ref (ref : list K) (files : list (list (K * D))) : option (list (list (K * D))) := align_all ref files.

Theorem read_files_ref_spec ref files : NoDup ref -> Forall (fun f => Permutation (names_of f) ref) files ->
  exists outs, read_files_ref ref files = Some outs /\
               Forall2 (fun out f => names_of out = ref /\ Permutation out f) outs files.
Proof.
  intros N H. unfold read_files_ref.
  induction H as [|f r Hf _ IH]; [exists []; split; [reflexivity|constructor]|].
  destruct IH as (os & Eo & Fo). destruct (align_by_name ref f N Hf) as (o & Ea & Hn & Po).
  exists (o :: os). simpl. rewrite Ea, Eo. split; [reflexivity|]. constructor; [split; assumption|exact Fo].
Qed.

End R.

Example read_files_example :
  read_files Z 0%Z [ [(3, 30); (1, 10); (2, 20)]; [(1, 11); (2, 21); (3, 31)]; [(3, 32); (1, 12); (2, 22)] ]%Z
  = Some [ [(3, 30); (1, 10); (2, 20)]; [(3, 31); (1, 11); (2, 21)]; [(3, 32); (1, 12); (2, 22)] ]%Z.
Proof. vm_compute. reflexivity. Qed.
