"""C12 (peripheral) - an SED cube that carries validity flags cannot be built
through the constructor, so it can never be written / read back.

BaseCube.__init__(valid=None, names=None, ...) assigns ``self.valid`` first;
the ``valid`` setter asks for ``self.n_models`` which reads ``self._names``,
an attribute that does not exist yet.  Any call that passes ``valid`` (which is
also the FIRST positional parameter, ahead of ``names``) dies with
AttributeError, although setting the very same attributes one by one works and
round-trips.
"""
import os
import tempfile

import numpy as np
from astropy import units as u

from sedfitter.sed import SEDCube

names = np.array(['a', 'b', 'c'])
wav = [1., 2., 5., 10.] * u.micron
val = (np.arange(3 * 2 * 4, dtype=float).reshape(3, 2, 4) + 1.) * u.mJy
unc = 0.1 * val
aps = [10., 100.] * u.au
valid = np.array([True, False, True])

# Reference: attribute-by-attribute construction works and round-trips
ref = SEDCube()
ref.names = names
ref.distance = 1. * u.kpc
ref.wav = wav
ref.apertures = aps
ref.val = val
ref.unc = unc
ref.valid = valid
fn = os.path.join(tempfile.mkdtemp(), 'flux.fits')
ref.write(fn)
back = SEDCube.read(fn, order='wav')
assert np.array_equal(back.valid, valid)
assert np.array_equal(back.val.value, val.value)

# The same cube through the constructor
error = None
try:
    cube = SEDCube(valid=valid, names=names, distance=1. * u.kpc, wav=wav,
                   apertures=aps, val=val, unc=unc)
except Exception as exc:
    error = exc

assert error is None, (
    "C12 violated (clause 'writing an SED cube and reading it back returns the "
    "same value for every cell'): SEDCube(valid=[True, False, True], names=[a, b, c], "
    "wav=4 wavelengths, apertures=2, val=..., unc=...) cannot even be created: "
    "%s: %s -- the constructor sets `valid` before `names` exists, while the same "
    "cube built attribute by attribute writes and reads back fine"
    % (type(error).__name__, error))

fn2 = os.path.join(tempfile.mkdtemp(), 'flux.fits')
cube.write(fn2)
back2 = SEDCube.read(fn2, order='wav')
assert np.array_equal(back2.valid, valid)
assert np.array_equal(back2.val.value, val.value)
print("no violation")
