import numpy as np, warnings
from astropy import units as u
from sedfitter.filter import Filter
nu = np.array([1., 2., 3., 4.]) * 1e13
for dt in [np.uint8, np.uint16, np.int8, np.int64, float]:
    r = np.array([0, 100, 100, 0]).astype(dt) * (2 if dt is not np.int8 else 1)
    f = Filter(name='x', central_wavelength=1*u.micron, nu=nu*u.Hz, response=r)
    snu = np.array([0.5, 1.0, 2.5, 3.2, 5.0]) * 1e13 * u.Hz
    b = f.rebin(snu)
    f.normalize()
    b2 = f.rebin(snu)
    print(dt.__name__, b.response.sum() / 1e13, b2.response.sum(), b.response/1e13)
