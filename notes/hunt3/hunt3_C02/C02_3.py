"""
C02 / C13 - a convolved-flux table whose aperture column is stored in single
precision (FITS format 'E', as in the published model packages): the guard
"theta*d below the smallest aperture" is evaluated in single precision, so its
rounding tolerance (1 - 1e-10) collapses to 1 and the first trial distance
10**log10(dmin) = dmin*(1 - 2e-16) is refused although theta*dmin equals the
smallest tabulated aperture. The same table stored in double precision is
accepted and fitted.
"""
import os
import tempfile

import numpy as np
from astropy import units as u

from sedfitter.convolved_fluxes import ConvolvedFluxes
from sedfitter.extinction import Extinction
from sedfitter.source import Source
from sedfitter.fit import Fitter

ext = Extinction()
ext.wav = np.logspace(-2., 3., 50) * u.micron
ext.chi = ext.wav.value ** -1.5 * u.cm ** 2 / u.g

s = Source()
s.name = 'src'
s.valid = [1]
s.flux = np.array([0.5])
s.error = np.array([0.05])

aps = np.array([300., 1000., 8000.])      # exactly representable in float32
outcome = {}
for dtype in (np.float64, np.float32):
    d = tempfile.mkdtemp()
    os.mkdir(os.path.join(d, 'convolved'))
    with open(os.path.join(d, 'models.conf'), 'w') as f:
        f.write("name = test\nlength_subdir = 0\naperture_dependent = yes\nlogd_step = 0.02\n")
    c = ConvolvedFluxes(wavelength=3.6 * u.micron,
                        model_names=np.array(['model_a', 'model_b']),
                        apertures=aps.astype(dtype) * u.au,
                        flux=np.array([[1., 2., 4.], [3., 3.5, 3.7]]) * u.mJy,
                        error=np.array([[.1, .2, .4], [.3, .35, .37]]) * u.mJy)
    c.write(os.path.join(d, 'convolved', 'F1.fits'))
    try:
        # theta * dmin = 1" * 300 pc = 300 AU = smallest tabulated aperture
        info = Fitter(['F1'], [1.] * u.arcsec, d, extinction_law=ext, av_range=(0., 10.),
                      distance_range=[0.3, 15.] * u.kpc).fit(s)
        outcome[dtype] = 'fitted, %d models' % len(info.chi2)
    except Exception as exc:
        outcome[dtype] = 'refused: %r' % (exc,)

# the direct call, same thing (C13: a radius equal to the smallest tabulated
# one up to rounding is accepted for a float64 table, refused for a float32 one)
req = np.array([300. * (1 - 2e-16), 500.]) * u.au
direct = {}
for dtype in (np.float64, np.float32):
    c = ConvolvedFluxes(wavelength=3.6 * u.micron, model_names=np.array(['a']),
                        apertures=aps.astype(dtype) * u.au,
                        flux=np.array([[1., 2., 4.]]) * u.mJy, error=np.array([[.1, .2, .4]]) * u.mJy)
    try:
        direct[dtype] = c.interpolate(req).flux.value.tolist()
    except Exception as exc:
        direct[dtype] = 'refused: %r' % (exc,)

assert outcome[np.float64].startswith('fitted'), outcome
assert outcome[np.float32].startswith('fitted'), (
    "C02 violated: apertures [300, 1000, 8000] AU stored as float32 in the "
    "convolved-flux file, theta = 1 arcsec, distance range [0.3, 15] kpc "
    "(theta*dmin = 300 AU is not below the smallest aperture): %s; with the "
    "aperture column in float64: %s. Direct ConvolvedFluxes.interpolate at "
    "300*(1-2e-16) AU: float32 table -> %s, float64 table -> %s"
    % (outcome[np.float32], outcome[np.float64], direct[np.float32], direct[np.float64]))
print("no violation")
