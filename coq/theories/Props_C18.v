(* C18 — filter_output splits sources into two complete, disjoint, faithful files.
   Model: FilterOut.filter_output_m (single pass, two writers; Python truthiness of chi= / cpd=). *)
From Coq Require Import QArith List Bool Permutation.
Import ListNotations.
From SedV Require Import Xnum Misc FilterOut FilterOutProofs.

(* the two outputs are the order-preserving sub-lists of good and not-good records; together a permutation of the input;
   records are passed through unchanged (the outputs are sub-lists of the input list itself) *)
Theorem C18_partition : forall chi cpd recs,
  let '(g, b) := filter_output_m chi cpd recs in
  g = filter (good_m chi cpd) recs /\ b = filter (fun r => negb (good_m chi cpd r)) recs /\ Permutation (g ++ b) recs.
Proof. exact C18_partition_lemma. Qed.

Theorem C18_one_side : forall chi cpd recs r, In r recs ->
  let '(g, b) := filter_output_m chi cpd recs in
  (In r g /\ good_m chi cpd r = true) \/ (In r b /\ good_m chi cpd r = false).
Proof. exact C18_exactly_one. Qed.

Theorem C18_chi : forall c best nd id, ~ c == 0 ->
  good_m (Some c) None {| fr_id := id; fr_best := Fin best; fr_nd := nd |} = true <-> best < c.
Proof. exact C18_criterion_chi. Qed.

Theorem C18_cpd : forall c best nd id, ~ c == 0 ->
  good_m None (Some c) {| fr_id := id; fr_best := Fin best; fr_nd := nd |} = true <-> best / (Zpos nd # 1) < c.
Proof. exact C18_criterion_cpd. Qed.

(* a source for which no fit was kept has no best chi^2 to be below a threshold: it goes to the bad file under every criterion *)
Theorem C18_no_fit : forall chi cpd nd id, good_m chi cpd {| fr_id := id; fr_best := NaN; fr_nd := nd |} = false.
Proof. exact C18_no_fit_lemma. Qed.

(* nothing is lost or invented: the two files together hold exactly as many records as the input *)
Theorem C18_counts : forall chi cpd recs,
  let '(g, b) := filter_output_m chi cpd recs in (length g + length b = length recs)%nat.
Proof. exact fo_counts. Qed.

(* without a usable threshold (None or 0 for both, Python truthiness) every record goes to the bad file, in input order *)
Theorem C18_no_threshold : forall chi cpd recs, thr_on chi = false -> thr_on cpd = false ->
  filter_output_m chi cpd recs = ([], recs).
Proof. exact fo_no_threshold. Qed.

(* when both chi= and cpd= are given the two criteria are joined by "or" *)
Theorem C18_both : forall chi cpd r, good_m chi cpd r = good_m chi None r || good_m None cpd r.
Proof. exact fo_both. Qed.

(* for sources with distinct identifiers, no identifier appears in both files or twice in one *)
Theorem C18_ids_disjoint : forall chi cpd recs, NoDup (map fr_id recs) ->
  let '(g, b) := filter_output_m chi cpd recs in
  NoDup (map fr_id g) /\ NoDup (map fr_id b) /\ forall i, In i (map fr_id g) -> ~ In i (map fr_id b).
Proof. exact fo_ids_disjoint. Qed.

Example C18_example :
  filter_output_m (Some 3) None [ {| fr_id := 0; fr_best := Fin 1; fr_nd := 2 |}; {| fr_id := 1; fr_best := Fin 5; fr_nd := 2 |};
                                  {| fr_id := 2; fr_best := Fin 2; fr_nd := 1 |} ]
  = ([ {| fr_id := 0; fr_best := Fin 1; fr_nd := 2 |}; {| fr_id := 2; fr_best := Fin 2; fr_nd := 1 |} ],
     [ {| fr_id := 1; fr_best := Fin 5; fr_nd := 2 |} ]).
Proof. reflexivity. Qed.
