import sys; sys.path.insert(0, 'hunt_out')
from harness import *
d = tempfile.mkdtemp()
cube = make_pkg(d, n_ap=8)
wavs = [cube.wav[i] for i in (5, 12, 20, 30)]
aps = np.array([3., 5., 3., 8.]) * u.arcsec
ext = make_ext()
srcs = [make_source(4, name=n, seed=k) for k, n in enumerate(['s1', 's10', 'a', 's1b'])]
srcs[2].valid = np.array([1, 0, 3, 4]); 
data = os.path.join(d, 'data.txt')
with open(data, 'w') as f:
    for s in srcs:
        f.write(s.to_ascii() + '\n')
out = os.path.join(d, 'out.fitinfo')
quiet(fit, data, wavs, aps, d, out, extinction_law=ext, av_range=(0., 10.), distance_range=(0.5, 3.) * u.kpc, output_format=('N', 5), output_convolved=True)
from sedfitter.fit_info import FitInfoFile
infos = list(FitInfoFile(out, 'r'))
print([i.source.name for i in infos], [i.n_fits for i in infos])
for mode in ['interp', 'all']:
  for inp in [out, infos, tuple(infos)]:
    for srcsel in [None, ['a', 's1']]:
        figs = plot(inp, select_format=('N', 3), sed_type=mode, sources=srcsel)
        print(mode, type(inp).__name__, srcsel, sorted(figs.keys()), [len(figs[k]['lines'].get_segments()) for k in sorted(figs)])
        wav = np.array([w.value for w in wavs])
        for info in infos:
            if info.source.name not in figs: continue
            segs = figs[info.source.name]['lines'].get_segments()
            nper = len(segs) // 3
            for k in range(3):
                i = 2 - k
                for j in range(nper):
                    seg = segs[k * nper + j]
                    for f in range(4):
                        if mode == 'all' and aps.value[f] != np.unique(aps.value)[j]: continue
                        idx = np.argmin(np.abs(np.log(seg[:, 0]) - np.log(wav[f])))
                        pred = 10. ** (info.model_fluxes[i, f] - 26. + np.log10(2.99792458e8 / (wav[f] * 1e-6)))
                        r = seg[idx, 1] / pred
                        assert abs(r - 1) < 2e-3, (info.source.name, i, j, f, r)
    # infos unchanged?
    assert all(i.n_fits == 5 for i in infos)
# output to dir
od = os.path.join(d, 'plots')
for pm in ['A', 'I']:
    plot(out, output_dir=od + pm, select_format=('N', 3), sed_type='all', plot_mode=pm, show_convolved=True, format='png')
    print(sorted(os.listdir(od + pm)))
figs = plot(out, select_format=('N', 3), plot_mode='I')
print({k: len(v['lines'].get_segments()) for k, v in figs.items()})
