import sys; sys.path.insert(0, 'hunt_out')
from t1 import *
for c in [dict(n_ap=0, aperture_dependent=True), dict(n_ap=5, aperture_dependent=False), dict(n_ap=1, aperture_dependent=False),
          dict(names=['b', 'a', 'ab', 'a_b', 'B', '10']), dict(names=['m' * 45 + str(i) for i in range(6)]),
          dict(names=['é%d' % i for i in range(6)]),
          dict(apmin=1., apmax=3.5),
          ]:
    for st in ['interp', 'all']:
        try:
            w = run(sed_type=st, verbose=False, **c)
            print('CASE', c, st, 'worst', w, 'BAD' if not w < 2e-3 else '')
        except Exception as e:
            print('CASE', c, st, 'EXC', type(e).__name__, str(e)[:200])
