import os, gzip, shutil
import numpy as np
from astropy.io import fits
from astropy.table import Table
from astropy import units as u

C = 299792458.

def write_sed_raw(path, name, nu_hz, flux, err, apertures_au, reverse=False, flux_unit='mJy',
                  wav_unit='um', nu_unit='Hz', ap_unit='AU', distance_cm=3.0856775814913674e21, gz=False,
                  nu_scale=1.0, wav_scale=1.0):
    """flux, err: (n_ap, n_wav) aligned with nu_hz."""
    nu_hz = np.asarray(nu_hz, float)
    wav = C / nu_hz * 1e6
    flux = np.atleast_2d(flux); err = np.atleast_2d(err)
    if reverse:
        nu_hz = nu_hz[::-1]; wav = wav[::-1]; flux = flux[:, ::-1]; err = err[:, ::-1]
    hdu0 = fits.PrimaryHDU()
    hdu0.header['MODEL'] = name
    if distance_cm is not None:
        hdu0.header['DISTANCE'] = distance_cm
    hdu0.header['NAP'] = flux.shape[0]
    hdu0.header['NWAV'] = flux.shape[1]
    c1 = fits.Column(name='WAVELENGTH', format='D', unit=wav_unit, array=wav * wav_scale)
    c2 = fits.Column(name='FREQUENCY', format='D', unit=nu_unit, array=nu_hz * nu_scale)
    hdu1 = fits.BinTableHDU.from_columns([c1, c2]); hdu1.name = 'WAVELENGTHS'
    hdu2 = fits.BinTableHDU.from_columns([fits.Column(name='APERTURE', format='D', unit=ap_unit, array=np.asarray(apertures_au, float))]); hdu2.name = 'APERTURES'
    nw = flux.shape[1]
    c3 = fits.Column(name='TOTAL_FLUX', format='%dD' % nw, unit=flux_unit, array=flux)
    c4 = fits.Column(name='TOTAL_FLUX_ERR', format='%dD' % nw, unit=flux_unit, array=err)
    hdu3 = fits.BinTableHDU.from_columns([c3, c4]); hdu3.name = 'SEDS'
    os.makedirs(os.path.dirname(path), exist_ok=True)
    fits.HDUList([hdu0, hdu1, hdu2, hdu3]).writeto(path, overwrite=True)
    if gz:
        with open(path, 'rb') as f, gzip.open(path + '.gz', 'wb') as g:
            shutil.copyfileobj(f, g)
        os.remove(path)

def write_conf(d, version=1, apdep=False):
    with open(os.path.join(d, 'models.conf'), 'w') as f:
        f.write("name = test\nlength_subdir = 0\naperture_dependent = %s\nlogd_step = 0.02\n" % ('yes' if apdep else 'no'))
        if version == 2:
            f.write("version = 2\n")

def write_params(d, names, gz=False):
    t = Table()
    t['MODEL_NAME'] = np.array(names, dtype='S30')
    t['par1'] = np.arange(len(names)) + 1.
    t['par2'] = (np.arange(len(names)) + 1.) ** 2
    t.write(os.path.join(d, 'parameters.fits'), overwrite=True)
    if gz:
        p = os.path.join(d, 'parameters.fits')
        with open(p, 'rb') as f, gzip.open(p + '.gz', 'wb') as g:
            shutil.copyfileobj(f, g)
        os.remove(p)

def ref_R(fnu, fr, snu):
    fn = np.array(fnu, float); r = np.array(fr, float)
    if fn[0] > fn[-1]:
        fn = fn[::-1]; r = r[::-1]
    s = np.array(snu, float); n = len(s); R = np.zeros(n)
    def F(a, b):
        if b <= a: return 0.
        pts = [a] + [x for x in fn if a < x < b] + [b]
        ys = np.interp(pts, fn, r)
        return float(np.sum(0.5 * np.diff(pts) * (ys[1:] + ys[:-1])))
    for i in range(n):
        lo = s[i] if i == 0 else 0.5 * (s[i - 1] + s[i])
        hi = s[i] if i == n - 1 else 0.5 * (s[i] + s[i + 1])
        if lo > hi: lo, hi = hi, lo
        lo = min(max(lo, fn[0]), fn[-1]); hi = min(max(hi, fn[0]), fn[-1])
        R[i] = F(lo, hi)
    return R
