"""Fit cases shared by C01, C02, C03, C04, C11: generation, package writing, implementation runner, model request,
and exact (Fraction) evaluation of the property's own objective."""
import math
import os
import tempfile
from fractions import Fraction

from common import F

FLAGS = [0, 1, 2, 3, 4, 9]
V_UM = 0.55

# ---------------------------------------------------------------------------
# generation


def gen_ext(rng, wavs):
    """an opacity table in increasing wavelength covering 0.55 micron (and usually the filters)"""
    n = rng.choice([2, 3, 5, 8, 20, 50])
    lo = rng.choice([0.05, 0.1, 0.3])
    hi = rng.choice([30.0, 100.0]) if rng.random() < 0.85 else max(1.0, sorted(wavs)[len(wavs) // 2])   # sometimes filters fall outside
    xs = sorted(set([lo, hi] + [rng.logdyadic(lo, hi, 12) for _ in range(n - 2)]))
    chi = [rng.logdyadic(1.0, 1e4, 12) * (x ** -1.2) for x in xs]
    chi = [float(Fraction(c).limit_denominator(1 << 20)) for c in chi]
    if rng.random() < 0.12:
        # a law that is very weak everywhere but around V (far-infrared / sub-mm bands): extinction coefficients of order 1e-6 to 1e-9,
        # still distinct from band to band - a well-posed regression with a tiny determinant
        weak = 2.0 ** -rng.choice([20, 24, 30])
        pts = {x: c * weak for x, c in zip(xs, chi) if not 0.5 <= x <= 0.6}
        pts.update({0.5: 300.0, 0.55: 256.0, 0.6: 200.0})
        if lo > 0.5:
            pts[0.25] = 600.0 * weak
        xs = sorted(pts)
        chi = [pts[x] for x in xs]
    # the unit the law's wavelength column is tabulated in (the values below stay in micron; make_extinction converts)
    return dict(wav=xs, chi=chi, unit=rng.choice(['micron', 'micron', 'micron', 'cm', 'nm', 'Angstrom']))


def gen_source(rng, nb, flags=None, hostile=False, min_fitted=2):
    if flags is None:
        while True:
            flags = [rng.choice([1, 1, 1, 4, 2, 3, 0, 9]) for _ in range(nb)]
            if sum(1 for f in flags if f in (1, 4)) >= min_fitted:
                break
    flux, err = [], []
    for f in flags:
        if f == 1:
            x = rng.logdyadic(1e-4, 1e4, 14)
            flux.append(x)
            err.append(x * rng.choice([0.005, 0.02, 0.1, 0.3, 0.5]) * rng.dyadic(0.8, 1.2, 6))
        elif f in (2, 3):
            flux.append(rng.logdyadic(1e-4, 1e4, 14))
            err.append(rng.choice([0.0, 1.0, rng.dyadic(0.05, 0.95, 8), rng.dyadic(0.05, 0.95, 8)]))
        elif f == 4:
            flux.append(rng.dyadic(-4, 4, 14))
            err.append(rng.dyadic(0.005, 0.3, 10))
        else:   # 0 or 9: ignored
            if hostile:
                flux.append(rng.choice([-999.0, 0.0, -3.5, 1e30, 1e-30, 7.25]))
                err.append(rng.choice([-999.0, 0.0, 1e30, 0.5, -1.0]))
            else:
                flux.append(rng.logdyadic(1e-3, 1e3, 10))
                err.append(rng.logdyadic(1e-4, 1e2, 10))
    return dict(name='src', flags=flags, flux=flux, err=err)


def gen_case(rng, mode='2d', nb=None, nm=None, flags=None, hostile=False, fmt=None):
    nb = nb or rng.randint(2, 6)
    nm = nm or rng.randint(1, 8)
    wavs = []
    while len(wavs) < nb:
        w = rng.logdyadic(0.3, 25.0, 10)
        if all(abs(w - x) > 0.02 * x for x in wavs):
            wavs.append(w)
    src = gen_source(rng, nb, flags=flags, hostile=hostile, min_fitted=2 if mode == '2d' else 1)
    ext = gen_ext(rng, wavs)
    kind = rng.choice(['wide', 'wide', 'low', 'high', 'point', 'narrow'])
    avr = {'wide': [0.0, 40.0], 'low': [rng.dyadic(5, 30, 6), 60.0], 'high': [0.0, rng.dyadic(0.0, 3.0, 6)],
           'point': [2.5, 2.5], 'narrow': [1.0, 1.5]}[kind]
    case = dict(mode=mode, fmt=fmt or 'v1', src=src, wav=wavs, ext=ext, av_range=avr, names=['model_%04d' % i for i in range(nm)])
    # model fluxes roughly around the data so that limits fall on both sides
    base = [x if f != 4 else 10.0 ** min(max(x, -4), 4) for x, f in zip(src['flux'], src['flags'])]
    base = [b if (b > 0 and math.isfinite(b) and b < 1e20 and b > 1e-20) else 1.0 for b in base]
    if mode == '2d':
        case['flux'] = [[b * rng.logdyadic(0.05, 20.0, 12) for b in base] for _ in range(nm)]
    else:
        nap = rng.randint(2, 8)
        case['theta'] = [rng.dyadic(1.0, 10.0, 6) for _ in range(nb)]
        dk = rng.choice(['range', 'range', 'range', 'equal', 'beyond', 'exact'])
        d0 = rng.logdyadic(0.05, 5.0, 8)
        d1 = d0 if dk == 'equal' else d0 * rng.logdyadic(1.2, 30.0, 8)
        case['logd_step'] = rng.choice([0.01, 0.02, 0.05, 0.1, 0.25, 0.5])
        if dk == 'exact':      # the range is an exact whole number of steps, in floating point and in exact arithmetic alike
            d0 = rng.choice([0.1, 1.0])
            d1 = d0 * rng.choice([10.0, 100.0])
            case['logd_step'] = rng.choice([0.125, 0.25, 0.5, 1.0])
        case['drange'] = [d0, d1]
        case['aps'] = []
        case['flux'] = [[None] * nb for _ in range(nm)]
        for j in range(nb):
            rmin = case['theta'][j] * d0 * 1000.0
            rmax = case['theta'][j] * d1 * 1000.0
            lo = rmin * rng.dyadic(0.3, 0.95, 6)
            hi = rmax * (rng.dyadic(1.2, 3.0, 6) if dk != 'beyond' else rng.dyadic(0.3, 0.9, 6))
            hi = max(hi, lo * 1.5)
            aps = sorted(set([lo, hi] + [rng.logdyadic(lo, hi, 10) for _ in range(nap - 2)]))
            case['aps'].append(aps)
            for m in range(nm):
                scale = base[j] * (0.3 * (d0 + d1)) ** 2 * rng.logdyadic(0.05, 20.0, 10)
                if rng.random() < 0.6:   # non-decreasing growth curve
                    acc, fl = rng.dyadic(0.1, 1.0, 8), []
                    for _ in aps:
                        fl.append(acc * scale)
                        acc += rng.dyadic(0.0, 1.0, 8)
                else:
                    fl = [rng.dyadic(0.1, 3.0, 8) * scale for _ in aps]
                case['flux'][m][j] = fl
    if fmt is None and rng.random() < 0.3:       # drawn last, so that the rest of the case does not depend on it
        case['fmt'] = 'v2'
    if mode == '2d' and rng.random() < 0.3:
        case['no_drange'] = True
    if nm > 1 and rng.random() < 0.25:
        case['band_orders'] = [rng.sample(list(range(nm)), nm) for _ in range(nb)]
    return case


# ---------------------------------------------------------------------------
# implementation side

def write_conf(d, aperture_dependent, logd_step=0.02, version=None):
    with open(os.path.join(d, 'models.conf'), 'w') as f:
        f.write("name = test\nlength_subdir = 0\n")
        f.write("aperture_dependent = %s\n" % ('yes' if aperture_dependent else 'no'))
        f.write("logd_step = %r\n" % logd_step)
        if version:
            f.write("version = %d\n" % version)


def write_pkg(d, case, order=None):
    """v1 package with convolved files only (no SEDs needed by the fitter)"""
    import numpy as np
    from astropy import units as u
    from sedfitter.convolved_fluxes import ConvolvedFluxes
    os.mkdir(os.path.join(d, 'convolved'))
    nm = len(case['names'])
    order = list(range(nm)) if order is None else order
    names = np.array([case['names'][i] for i in order], dtype='S30')
    for j, w in enumerate(case['wav']):
        # the convolved files of a package need not list the models in the same order (they may have been made at different times):
        # band j lists them in its own order when the case says so; the first band keeps the package order
        bo = case.get('band_orders')
        oj = [order[t] for t in bo[j]] if bo and j > 0 else order
        names_j = np.array([case['names'][i] for i in oj], dtype='S30')
        if case['mode'] == '2d':
            flux = np.array([[case['flux'][i][j]] for i in oj], dtype=float)
            aps = None
        else:
            flux = np.array([case['flux'][i][j] for i in oj], dtype=float)
            aps = np.array(case['aps'][j], dtype=np.float32 if case.get('ap_dtype') == 'float32' else float) * u.au      # (real packages store the APERTURE column in single precision)
        c = ConvolvedFluxes(wavelength=w * u.micron, model_names=names_j, apertures=aps, flux=flux * u.mJy, error=flux * 0.0 * u.mJy)
        c.write(os.path.join(d, 'convolved', 'F%d.fits' % j))
    if case.get('fmt') == 'v2':
        # version-2 package: Models.read also wants the flux cube (only its model list is used when every filter is a named one)
        from sedfitter.sed import SEDCube
        cube = SEDCube()
        cube.names = names
        cube.distance = 1.0 * u.kpc
        cube.wav = np.array([2.0, 1.0]) * u.micron
        nap = 1 if case['mode'] == '2d' else len(case['aps'][0])
        cube.apertures = None if case['mode'] == '2d' else np.array(case['aps'][0], dtype=float) * u.au
        cube.val = np.ones((nm, nap, 2)) * u.mJy
        cube.unc = np.zeros((nm, nap, 2)) * u.mJy
        cube.write(os.path.join(d, 'flux.fits'))
    write_conf(d, case['mode'] == '3d', case.get('logd_step', 0.02), version=2 if case.get('fmt') == 'v2' else None)


def make_extinction(ext):
    import numpy as np
    from astropy import units as u
    from sedfitter.extinction import Extinction
    e = Extinction()
    e.wav = (np.array(ext['wav'], dtype=float) * u.micron).to(u.Unit(ext.get('unit', 'micron')))
    e.chi = np.array(ext['chi'], dtype=float) * u.cm ** 2 / u.g
    return e


def make_source(src):
    from sedfitter.source import Source
    s = Source()
    s.name = src['name']
    s.x, s.y = 0.0, 0.0
    s.valid = list(src['flags'])
    s.flux = list(src['flux'])
    s.error = list(src['err'])
    return s


def make_fitter(d, case, bands=None, **kw):
    import numpy as np
    from astropy import units as u
    from sedfitter.fit import Fitter
    nb = len(case['wav'])
    bands = list(range(nb)) if bands is None else bands
    theta = [case.get('theta', [3.0] * nb)[j] for j in bands]
    dr = case.get('drange', [1.0, 2.0])
    if case.get('fmt') == 'v2':
        kw.setdefault('use_memmap', False)      # float64 model fluxes: the comparison tolerances assume them (the float32 memory map is exercised by C08 and by rr_mm below)
    drq = None if (case['mode'] == '2d' and case.get('no_drange')) else np.array(dr) * u.kpc      # the range has no meaning for distance-independent packages: it may be left out
    if drq is not None and case.get('drange_dtype') == 'float32':      # the same two numbers held in single precision
        drq = drq.astype(np.float32)
    avr = tuple(case['av_range'])
    if case.get('av_list'):
        # the A_V range handed over as a list which the caller goes on to use for something else once the Fitter is built
        avr = list(case['av_range'])
    f = Fitter(['F%d' % j for j in bands], np.array(theta) * u.arcsec, d, extinction_law=make_extinction(case['ext']),
               av_range=avr, distance_range=drq, **kw)
    if case.get('av_list'):
        avr[0], avr[1] = avr[0] - 1.0, avr[1] + 17.0
    return f


def info_out(info, fitter=None):
    import numpy as np
    out = dict(av=[float(x) for x in info.av], sc=[float(x) for x in info.sc], chi2=[float(x) for x in info.chi2],
               model_id=[int(x) for x in info.model_id],
               model_name=[(x.decode() if isinstance(x, bytes) else str(x)).strip() for x in info.model_name],
               model_fluxes=None if info.model_fluxes is None else [[float(v) for v in row] for row in np.asarray(info.model_fluxes)])
    if fitter is not None:
        out['av_law'] = [float(x) for x in fitter.av_law]
        out['sc_law'] = [float(x) for x in fitter.sc_law]
        m = fitter.models
        if m.n_distances is not None:
            out['n_distances'] = int(m.n_distances)
            out['logd'] = [float(x) for x in m.logd]
            out['distances_kpc'] = [float(x) for x in m.distances.to('kpc').value]
    return out


def impl_fit(case):
    with tempfile.TemporaryDirectory() as d:
        write_pkg(d, case)
        fitter = make_fitter(d, case)
        for w in case.get('warmup', []):          # other sources the same Fitter fitted before (their results are not examined)
            fitter.fit(make_source(w))
        if case.get('edited_from'):      # the SAME Source object was fitted (and printed) in an earlier state and then edited element by element
            s = make_source(case['edited_from'])
            fitter.fit(s)
            str(s)
            for i in range(len(case['src']['flags'])):
                s.valid[i] = case['src']['flags'][i]
                s.flux[i] = case['src']['flux'][i]
                s.error[i] = case['src']['err'][i]
            s.name = case['src']['name']
            info = fitter.fit(s)
        else:
            info = fitter.fit(make_source(case['src']))
        out = info_out(info, fitter)
        if case.get('resort'):       # FitInfo.sort() is public: sorting a result that is already sorted must leave every row describing one model
            import copy
            i2 = copy.copy(info)
            i2.sort()
            out['resorted'] = dict(model_id=[int(x) for x in i2.model_id], model_name=[(x.decode() if isinstance(x, bytes) else str(x)).strip() for x in i2.model_name],
                                   chi2=[float(x) for x in i2.chi2])
        if case['mode'] == '3d':      # the same fit with remove_resolved=True (not modelled; its rows are judged by the row / ranking / flux clauses only)
            try:
                frr = make_fitter(d, case, remove_resolved=True)
                out['rr'] = info_out(frr.fit(make_source(case['src'])), frr)
                import numpy as np
                ext = frr.models.extended
                out['rr_ext'] = np.asarray(ext).astype(int).tolist() if isinstance(ext, np.ndarray) else None      # [model][distance][band] (plain array or memmap)
            except Exception as e:
                out['rr'] = {'exc': '%s: %s' % (type(e).__name__, e)}
            if case.get('fmt') == 'v2':         # and once more the way Fitter does it by default: memory-mapped arrays
                try:
                    fmm = make_fitter(d, case, remove_resolved=True, use_memmap=True)
                    out['rr_mm'] = info_out(fmm.fit(make_source(case['src'])), fmm)
                    out['rr_mm_ext'] = np.asarray(fmm.models.extended).astype(int).tolist()
                except Exception as e:
                    out['rr_mm'] = {'exc': '%s: %s' % (type(e).__name__, e)}
        return out


# ---------------------------------------------------------------------------
# model side

def raws(src):
    return [[int(f), F(x), F(e)] for f, x, e in zip(src['flags'], src['flux'], src['err'])]


def ext_tab(ext):
    return [[F(x), F(c)] for x, c in zip(ext['wav'], ext['chi'])]


def model_request(case, src=None):
    src = src or case['src']
    if case['mode'] == '2d':
        return ('fit2_pkg', [ext_tab(case['ext']), F(V_UM), [F(w) for w in case['wav']], F(case['av_range'][0]), F(case['av_range'][1]),
                             raws(src), [[F(x) for x in row] for row in case['flux']]])
    import numpy as np
    d0, d1 = case['drange']
    if d0 == d1:
        ds = [d0]
    else:
        n = n_grid(case)[0]
        ds = [float(x) for x in np.logspace(np.log10(d0), np.log10(d1), n)]
        ds[0], ds[-1] = d0, d1
    logds = [float(np.log10(x)) for x in ds]
    models = [[[[F(a), F(f)] for a, f in zip(case['aps'][j], case['flux'][m][j])] for j in range(len(case['wav']))] for m in range(len(case['names']))]
    return ('fit3_pkg', [ext_tab(case['ext']), F(V_UM), [F(w) for w in case['wav']], F(case['av_range'][0]), F(case['av_range'][1]),
                         raws(src), [F(t) for t in case['theta']], [F(x) for x in ds], [F(x) for x in logds], models])


# ---------------------------------------------------------------------------
# exact evaluation of the property's own objective (independent of the Coq model)

def k_law(ext, w):
    """-0.4 chi(lambda)/chi(V), chi linearly interpolated, 0 outside the table (exact)"""
    xs, cs = [F(x) for x in ext['wav']], [F(c) for c in ext['chi']]

    def interp(t):
        for i in range(len(xs) - 1):
            if xs[i] <= t <= xs[i + 1]:
                return cs[i] + (t - xs[i]) * (cs[i + 1] - cs[i]) / (xs[i + 1] - xs[i])
        raise ValueError
    t = F(w)
    if t < xs[0] or t > xs[-1]:
        return Fraction(0)
    return Fraction(-4, 10) * interp(t) / interp(F(V_UM))


def log_bands(src):
    """(flag, log flux, log error / confidence, weight) per band, with numpy's log10 as the oracle (exact Fractions otherwise)"""
    import numpy as np
    ln10 = F(float(np.log(10.)))
    out = []
    for f, x, e in zip(src['flags'], src['flux'], src['err']):
        if f == 1:
            r = F(e) / F(x)
            le = abs(r) / ln10
            out.append((1, F(float(np.log10(x))) - Fraction(1, 2) * r * r / ln10, le, 1 / (le * le)))
        elif f in (2, 3):
            out.append((f, F(float(np.log10(x))), F(e), Fraction(0)))
        elif f == 4:
            out.append((4, F(x), F(e), 1 / (F(e) * F(e))))
        else:
            out.append((f, Fraction(0), Fraction(0), Fraction(0)))
    return out


def objective(bands, ks, lms, av, sc):
    """sum over fitted points of w (log obs - log model - av k + 2 sc)^2  (the statement of C01)"""
    s = Fraction(0)
    for (f, lf, le, w), k, lm in zip(bands, ks, lms):
        if f in (1, 4):
            r = lf - lm - av * k + 2 * sc
            s += w * r * r
    return s


def penalties(bands, ks, lms, av, sc):
    """(finite part, number of infinite penalties, min margin) of the limit penalties at (av, sc)"""
    import numpy as np
    tot, ninf, margin = Fraction(0), 0, None
    for (f, lf, le, w), k, lm in zip(bands, ks, lms):
        if f in (2, 3):
            pred = lm + av * k - 2 * sc
            diff = pred - lf
            m = abs(diff)
            margin = m if margin is None else min(margin, m)
            viol = (diff < 0) if f == 2 else (diff > 0)
            if viol:
                c = float(le)
                p = -2.0 * np.log(1.0 - c) if c < 1 else math.inf
                if math.isinf(p):
                    ninf += 1
                else:
                    tot += F(float(p))
    return tot, ninf, margin


HUGE = 1e30


def canon_chi(x):
    """every chi2 >= 1e30 (penalties, +inf) is the single token HUGE"""
    x = float(x)
    if math.isnan(x):
        return 'nan'
    return 'HUGE' if x >= HUGE * 0.999999 else x


def decades(case):
    """k if dmax/dmin is exactly 10**k (k = 1..6), else None"""
    d0, d1 = F(case['drange'][0]), F(case['drange'][1])
    for k in range(1, 7):
        if d1 == d0 * 10 ** k:
            return k
    return None


def n_grid(case):
    """(n, also_ok): the documented number of trial distances ceil(1 + L/step), L = log10(dmax/dmin).  When the range spans a whole
    number of decades L is known exactly and so is n (rational arithmetic with the step as the double it is); n - 1 is acceptable
    as well when 1 + L/step exceeds a whole number by less than 1e-9 (the spacing then exceeds the step by a rounding error).
    Otherwise numpy's log10 is the oracle."""
    import math
    import numpy as np
    d0, d1 = case['drange']
    k = decades(case)
    if k is not None:
        x = 1 + F(k) / F(case['logd_step'])
        n = math.ceil(x)
        return n, ([n - 1] if 0 < x - math.floor(x) < Fraction(1, 10 ** 9) else [])
    return int(np.ceil(1 + np.log10(d1 / d0) / case['logd_step'])), []


def grid_of(case):
    """the harness' own evaluation of the documented distance grid (numpy oracles for log10 / logspace)"""
    import numpy as np
    d0, d1 = case['drange']
    if d0 == d1:
        ds = [d0]
    else:
        n = n_grid(case)[0]
        ds = [float(x) for x in np.logspace(np.log10(d0), np.log10(d1), n)]
        ds[0], ds[-1] = d0, d1          # the grid includes both ends of the requested range (10**log10(d) may be one ulp off)
    return ds, [float(np.log10(x)) for x in ds]


def cmp3d_row(im, i, r, tol):
    """tie-robust comparison of one implementation row with the model's per-distance results"""
    from common import close
    av_m, sc_m, chi_m, pred_m, best, grid, avs = r
    logd = im['logd']
    k = min(range(len(logd)), key=lambda t: abs(logd[t] - im['sc'][i]))
    out = []
    if abs(logd[k] - im['sc'][i]) > 1e-12:
        return ['scale %r is not a grid log-distance' % im['sc'][i]], k
    if not close(im['av'][i], avs[k], tol, tol):
        out.append('av at distance %d: implementation %r model %r' % (k, im['av'][i], float(avs[k])))
    ci, cm = canon_chi(im['chi2'][i]), canon_chi(grid[k])
    if (ci == 'HUGE') != (cm == 'HUGE') or (ci != 'HUGE' and not close(ci, cm, max(tol * 10, 1e-7), 1e-8)):
        out.append('chi2 at distance %d: implementation %r model %r' % (k, im['chi2'][i], cm if cm == 'HUGE' else float(cm)))
    fin = [float(g) for g in grid if canon_chi(g) != 'HUGE']
    if fin and ci != 'HUGE' and ci > min(fin) + max(tol * 10, 1e-7) * (1 + min(fin)):
        out.append('chi2 %r is not the grid minimum %r' % (ci, min(fin)))
    return out, k


def shrink(case):
    """smaller variants of a fit case: fewer models, fewer bands, rounder numbers (used by the replay shrinker)"""
    import copy
    nm, nb = len(case['names']), len(case['wav'])
    if case.get('warmup'):
        c = copy.deepcopy(case)
        c['warmup'] = c['warmup'][:-1]
        yield c
    for i in range(nm):
        if nm > 1:
            c = copy.deepcopy(case)
            del c['names'][i]
            del c['flux'][i]
            yield c
    for j in range(nb):
        if nb > (2 if case['mode'] == '2d' else 1):
            c = copy.deepcopy(case)
            del c['wav'][j]
            for k in ('flags', 'flux', 'err'):
                del c['src'][k][j]
                for w in c.get('warmup', []):
                    del w[k][j]
            for row in c['flux']:
                del row[j]
            if 'theta' in c:
                del c['theta'][j]
                del c['aps'][j]
            for extra in ('variants', 'others'):
                c.pop(extra, None)
            if sum(1 for f in c['src']['flags'] if f in (1, 4)) >= (2 if case['mode'] == '2d' else 1):
                yield c
    if len(case['ext']['wav']) > 3:
        c = copy.deepcopy(case)
        keep = [0, len(c['ext']['wav']) // 2, len(c['ext']['wav']) - 1]
        c['ext'] = dict(wav=[c['ext']['wav'][i] for i in keep], chi=[c['ext']['chi'][i] for i in keep], unit=c['ext'].get('unit', 'micron'))
        if c['ext']['wav'][0] <= V_UM <= c['ext']['wav'][-1]:
            yield c
