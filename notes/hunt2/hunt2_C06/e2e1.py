import os, tempfile, gzip, shutil
import numpy as np
from astropy import units as u
from astropy.io import fits
from astropy.table import Table
from sedfitter.filter import Filter
from sedfitter.convolve import convolve_model_dir
from sedfitter.convolved_fluxes import ConvolvedFluxes
import sys
sys.path.insert(0, os.path.dirname(__file__))
from fuzz_rebin_lib import ref_rebin

c = 299792458.

def write_sed(path, name, nu_hz, flux_mjy, err_mjy, ap_au, nu_unit='Hz', wav_unit='um', flux_unit='mJy', dist_cm=None, gz=False, dtype='f8'):
    # flux_mjy shape (n_ap, n_wav), given in order of nu_hz
    wav_um = c / nu_hz * 1e6
    nu_q = (nu_hz * u.Hz).to(nu_unit).value
    wav_q = (wav_um * u.micron).to(wav_unit).value
    d = (1 * u.kpc) if dist_cm is None else dist_cm * u.cm
    fu = u.Unit(flux_unit)
    def conv(f):
        f = f * u.mJy
        if fu.is_equivalent(u.mJy):
            return f.to(fu).value
        f = (f * (nu_hz * u.Hz)).to(u.erg / u.cm**2 / u.s)
        if fu.is_equivalent(u.erg / u.cm**2 / u.s):
            return f.to(fu).value
        return (f * d**2 ).to(fu).value   # power: F*d^2 (package convention, no 4pi)
    hdu0 = fits.PrimaryHDU()
    hdu0.header['MODEL'] = name
    if dist_cm is not None:
        hdu0.header['DISTANCE'] = dist_cm
    c1 = fits.Column(name='WAVELENGTH', format='D' if dtype == 'f8' else 'E', array=wav_q, unit=wav_unit)
    c2 = fits.Column(name='FREQUENCY', format='D' if dtype == 'f8' else 'E', array=nu_q, unit=nu_unit)
    hdu1 = fits.BinTableHDU.from_columns([c1, c2]); hdu1.name = 'WAVELENGTHS'
    hdu2 = fits.BinTableHDU.from_columns([fits.Column(name='APERTURE', format='D', array=ap_au, unit='AU')]); hdu2.name = 'APERTURES'
    n = len(nu_hz)
    fm = '%d%s' % (n, 'D' if dtype == 'f8' else 'E')
    hdu3 = fits.BinTableHDU.from_columns([fits.Column(name='TOTAL_FLUX', format=fm, array=conv(flux_mjy), unit=flux_unit),
                                          fits.Column(name='TOTAL_FLUX_ERR', format=fm, array=conv(err_mjy), unit=flux_unit)]); hdu3.name = 'SEDS'
    fits.HDUList([hdu0, hdu1, hdu2, hdu3]).writeto(path)
    if gz:
        with open(path, 'rb') as fi, gzip.open(path + '.gz', 'wb') as fo:
            shutil.copyfileobj(fi, fo)
        os.remove(path)

def run(seed):
    rng = np.random.default_rng(seed)
    d = tempfile.mkdtemp()
    os.mkdir(d + '/seds')
    n_models = rng.integers(1, 6)
    n_ap = rng.integers(1, 4)
    ap = np.sort(rng.uniform(10, 1000, n_ap))
    names = []
    seds = {}
    same_grid = rng.random() < .5
    base_n = rng.integers(2, 81)
    base_nu = np.sort(rng.uniform(0.5e13, 2.5e13, base_n))
    pool = ['m_1', 'm_10', 'm_2', 'B', 'a', 'Zz', 'model_x', 'model']
    rng.shuffle(pool)
    for i in range(n_models):
        name = pool[i]
        if same_grid: nu = base_nu.copy()
        else:
            nu = np.sort(rng.uniform(0.5e13, 2.5e13, rng.integers(2, 81)))
        if rng.random() < .5: nu = nu[::-1]
        flux = rng.uniform(0.1, 10, (n_ap, len(nu)))
        err = rng.uniform(0.01, 1, (n_ap, len(nu)))
        sub = rng.random() < .3
        if sub and not os.path.exists(d + '/seds/sub'): os.mkdir(d + '/seds/sub')
        path = d + '/seds/' + ('sub/' if sub else '') + name + '_sed.fits'
        write_sed(path, name, nu, flux, err, ap,
                  nu_unit=rng.choice(['Hz', 'GHz', 'THz']), wav_unit=rng.choice(['um', 'cm', 'Angstrom', 'm']),
                  flux_unit=rng.choice(['mJy', 'Jy', 'erg/(cm2 s)', 'erg/s', 'W/m2', 'uJy']),
                  gz=rng.random() < .3)
        seds[name] = (nu, flux, err)
        names.append(name)
    with open(d + '/models.conf', 'w') as f:
        f.write("name = test\nlength_subdir = 0\naperture_dependent = %s\nlogd_step = 0.02\n" % ('yes' if n_ap > 1 else 'no'))
    t = Table()
    perm = rng.permutation(n_models)
    t['MODEL_NAME'] = np.array([names[k] for k in perm], dtype='S30')
    t['par1'] = rng.random(n_models)
    t.write(d + '/parameters.fits')
    filters = []
    fdefs = []
    for k in range(3):
        nf = rng.integers(2, 61)
        lo, hi = np.sort(rng.uniform(0.3e13, 2.7e13, 2))
        fnu = np.sort(rng.uniform(lo, hi, nf))
        fr = rng.uniform(0, 1, nf)
        if rng.random() < .5 and nf > 2: fr[0] = fr[-1] = 0
        if rng.random() < .5: fnu = fnu[::-1]; fr = fr[::-1]
        if rng.random() < .5:
            fn = d + '/filt%d.txt' % k
            with open(fn, 'w') as fh:
                fh.write('# wav = %r\n' % (1.0 + k))
                for a, b in zip(fnu, fr):
                    fh.write('%r %r\n' % (float(c / a * 1e6), float(b)))
            filt = Filter.read(fn)
            fnu_used = filt.nu.to(u.Hz).value
        else:
            filt = Filter(name='filt%d' % k, central_wavelength=(1.0 + k) * u.micron, nu=(fnu * u.Hz).to(rng.choice(['Hz', 'GHz'])), response=fr.copy())
            fnu_used = filt.nu.to(u.Hz).value
        if rng.random() < .5:
            filt.normalize()
        filters.append(filt)
        fdefs.append((fnu_used.copy(), np.array(filt.response).copy()))
    convolve_model_dir(d, filters)
    worst = 0
    for k, filt in enumerate(filters):
        cf = ConvolvedFluxes.read(d + '/convolved/filt%d.fits' % k)
        assert list(np.char.strip(cf.model_names)) == [names[j] for j in perm], (cf.model_names, [names[j] for j in perm])
        assert abs(cf.central_wavelength.to(u.micron).value - (1.0 + k)) < 1e-12
        assert cf.flux.unit == u.mJy
        for row, j in enumerate(perm):
            nu, flux, err = seds[names[j]]
            R = ref_rebin(fdefs[k][0], fdefs[k][1], nu)
            ef = (flux * R).sum(axis=1)
            ee = np.sqrt(((err * R) ** 2).sum(axis=1))
            got_f = cf.flux[row].value; got_e = cf.error[row].value
            sc = max(np.abs(ef).max(), 1e-300)
            e1 = np.abs(got_f - ef).max() / max(np.abs(flux).max() * np.abs(R).sum(), 1e-300)
            e2 = np.abs(got_e - ee).max() / max(np.abs(err).max() * np.abs(R).sum(), 1e-300)
            worst = max(worst, e1, e2)
            assert e1 < 1e-9 and e2 < 1e-9, (seed, k, names[j], got_f, ef, got_e, ee)
    shutil.rmtree(d)
    return worst

if __name__ == '__main__':
    w = 0
    for seed in range(int(sys.argv[1]), int(sys.argv[2])):
        w = max(w, run(seed))
    print('worst', w)
