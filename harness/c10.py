"""C10 — fit() driver loop, fit-file round trip, interchangeable input forms and post-processing histories."""
import math
import os
import tempfile

from common import Rng, F
import fitcase
import fitutil
import c09

PROP = 'C10'
MODEL_OPS = 'StreamM.fit_file_m (Loop.fit_file), StreamM.history_copy (History.run_copy / run_file), Keep.nkeep'
RULE = ('(fit) data files of 1-12 lines mixing eligible / ineligible sources (n_data vs n_data_min 0-6), sometimes a blank line in the middle, every selector form, '
        'output_convolved on/off, 2-D and 3-D packages: fit() output read back and compared record by record with Fitter.fit + keep on the parsed line; '
        '(roundtrip) 1-6 hand-built records incl. NaN/inf written and read back with metadata; (history) 1-3 sources, every sequence drawn from '
        '{write_parameters, write_parameter_ranges, extract_parameters, filter_output} x selectors of length <= 3, run on a file, on a single object and on a list, '
        'outputs compared across forms and the caller\'s objects compared before/after; (plot) cube packages as in C17: plot(show_convolved=True) called twice with different selectors on a file, a list and a single object. non-trivial = at least one eligible and one ineligible line / >= 2 calls.')
EXHAUSTIVE = {'quick': False, 'thorough': False}
ASSUMPTIONS = ['pickle is a lossless, self-delimiting store (exercised, not proved)', 'a run that writes no record leaves a zero-byte file (nothing claimed): every data file has an eligible source']

SELS = [['N', 1.0], ['N', 3.0], ['A', 0.0], ['C', 20.0 + 2.0 ** -10], ['D', 4.0 + 2.0 ** -10], ['E', 6.0 + 2.0 ** -10], ['F', 1.5 + 2.0 ** -10], ['N', 0.0]]
FUNCS = ['params', 'ranges', 'extract', 'filter']


def generate(tier, seed):
    rng = Rng(seed * 7368787 + 10)
    cases = []
    nfit, nrt, nh = (60, 40, 200) if tier == 'quick' else (600, 300, 2500)
    for k in range(nfit):
        c = fitcase.gen_case(rng, '2d' if k % 4 else '3d', nm=rng.randint(2, 6), nb=1 if k % 8 == 4 else None)     # (a single filter is possible for distance-dependent packages)
        nb = len(c['wav'])
        nl = rng.randint(1, 12)
        srcs = []
        for i in range(nl):
            while True:
                flags = [rng.choice([1, 1, 4, 2, 3, 0, 9]) for _ in range(nb)]
                if sum(1 for f in flags if f in (1, 4)) >= (2 if c['mode'] == '2d' else 1) or rng.random() < 0.3:
                    break
            s = fitcase.gen_source(rng, nb, flags=flags)
            s['name'] = 'src_%02d' % i
            srcs.append(s)
        nmin = rng.choice([0, 0, 1, 2, 3, 3, 4, 5, 6])   # "any n_data_min": below 2 (1 in 3-D) the fits are singular (NaN) but a record is still due
        if not any(sum(1 for f in s['flags'] if f in (1, 4)) >= nmin for s in srcs):
            srcs[0]['flags'] = [1] * nb
            srcs[0] = dict(fitcase.gen_source(rng, nb, flags=[1] * nb), name='src_00')
            nmin = min(nmin, nb)
        c.pop('src')
        c.update(kind='fit', sources=srcs, nmin=nmin, sel=rng.choice(SELS[:7] + [['A', None]]), convolved=rng.random() < 0.5,
                 blank_at=(rng.randint(1, nl) if rng.random() < 0.25 else None))
        c['bad_at'] = rng.randint(0, nl - 1) if (c['blank_at'] is None and rng.random() < (0.15 if nb > 1 else 0.6)) else None
        c['bad_kind'] = rng.choice(['extra_column', 'other_n'])     # one stray column / a line that is well-formed for one band more
        cases.append(c)
    for k in range(nrt):
        n = rng.randint(1, 6)
        recs = []
        for i in range(n):
            m = rng.randint(0, 5)
            chi = sorted(rng.dyadic(0, 40, 8) for _ in range(m)) + rng.choice([[], [math.inf], [math.nan], [math.inf, math.nan]])
            recs.append(dict(name='r%02d' % i, nd=rng.choice([1, 2, 3, 5]), chi2=chi, fluxes=rng.random() < 0.5))
        cases.append(dict(kind='roundtrip', recs=recs, reuse=rng.choice([None, None, 'source', 'info'])))
    for k in range(nh):
        tab = c09.generate('quick', seed * 1000 + k)[0]   # a parameter table + ranked sources from the C09 generator
        nsrc = rng.randint(1, 3)
        ops = [[rng.choice(FUNCS), rng.choice(SELS + [['A', None]])] for _ in range(rng.randint(1, 3))]
        nm = len(tab['table']['names'])
        sources = []
        for s in range(nsrc):
            nfits = rng.randint(1, nm)
            chosen = rng.sample(tab['table']['names'], nfits)
            chi = sorted(rng.dyadic(0, 30, 8) for _ in range(nfits))
            sources.append(dict(name='src%d' % s, nd=rng.choice(list(c09.FLAGSETS)),
                                fits=[dict(name=n, chi2=x, av=rng.dyadic(0, 20, 8), sc=rng.dyadic(-2, 2, 8)) for n, x in zip(chosen, chi)]))
        cases.append(dict(kind='history', table=tab['table'], sources=sources, ops=ops, chi_thr=rng.dyadic(1, 25, 6) + 2.0 ** -11))
    # post-processing by plot(): cube packages as in C17, results passed as file / list / single object, convolved fluxes shown
    import c17
    for c in c17.generate('quick', seed)[:(12 if tier == 'quick' else 60)]:
        c = dict(c, kind='plot', sels=[rng.randint(1, 3), rng.randint(2, 5)])
        cases.append(c)
    return cases


# ---------------------------------------------------------------------------

def _impl_fit(case):
    import numpy as np
    from astropy import units as u
    from sedfitter import fit
    from sedfitter.fit_info import FitInfoFile
    from sedfitter.source import Source
    with tempfile.TemporaryDirectory() as d:
        fitcase.write_pkg(d, dict(case, src=None))
        lines = [fitcase.make_source(s).to_ascii() for s in case['sources']]
        if case['blank_at'] is not None:
            lines.insert(case['blank_at'], '')
        if case.get('bad_at') is not None:    # malformed stream: a line whose column count does not fit the layout
            if case.get('bad_kind') == 'other_n':
                sb = case['sources'][case['bad_at'] if case['blank_at'] is None else 0]
                wide = dict(sb, flags=list(sb['flags']) + [1], flux=list(sb['flux']) + [1.5], err=list(sb['err']) + [0.25])
                lines[case['bad_at']] = fitcase.make_source(wide).to_ascii()
            else:
                lines[case['bad_at']] = lines[case['bad_at']] + ' 1.0'
        data = os.path.join(d, 'data.txt')
        open(data, 'w').write('\n'.join(lines) + '\n')
        nb = len(case['wav'])
        theta = case.get('theta', [3.0] * nb)
        dr = case.get('drange', [1.0, 2.0])
        out = os.path.join(d, 'out.fitinfo')
        ext = fitcase.make_extinction(case['ext'])
        try:
            fit(data, ['F%d' % j for j in range(nb)], np.array(theta) * u.arcsec, d, out, n_data_min=case['nmin'], extinction_law=ext,
                av_range=tuple(case['av_range']), distance_range=None if (case['mode'] == '2d' and case.get('no_drange')) else np.array(dr) * u.kpc,
                output_format=tuple(case['sel']), output_convolved=case['convolved'])
        except ValueError as e:
            if case.get('bad_at') is None:
                raise
            return dict(refused=str(e)[:100])
        got = fitutil.read_all(out, with_meta=True) if os.path.getsize(out) else []
        # object interface on the same parsed lines
        fitter = fitcase.make_fitter(d, dict(case, src=None), use_memmap=True)      # what fit() itself does (float32 memory maps for version-2 packages)
        want, kinds = [], []
        for l in lines:
            try:
                s = Source.from_ascii(l)
            except EOFError:
                kinds.append(['e'])
                break
            nd = int(s.n_data)
            kinds.append(['s', nd, len(kinds)])
            if nd >= case['nmin']:
                info = fitter.fit(s)
                if not case['convolved']:
                    info.model_fluxes = None
                info.keep(tuple(case['sel']))
                want.append(fitutil.info_state(info, with_meta=True))
        # the same through ONE Source object whose attributes are re-assigned for every line; the results are kept and looked at afterwards
        kept = []
        if case.get('bad_at') is None:
            obj = None
            for l in lines:
                try:
                    s = Source.from_ascii(l)
                except EOFError:
                    break
                if obj is None:
                    obj = s
                else:
                    obj.name, obj.x, obj.y = s.name, s.x, s.y
                    obj.valid, obj.flux, obj.error = s.valid, s.flux, s.error
                if int(obj.n_data) >= case['nmin']:
                    info = fitter.fit(obj)
                    if not case['convolved']:
                        info.model_fluxes = None
                    info.keep(tuple(case['sel']))
                    kept.append(info)
        want_reuse = [fitutil.info_state(i, with_meta=True) for i in kept]
    return dict(got=got, want=want, want_reuse=want_reuse, kinds=kinds, names=[l.split()[0] if l.split() else None for l in lines])


def _impl_roundtrip(case):
    from sedfitter.fit_info import FitInfoFile
    meta = fitutil.make_meta()
    infos = [fitutil.make_info(r['name'], c09.FLAGSETS.get(r['nd'], [1] * r['nd']), r['chi2'], meta=meta, fluxes=r['fluxes']) for r in case['recs']]
    before = []
    with tempfile.TemporaryDirectory() as d:
        p = os.path.join(d, 'rt.fitinfo')
        f = FitInfoFile(p, 'w')
        shared = None
        for k, i in enumerate(infos):
            if case.get('reuse') == 'source':
                # one Source object serves all records: its attributes are re-assigned before each record is written
                if shared is None:
                    shared = i.source
                else:
                    shared.name, shared.x, shared.y = i.source.name, i.source.x, i.source.y
                    if len(i.source.valid) == len(shared.valid):
                        shared.valid, shared.flux, shared.error = i.source.valid, i.source.flux, i.source.error
                    i.source = shared
            before.append(fitutil.info_state(i, with_meta=True))       # what the record holds at the moment it is written
            f.write(i)
            if case.get('reuse') == 'info' and k == 0 and len(i.chi2) > 1:
                # the same result object is written once more after a selection was applied to it
                i.keep(('N', len(i.chi2) - 1))
                before.append(fitutil.info_state(i, with_meta=True))
                f.write(i)
        f.close()
        after = fitutil.read_all(p, with_meta=True)
    return dict(before=before, after=after)


def _run_ops(case, arg, d, tag):
    from sedfitter import write_parameters, write_parameter_ranges, extract_parameters, filter_output
    outs = []
    for k, (fn, sel) in enumerate(case['ops']):
        selt = (sel[0], sel[1])
        base = os.path.join(d, '%s_%d' % (tag, k))
        if fn == 'params':
            write_parameters(arg, base + '.txt', select_format=selt)
            outs.append(open(base + '.txt').read())
        elif fn == 'ranges':
            write_parameter_ranges(arg, base + '.txt', select_format=selt)
            outs.append(open(base + '.txt').read())
        elif fn == 'extract':
            extract_parameters(input=arg, output_prefix=base + '_', output_suffix='.txt', select_format=selt)
            outs.append('\n'.join(open(base + '_' + s['name'] + '.txt').read() for s in case['sources']))
        else:
            filter_output(arg, output_good=base + '_g', output_bad=base + '_b', chi=case['chi_thr'])
            outs.append([fitutil.read_all(base + '_g'), fitutil.read_all(base + '_b')])
    return outs


def _impl_history(case):
    import numpy as np
    from astropy.table import Table
    from sedfitter.fit_info import FitInfoFile
    with tempfile.TemporaryDirectory() as d:
        t = Table()
        t['MODEL_NAME'] = np.array(case['table']['names'], dtype='S30')
        for c, v in case['table']['cols'].items():
            t[c] = np.array(v, dtype=float)
        t.write(os.path.join(d, 'parameters.fits'))
        res = {}
        infos = c09._infos(case, d)
        p = os.path.join(d, 'in.fitinfo')
        f = FitInfoFile(p, 'w')
        for i in infos:
            f.write(i)
        f.close()
        res['file'] = _run_ops(case, p, d, 'file')
        infos = c09._infos(case, d)
        before = [fitutil.info_state(i) for i in infos]
        res['list'] = _run_ops(case, infos, d, 'list')
        res['list_unchanged'] = [fitutil.info_state(i) for i in infos] == before
        if len(case['sources']) >= 2:
            # a list whose members come from two separate reads of the file (equal metadata, distinct objects)
            ra, rb = list(FitInfoFile(p, 'r')), list(FitInfoFile(p, 'r'))
            mixed = ra[:1] + rb[1:]
            before2 = [fitutil.info_state(i) for i in mixed]
            try:
                res['list2'] = _run_ops(case, mixed, d, 'list2')
                res['list2_unchanged'] = [fitutil.info_state(i) for i in mixed] == before2
            except ValueError as e:
                res['list2_refused'] = str(e)[:120]
        if len(case['sources']) == 1:
            infos = c09._infos(case, d)
            res['object'] = _run_ops(case, infos[0], d, 'obj')
            res['object_unchanged'] = [fitutil.info_state(i) for i in infos] == before
        res = _scrub(res, d)
    return res


def _scrub(x, d):
    if isinstance(x, str):
        return x.replace(d, '<tmp>')
    if isinstance(x, list):
        return [_scrub(v, d) for v in x]
    if isinstance(x, dict):
        return {k: _scrub(v, d) for k, v in x.items()}
    return x


def _impl_plot(case):
    """plot(show_convolved=True) twice with different selectors on the same results, passed as a file, as a list and as one object"""
    import numpy as np
    import matplotlib
    matplotlib.use('Agg')
    from astropy import units as u
    from sedfitter.fit import Fitter
    from sedfitter.fit_info import FitInfoFile
    from sedfitter import plot
    import pkgcase
    pkg = case['pkg']
    with tempfile.TemporaryDirectory() as d:
        pkgcase.write_v2(d, pkg, logd_step=0.05)
        names = [pkg['wav'][i] * u.micron for i in case['fidx']]
        dr = np.array(case.get('drange', [1.0, 2.0])) * u.kpc
        fitter = Fitter(names, np.array(case['theta']) * u.arcsec, d, extinction_law=fitcase.make_extinction(case['ext']), av_range=tuple(case['av_range']),
                        distance_range=dr, use_memmap=False)
        srcs = [dict(case['src'], name='src')] + [dict(case['src'], name='src_more%d' % i, flux=[x * c for x in case['src']['flux']], err=[x * c for x in case['src']['err']])
                                                  for i, c in enumerate(case.get('more', []))]

        def fresh():
            return [fitter.fit(fitcase.make_source(sd)) for sd in srcs]
        infos = fresh()
        p = os.path.join(d, 'fits.fitinfo')
        f = FitInfoFile(p, 'w')
        for i in infos:
            f.write(i)
        f.close()

        def run(arg):
            out = []
            for n in case['sels']:
                figs = plot(arg, output_dir=None, select_format=('N', n), sed_type=case['mode'], show_convolved=True, memmap=False)
                out.append({k: [[[float(x), float(y)] for x, y in sg] for sg in fg['lines'].get_segments()] if 'lines' in fg else [] for k, fg in figs.items()})
                import matplotlib.pyplot as plt
                plt.close('all')
            return out
        res = {}
        try:
            res['file'] = run(p)
            lst = fresh()
            before = [fitutil.info_state(i) for i in lst]
            res['list'] = run(lst)
            res['list_unchanged'] = [fitutil.info_state(i) for i in lst] == before
            one = fresh()[0]
            b1 = fitutil.info_state(one)
            res['object'] = run(one)
            res['object_unchanged'] = fitutil.info_state(one) == b1
        except Exception as e:
            if 'too small' in str(e):
                return dict(skipped='aperture on the table edge')
            raise
    return res


def impl(case):
    return {'fit': _impl_fit, 'roundtrip': _impl_roundtrip, 'history': _impl_history, 'plot': _impl_plot}[case['kind']](case)


# ---------------------------------------------------------------------------

def _msel(sel):
    return ['A'] if sel[0] == 'A' else (['N', int(sel[1])] if sel[0] == 'N' else [sel[0], F(sel[1])])


def model_requests(case):
    if case['kind'] == 'fit':
        lines = []
        for i, s in enumerate(case['sources']):
            lines.append(['s', sum(1 for f in s['flags'] if f in (1, 4)), i])
        if case['blank_at'] is not None:
            lines.insert(case['blank_at'], ['e'])
        if case.get('bad_at') is not None:
            lines[case['bad_at']] = ['x']
        return [('fit_file', [case['nmin'], lines])]
    if case['kind'] == 'history':
        state = [[s['nd'], [F(x['chi2']) for x in s['fits']]] for s in case['sources']]
        ops = [_msel(sel) for fn, sel in case['ops'] if fn != 'filter']
        return [('history', ['copy', state, ops])]
    return []


def _nfits_from_output(fn, text, nsrc):
    """numbers of fits listed per source, parsed from a writer's output"""
    if fn == 'params':
        body = [l.split() for l in text.split('\n')[3:] if l.strip()]
        out, i = [], 0
        while i < len(body):
            out.append(int(body[i][2]))
            i += 1 + int(body[i][2])
        return out
    if fn == 'ranges':
        return [int(l.split()[2]) for l in text.split('\n')[3:] if l.strip()]
    return None


def judge(case, im, mo):
    tags = ['kind=' + case['kind']]
    if 'exc' in im:
        return dict(disagree=['implementation raised ' + im['msg']], fail=['raised: %s' % im['msg']], nontrivial=False, tags=tags + ['raised'])
    disagree, fail = [], []
    if case['kind'] == 'plot':
        if 'skipped' in im:
            return dict(disagree=[], fail=[], nontrivial=False, tags=tags + ['refused'])
        if not im['list_unchanged']:
            fail.append('unchanged: plot(list of results, show_convolved=True) modified the results it was given')
        if not im['object_unchanged']:
            fail.append('unchanged: plot(single result, show_convolved=True) modified the result it was given')

        def near(a, b):
            return len(a) == len(b) and all(len(x) == len(y) and all(abs(p[0] - q[0]) <= 1e-9 * abs(q[0]) and abs(p[1] - q[1]) <= 1e-9 * abs(q[1]) for p, q in zip(x, y)) for x, y in zip(a, b))
        for k in range(len(case['sels'])):
            for form in ('list', 'object'):
                for src, segs in im[form][k].items():
                    if not near(segs, im['file'][k].get(src, [])):
                        fail.append('forms: plot() call %d draws other curves for %s from a %s of results than from the file' % (k, src, form))
                        break
        return dict(disagree=[], fail=fail[:3], nontrivial=True, tags=tags + ['mode=' + case['mode']])
    if case['kind'] == 'fit':
        m = mo[0]
        if isinstance(m, tuple):
            return dict(disagree=['driver %r' % (m,)], fail=[], nontrivial=False)
        if case.get('bad_at') is not None:
            if 'refused' in im:
                if m != []:
                    disagree.append('implementation rejects the malformed line, model does not')
                return dict(disagree=disagree, fail=[], nontrivial=True, tags=tags + ['malformed-line-rejected'])
            return dict(disagree=['malformed line accepted'], fail=['records: fit() returned normally although line %d does not fit the column layout; later sources are silently lost or mis-read' % case['bad_at']],
                        nontrivial=True, tags=tags + ['malformed-line-accepted'])
        elig = [s['name'] for s in case['sources'][:(case['blank_at'] if case['blank_at'] is not None else len(case['sources']))]
                if sum(1 for f in s['flags'] if f in (1, 4)) >= case['nmin']]
        got_names = [r['source']['name'] for r in im['got']]
        model_names = [case['sources'][i]['name'] for i in (m[0] if m else [])]
        if got_names != model_names:
            disagree.append('records for %r, model says %r' % (got_names, model_names))
        if got_names != elig:
            fail.append('records: file holds records for %r; eligible lines in input order are %r' % (got_names, elig))
        elif len(im['got']) != len(im['want']):
            fail.append('records: %d records, object interface gives %d' % (len(im['got']), len(im['want'])))
        else:
            for g, w in zip(im['got'], im['want']):
                if g != w:
                    diff = [k for k in g if g[k] != w.get(k)]
                    fail.append('faithful: record of %s differs from the object interface in %r' % (g['source']['name'], diff))
                    break
                if (g['model_fluxes'] is not None) != bool(case['convolved']):
                    fail.append('convolved: predicted fluxes %s although output_convolved=%r' % ('present' if g['model_fluxes'] is not None else 'absent', case['convolved']))
                    break
        # the shared metadata against what was handed to fit(), not only against the object interface: the extinction law in the file is
        # the law that was given (in whatever units it was given)
        for g in im['got'][:1]:
            ew, ec = g['meta']['ext_wav'], g['meta']['ext_chi']
            xw, xc = case['ext']['wav'], case['ext']['chi']
            if len(ew) != len(xw) or any(abs(a - b) > 1e-12 * abs(b) for a, b in zip(ew, xw)) or any(abs(a - b) > 1e-12 * abs(b) for a, b in zip(ec, xc)):
                fail.append('meta: the extinction law read back from the file (%r micron, %r cm2/g ...) is not the law given to fit() (%r micron, %r cm2/g ...)' % (ew[:2], ec[:2], xw[:2], xc[:2]))
        if not fail and im.get('want_reuse') and im['want_reuse'] != im['want']:
            bad = next((i for i, (a, b) in enumerate(zip(im['want_reuse'], im['want'])) if a != b), 0)
            fail.append('kept: results of Fitter.fit kept while their Source object was re-used for the next sources no longer describe their own source (first difference at result %d: %r)'
                        % (bad, [k for k in im['want'][bad] if im['want'][bad][k] != im['want_reuse'][bad].get(k)]))
        nelig = len(elig)
        tags += ['mode=' + case['mode'], 'sel=' + case['sel'][0], 'blank=%s' % (case['blank_at'] is not None)]
        return dict(disagree=disagree, fail=fail, nontrivial=0 < nelig < len(case['sources']), tags=tags)
    if case['kind'] == 'roundtrip':
        if im['before'] != im['after']:
            n = min(len(im['before']), len(im['after']))
            bad = next((i for i in range(n) if im['before'][i] != im['after'][i]), n)
            fail.append('roundtrip: %d records written, %d read; first difference at record %d' % (len(im['before']), len(im['after']), bad))
        return dict(disagree=[], fail=fail, nontrivial=len(case['recs']) >= 2, tags=tags)
    # history
    m = mo[0]
    if isinstance(m, tuple):
        return dict(disagree=['driver %r' % (m,)], fail=[], nontrivial=False)
    outs_model, final_model = m
    k = 0
    for (fn, sel), text in zip(case['ops'], im['file']):
        if fn == 'filter':
            continue
        n = _nfits_from_output(fn, text, len(case['sources']))
        want = [min(x, len(s['fits'])) for x, s in zip(outs_model[k], case['sources'])]
        if n is not None and n != want:
            disagree.append('call %d (%s %r) on the file lists %r fits, model %r' % (k, fn, sel, n, want))
        k += 1
    if 'list2_refused' in im:
        fail.append('forms: a list of results read back from the same file in two reads is refused: %s' % im['list2_refused'])
    for form in ('list', 'object', 'list2'):
        if form in im:
            for j, (a, b) in enumerate(zip(im['file'], im[form])):
                if a != b:
                    fail.append('forms: call %d (%s %r) gives a different output for a %s of results than for the file' % (j, case['ops'][j][0], case['ops'][j][1], form))
                    break
            if not im[form + '_unchanged']:
                fail.append('unchanged: the %s of results passed in was modified by the calls' % form)
    tags += ['ncalls=%d' % len(case['ops']), 'nsrc=%d' % len(case['sources'])]
    return dict(disagree=disagree[:3], fail=fail[:3], nontrivial=len(case['ops']) >= 2, tags=tags)


def signature(case, im, mo, v):
    return None
