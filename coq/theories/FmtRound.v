(* FmtRound — Source.to_ascii followed by Source.from_ascii: the printed line parses back to the same name and flags and to
   values within the printed precision.  Combines the layout model (SrcAscii / SrcAscii2) with the formatting model (Fmt). *)
From Coq Require Import QArith Qabs Qpower ZArith Lia List Lqa Bool.
Import ListNotations.
From SedV Require Import Fmt FmtProofs SrcAscii SrcAscii2.
Open Scope Q_scope.

(* the number a printed "%.{p}e" / "%.{p}f" field denotes (sign restored; 0 prints as 0) *)
Definition printed_e (p : nat) (e : Z) (x : Q) : option Q :=
  if Qeq_bool x 0 then Some 0
  else match fmt_e p e x with
       | Some me => Some (if Qle_bool 0 x then val_e p me else - val_e p me)
       | None => None
       end.
Definition printed_f (p : nat) (x : Q) : Q :=
  if Qle_bool 0 x then val_f p (fmt_f p x) else - val_f p (fmt_f p x).

Fixpoint printed_list (p : nat) (es : list Z) (xs : list Q) : option (list Q) :=
  match es, xs with
  | [], [] => Some []
  | e :: es', x :: xs' => match printed_e p e x, printed_list p es' xs' with
                          | Some y, Some ys => Some (y :: ys)
                          | _, _ => None
                          end
  | _, _ => None
  end.

Definition within (p : nat) (a b : Q) : Prop := Qabs (b - a) <= (1 # 2) * pow10 (- Z.of_nat p) * Qabs a.

Lemma printed_e_within p e x y : printed_e p e x = Some y -> within p x y.
Proof.
  unfold printed_e, within. destruct (Qeq_bool x 0) eqn:Z0.
  - intro H; injection H as <-. apply Qeq_bool_iff in Z0.
    assert (E : 0 - x == 0) by (rewrite Z0; ring). rewrite E, Z0. simpl. lra.
  - destruct (fmt_e p e x) as [me|] eqn:F; [|discriminate]. intro H; injection H as <-.
    pose proof (fmt_e_rel _ _ _ _ F) as R.
    destruct (Qle_bool 0 x) eqn:S.
    + apply Qle_bool_iff in S. rewrite (Qabs_pos x S) in *. exact R.
    + assert (N : x <= 0). { destruct (Qlt_le_dec 0 x) as [L|L]; [|exact L]. apply Qlt_le_weak, Qle_bool_iff in L. congruence. }
      rewrite (Qabs_neg x N) in *.
      assert (E : - val_e p me - x == - (val_e p me - - x)) by ring.
      rewrite E, Qabs_opp. exact R.
Qed.

Lemma printed_f_close p x : Qabs (printed_f p x - x) <= (1 # 2) * pow10 (- Z.of_nat p).
Proof.
  unfold printed_f. pose proof (fmt_f_error p x) as R. destruct (Qle_bool 0 x) eqn:S.
  - apply Qle_bool_iff in S. rewrite (Qabs_pos x S) in R. exact R.
  - assert (N : x <= 0). { destruct (Qlt_le_dec 0 x) as [L|L]; [|exact L]. apply Qlt_le_weak, Qle_bool_iff in L. congruence. }
    rewrite (Qabs_neg x N) in R.
    assert (E : - val_f p (fmt_f p x) - x == - (val_f p (fmt_f p x) - - x)) by ring.
    rewrite E, Qabs_opp. exact R.
Qed.

Lemma printed_list_within p es xs ys : printed_list p es xs = Some ys -> Forall2 (within p) xs ys.
Proof.
  revert xs ys; induction es as [|e es IH]; intros [|x xs] ys H; simpl in H; try discriminate.
  - injection H as <-. constructor.
  - destruct (printed_e p e x) as [y|] eqn:E; [|discriminate].
    destruct (printed_list p es xs) as [ys'|] eqn:L; [|discriminate]. injection H as <-.
    constructor; [eapply printed_e_within; eassumption|apply IH; assumption].
Qed.

Lemma Forall2_length {A B} (R : A -> B -> Prop) l l' : Forall2 R l l' -> length l = length l'.
Proof. induction 1; simpl; congruence. Qed.

(* to_ascii then from_ascii: same name and flags, every value within the printed precision, for any exponent oracle *)
Theorem ascii_roundtrip name x y flags flux err ef ee flux' err' :
  length flux = length flags -> length err = length flags -> forallb flag_ok flags = true ->
  printed_list 3 ef flux = Some flux' -> printed_list 3 ee err = Some err' ->
  from_ascii_m (layout name (printed_f 5 x) (printed_f 5 y) flags flux' err') =
    Ok {| s_name := name; s_x := printed_f 5 x; s_y := printed_f 5 y; s_flags := flags; s_flux := flux'; s_err := err' |}
  /\ Forall2 (within 3) flux flux' /\ Forall2 (within 3) err err'
  /\ Qabs (printed_f 5 x - x) <= (1 # 2) * pow10 (-5) /\ Qabs (printed_f 5 y - y) <= (1 # 2) * pow10 (-5).
Proof.
  intros Lf Le Fl Pf Pe.
  pose proof (printed_list_within _ _ _ _ Pf) as Wf. pose proof (printed_list_within _ _ _ _ Pe) as We.
  repeat split; try assumption; try apply (printed_f_close 5).
  apply SrcAscii2.C20_layout; [| |assumption].
  - rewrite <- (Forall2_length _ _ _ Wf). assumption.
  - rewrite <- (Forall2_length _ _ _ We). assumption.
Qed.

Example roundtrip_example :
  option_map (map Qred) (printed_list 3 [3; 0]%Z [2001 # 2; -(99996 # 10000)]) = Some [1000 # 1; -(10 # 1)] /\ printed_f 5 (-(314159265 # 100000000)) == -(314159 # 100000).
Proof. vm_compute. split; reflexivity. Qed.
