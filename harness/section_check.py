"""Reads grep -n output (file:line:text) of Variable/Hypothesis/Context lines and checks that each one sits
inside an open Section of its file.  Exit 0 when all are inside sections."""
import re, sys
bad = 0
by_file = {}
for l in sys.stdin:
    f, n, _ = l.split(':', 2)
    by_file.setdefault(f, []).append(int(n))
for f, lines in by_file.items():
    depth = 0
    want = set(lines)
    for i, text in enumerate(open(f), 1):
        if re.match(r'\s*Section\s+\w+', text):
            depth += 1
        elif re.match(r'\s*End\s+\w+\s*\.', text) and depth > 0:
            depth -= 1
        if i in want and depth == 0:
            print("%s:%d: declaration outside a section" % (f, i))
            bad += 1
sys.exit(1 if bad else 0)
