"""C12: quantifier 'with/without apertures and uncertainties': a convolved-flux
table without uncertainties (error=None, the constructor default) cannot be
written: ConvolvedFluxes.write raises TypeError."""
import os, tempfile
import numpy as np
from astropy import units as u
from sedfitter.convolved_fluxes import ConvolvedFluxes

tmp = tempfile.mkdtemp()
cf = ConvolvedFluxes(wavelength=3.6 * u.micron, model_names=np.array(['a', 'b']),
                     apertures=[1., 2.] * u.au, flux=np.array([[1., 2.], [3., 4.]]) * u.mJy)
assert cf.error is None
fn = os.path.join(tmp, 'cf.fits')
try:
    cf.write(fn)
    r = ConvolvedFluxes.read(fn)
    assert np.all(r.flux == cf.flux)
except Exception as e:
    raise AssertionError("C12 'optional parts (apertures, uncertainties) may be absent': a convolved-flux table "
                         "without uncertainties cannot be written and read back: %r" % e)
