"""
C18 - "filter_output splits sources into two complete, disjoint, faithful files".

LOW-CONFIDENCE / borderline: every source does land in the right file, but when
all sources fall on the same side of the threshold (perfectly legal: 1..10
sources, chi= criterion, no best chi^2 equal to the threshold) the *other*
output file is created with 0 bytes - not even the meta header - and is not a
valid fit-info file: FitInfoFile(path, 'r') (hence write_parameters, plot, a
second filter_output, ...) raises EOFError on it instead of yielding zero
sources.  So one of the "two complete files" cannot be read back to confirm
that it is disjoint from the other one.
"""
import os
import sys
import tempfile
import warnings

import numpy as np
from astropy import units as u

warnings.simplefilter('ignore')

from sedfitter import filter_output
from sedfitter.fit_info import FitInfo, FitInfoFile
from sedfitter.source import Source
from sedfitter.extinction import Extinction

ext = Extinction()
ext.wav = np.logspace(-2, 3, 10) * u.micron
ext.chi = ext.wav.value ** -2 * u.cm ** 2 / u.g
filters = [{'aperture_arcsec': 3., 'name': 'a', 'wav': 1 * u.micron},
           {'aperture_arcsec': 3., 'name': 'b', 'wav': 2 * u.micron}]


def make(name, chi2):
    s = Source()
    s.name = name
    s.valid = [1, 1]
    s.flux = [1., 2.]
    s.error = [0.1, 0.2]
    info = FitInfo(s)
    n = len(chi2)
    info.chi2 = np.array(chi2, dtype=float)
    info.av = np.zeros(n)
    info.sc = np.zeros(n)
    info.model_name = np.array(['m%i' % i for i in range(n)])
    info.sort()
    info.meta.model_dir = '/nonexistent'
    info.meta.filters = filters
    info.meta.extinction_law = ext
    return info


tmp = tempfile.mkdtemp()
path = os.path.join(tmp, 'output.fitinfo')
fout = FitInfoFile(path, 'w')
for name, chi2 in [('s1', [1.0, 5.0]), ('s2', [2.0, 2.5]), ('s3', [0.5])]:
    fout.write(make(name, chi2))
fout.close()

filter_output(path, chi=3.)      # every best chi^2 (1.0, 2.0, 0.5) is below 3

fin = FitInfoFile(path + '_good', 'r')
good = [info.source.name for info in fin]
fin.close()
assert good == ['s1', 's2', 's3'], good

size = os.path.getsize(path + '_bad')
try:
    fin = FitInfoFile(path + '_bad', 'r')
    bad = [info.source.name for info in fin]
    fin.close()
except Exception as exc:
    print("FAIL: C18 'two complete ... files': input with 3 sources, best chi^2 = 1.0, 2.0, 0.5, chi=3.: "
          "all three go to the good file, and the bad file %s_bad is written with %d bytes (no header); "
          "opening it with FitInfoFile(..., 'r') raises %s instead of yielding 0 sources, so the second "
          "output file is not a readable fit-info file." % (os.path.basename(path), size, type(exc).__name__))
    sys.exit(1)

assert bad == []
print("OK")
