import os, sys, tempfile
import numpy as np
from astropy.table import Table
from astropy import units as u
import matplotlib
matplotlib.use('Agg')

def make_v1(models_dir, aperture_dependent=False, names=None, n=5, seed=12345):
    from sedfitter.sed import SED
    rng = np.random.RandomState(seed)
    os.mkdir(os.path.join(models_dir, 'seds'))
    if names is None:
        names = ['model_{0:04d}'.format(i) for i in range(n)]
    for nm in names:
        sed = SED()
        sed.name = nm
        sed.distance = 1 * u.kpc
        n_wav = 100
        sed.wav = np.logspace(-2., 3., n_wav) * u.micron
        sed.nu = sed.wav.to(u.Hz, equivalencies=u.spectral())
        if aperture_dependent:
            sed.apertures = np.logspace(1., 6., 10) * u.au
            sed.flux = np.cumsum(rng.random_sample((10, n_wav)), axis=0) * u.mJy
        else:
            sed.apertures = None
            sed.flux = (1 + rng.random_sample((1, n_wav))) * u.mJy
        sed.error = sed.flux * rng.random_sample(n_wav) / 100.
        sed.write(os.path.join(models_dir, 'seds', sed.name + '_sed.fits'))
    with open(os.path.join(models_dir, 'models.conf'), 'w') as f:
        f.write("name = test\nlength_subdir = 0\naperture_dependent = %s\nlogd_step = 0.02\n" % ('yes' if aperture_dependent else 'no'))
    t = Table()
    t['MODEL_NAME'] = np.array(names, dtype='S30')
    t['par1'] = rng.random_sample(len(names))
    t['par2'] = rng.random_sample(len(names))
    t.write(os.path.join(models_dir, 'parameters.fits'))
    return names

def make_filters():
    from sedfitter.filter import Filter
    rng = np.random.RandomState(1)
    out = []
    for name, lo, hi, c in [('alice', 5., 1., 3.), ('bob', 15., 10., 12.), ('eve', 25., 15., 20.)]:
        w = np.linspace(lo, hi, 100) * u.micron
        f = Filter()
        f.name = name
        f.central_wavelength = c * u.micron
        f.nu = w.to(u.Hz, equivalencies=u.spectral())
        f.response = 0.5 + rng.random_sample(100)
        f.normalize()
        out.append(f)
    return out

def extinction():
    from sedfitter.extinction import Extinction
    e = Extinction()
    e.wav = np.logspace(-2., 3.) * u.micron
    e.chi = e.wav.value ** -2 * u.cm ** 2 / u.g
    return e

def build(aperture_dependent=False, **kw):
    d = tempfile.mkdtemp()
    md = os.path.join(d, 'models'); os.mkdir(md)
    names = make_v1(md, aperture_dependent, **kw)
    from sedfitter.convolve import convolve_model_dir
    convolve_model_dir(md, filters=make_filters())
    return d, md

def arr_eq(a, b):
    if a is None or b is None:
        return a is None and b is None
    a = np.asarray(a); b = np.asarray(b)
    if a.shape != b.shape: return False
    if a.dtype.kind in 'fc':
        return bool(np.all((a == b) | (np.isnan(a) & np.isnan(b))))
    return bool(np.all(a == b))

def info_eq(i1, i2):
    probs = []
    for k in ['av', 'sc', 'chi2', 'model_id', 'model_name', 'model_fluxes']:
        if not arr_eq(getattr(i1, k), getattr(i2, k)):
            probs.append(k)
    s1, s2 = i1.source, i2.source
    if s1.name != s2.name: probs.append('name')
    for k in ['x', 'y', 'valid', 'flux', 'error']:
        if not arr_eq(getattr(s1, k), getattr(s2, k)): probs.append('source.' + k)
    return probs
