"""
C09 - "n_data and n_fits are the source's fitted-point count and the number of
selected fits" (and the source a block of the listing belongs to), for sources
given as a LIST of result objects.

Call history: one Source object is re-used for two fits (its name / valid /
flux / error attributes are assigned new arrays before the second fit; nothing
is changed in place).  Fitter.fit() stores a REFERENCE to the caller's Source in
the result (info.source = source) instead of a copy, so the first result
silently changes when the object is re-used: write_parameters and
write_parameter_ranges list the first fit (4 fitted points, chi^2 of a 4-point
fit) under the name and n_data (= 2) of the second source, and the per-point
selector ('E', x) - chi^2 / n_data - selects a different number of fits for
the first result than it did before the Source was re-used.
"""
import os, io, tempfile, contextlib
import numpy as np
from astropy import units as u
from astropy.table import Table

from sedfitter.convolved_fluxes import ConvolvedFluxes
from sedfitter.extinction import Extinction
from sedfitter.source import Source
from sedfitter.fit import Fitter
from sedfitter.fit_info import FitInfoFile
from sedfitter import write_parameters, write_parameter_ranges

rng = np.random.RandomState(3)
n = 6
names = np.array(['m%d' % i for i in range(n)])
wavs = [1., 3., 8., 20.]
fl = 10 ** rng.uniform(-1, 2, (n, 4))

d = tempfile.mkdtemp()
os.mkdir(d + '/convolved')
for j, fn in enumerate(['f1', 'f2', 'f3', 'f4']):
    c = ConvolvedFluxes()
    c.central_wavelength = wavs[j] * u.micron
    c.model_names = names
    c.flux = fl[:, j:j + 1] * u.mJy
    c.error = c.flux * 0.01
    c.write(d + '/convolved/' + fn + '.fits')
with open(d + '/models.conf', 'w') as f:
    f.write("name = test\nlength_subdir = 0\naperture_dependent = no\nlogd_step = 0.02\n")
t = Table()
t['MODEL_NAME'] = np.array(names, dtype='S30')
t['par1'] = np.arange(n) * 1.
t.write(d + '/parameters.fits')

law = Extinction()
law.wav = np.logspace(-2., 3., 60) * u.micron
law.chi = law.wav.value ** -1.5 * u.cm ** 2 / u.g

with contextlib.redirect_stdout(io.StringIO()):
    fitter = Fitter(['f1', 'f2', 'f3', 'f4'], [3., 3., 3., 3.] * u.arcsec, d,
                    extinction_law=law, av_range=[0., 10.],
                    distance_range=[1., 2.] * u.kpc)

catalogue = [
    ('star_A', [1, 1, 1, 1], [1., 2., 3., 4.], [0.1, 0.2, 0.3, 0.4]),
    ('star_B', [1, 0, 0, 1], [5., 1., 1., 2.], [0.5, 0.1, 0.1, 0.2]),
]

s = Source()            # one object, filled in for each catalogue entry
results = []
selected_at_fit_time = []
SEL = ('E', 150.)       # chi^2 per fitted point <= 150
for name, valid, flux, error in catalogue:
    s.name = name
    s.x = 0.
    s.y = 0.
    s.valid = np.array(valid)
    s.flux = np.array(flux)
    s.error = np.array(error)
    info = fitter.fit(s)
    results.append(info)
    # what the selector gives for this result right after the fit
    tmp = next(iter(FitInfoFile(info, 'r')))
    tmp.keep(SEL)
    selected_at_fit_time.append((name, int(np.sum(np.isin(valid, (1, 4)))), len(tmp.chi2)))

out = tempfile.mkdtemp()
write_parameters(results, out + '/pars.txt', select_format=SEL)
write_parameter_ranges(results, out + '/ranges.txt', select_format=SEL)

listing = open(out + '/pars.txt').read()
print(listing)
blocks = [l.split() for l in listing.split('\n')[3:] if len(l.split()) == 3]
ranges = [l.split()[:3] for l in open(out + '/ranges.txt').read().split('\n')[3:] if l.strip()]

expected = [[nm, str(nd), str(nf)] for nm, nd, nf in selected_at_fit_time]
print("expected (source, n_data, n_fits):", expected)
print("write_parameters               :", blocks)
print("write_parameter_ranges         :", ranges)

assert blocks == expected and ranges == expected, (
    "C09 violated for a list of result objects obtained by re-using one Source "
    "object: expected the blocks (source, n_data, n_fits) = %s but "
    "write_parameters lists %s and write_parameter_ranges lists %s - the first "
    "result (fit of star_A with 4 fitted points) is reported with the name and "
    "n_data of the source fitted later, and the ('E', 150.) selector divides its "
    "chi^2 by the wrong n_data, because FitInfo keeps a reference to the caller's "
    "Source instead of a copy" % (expected, blocks, ranges))
print("OK")
