"""C18 — filter_output against FilterOut.filter_output_m and the partition/criterion clauses."""
import math
import os
import tempfile

from common import Rng, F
import fitutil

PROP = 'C18'
MODEL_OPS = 'FilterOut.filter_output_m'
RULE = ('1..10 records with best chi2 on either side of the threshold (never equal; also +inf and NaN best values), n_data 1..7 via mixed flag vectors, '
        'criterion chi= or cpd= (and both / neither / zero thresholds), explicit or automatic output names, input as file or list of results. '
        'non-trivial = both output files non-empty.')
EXHAUSTIVE = {'quick': False, 'thorough': False}
ASSUMPTIONS = ['best chi2 never equals the threshold (margin measured exactly)', 'a source without any stored fit has no best chi2 and belongs to the bad file', 'a zero-byte output file is an empty file']

FLAGSETS = {1: [1, 0, 9, 2], 2: [1, 4, 0, 3, 9], 3: [4, 9, 1, 0, 1], 5: [1, 1, 4, 4, 1, 2, 3, 0, 9], 7: [1] * 7 + [0, 2]}


def generate(tier, seed):
    rng = Rng(seed * 104729 + 18)
    cases = []
    for k in range(100 if tier == 'quick' else 1500):
        n = rng.randint(1, 10)
        thr = rng.dyadic(0.5, 40, 8)
        mode = rng.choice(['chi', 'cpd', 'chi', 'cpd', 'both', 'none', 'zero'])
        recs = []
        for i in range(n):
            nd = rng.choice(list(FLAGSETS))
            u = rng.random()
            if u < 0.08:
                best = math.inf
            elif u < 0.12:
                best = math.nan
            else:
                scale = nd if mode == 'cpd' else 1
                best = thr * scale * rng.choice([rng.dyadic(0.05, 0.95, 8), rng.dyadic(1.05, 4, 8), 0.99, 1.01])
            rest = sorted(best + rng.dyadic(0, 9, 6) for _ in range(rng.randint(0, 3))) if math.isfinite(best) else []
            recs.append(dict(name='s%02d' % i, nd=nd, chi2=[best] + rest))
        if k % 5 == 3:       # one source without any stored fit (fit() writes such records when the output selector keeps nothing): it has
            recs[rng.randrange(n)]['chi2'] = []      # no best chi2 to be below a threshold and belongs to the 'bad' file
        cases.append(dict(recs=recs, mode=mode, thr=thr, thr2=rng.dyadic(0.5, 40, 8),
                          names=rng.choice(['auto', 'explicit']), form=rng.choice(['file', 'file', 'list'])))
    return cases


def _kw(case):
    m = case['mode']
    if m == 'chi':
        return dict(chi=case['thr'])
    if m == 'cpd':
        return dict(cpd=case['thr'])
    if m == 'both':
        return dict(chi=case['thr'], cpd=case['thr2'])
    if m == 'zero':
        return dict(chi=0.0)
    return {}


def impl(case):
    from sedfitter.fit_info import FitInfoFile
    from sedfitter import filter_output
    meta = fitutil.make_meta()
    infos = [fitutil.make_info(r['name'], FLAGSETS[r['nd']], r['chi2'], meta=meta) for r in case['recs']]
    before = [fitutil.info_state(i) for i in infos]
    with tempfile.TemporaryDirectory() as d:
        path = os.path.join(d, 'in.fitinfo')
        if case['form'] == 'file':
            f = FitInfoFile(path, 'w')
            for i in infos:
                f.write(i)
            f.close()
            arg = path
        else:
            arg = infos
        if case['names'] == 'auto' and case['form'] == 'file':
            filter_output(arg, **_kw(case))
            g, b = path + '_good', path + '_bad'
        else:
            g, b = os.path.join(d, 'G'), os.path.join(d, 'B')
            filter_output(arg, output_good=g, output_bad=b, **_kw(case))
        good, bad = fitutil.read_all(g), fitutil.read_all(b)
    return dict(good=good, bad=bad, before=before)


def _opt(x):
    return [] if x is None else [F(x)]


def _x(v):
    return v if not math.isfinite(v) else F(v)


def model_requests(case):
    kw = _kw(case)
    recs = [[i, _x(r['chi2'][0] if r['chi2'] else math.nan), r['nd']] for i, r in enumerate(case['recs'])]      # no fit: no best value (NaN is below nothing)
    return [('filter_output', [_opt(kw.get('chi')), _opt(kw.get('cpd')), recs])]


def judge(case, im, mo):
    recs = case['recs']
    kw = _kw(case)
    tags = ['mode=' + case['mode'], 'form=' + case['form'], 'names=' + case['names'], 'n=%d' % len(recs)]
    if 'exc' in im:
        return dict(disagree=['implementation raised ' + im['msg']], fail=['raised: filter_output raised %s' % im['msg']], nontrivial=False, tags=tags + ['raised'],
                    sigdata=dict(form=case['form'], msg=im['msg']))
    m = mo[0]
    if isinstance(m, tuple):
        return dict(disagree=['driver %r' % (m,)], fail=[], nontrivial=False)
    disagree, fail = [], []
    names = [r['name'] for r in recs]
    gi = [names.index(x['source']['name']) for x in im['good']]
    bi = [names.index(x['source']['name']) for x in im['bad']]
    # near-tie: thresholds within 1e-9 of best are excluded by construction (factors 0.99 / 1.01)
    if [gi, bi] != [m[0], m[1]]:
        disagree.append('split differs: implementation good=%r bad=%r, model good=%r bad=%r' % (gi, bi, m[0], m[1]))
    # property oracle
    if sorted(gi + bi) != list(range(len(recs))):
        fail.append('partition: not every source appears exactly once (good=%r bad=%r of %d)' % (gi, bi, len(recs)))
    if gi != sorted(gi) or bi != sorted(bi):
        fail.append('order: input order not preserved within a file')
    for lst in (im['good'], im['bad']):
        for x in lst:
            if x != im['before'][names.index(x['source']['name'])]:
                fail.append('faithful: record of %s changed' % x['source']['name'])
    if case['mode'] in ('chi', 'cpd'):
        for i, r in enumerate(recs):
            best = r['chi2'][0] if r['chi2'] else math.nan
            q = best if case['mode'] == 'chi' else best / r['nd']
            want = bool(q < case['thr'])
            if (i in gi) != want and (i in gi or i in bi):
                fail.append('criterion: %s best=%r n_data=%d %s=%r is in the %s file' % (r['name'], best, r['nd'], case['mode'], case['thr'], 'good' if i in gi else 'bad'))
    return dict(disagree=disagree, fail=fail[:4], nontrivial=bool(gi) and bool(bi), tags=tags)


def signature(case, im, mo, v):
    if case['form'] == 'list' and 'exc' in im and "_fits" in im.get('msg', ''):
        return 'F9-list-input'
    return None
