"""
C16 - clause: "For a cube package, a wavelength given instead of a filter name
selects the cube slice at the nearest tabulated wavelength."

Input: a cube package whose flux.fits has no UNCERTAINTIES extension (written
by SEDCube.write with unc = None, accepted by SEDCube.read; the fit never uses
model uncertainties).  Fitter([3.6 micron, 8 micron, 24 micron], ...) raises
TypeError: 'NoneType' object is not subscriptable in
MonochromaticFluxes.from_sed_cube instead of selecting the slices.
"""
import os, sys, tempfile
import numpy as np
from astropy import units as u
from astropy.table import Table
from astropy import log
log.setLevel('ERROR')

from sedfitter.sed import SEDCube
from sedfitter.extinction import Extinction
from sedfitter import Fitter
from sedfitter.source import Source

rng = np.random.RandomState(0)
names = ['m_a', 'm_b', 'm_c']
wav = np.array([0.5, 1.2, 3.6, 8.0, 24., 70.]) * u.micron
val = (rng.random_sample((3, 1, 6)) + 0.5) * np.array([1., 10., 100.])[:, None, None]

d2 = tempfile.mkdtemp()
c = SEDCube()
c.names = np.array(names)
c.distance = 1 * u.kpc
c.wav = wav
c.val = val * u.mJy
c.write(os.path.join(d2, 'flux.fits'))          # no uncertainties
with open(os.path.join(d2, 'models.conf'), 'w') as f:
    f.write("name = test\nlength_subdir = 0\naperture_dependent = no\nlogd_step = 0.02\nversion = 2\n")
t = Table()
t['MODEL_NAME'] = np.array(names, dtype='S30')
t['par1'] = np.arange(3.)
t.write(os.path.join(d2, 'parameters.fits'))

e = Extinction()
e.wav = np.logspace(-2, 3) * u.micron
e.chi = e.wav.value ** -2 * u.cm ** 2 / u.g

for memmap in (True, False):
    try:
        ft = Fitter([3.5 * u.micron, 8.2 * u.micron, 25. * u.micron], [3., 3., 3.] * u.arcsec, d2,
                    extinction_law=e, av_range=[0., 10.], use_memmap=memmap)
    except Exception as exc:
        raise AssertionError(
            "C16 violated (use_memmap=%s): wavelengths given instead of filter names on a "
            "cube package written without uncertainties raise %s: %s instead of selecting "
            "the cube slices at 3.6, 8 and 24 micron" % (memmap, type(exc).__name__, exc))
    got = ft.models.fluxes.to(u.mJy).value
    assert np.allclose(got, val[:, 0, :][:, [2, 3, 4]], rtol=1e-6)
print("OK")
