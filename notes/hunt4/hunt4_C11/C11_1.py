"""
C11, clauses "Fit results are unchanged by permuting the filters (with the
photometry permuted alike)" and "multiplying every flux and error by a constant
shifts every scale by -0.5*log10(constant) and leaves A_V and chi^2 unchanged".

Input: a distance-independent per-file package (3 models, 4 filters, fluxes of
order 1..1000 mJy), the usual power-law extinction law, av_range = (0, 100),
and ONE source with four ordinary detections (flag 1) of which one band is
measured very precisely (relative error 1e-7) and the three others poorly
(30-50 per cent).

The weighted straight-line fit in fitting_routines.linear_regression
orthogonalises the extinction pattern against the scale pattern:
ortho1 = pattern1 - beta * pattern2.  With weights that differ by 13 orders of
magnitude, ortho1 at the precise band is a difference of two nearly equal
numbers (true size ~1e-13 of the terms, i.e. known to ~3 digits), and it is
multiplied by the huge weight, so it contributes to A_V at order one.  The
reported A_V therefore depends on the order of the filters (summation order in
beta) and on the unit of brightness (rounding of log10) in the third
significant digit; scale and chi^2 follow.

The reference solution of the same 2x2 weighted least-squares problem in exact
rational arithmetic is printed for comparison.
"""
import os
import io
import sys
import copy
import tempfile
import itertools
import contextlib
from fractions import Fraction

import numpy as np
from astropy import units as u

from sedfitter.convolved_fluxes import ConvolvedFluxes
from sedfitter.extinction import Extinction
from sedfitter.fit import Fitter
from sedfitter.source import Source


def quiet(f, *args, **kwargs):
    with contextlib.redirect_stdout(io.StringIO()):
        return f(*args, **kwargs)


# ---------------------------------------------------------------- the package
names = ['m0', 'm1', 'm2']
fnames = ['A', 'B', 'C', 'D']
wavs = [0.5, 1., 3., 10.]
flux = np.array([[12., 150., 900., 40.],
                 [3., 20., 7., 400.],
                 [500., 60., 2., 0.8]])

pkg = os.path.join(tempfile.mkdtemp(), 'pkg')
os.makedirs(os.path.join(pkg, 'convolved'))
with open(os.path.join(pkg, 'models.conf'), 'w') as f:
    f.write("name = test\nlength_subdir = 0\naperture_dependent = no\nlogd_step = 0.02\n")
for j, fn in enumerate(fnames):
    c = ConvolvedFluxes()
    c.model_names = np.array(names)
    c.central_wavelength = wavs[j] * u.micron
    c.flux = flux[:, j].reshape(-1, 1) * u.mJy
    c.error = c.flux * 0.01
    c.write(os.path.join(pkg, 'convolved', fn + '.fits'))

law = Extinction()
law.wav = np.logspace(-2., 3., 60) * u.micron
law.chi = law.wav.value ** -1.5 * u.cm ** 2 / u.g

kw = dict(extinction_law=law, av_range=[0., 100.])
apertures = [1., 1., 1., 1.] * u.arcsec

# ----------------------------------------------------------------- the source
src = Source()
src.name = 'src'
src.x = 0.
src.y = 0.
src.valid = [1, 1, 1, 1]
# model m1 behind A_V ~ 5, with some scatter
_f = quiet(Fitter, fnames, apertures, pkg, **kw)
src.flux = flux[1] * 10. ** (5. * np.asarray(_f.av_law, dtype=float)) * np.array([1.3, 1.0, 0.6, 1.2])
src.error = src.flux * np.array([0.4, 1.e-7, 0.5, 0.3])


def result(info, name='m1'):
    i = list(np.char.strip(info.model_name)).index(name)
    return float(info.av[i]), float(info.sc[i]), float(info.chi2[i])


# ------------------------------------------------- exact reference (for info)
fitter = quiet(Fitter, fnames, apertures, pkg, **kw)
w, lf, le = src.get_log_fluxes()
resid = lf - np.log10(flux[1])
p1 = [Fraction(float(x)) for x in np.asarray(fitter.av_law, dtype=float)]
p2 = [Fraction(-2)] * 4
W = [Fraction(float(x)) for x in w]
R = [Fraction(float(x)) for x in resid]
m11 = sum(a * a * k for a, k in zip(p1, W))
m12 = sum(a * b * k for a, b, k in zip(p1, p2, W))
m22 = sum(b * b * k for b, k in zip(p2, W))
v1 = sum(r * a * k for r, a, k in zip(R, p1, W))
v2 = sum(r * b * k for r, b, k in zip(R, p2, W))
det = m11 * m22 - m12 * m12
av_x = (m22 * v1 - m12 * v2) / det
sc_x = (m11 * v2 - m12 * v1) / det
chi_x = sum(k * (r - av_x * a - sc_x * b) ** 2 for r, a, b, k in zip(R, p1, p2, W))
print("exact rational solution for model m1: A_V = %.12f  scale = %.12f  chi2 = %.9f"
      % (float(av_x), float(sc_x), float(chi_x)))

# ------------------------------------------------------ permuting the filters
perm_res = []
for fp in itertools.permutations(range(4)):
    fp = list(fp)
    f2 = quiet(Fitter, [fnames[i] for i in fp], apertures[fp], pkg, **kw)
    s2 = copy.deepcopy(src)
    s2.valid = src.valid[fp]
    s2.flux = src.flux[fp]
    s2.error = src.error[fp]
    perm_res.append(result(f2.fit(s2)))
perm_res = np.array(perm_res)
print("24 filter orders : A_V %.9f .. %.9f   scale %.9f .. %.9f   chi2 %.6f .. %.6f"
      % (perm_res[:, 0].min(), perm_res[:, 0].max(),
         perm_res[:, 1].min(), perm_res[:, 1].max(),
         perm_res[:, 2].min(), perm_res[:, 2].max()))

# ------------------------------------------------------ units of brightness
scale_res = []
for k in range(-4, 5):
    cst = 10. ** k
    s3 = copy.deepcopy(src)
    s3.flux = src.flux * cst
    s3.error = src.error * cst
    av, sc, chi = result(fitter.fit(s3))
    scale_res.append((av, sc + 0.5 * np.log10(cst), chi))
scale_res = np.array(scale_res)
print("constants 1e-4..1e4: A_V %.9f .. %.9f   scale+0.5log10(c) %.9f .. %.9f   chi2 %.6f .. %.6f"
      % (scale_res[:, 0].min(), scale_res[:, 0].max(),
         scale_res[:, 1].min(), scale_res[:, 1].max(),
         scale_res[:, 2].min(), scale_res[:, 2].max()))

msgs = []
tol = 1.e-9
if np.ptp(perm_res[:, 0]) > tol or np.ptp(perm_res[:, 1]) > tol:
    msgs.append("permuting the 4 filters (photometry permuted alike) changes the "
                "fit of model m1: A_V ranges over %.3g, scale over %.3g, chi2 over %.3g "
                "(source with relative errors 0.4, 1e-7, 0.5, 0.3)"
                % (np.ptp(perm_res[:, 0]), np.ptp(perm_res[:, 1]), np.ptp(perm_res[:, 2])))
if np.ptp(scale_res[:, 0]) > tol or np.ptp(scale_res[:, 1]) > tol:
    msgs.append("multiplying all fluxes and errors by 10**k, k=-4..4, changes A_V by "
                "up to %.3g, the scale (after the -0.5*log10(c) shift) by up to %.3g and "
                "chi2 by up to %.3g"
                % (np.ptp(scale_res[:, 0]), np.ptp(scale_res[:, 1]), np.ptp(scale_res[:, 2])))
if msgs:
    print("C11 VIOLATED:")
    for m in msgs:
        print(" - " + m)
    sys.exit(1)
print("no violation")
