"""Shared machinery of the correspondence checks: build, Coq obligations, model driver I/O,
implementation worker pool, exact comparison helpers."""
import contextlib
import fcntl
import io
import json
import math
import multiprocessing
import os
import re
import shutil
import subprocess
import sys
import tempfile
import time
from fractions import Fraction

VERIF = os.path.dirname(os.path.dirname(os.path.abspath(__file__)))
REPO = os.environ.get('VERIF_REPO', '/repo')
WORK = os.path.join(VERIF, 'work')
NPROC = int(os.environ.get('VERIF_NPROC', '16'))

# ---------------------------------------------------------------------------
# build


def build():
    """(Re)build Coq development, extraction and driver under a lock.  Returns (ok, log_tail)."""
    os.makedirs(WORK, exist_ok=True)
    with open(os.path.join(VERIF, '.build.lock'), 'w') as lock:
        fcntl.flock(lock, fcntl.LOCK_EX)
        p = subprocess.run(['make', '-C', VERIF, 'build'], stdout=subprocess.PIPE, stderr=subprocess.STDOUT, text=True)
        ok = p.returncode == 0
        h = subprocess.run(['make', '-C', VERIF, 'hygiene'], stdout=subprocess.PIPE, stderr=subprocess.STDOUT, text=True)
        if h.returncode != 0:
            return False, h.stdout[-3000:]
        return ok, p.stdout[-3000:]


def coq_obligations(prop, allowed_axioms=()):
    """Re-check the theorems of coq/theories/Props_<prop>.v: each must be defined in the compiled library and
    Print Assumptions must report it closed (or only axioms in allowed_axioms).
    Returns dict(obligations, discharged, theorems=[(name, status)], log)."""
    src = os.path.join(VERIF, 'coq', 'theories', 'Props_%s.v' % prop)
    text = open(src).read()
    names = re.findall(r'^\s*(?:Theorem|Corollary|Lemma|Example)\s+(\w+)', text, re.M)
    os.makedirs(WORK, exist_ok=True)
    d = tempfile.mkdtemp(prefix='obl_%s_' % prop, dir=WORK)
    try:
        body = 'From SedV Require Import Props_%s.\n' % prop
        for n in names:
            body += 'Goal True. idtac "@@BEGIN %s". exact I. Qed.\nPrint Assumptions %s.\n' % (n, n)
        body += 'Goal True. idtac "@@END". exact I. Qed.\n'
        f = os.path.join(d, 'Obl.v')
        open(f, 'w').write(body)
        p = subprocess.run(['timeout', '600', 'coqc', '-Q', os.path.join(VERIF, 'coq', 'theories'), 'SedV', f],
                           stdout=subprocess.PIPE, stderr=subprocess.STDOUT, text=True, cwd=d)
        out = p.stdout
    finally:
        shutil.rmtree(d, ignore_errors=True)
    res = []
    if p.returncode != 0:
        return dict(obligations=max(len(names), 1), discharged=0, theorems=[(n, 'unchecked') for n in names], log=out[-2000:],
                    axioms=[])
    chunks = re.split(r'@@BEGIN (\w+)\n', out)
    # chunks: [pre, name1, text1, name2, text2, ...]
    axioms_seen = set()
    for i in range(1, len(chunks), 2):
        name, txt = chunks[i], chunks[i + 1].split('@@END')[0]
        if 'Closed under the global context' in txt:
            res.append((name, 'closed'))
        else:
            ax = re.findall(r'^([A-Za-z_][\w.]*)\s*$|^([A-Za-z_][\w.]*)\s*:', txt, re.M)
            axs = sorted(set(a or b for a, b in ax) - {'Axioms'})
            axioms_seen.update(axs)
            if axs and all(a in allowed_axioms for a in axs):
                res.append((name, 'axioms:' + ','.join(axs)))
            else:
                res.append((name, 'UNEXPECTED:' + ','.join(axs) if axs else 'UNPARSED'))
    ok = sum(1 for _, s in res if s == 'closed' or s.startswith('axioms:'))
    return dict(obligations=len(names), discharged=ok if len(res) == len(names) else 0, theorems=res, log=out[-1500:],
                axioms=sorted(axioms_seen))


# ---------------------------------------------------------------------------
# protocol values


def enc(x):
    if isinstance(x, bool):
        return 'i1' if x else 'i0'
    if isinstance(x, int):
        return 'i%d' % x
    if isinstance(x, Fraction):
        return 'q%d/%d' % (x.numerator, x.denominator)
    if isinstance(x, float):
        if math.isnan(x):
            return 'xnan'
        if math.isinf(x):
            return 'xinf' if x > 0 else 'xninf'
        f = Fraction(x)
        return 'q%d/%d' % (f.numerator, f.denominator)
    if isinstance(x, str):
        assert ' ' not in x and x != ''
        return 's' + x
    if isinstance(x, (list, tuple)):
        return '[ ' + ' '.join(enc(y) for y in x) + ' ]'
    if x is None:
        return '[ ]'
    raise TypeError('cannot encode %r' % (x,))


def dec(line):
    toks = line.split()
    pos = [0]

    def one():
        t = toks[pos[0]]
        pos[0] += 1
        if t == '[':
            out = []
            while toks[pos[0]] != ']':
                out.append(one())
            pos[0] += 1
            return out
        c, body = t[0], t[1:]
        if c == 'i':
            return int(body)
        if c == 'q':
            n, d = body.split('/')
            return Fraction(int(n), int(d))
        if c == 'x':
            return {'inf': math.inf, 'ninf': -math.inf, 'nan': math.nan}[body]
        if c == 's':
            return body
        raise ValueError('bad token ' + t)
    if line.startswith('!'):
        return ('!driver', line[1:].strip())
    return one()


def _run_shard(args):
    idx, lines = args
    p = subprocess.run([os.path.join(VERIF, 'ocaml', 'driver')], input='\n'.join(lines) + '\n',
                       stdout=subprocess.PIPE, stderr=subprocess.PIPE, text=True)
    out = p.stdout.split('\n')
    if out and out[-1] == '':
        out.pop()
    if len(out) != len(lines):
        out = out + ['!driver crashed rc=%s %s' % (p.returncode, p.stderr[-200:].replace('\n', ' '))] * (len(lines) - len(out))
    return idx, out


def run_model(requests, nproc=None):
    """requests: list of (op, value).  Returns the list of decoded answers, in order."""
    nproc = nproc or NPROC
    if not requests:
        return []
    lines = ['%s %s' % (op, enc(v)) for op, v in requests]
    n = len(lines)
    k = max(1, min(nproc, n // 4 or 1))
    shards = [(i, lines[i::k]) for i in range(k)]
    from concurrent.futures import ThreadPoolExecutor
    with ThreadPoolExecutor(k) as ex:
        outs = list(ex.map(_run_shard, shards))
    res = [None] * n
    for i, out in outs:
        for j, o in enumerate(out):
            res[i + j * k] = dec(o)
    return res


# ---------------------------------------------------------------------------
# implementation workers

def _pool_init(repo):
    os.environ['PYTHONDONTWRITEBYTECODE'] = '1'
    sys.dont_write_bytecode = True
    if repo not in sys.path[:1]:
        sys.path.insert(0, repo)
    import warnings
    warnings.filterwarnings('ignore')
    import numpy as np
    np.seterr(all='ignore')
    import sedfitter  # noqa
    assert os.path.abspath(sedfitter.__file__).startswith(os.path.abspath(repo) + os.sep), sedfitter.__file__
    try:
        from astropy import log
        log.setLevel('ERROR')
    except Exception:
        pass


def classify_exception(e):
    """Map an implementation exception to a small enum (message text and class are not compared further)."""
    name = type(e).__name__
    msg = str(e)
    if isinstance(e, EOFError):
        return 'eof'
    if 'too small' in msg:
        return 'too_small'
    if 'sorting failed' in msg.lower() or 'Sorting failed' in msg:
        return 'sort'
    if name in ('UnitConversionError', 'UnitsError', 'UnitTypeError') or 'unit' in msg.lower():
        return 'unit'
    return 'error:' + name


def _call(args):
    func, case = args
    t0 = time.time()
    buf = io.StringIO()
    try:
        with contextlib.redirect_stdout(buf), contextlib.redirect_stderr(buf):
            r = func(case)
        return r
    except Exception as e:  # the implementation (or the runner) raised
        import traceback
        return {'exc': classify_exception(e), 'msg': ('%s: %s' % (type(e).__name__, e))[:300],
                'tb': traceback.format_exc()[-1200:]}


def run_impl(func, cases, nproc=None, chunksize=None):
    nproc = nproc or NPROC
    if not cases:
        return []
    ctx = multiprocessing.get_context('fork')
    with ctx.Pool(min(nproc, len(cases)), initializer=_pool_init, initargs=(REPO,)) as pool:
        cs = chunksize or max(1, len(cases) // (nproc * 8))
        return pool.map(_call, [(func, c) for c in cases], chunksize=cs)


def run_impl_inline(func, case):
    _pool_init(REPO)
    return _call((func, case))


# ---------------------------------------------------------------------------
# numbers

def F(x):
    """exact Fraction of a finite float / int / Fraction"""
    if isinstance(x, Fraction):
        return x
    return Fraction(x)


def isfinite(x):
    if isinstance(x, Fraction) or isinstance(x, int):
        return True
    return math.isfinite(x)


def close(impl, model, rtol=1e-9, atol=1e-12):
    """|impl - model| <= atol + rtol*|model| in exact arithmetic; NaN/inf must match exactly."""
    if isinstance(model, float) or isinstance(impl, float) and not math.isfinite(impl):
        mi = float(model) if not isinstance(model, float) else model
        ii = float(impl)
        if math.isnan(mi) or math.isnan(ii):
            return math.isnan(mi) and math.isnan(ii)
        if math.isinf(mi) or math.isinf(ii):
            return mi == ii
    a, b = F(impl), F(model)
    return abs(a - b) <= F(atol) + F(rtol) * abs(b)


def tofloat(x):
    if isinstance(x, Fraction):
        try:
            return x.numerator / x.denominator
        except OverflowError:
            return math.inf if x > 0 else -math.inf
    return float(x)


def strict(x):
    """jsonable + non-finite floats as strings, so that the file is standard JSON (evidence files)"""
    x = jsonable(x)

    def go(y):
        if isinstance(y, float) and not math.isfinite(y):
            return 'nan' if math.isnan(y) else ('inf' if y > 0 else '-inf')
        if isinstance(y, dict):
            return {k: go(v) for k, v in y.items()}
        if isinstance(y, list):
            return [go(v) for v in y]
        return y
    return go(x)


def jsonable(x):
    """Fractions -> 'n/d' strings, numpy scalars -> python, for replay and evidence files."""
    try:
        import numpy as np
    except Exception:
        np = None
    if isinstance(x, Fraction):
        return '%d/%d' % (x.numerator, x.denominator)
    if isinstance(x, dict):
        return {str(k): jsonable(v) for k, v in x.items()}
    if isinstance(x, (list, tuple)):
        return [jsonable(v) for v in x]
    if np is not None:
        if isinstance(x, np.ndarray):
            return jsonable(x.tolist())
        if isinstance(x, np.generic):
            return jsonable(x.item())
    if isinstance(x, bytes):
        return x.decode('latin1')
    return x


class Rng:
    """Deterministic PRNG wrapper (one state per run, derived from VERIF_SEED)."""

    def __init__(self, seed):
        import random
        self.r = random.Random(seed)

    def __getattr__(self, k):
        return getattr(self.r, k)

    def dyadic(self, lo, hi, bits=16):
        """a float in [lo,hi] with few significant bits (exact sums stay small)"""
        x = self.r.uniform(lo, hi)
        if x == 0:
            return 0.0
        m, e = math.frexp(x)
        m = round(m * (1 << bits)) / (1 << bits)
        return math.ldexp(m, e)

    def logdyadic(self, lo, hi, bits=16):
        x = 10 ** self.r.uniform(math.log10(lo), math.log10(hi))
        m, e = math.frexp(x)
        m = round(m * (1 << bits)) / (1 << bits)
        return math.ldexp(m, e)


def _judge_one(args):
    modname, c, im, mo = args
    import importlib
    mod = importlib.import_module(modname)
    try:
        return mod.judge(c, im, mo)
    except Exception:  # a judge that crashes must not pass silently
        import traceback
        return dict(disagree=['judge crashed: %s' % traceback.format_exc()[-600:]], fail=[], nontrivial=False)


def run_judges(modname, triples, nproc=None):
    """the (exact-arithmetic) comparisons and oracles, in parallel"""
    nproc = nproc or NPROC
    if len(triples) < 64:
        return [_judge_one((modname,) + t) for t in triples]
    ctx = multiprocessing.get_context('fork')
    with ctx.Pool(min(nproc, len(triples))) as pool:
        return pool.map(_judge_one, [(modname,) + t for t in triples], chunksize=max(1, len(triples) // (nproc * 8)))
