(* UnitM — which flux units convert_flux accepts.  A unit is described the way astropy decomposes it: a scale factor to SI and the
   exponents of kg, m and s (any other base - K, mol, ... - is summed into u_other).  convert_flux tests is_equivalent against
   erg/s, Jy and erg/cm^2/s, i.e. it classifies by dimension alone; anything else is refused. *)
From Coq Require Import QArith Lqa Lia List Bool ZArith.
Import ListNotations.
Open Scope Q_scope.
From SedV Require Import Misc.

Record unitd := { u_scale : Q; u_kg : Z; u_mt : Z; u_s : Z; u_other : Z }.

Definition dims_of (f : family) : Z * Z * Z :=
  match f with Lum => (1, 2, -3) | Fnu => (1, 0, -2) | Fint => (1, 0, -3) end%Z.
(* SI scale of the family's base unit (erg/s, erg/cm^2/s/Hz, erg/cm^2/s) *)
Definition base_scale (f : family) : Q := match f with Lum => 1 # 10000000 | Fnu => 1 # 1000 | Fint => 1 # 1000 end.

Definition has_dims (u : unitd) (f : family) : bool :=
  let '(a, b, c) := dims_of f in (u_kg u =? a)%Z && (u_mt u =? b)%Z && (u_s u =? c)%Z && (u_other u =? 0)%Z.
(* the order of the tests in convert_flux: erg/s, then Jy, then erg/cm^2/s *)
Definition family_of (u : unitd) : option family :=
  if has_dims u Lum then Some Lum else if has_dims u Fnu then Some Fnu else if has_dims u Fint then Some Fint else None.

Definition convert_u (ua ub : unitd) (nu d x : Q) : option Q :=
  match family_of ua, family_of ub with
  | Some fa, Some fb => Some (convert fa (u_scale ua / base_scale fa) fb (u_scale ub / base_scale fb) nu d x)
  | _, _ => None
  end.

Lemma has_dims_spec u f : has_dims u f = true <-> (u_kg u, u_mt u, u_s u) = dims_of f /\ u_other u = 0%Z.
Proof.
  unfold has_dims. destruct (dims_of f) as [[a b] c]. rewrite !andb_true_iff, !Z.eqb_eq. split.
  - intros [[[-> ->] ->] ->]. split; reflexivity.
  - intros [E ->]. injection E as -> -> ->. repeat split.
Qed.

(* a unit is accepted exactly when it has the dimension of one of the three families *)
Theorem family_of_spec u f : family_of u = Some f <-> (u_kg u, u_mt u, u_s u) = dims_of f /\ u_other u = 0%Z.
Proof.
  unfold family_of. split.
  - destruct (has_dims u Lum) eqn:L; [intros H; injection H as <-; now apply has_dims_spec|].
    destruct (has_dims u Fnu) eqn:N; [intros H; injection H as <-; now apply has_dims_spec|].
    destruct (has_dims u Fint) eqn:I; [intros H; injection H as <-; now apply has_dims_spec|]. discriminate.
  - intros H. pose proof (proj2 (has_dims_spec u f) H) as T. destruct f.
    + (* Fnu *) assert (has_dims u Lum = false) as ->.
      { destruct (has_dims u Lum) eqn:L; [|reflexivity]. apply has_dims_spec in L. destruct H as [E _], L as [E' _]. rewrite E in E'. discriminate. }
      now rewrite T.
    + (* Fint *) assert (has_dims u Lum = false) as ->.
      { destruct (has_dims u Lum) eqn:L; [|reflexivity]. apply has_dims_spec in L. destruct H as [E _], L as [E' _]. rewrite E in E'. discriminate. }
      assert (has_dims u Fnu = false) as ->.
      { destruct (has_dims u Fnu) eqn:L; [|reflexivity]. apply has_dims_spec in L. destruct H as [E _], L as [E' _]. rewrite E in E'. discriminate. }
      now rewrite T.
    + (* Lum *) now rewrite T.
Qed.

(* an unsupported unit on either side is refused, and nothing else is *)
Theorem convert_u_refused ua ub nu d x : convert_u ua ub nu d x = None <-> family_of ua = None \/ family_of ub = None.
Proof.
  unfold convert_u. destruct (family_of ua), (family_of ub); split; try discriminate; try tauto; intros [H|H]; discriminate.
Qed.

Lemma base_scale_nz f : ~ base_scale f == 0. Proof. destruct f; unfold base_scale; intro H; discriminate. Qed.

Lemma div_nz a b : ~ a == 0 -> ~ b == 0 -> ~ a / b == 0.
Proof. intros Ha Hb E. apply Ha. setoid_replace a with (a / b * b) by (field; exact Hb). rewrite E. ring. Qed.

(* A -> B -> A is the identity and A -> B -> C equals A -> C for all supported units *)
Theorem convert_u_roundtrip ua ub nu d x y : ~ u_scale ua == 0 -> ~ u_scale ub == 0 -> ~ nu == 0 -> ~ d == 0 ->
  convert_u ua ub nu d x = Some y -> exists z, convert_u ub ua nu d y = Some z /\ z == x.
Proof.
  intros Ha Hb Hn Hd. unfold convert_u. destruct (family_of ua) as [fa|], (family_of ub) as [fb|]; try discriminate.
  intros H. injection H as <-. eexists. split; [reflexivity|].
  apply C15_roundtrip; try assumption; apply div_nz; try assumption; apply base_scale_nz.
Qed.

Theorem convert_u_compose ua ub uc nu d x y : ~ u_scale ua == 0 -> ~ u_scale ub == 0 -> ~ u_scale uc == 0 -> ~ nu == 0 -> ~ d == 0 ->
  convert_u ua ub nu d x = Some y -> family_of uc <> None ->
  exists z w, convert_u ub uc nu d y = Some z /\ convert_u ua uc nu d x = Some w /\ z == w.
Proof.
  intros Ha Hb Hc Hn Hd. unfold convert_u.
  destruct (family_of ua) as [fa|], (family_of ub) as [fb|]; try discriminate. destruct (family_of uc) as [fc|]; [|congruence].
  intros H _. injection H as <-. eexists. eexists. split; [reflexivity|]. split; [reflexivity|].
  apply C15_compose; try assumption; apply div_nz; try assumption; apply base_scale_nz.
Qed.

Definition u_mJy := {| u_scale := 1 # 100000000000000000000000000000; u_kg := 1; u_mt := 0; u_s := -2; u_other := 0 |}.
Definition u_erg_s := {| u_scale := 1 # 10000000; u_kg := 1; u_mt := 2; u_s := -3; u_other := 0 |}.
Definition u_K := {| u_scale := 1; u_kg := 0; u_mt := 0; u_s := 0; u_other := 1 |}.
Example unit_example : family_of u_mJy = Some Fnu /\ family_of u_erg_s = Some Lum /\ family_of u_K = None /\
  convert_u u_mJy u_K 1 1 1 = None /\ convert_u u_mJy u_erg_s 2 3 5 <> None.
Proof. repeat split; try reflexivity. discriminate. Qed.
