import os, tempfile, numpy as np
from astropy import units as u
from astropy.table import Table
from sedfitter.sed import SEDCube
from sedfitter.filter import Filter
from sedfitter.convolve import convolve_model_dir
from sedfitter.convolved_fluxes import ConvolvedFluxes
d = tempfile.mkdtemp()
nu = np.linspace(1e13, 3e13, 21)
cube = SEDCube(); cube.names = np.array(['a', 'b']); cube.distance = 1 * u.kpc
cube.nu = nu * u.Hz
cube.apertures = None
val = np.ones((2, 1, 21), dtype=np.float32); val[0] *= 1e9; val[1] *= 1e-20
cube.val = val * u.mJy
unc = np.ones((2, 1, 21), dtype=np.float32); unc[0] *= 1e8; unc[1] *= 1e-24
cube.unc = unc * u.mJy
cube.write(d + '/flux.fits')
open(d + '/models.conf', 'w').write("name = test\nlength_subdir = 0\naperture_dependent = no\nlogd_step = 0.02\nversion = 2\n")
t = Table(); t['MODEL_NAME'] = np.array(cube.names, dtype='S'); t['p'] = [1., 2.]; t.write(d + '/parameters.fits')
f1 = Filter(name='raw', central_wavelength=15 * u.micron, nu=np.array([1.5e13, 1.6e13, 2.4e13, 2.5e13]) * u.Hz, response=np.array([0., 1., 1., 0.]))
f2 = Filter(name='norm', central_wavelength=15 * u.micron, nu=np.array([1.5e13, 1.6e13, 2.4e13, 2.5e13]) * u.Hz, response=np.array([0., 1., 1., 0.]))
f2.normalize()
for mm in (True, False):
    convolve_model_dir(d, [f1, f2], overwrite=True, memmap=mm)
    for n in ('raw', 'norm'):
        c = ConvolvedFluxes.read(d + '/convolved/%s.fits' % n)
        print(mm, n, c.flux.value.ravel(), c.error.value.ravel(), c.flux.dtype)
R1 = f1.rebin(cube.nu).response; R2 = f2.rebin(cube.nu).response
print('expected raw', (1e9*R1).sum(), np.sqrt(((1e8*R1)**2).sum()), (1e-20*R1).sum(), np.sqrt(((1e-24*R1)**2).sum()))
print('expected norm', (1e9*R2).sum(), np.sqrt(((1e8*R2)**2).sum()), (1e-20*R2).sum(), np.sqrt(((1e-24*R2)**2).sum()))
