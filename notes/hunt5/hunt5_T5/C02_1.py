"""
C02, clause "trial distances form a log-uniform grid that includes both ends of
the requested range with the FEWEST points whose spacing does not exceed the
package's log-distance step" (and hence "the reported scale is log10(d/kpc) of
a grid distance", "the reported chi^2 is the minimum over the grid").

Input (all legal): aperture-dependent per-file package, logd_step = 0.5,
distance_range = [13, 130] kpc (exactly one decade), 1" apertures, tabulated
apertures 1e3..1e6 AU (theta*dmin = 13000 AU is well inside the table).

One decade with a step of 0.5 dex needs 3 distances (13, 41.11, 130 kpc; the
spacing is exactly 0.5, which does not exceed the step).  Models.read computes
    n = ceil(1 + (log10(130) - log10(13)) / 0.5)
and log10(130) - log10(13) evaluates to 1.0000000000000002, so n = 4: the grid
is 13, 28.0, 60.3, 130 kpc.  The grid is a different one (not a rounding-level
difference): a source planted on the 3-point grid's middle distance with
chi^2 = 0 is reported at another distance with chi^2 >> 0.
The same happens with e.g. [14, 140] kpc, [30, 300] kpc, [2.5, 25] pc and with
every step that divides the decade (0.025, 0.02, 0.05, 0.1, 0.2, 0.25, ...),
whereas [12, 120] kpc gives the expected 3 points.
"""
import os
import sys
import io
import tempfile
import contextlib

import numpy as np
from astropy import units as u
from astropy.table import Table

from sedfitter import Fitter
from sedfitter.convolved_fluxes import ConvolvedFluxes
from sedfitter.extinction import Extinction
from sedfitter.source import Source

d = tempfile.mkdtemp()
names = np.array(['model_a', 'model_b'])
with open(os.path.join(d, 'models.conf'), 'w') as f:
    f.write("name = test\nlength_subdir = 0\naperture_dependent = yes\nlogd_step = 0.5\n")
t = Table()
t['MODEL_NAME'] = names.astype('S30')
t['par1'] = [1., 2.]
t.write(os.path.join(d, 'parameters.fits'))

os.mkdir(os.path.join(d, 'convolved'))
ap = np.array([1.e3, 1.e4, 1.e5, 1.e6]) * u.au
wavs = [1., 3., 10.]
tables = [np.array([[1., 3., 4., 5.], [2., 2.5, 7., 9.]]),
          np.array([[2., 5., 9., 9.5], [1., 4., 4.5, 8.]]),
          np.array([[3., 4., 12., 20.], [5., 6., 6.5, 7.]])]
for j in range(3):
    c = ConvolvedFluxes()
    c.model_names = names
    c.apertures = ap
    c.central_wavelength = wavs[j] * u.micron
    c.flux = tables[j] * u.mJy
    c.error = tables[j] * 0.01 * u.mJy
    c.write(os.path.join(d, 'convolved', 'f%d.fits' % j))

ext = Extinction()
ext.wav = np.logspace(-1., 2., 30) * u.micron
ext.chi = ext.wav.value ** -1.5 * u.cm ** 2 / u.g

theta = 1.  # arcsec
dmin, dmax, step = 13., 130., 0.5


def make_fitter(drange):
    with contextlib.redirect_stdout(io.StringIO()):
        return Fitter(['f0', 'f1', 'f2'], [theta] * 3 * u.arcsec, d, extinction_law=ext,
                      av_range=[0., 10.], distance_range=drange)


fitter = make_fitter([dmin, dmax] * u.kpc)
control = make_fitter([12., 120.] * u.kpc)

# The specification's grid: fewest points, both ends, spacing <= step.
# One decade / 0.5 dex: 2 intervals of exactly 0.5 dex -> 3 points.
n_expected = 3
assert 1.0 / (n_expected - 1) <= step and 1.0 / (n_expected - 2) > step
grid_expected = 10 ** np.linspace(np.log10(dmin), np.log10(dmax), n_expected)

# Photometry of model_a planted at the middle distance of that grid, A_V = 2
d0 = grid_expected[1]
av0 = 2.
av_law = fitter.av_law.value if hasattr(fitter.av_law, 'value') else fitter.av_law
r_au = min(theta * d0 * 1000., 1.e6)
model = np.array([np.interp(r_au, ap.value, tables[j][0]) for j in range(3)]) / d0 ** 2
rel = 0.01
flux = model * 10 ** (av0 * av_law) * 10 ** (0.5 * rel ** 2 / np.log(10.))
s = Source()
s.name = 'planted'
s.x = s.y = 0.
s.valid = [1, 1, 1]
s.flux = flux
s.error = flux * rel
info = fitter.fit(s)
k = list(info.model_name).index('model_a')

msgs = []
if len(control.models.distances) != 3:
    msgs.append("control range [12, 120] kpc: %d distances" % len(control.models.distances))
if len(fitter.models.distances) != n_expected:
    msgs.append("distance_range [13, 130] kpc, logd_step 0.5: %d trial distances %s kpc instead of the "
                "fewest %d (%s kpc, spacing exactly 0.5 dex <= step); the range [12, 120] kpc gives %d"
                % (len(fitter.models.distances), np.round(fitter.models.distances.value, 3), n_expected,
                   np.round(grid_expected, 3), len(control.models.distances)))
if abs(info.sc[k] - np.log10(d0)) > 1e-9 or info.chi2[k] > 1e-6:
    msgs.append("model_a planted at the grid distance %.4f kpc (log10 = %.5f), A_V = 2: reported scale %.5f "
                "(not log10 of a distance of the required grid), chi2 = %.3f instead of ~0, A_V = %.4f"
                % (d0, np.log10(d0), info.sc[k], info.chi2[k], info.av[k]))

assert not msgs, "C02 distance-grid clause violated: " + " | ".join(msgs)
print("no violation")
