"""
C07 - clause: "In every convolved-flux file produced from a model package the
row labelled X holds, per aperture, the flux ... computed from SED X"
(format = cube).

A cube package whose flux.fits carries no UNCERTAINTIES extension is a legal
cube: SEDCube.write leaves the extension out when unc is None, SEDCube.read
accepts its absence, get_sed and the fitter's wavelength filters were repaired
for such cubes.  convolve_model_dir however dereferences sed_cube.unc
unconditionally and raises AttributeError: 'NoneType' object has no attribute
'unit', so no convolved file can be produced from such a package.
"""
import os, sys, tempfile
import numpy as np
from astropy import units as u
from astropy.table import Table
from astropy import log
log.setLevel('ERROR')

from sedfitter.sed import SEDCube
from sedfitter.filter import Filter
from sedfitter.convolve import convolve_model_dir
from sedfitter.convolved_fluxes import ConvolvedFluxes

rng = np.random.RandomState(0)
names = ['m_a', 'm_b', 'm_c']
wav = np.logspace(-1, 2.5, 30) * u.micron
aps = np.array([10., 100., 1000.]) * u.au
val = np.cumsum(rng.random_sample((3, 3, 30)) + 0.5, axis=1)

d2 = tempfile.mkdtemp()
c = SEDCube()
c.names = np.array(names)
c.distance = 1 * u.kpc
c.wav = wav
c.apertures = aps
c.val = val * u.mJy
c.write(os.path.join(d2, 'flux.fits'))          # no uncertainties
assert SEDCube.read(os.path.join(d2, 'flux.fits')).unc is None
with open(os.path.join(d2, 'models.conf'), 'w') as f:
    f.write("name = test\nlength_subdir = 0\naperture_dependent = yes\nlogd_step = 0.02\nversion = 2\n")
t = Table()
t['MODEL_NAME'] = np.array(names, dtype='S30')
t['par1'] = np.arange(3.)
t.write(os.path.join(d2, 'parameters.fits'))

fw = np.linspace(5., 1., 20) * u.micron
f = Filter(name='fa', central_wavelength=3. * u.micron,
           nu=fw.to(u.Hz, equivalencies=u.spectral()), response=np.ones(20))
f.normalize()

try:
    convolve_model_dir(d2, [f])
except Exception as e:
    raise AssertionError(
        "C07 violated: convolve_model_dir on a cube package written without "
        "uncertainties (SEDCube.write / read support this) raises %s: %s instead of "
        "producing convolved/fa.fits with the fluxes of each model"
        % (type(e).__name__, e))

b = ConvolvedFluxes.read(os.path.join(d2, 'convolved', 'fa.fits'))
R = f.rebin(wav.to(u.Hz, equivalencies=u.spectral())[::-1]).response
assert np.allclose(b.flux.value, np.sum(val[:, :, ::-1] * R, axis=2), rtol=1e-10)
print("OK")
