import numpy as np, os, tempfile, sys
sys.path.insert(0, os.path.dirname(__file__))
from astropy import units as u
from sedfitter.filter import Filter
from sedfitter.convolve import convolve_model_dir
from sedfitter.convolved_fluxes import ConvolvedFluxes
from pk import *
from fuzz_c06_ref import ref_R
rng = np.random.default_rng(5)
for it in range(30):
    nm = rng.integers(2, 9)
    nap = rng.integers(1, 6)
    ap = np.sort(10 ** rng.uniform(1, 5, nap)) * u.au
    fw = np.sort(rng.uniform(1, 3, 12)) * u.micron
    f = Filter(name='f', central_wavelength=1.5 * u.micron, nu=fw.to(u.Hz, equivalencies=u.spectral()), response=rng.random(12))
    f.normalize()
    d = tempfile.mkdtemp(); os.mkdir(d + '/seds')
    names = ['m%d' % i for i in rng.permutation(nm)]
    ref = {}
    for i, n in enumerate(names):
        nw = rng.integers(2, 81) if rng.random() < 0.5 else 20
        wav = np.sort(10 ** rng.uniform(-1, 1.5, nw))
        if rng.random() < 0.5: wav = wav[::-1]
        wav = wav * u.micron
        nu = wav.to(u.Hz, equivalencies=u.spectral())
        F = rng.random((nap, nw)); E = rng.random((nap, nw))
        write_sed_raw(d + '/seds/s%d_sed.fits' % i, n, wav, ap, F * u.mJy, E * u.mJy, distance=1 * u.kpc)
        o = np.argsort(nu.value)
        R = ref_R(f.nu.value, f.response, nu.value[o])
        ref[n] = ((F[:, o] * R).sum(axis=1), np.sqrt(((E[:, o] * R) ** 2).sum(axis=1)))
    write_conf(d, 1)
    pn = list(rng.permutation(names))
    write_pars(d, pn)
    convolve_model_dir(d, [f])
    c = ConvolvedFluxes.read(d + '/convolved/f.fits')
    assert [str(x) for x in c.model_names] == pn
    for j, n in enumerate(pn):
        assert np.allclose(c.flux[j].value, ref[n][0], rtol=1e-11, atol=0), (it, n, c.flux[j], ref[n][0])
        assert np.allclose(c.error[j].value, ref[n][1], rtol=1e-11, atol=0)
print('ok')
