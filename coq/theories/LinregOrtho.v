(* LinregOrtho — fitting_routines.linear_regression as it is written since the repair F46: the part of the extinction pattern
   that is orthogonal (for the weighted scalar product) to the scale pattern is used instead of Cramer's rule on the 2x2 normal
   equations.  In exact arithmetic it is the same solution - so every theorem about FitCore.linreg_m (C01_optimal, ...) is a
   theorem about the code as it stands; in floating point it does not cancel (which is what the repair is about, and what C01's
   runs with very unequal weights observe). *)
From Coq Require Import QArith Lqa Lia List Bool ZArith.
Import ListNotations.
Open Scope Q_scope.
From SedV Require Import Clamp FitCore.

Definition beta rows : Q := m12 rows / m22 rows.
Definition ortho (b : Q) (r : row) : Q := r_a r - b * r_s r.
Definition s11 rows : Q := let b := beta rows in qsum (fun r => ortho b r * ortho b r * w r) rows.
Definition linreg_ortho_m rows : Q * Q :=
  let b := beta rows in
  let p1 := qsum (fun r => resid r * ortho b r * w r) rows / s11 rows in
  let p2 := c2 rows / m22 rows - b * p1 in
  (p1, p2).

Lemma qsum_ortho_num b rows : qsum (fun r => resid r * ortho b r * w r) rows == c1 rows - b * c2 rows.
Proof. unfold ortho, c1, c2. induction rows as [|r rs IH]; simpl; [ring|]. rewrite IH. ring. Qed.

Lemma qsum_ortho_den b rows :
  qsum (fun r => ortho b r * ortho b r * w r) rows == m11 rows - 2 * b * m12 rows + b * b * m22 rows.
Proof. unfold ortho, m11, m12, m22. induction rows as [|r rs IH]; simpl; [ring|]. rewrite IH. ring. Qed.

(* the orthogonal part carries the determinant: s11 = det / m22 *)
Lemma s11_det rows : ~ m22 rows == 0 -> s11 rows == det rows / m22 rows.
Proof. intros H. unfold s11. rewrite qsum_ortho_den. unfold beta, det. field. exact H. Qed.

Theorem linreg_ortho_eq rows : ~ m22 rows == 0 -> ~ det rows == 0 ->
  fst (linreg_ortho_m rows) == fst (linreg_m rows) /\ snd (linreg_ortho_m rows) == snd (linreg_m rows).
Proof.
  intros H22 Hd. unfold linreg_ortho_m, linreg_m. cbn [fst snd].
  rewrite qsum_ortho_num, (s11_det rows H22).
  assert (E1 : (c1 rows - beta rows * c2 rows) / (det rows / m22 rows) == (m22 rows * c1 rows - m12 rows * c2 rows) * (1 / det rows)).
  { unfold beta. field. split; assumption. }
  split; [exact E1|].
  rewrite E1. unfold beta.
  setoid_replace (c2 rows / m22 rows - m12 rows / m22 rows * ((m22 rows * c1 rows - m12 rows * c2 rows) * (1 / det rows)))
    with ((c2 rows * det rows - m12 rows * (m22 rows * c1 rows - m12 rows * c2 rows)) / (m22 rows * det rows)) by (field; split; assumption).
  unfold det. field. unfold det in Hd. split; assumption.
Qed.

Lemma qsum_ortho_cross b rows : qsum (fun r => ortho b r * r_s r * w r) rows == m12 rows - b * m22 rows.
Proof. unfold ortho, m12, m22. induction rows as [|r rs IH]; simpl; [ring|]. rewrite IH. ring. Qed.

(* the second pattern really is orthogonal to the modified first one *)
Theorem ortho_is_orthogonal rows : ~ m22 rows == 0 ->
  qsum (fun r => ortho (beta rows) r * r_s r * w r) rows == 0.
Proof. intros H. rewrite qsum_ortho_cross. unfold beta. field. exact H. Qed.

Example ortho_example :
  let rows := [ {| r_b := {| b_flag := 1; b_lf := 1; b_le := 1#10; b_w := 100 |}; r_a := -1; r_s := -2; r_lm := 0 |};
                {| r_b := {| b_flag := 1; b_lf := 2; b_le := 1#10; b_w := 4 |}; r_a := -(1#2); r_s := -2; r_lm := 0 |};
                {| r_b := {| b_flag := 4; b_lf := 3; b_le := 1#10; b_w := 1000000 |}; r_a := 0; r_s := -2; r_lm := 0 |} ] in
  fst (linreg_ortho_m rows) == fst (linreg_m rows) /\ snd (linreg_ortho_m rows) == snd (linreg_m rows) /\ ~ det rows == 0.
Proof. cbv zeta. repeat split; vm_compute; try reflexivity. discriminate. Qed.
