import sys
sys.path.insert(0, '/tmp/hunt3_C03/hunt_out')
from _common import *
from sedfitter.fit import Fitter
from sedfitter.convolved_fluxes import ConvolvedFluxes
rng = np.random.default_rng(7)
nm, nf = 9, 4
names = np.array(['m%03d' % i for i in range(nm)])
wavs = [0.5, 1.2, 3.6, 8.0]
fn = ['f%d' % i for i in range(nf)]
aps = np.logspace(1, 6, 8) * u.au
fl_dep = np.cumsum(10 ** rng.uniform(-1, 1, (nm, 8, nf)), axis=1)
def write(unit, apunit, wavunit=u.micron, gz=False):
    d = tempfile.mkdtemp(); os.mkdir(d + '/convolved')
    open(d + '/models.conf', 'w').write("name = test\nlength_subdir = 0\naperture_dependent = yes\nlogd_step = 0.02\n")
    for i, f in enumerate(fn):
        c = ConvolvedFluxes(wavelength=(wavs[i] * u.micron).to(wavunit), model_names=names, apertures=aps.to(apunit),
                            flux=(fl_dep[:, :, i] * u.mJy).to(unit), error=(fl_dep[:, :, i] * 0.01 * u.mJy).to(unit))
        c.write(d + '/convolved/' + f + '.fits' + ('.gz' if gz else ''))
    return d
ext = extinction()
kw = dict(extinction_law=ext, av_range=[0., 4.], remove_resolved=True)
A = quiet(Fitter, fn, [3., 1., 2., 5.] * u.arcsec, write(u.mJy, u.au), distance_range=[0.5, 3.] * u.kpc, **kw)
for unit, apu, wu, dr, ap in [(u.Jy, u.pc, u.micron, [500., 3000.] * u.pc, [3., 1., 2., 5.] * u.arcsec),
                          (u.erg / u.s / u.cm ** 2 / u.Hz, u.cm, u.nm, ([0.5, 3.] * u.kpc).to(u.lyr), ([3., 1., 2., 5.] * u.arcsec).to(u.deg)),
                          (u.uJy, u.m, u.cm, ([0.5, 3.] * u.kpc).to(u.cm), ([3., 1., 2., 5.] * u.arcsec).to(u.rad))]:
    B = quiet(Fitter, fn, ap, write(unit, apu, wu, gz=True), distance_range=dr, **kw)
    print(np.abs(A.models.distances - B.models.distances).max(), A.models.n_distances, B.models.n_distances)
    w = 0
    for t in range(50):
        full = rng.choice([0, 1, 1, 1, 2, 3, 9], size=nf)
        flux = 10 ** rng.uniform(-1, 2, nf); err = flux * rng.uniform(0.02, 0.3, nf)
        lim = (full == 2) | (full == 3); err[lim] = rng.choice([0., 1., 0.5], size=lim.sum())
        s = mksource(full, flux, err)
        a, b = result_dict(A.fit(s)), result_dict(B.fit(s))
        for k in a:
            for x, y in zip(a[k], b[k]):
                if x != y and not (np.isnan(x) and np.isnan(y)): w = max(w, abs(x - y) / max(1, abs(x)))
    print(unit, w)
