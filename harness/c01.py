"""C01 — aperture-independent fits: Fitter.fit against FitModel.fit2_pkg and the constrained least-squares clauses."""
import math
from fractions import Fraction

from common import Rng, F, close
import fitcase

PROP = 'C01'
MODEL_OPS = 'FitModel.fit2_pkg (get_av_m, get_log_fluxes_m, linreg_m, clamp, optscale, chi2_m)'
RULE = ('60 (1200) function-level cases: fitting_routines.linear_regression / optimal_scaling / chi_squared and Source.get_log_fluxes called directly on random arrays and compared with linreg_m / optscale_*_m / chi2_m / get_log_fluxes_m; '
        'v1 aperture-independent packages written as convolved/*.fits + models.conf and fitted through Fitter/Models.read/Extinction.get_av/Models.fit: '
        '2-6 bands, 1-8 models, flags over {0,1,2,3,4,9} with >=2 fitted bands, fluxes over 8 decades, relative errors 0.5-50%, confidences {0,(0,1),1}, '
        'extinction tables of 2-50 rows (filters sometimes outside the table), A_V ranges interior / clamping low / clamping high / lo==hi / narrow. '
        'non-trivial = non-singular regression (condition number < 1e8) with at least one model; distinct = distinct inputs.')
EXHAUSTIVE = {'quick': False, 'thorough': False}
ASSUMPTIONS = ['float rounding of the implementation: compared with relative tolerance 1e-10 x condition number of the 2x2 regression (the condition number is taken as at least 1e-2 x the ratio of the extreme weights)',
               'regressions whose normal equations have a condition number between 1e8 and 1e15 (very unequal weights) are judged on the objective only: S at the reported (A_V, scale) within (1e-6 + 1e-16 x condition) x (1 + S_min) of the exact minimum; beyond 1e15 they are skipped',
               'singular regressions (all extinction coefficients of the fitted bands equal) are outside the quantifier and skipped (counted)',
               'limit bands whose predicted flux is within 1e-9 of the limit are not compared on chi2 (near-tie filter)']
ALLOWED_AXIOMS = ('ClassicalDedekindReals.sig_forall_dec', 'FunctionalExtensionality.functional_extensionality_dep')


def generate(tier, seed):
    rng = Rng(seed * 65537 + 1)
    cases = [fitcase.gen_case(rng, '2d') for _ in range(300 if tier == 'quick' else 6000)]
    for k, c in enumerate(cases):
        if k % 7 == 3:       # one measurement far more precise than the others (relative error 1e-5 .. 1e-7): very unequal weights
            fit_j = [j for j, f in enumerate(c['src']['flags']) if f in (1, 4)]
            j = rng.choice(fit_j)
            rel = rng.choice([1e-5, 1e-6, 1e-7])
            c['src']['err'][j] = c['src']['flux'][j] * rel if c['src']['flags'][j] == 1 else rel
            c['unequal'] = True
        if k % 2 == 1:       # the Fitter has fitted other sources before (their results are not examined; the judged fit must not depend on them)
            c['warmup'] = [fitcase.gen_source(rng, len(c['wav']), min_fitted=2) for _ in range(rng.randint(1, 2))]
        if k % 9 == 5:       # the judged source is an object that was fitted before in another state and edited in place since (seed C01_p)
            c['edited_from'] = fitcase.gen_source(rng, len(c['wav']), min_fitted=2)
    # function-level correspondence: fitting_routines.* and Source.get_log_fluxes called directly on random arrays
    for _ in range(60 if tier == 'quick' else 1200):
        nb, nm = rng.randint(2, 6), rng.randint(1, 5)
        flags = [rng.choice([1, 1, 4, 2, 3, 0, 9]) for _ in range(nb)]
        if sum(1 for f in flags if f in (1, 4)) < 2:
            flags[0], flags[1] = 1, 4
        src = fitcase.gen_source(rng, nb, flags=flags)
        cases.append(dict(kind='unit', src=src, a=[rng.dyadic(-1.5, 0.0, 8) for _ in range(nb)], s=[rng.choice([-2.0, rng.dyadic(-3, 3, 6)]) for _ in range(nb)],
                          lm=[[rng.dyadic(-3, 3, 10) for _ in range(nb)] for _ in range(nm)], av=[rng.dyadic(0, 10, 8) for _ in range(nm)], sc=[rng.dyadic(-2, 2, 8) for _ in range(nm)]))
    return cases


def _impl_unit(case):
    import numpy as np
    from sedfitter import fitting_routines as fr
    s = fitcase.make_source(case['src'])
    w, lf, le = s.get_log_fluxes()
    a, sp = np.array(case['a']), np.array(case['s'])
    lm = np.array(case['lm'])
    resid = lf[np.newaxis, :] - lm
    fin = np.isfinite(lf) & np.isfinite(le)
    resid[:, ~fin] = 0.
    p1, p2 = fr.linear_regression(resid, w, a, sp)
    osc = fr.optimal_scaling(resid - np.array(case['av'])[:, np.newaxis] * a[np.newaxis, :], w, sp)
    oav = fr.optimal_scaling(resid, w, a)
    model = np.array(case['av'])[:, np.newaxis] * a[np.newaxis, :] + np.array(case['sc'])[:, np.newaxis] * sp[np.newaxis, :]
    le2 = np.where(fin, le, 0.)
    chi = fr.chi_squared(s.valid, resid, le2, w, model)
    return dict(w=[float(x) for x in w], lf=[float(x) for x in lf], le=[float(x) for x in le], p1=[float(x) for x in p1], p2=[float(x) for x in p2],
                osc=[float(x) for x in osc], oav=[float(x) for x in oav], chi=[float(x) for x in chi])


def impl(case):
    if case.get('kind') == 'unit':
        return _impl_unit(case)
    return fitcase.impl_fit(case)


def shrink(case):
    return [] if case.get('kind') == 'unit' else fitcase.shrink(case)


MODEL_NEEDS_IMPL = True


def model_requests(case, im=None):
    if case.get('kind') != 'unit':
        return [fitcase.model_request(case)]
    reqs = [('get_log_fluxes', [fitcase.raws(case['src'])])]
    if not isinstance(im, dict) or 'w' not in im:
        return reqs
    import math
    # rows as the implementation's own transformed bands (exact doubles), so that the regression ops are compared on identical inputs
    for k, lm in enumerate(case['lm']):
        rows = []
        for j, f in enumerate(case['src']['flags']):
            ok = math.isfinite(im['lf'][j]) and math.isfinite(im['le'][j])
            rows.append([f, F(im['lf'][j]) if ok else F(lm[j]), F(im['le'][j]) if ok else F(0), F(im['w'][j]), F(case['a'][j]), F(case['s'][j]), F(lm[j])])
        # linreg_ortho: the regression as the code is written since F46 (LinregOrtho.linreg_ortho_m, proved equal to the normal-equation solution)
        reqs += [('linreg_ortho', [rows]), ('optscale_sc', [F(case['av'][k]), rows]), ('optscale_av', [rows]), ('chi2', [rows, F(case['av'][k]), F(case['sc'][k])])]
        last = rows
    if case['lm']:
        reqs.append(('linreg', [last]))      # the normal-equation form on the last rows: must be the very same rationals
    return reqs


def conditioning(case):
    bands = fitcase.log_bands(case['src'])
    ks = [fitcase.k_law(case['ext'], w) for w in case['wav']]
    m11 = sum(w * k * k for (f, lf, le, w), k in zip(bands, ks))
    m22 = sum(w * 4 for (f, lf, le, w) in bands)
    m12 = sum(w * k * -2 for (f, lf, le, w), k in zip(bands, ks))
    det = m11 * m22 - m12 * m12
    return bands, ks, (float(m11 * m22 / det) if det > 0 else math.inf)


def _judge_unit(case, im, mo):
    import math
    tags = ['kind=unit']
    if 'exc' in im:
        return dict(disagree=['implementation raised ' + im['msg']], fail=[], nontrivial=False, tags=tags)
    if any(isinstance(m, tuple) for m in mo):
        return dict(disagree=['driver %r' % ([m for m in mo if isinstance(m, tuple)][:1],)], fail=[], nontrivial=False)
    dis = []
    for j, (b, f) in enumerate(zip(mo[0], case['src']['flags'])):
        if f in (1, 2, 3, 4):
            for name, got, want in (('weight', im['w'][j], b[1]), ('log flux', im['lf'][j], b[2]), ('log error', im['le'][j], b[3])):
                if not close(got, want, 1e-12, 1e-15):
                    dis.append('get_log_fluxes band %d (flag %d) %s: implementation %r model %r' % (j, f, name, got, float(want)))
        elif im['w'][j] != 0.0:
            dis.append('get_log_fluxes band %d (flag %d): weight %r' % (j, f, im['w'][j]))
    # conditioning of the two-parameter regression on these bands (exact): a singular or nearly singular system is outside the quantifier
    wq = [F(x) for x in im['w']]
    m11 = sum(w * F(a) * F(a) for w, a in zip(wq, case['a']))
    m22 = sum(w * F(t) * F(t) for w, t in zip(wq, case['s']))
    m12 = sum(w * F(a) * F(t) for w, a, t in zip(wq, case['a'], case['s']))
    det = m11 * m22 - m12 * m12
    cond = float(m11 * m22 / det) if det > 0 else math.inf
    if cond > 1e6:
        tags.append('regression-singular-skipped')
    for k in range(len(case['lm'])):
        lr, osc, oav, chi = mo[1 + 4 * k: 5 + 4 * k]
        rt = max(1e-7, 1e-12 * cond) if cond <= 1e6 else None
        if rt is not None and not (close(im['p1'][k], lr[0], rt, rt) and close(im['p2'][k], lr[1], rt, rt)):
            dis.append('linear_regression model %d: implementation (%r, %r) model (%r, %r)' % (k, im['p1'][k], im['p2'][k], float(lr[0]), float(lr[1])))
        if m22 > 0 and not close(im['osc'][k], osc, 1e-9, 1e-9):
            dis.append('optimal_scaling(scale) model %d: %r vs %r' % (k, im['osc'][k], float(osc)))
        if m11 > 0 and not close(im['oav'][k], oav, 1e-9, 1e-9):
            dis.append('optimal_scaling(av) model %d: %r vs %r' % (k, im['oav'][k], float(oav)))
        ci, cm = fitcase.canon_chi(im['chi'][k]), fitcase.canon_chi(chi)
        # skip limit near-ties
        tie = False
        for j, f in enumerate(case['src']['flags']):
            if f in (2, 3) and math.isfinite(im['lf'][j]):
                d = abs((im['lf'][j] - case['lm'][k][j]) - (case['av'][k] * case['a'][j] + case['sc'][k] * case['s'][j]))
                tie = tie or d < 1e-9
        if not tie and ((ci == 'HUGE') != (cm == 'HUGE') or (ci != 'HUGE' and not close(ci, cm, 1e-9, 1e-9))):
            dis.append('chi_squared model %d: %r vs %r' % (k, im['chi'][k], cm if cm == 'HUGE' else float(cm)))
    if case['lm'] and cond < 1e300 and len(mo) == 2 + 4 * len(case['lm']):
        a, b = mo[1 + 4 * (len(case['lm']) - 1)], mo[-1]
        if not isinstance(a, tuple) and not isinstance(b, tuple) and [F(x) for x in a] != [F(x) for x in b]:
            dis.append('model: linreg_ortho_m %r differs from linreg_m %r on a non-singular system' % ([float(x) for x in a], [float(x) for x in b]))
    return dict(disagree=dis[:4], fail=[], nontrivial=True, tags=tags)


def judge(case, im, mo):
    if case.get('kind') == 'unit':
        return _judge_unit(case, im, mo)
    tags = ['nb=%d' % len(case['wav']), 'nm=%d' % len(case['names']), 'avr=%s' % ('point' if case['av_range'][0] == case['av_range'][1] else 'range')]
    m = mo[0]
    if isinstance(m, tuple):
        return dict(disagree=['driver %r' % (m,)], fail=[], nontrivial=False)
    bands, ks, cond = conditioning(case)
    # very unequal weights (one band measured to 1e-7, the others to tens of per cent) cost the regression digits as well, whatever the
    # collinearity of the two patterns: the ratio of the extreme weights takes part in the conditioning
    ws = [float(w) for (f, lf, le, w) in bands if w > 0]
    wr = max(ws) / min(ws) if ws else 1.0
    cond = max(cond, wr * 1e-2)
    if cond > 1e8:
        # the parameters are weakly determined along one direction, but the minimum of S is not: the reported (A_V, scale) must still
        # reach it (very unequal weights make the normal equations of a well-posed fit ill-conditioned)
        if cond > 1e15 or 'exc' in im or isinstance(mo[0], tuple):
            return dict(disagree=[], fail=[], nontrivial=False, tags=tags + ['singular-skipped'])
        return _judge_illcond(case, im, mo, bands, ks, cond, tags)
    if 'exc' in im:
        return dict(disagree=['implementation raised ' + im['msg']], fail=['raised: Fitter/fit raised %s' % im['msg']], nontrivial=False, tags=tags)
    det, alaw, res = m
    lo, hi = F(case['av_range'][0]), F(case['av_range'][1])
    rt = 1e-10 * max(cond, 1.0)
    disagree, fail = [], []
    # extinction pattern
    for j, (a, b) in enumerate(zip(im['av_law'], alaw)):
        if not close(a, b, rt, 1e-14):
            disagree.append('av_law[%d]: implementation %r model %r' % (j, a, float(b)))
        if not close(a, ks[j], 1e-10, 1e-14):
            fail.append('law: extinction coefficient of band %d is %r, -0.4 chi/chi_V gives %r' % (j, a, float(ks[j])))
    if any(s != -2.0 for s in im['sc_law']):
        fail.append('scalepattern: scale pattern is not -2')
    nclamp = 0
    for i, mid in enumerate(im['model_id']):
        name = im['model_name'][i]
        if name != case['names'][mid]:
            fail.append('row: row %d names %s but carries index %d' % (i, name, mid))
            continue
        if any(x == 0 for x in case['flux'][mid]):
            continue      # a model without flux in some band: log flux -inf, outside C01's quantifier (C04 judges its place in the ranking)
        r = res[mid]
        av_m, sc_m, chi_m, pred_m = r
        av_i, sc_i, chi_i = F(im['av'][i]), F(im['sc'][i]), im['chi2'][i]
        lms = [F(float(__import__('numpy').log10(x))) for x in case['flux'][mid]]
        if av_m == lo or av_m == hi:
            nclamp += 1
        # ---- correspondence
        if not close(av_i, av_m, rt, rt):
            disagree.append('av of %s: implementation %r model %r' % (name, float(av_i), float(av_m)))
        if not close(sc_i, sc_m, rt, rt):
            disagree.append('sc of %s: implementation %r model %r' % (name, float(sc_i), float(sc_m)))
        ptot, pinf, margin = fitcase.penalties(bands, ks, lms, av_m, sc_m)
        tie = margin is not None and margin < Fraction(1, 10 ** 8)
        if not tie:
            ci, cm = fitcase.canon_chi(chi_i), fitcase.canon_chi(chi_m)
            if (ci == 'HUGE') != (cm == 'HUGE') or (ci != 'HUGE' and not close(ci, cm, 1e-7 * max(1.0, cond ** 0.5), 1e-9)):
                disagree.append('chi2 of %s: implementation %r model %r' % (name, chi_i, float(chi_m) if cm != 'HUGE' else 'HUGE'))
        for j, (a, b) in enumerate(zip(im['model_fluxes'][i], pred_m)):
            if not close(a, b, rt, rt * 10):
                disagree.append('predicted flux %d of %s: %r vs %r' % (j, name, a, float(b)))
                break
        # ---- property oracle on the implementation's own numbers
        eps = F(1e-9)
        if not (lo - eps <= av_i <= hi + eps):
            fail.append('range: A_V %r of %s outside [%r, %r]' % (float(av_i), name, float(lo), float(hi)))
        s_impl = fitcase.objective(bands, ks, lms, av_i, sc_i)
        s_min = fitcase.objective(bands, ks, lms, av_m, sc_m)
        # the excess of S over its minimum is of second order in the rounding error of (A_V, scale) - also on a bound, where the
        # scale is re-optimised - so it stays far below 1e-11 for well-conditioned regressions
        if s_impl > s_min + F(1e-11 if cond < 1e4 else 1e-7) * (1 + s_min):
            fail.append('optimum: (A_V, scale) of %s gives S=%r, the constrained minimum is %r' % (name, float(s_impl), float(s_min)))
        ptot_i, pinf_i, margin_i = fitcase.penalties(bands, ks, lms, av_i, sc_i)
        if not (margin_i is not None and margin_i < Fraction(1, 10 ** 8)):
            want = 'HUGE' if pinf_i else float(s_impl + ptot_i)
            ci = fitcase.canon_chi(chi_i)
            if (ci == 'HUGE') != (want == 'HUGE') or (ci != 'HUGE' and not close(ci, F(want), 1e-7, 1e-9)):
                fail.append('chi2: chi2 of %s is %r, S + penalties at the reported (A_V, scale) is %r' % (name, chi_i, want))
    tags.append('clamped=%s' % ('some' if nclamp else 'none'))
    return dict(disagree=disagree[:5], fail=fail[:5], nontrivial=True, tags=tags)


def _judge_illcond(case, im, mo, bands, ks, cond, tags):
    import numpy as np
    det, alaw, res = mo[0]
    fail = []
    for i, mid in enumerate(im['model_id']):
        name = im['model_name'][i]
        if any(x == 0 for x in case['flux'][mid]):
            continue
        av_m, sc_m = res[mid][0], res[mid][1]
        if not (math.isfinite(im['av'][i]) and math.isfinite(im['sc'][i])):
            fail.append('optimum: (A_V, scale) of %s is not finite although the regression is not singular (condition %.1e)' % (name, cond))
            break
        av_i, sc_i = F(im['av'][i]), F(im['sc'][i])
        lms = [F(float(np.log10(x))) for x in case['flux'][mid]]
        s_impl = fitcase.objective(bands, ks, lms, av_i, sc_i)
        s_min = fitcase.objective(bands, ks, lms, av_m, sc_m)
        # a backward-stable solver leaves an excess of order eps^2 x condition x (largest weight), hence the second term
        if s_impl > s_min + F(1e-6 + 1e-16 * cond) * (1 + s_min):
            fail.append('optimum: (A_V, scale) of %s gives S=%r, the constrained minimum is %r (condition %.1e)' % (name, float(s_impl), float(s_min), cond))
            break
    return dict(disagree=[], fail=fail[:3], nontrivial=True, tags=tags + ['ill-conditioned-objective-only'])
