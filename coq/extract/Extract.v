(* Extraction of the executable model.  Directives used: those of the stdlib files
   ExtrOcamlBasic and ExtrOcamlZBigInt (positive/Z/N -> zarith big integers), nothing of ours. *)
Require Coq.extraction.Extraction.
Require Import ExtrOcamlBasic ExtrOcamlZBigInt.
From SedV Require Import Xnum Keep.
Extraction Language OCaml.
Set Extraction Output Directory ".".
Extraction "sedmodel.ml" Keep.nkeep.
