from common import *
rng = np.random.RandomState(3)
wavs = [1., 2., 4., 8., 16.]
nm = 6
aps = np.logspace(1, 5, 30)
fl = np.cumsum(rng.random_sample((nm, 30, 5))**4, axis=1)
d, fn = make_dir(['m%d' % i for i in range(nm)], fl, wavs, apertures=aps)
F = quiet(Fitter, fn, [3.]*5*u.arcsec, d, extinction_law=ext(), av_range=[0., 10.], distance_range=[1., 3.]*u.kpc, remove_resolved=True)
E = F.models.extended
print(E.shape)
for m in range(nm):
    print(m)
    print(E[m].T.astype(int))
