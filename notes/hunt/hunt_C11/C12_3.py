"""
C12, clauses "Extracting one model from a cube gives the SED that was put in,
and optional parts (apertures, uncertainties) may be absent" together with
"Writing an SED ... and reading it back returns the same value".

A cube without uncertainties is legal and SEDCube.get_sed() returns the SED
with error=None.  That SED (and any SED built without uncertainties) is
refused by SED.write(): ValueError("Errors are not set").  So for the
"without uncertainties" half of the quantifier the SED write/read-back promise
cannot be met.  (Note: this refusal is explicit in SED.write, i.e. the code is
deliberately stricter than the statement.)
"""
import os
import sys
import tempfile

import numpy as np
from astropy import units as u

from sedfitter.sed import SED, SEDCube

tmp = tempfile.mkdtemp()

c = SEDCube()
c.names = np.array(['m1', 'm2'])
c.distance = 1. * u.kpc
c.wav = np.array([1., 2., 5.]) * u.micron
c.apertures = np.array([10., 100.]) * u.au
c.val = np.arange(12.).reshape(2, 2, 3) * u.mJy
# no uncertainties
c.write(os.path.join(tmp, 'cube.fits'))
r = SEDCube.read(os.path.join(tmp, 'cube.fits'), order='wav')
assert r.unc is None

sed = r.get_sed('m2')
assert np.array_equal(sed.flux.value, c.val[1].value)
assert sed.error is None

try:
    sed.write(os.path.join(tmp, 'm2_sed.fits'))
    back = SED.read(os.path.join(tmp, 'm2_sed.fits'), unit_flux=u.mJy, order='wav')
except Exception as exc:
    print("C12 VIOLATED: the SED extracted from a cube without uncertainties "
          "(2 apertures, 3 wavelengths, mJy) cannot be written and read back: "
          "%s: %s" % (type(exc).__name__, exc))
    sys.exit(1)
assert np.allclose(back.flux.value, c.val[1].value, rtol=1e-12)
print("no violation")
