(* SED / cube file round trips on one (model, aperture) row: write (SED: sorted by frequency with the fluxes re-ordered alike;
   cube: as given), read with a requested spectral order (reverse the spectral axis of everything when it differs). *)
From Coq Require Import List Arith Lia Permutation Bool ZArith.
Import ListNotations.
From SedV Require Import Argsort SortRows SedIO.

Section IO.
Variable V : Type. Variable dV : V.
Notation K := Z.   (* wavelength as an order-preserving integer key *)

(* the reversal decision of SED.read / BaseCube.read: the file holds wavelengths `wav`; order = wav asks for increasing
   wavelength, order = nu for increasing frequency = decreasing wavelength *)
Definition first_last_gt (wav : list K) : bool := (last wav 0 <? hd 0 wav)%Z.      (* wav[0] > wav[-1] *)
Definition need_reverse (want_wav : bool) (wav : list K) : bool :=
  if want_wav then first_last_gt wav else first_last_gt (map Z.opp wav).          (* nu[0] > nu[-1]  <->  wav[0] < wav[-1] *)

Definition sed_roundtrip (want_wav : bool) (wav : list K) (flux : list V) : list K * list V :=
  let f := write_fixed V dV wav flux in read V (need_reverse want_wav (fst f)) f.
Definition cube_roundtrip (want_wav : bool) (wav : list K) (row : list V) : list K * list V :=
  read V (need_reverse want_wav wav) (wav, row).

(* every (wavelength, value) cell survives, whatever order the SED was supplied in and whichever order is requested *)
Theorem sed_cells want_wav wav flux : length wav = length flux ->
  Permutation (cells V (sed_roundtrip want_wav wav flux)) (combine wav flux).
Proof. intros H. unfold sed_roundtrip. apply C12_sed_cells. exact H. Qed.

Theorem cube_cells want_wav wav row : length wav = length row ->
  Permutation (cells V (cube_roundtrip want_wav wav row)) (combine wav row).
Proof.
  intros H. unfold cube_roundtrip, cells, read. destruct (need_reverse want_wav wav); simpl fst; simpl snd; [|reflexivity].
  rewrite rev_combine by exact H. symmetry. apply Permutation_rev.
Qed.

(* requesting the other order only reverses the spectral axis, of wavelengths and values together *)
Theorem other_order_reverses (f : list K * list V) : read V true f = (rev (fst f), rev (snd f)) /\ read V false f = f.
Proof. split; reflexivity. Qed.

(* SEDCube.get_sed: the first slice whose name matches *)
Fixpoint get_sed_m {S : Type} (names : list K) (slices : list S) (name : K) : option S :=
  match names, slices with
  | n :: ns, s :: ss => if Z.eqb n name then Some s else get_sed_m ns ss name
  | _, _ => None
  end.

Theorem get_sed_spec {S : Type} (names : list K) (slices : list S) i d : NoDup names -> length names = length slices ->
  i < length names -> get_sed_m names slices (nth i names 0%Z) = Some (nth i slices d).
Proof.
  revert slices i. induction names as [|n ns IH]; intros [|s ss] i N L Hi; simpl in *; try lia.
  inversion N as [|? ? Hn Nn]; subst. destruct i as [|i].
  - now rewrite Z.eqb_refl.
  - destruct (Z.eqb n (nth i ns 0%Z)) eqn:E.
    + apply Z.eqb_eq in E. exfalso. apply Hn. rewrite E. apply nth_In. lia.
    + apply IH; [exact Nn|lia|lia].
Qed.
End IO.

(* the SED file itself is stored by increasing frequency, i.e. decreasing wavelength *)
From SedV Require Import RankProofs.
From Coq Require Import Sorted.
Theorem sed_file_order (V : Type) (dV : V) (wav : list Z) (flux : list V) :
  StronglySorted (fun a b => Z.leb a b = true) (map Z.opp (fst (write_fixed V dV wav flux))).
Proof.
  unfold write_fixed. cbn [fst]. unfold order_of.
  assert (E : map Z.opp (gather Z 0%Z wav (argsort Z sortkey_leb 0%Z (map Z.opp wav))) =
              gather Z 0%Z (map Z.opp wav) (argsort Z sortkey_leb 0%Z (map Z.opp wav))).
  { unfold gather. rewrite map_map. apply map_ext_in. intros i Hi.
    eapply Permutation_in in Hi; [|apply argsort_perm]. apply in_seq in Hi. rewrite map_length in Hi.
    change 0%Z with (Z.opp 0%Z) at 2. symmetry. apply map_nth. }
  rewrite E. apply gather_sorted_gen.
  - intros a b. unfold sortkey_leb. destruct (Z.leb_spec a b); [now left|right; apply Z.leb_le; lia].
  - intros a b c. unfold sortkey_leb. rewrite !Z.leb_le. lia.
Qed.
