(* C20 — source lines are parsed by the documented column layout or rejected.
   Model: SrcAscii.from_ascii_m (Source.from_ascii statement by statement; int()/float() results are oracle
   fields of the tokens).  Proofs in SrcAscii.v / SrcAscii2.v. *)
From Coq Require Import List Arith ZArith QArith.
Import ListNotations.
Close Scope Q_scope.
From SedV Require Import SrcAscii SrcAscii2.

(* a line laid out as name x y, n flags, n (flux, error) pairs parses to exactly that record *)
Theorem C20_layout : forall name x y flags flux err,
  length flux = length flags -> length err = length flags -> forallb flag_ok flags = true ->
  from_ascii_m (layout name x y flags flux err) =
  Ok {| s_name := name; s_x := x; s_y := y; s_flags := flags; s_flux := flux; s_err := err |}.
Proof. exact SrcAscii2.C20_layout. Qed.

(* a column count that does not fit 3(n+1) is never accepted *)
Theorem C20_reject : forall cols s, from_ascii_m cols = Ok s -> exists n, length cols = 3 * (n + 1).
Proof. exact SrcAscii.C20_reject. Qed.

(* whatever is accepted has the documented shape: nothing is mis-assigned *)
Theorem C20_accept : forall cols s, from_ascii_m cols = Ok s ->
  let n := length (s_flags s) in
  length cols = 3 * (n + 1) /\
  forallb flag_ok (s_flags s) = true /\
  all_some t_int (slice cols 3 (3 + n)) = Some (s_flags s) /\
  (exists fe, all_some t_float (skipn (3 + n) cols) = Some fe /\ s_flux s = stride2 fe /\ s_err s = stride2_1 fe) /\
  length (s_flux s) = n /\ length (s_err s) = n /\
  s_name s = t_key (nth 0 cols (Build_token 0 None None)) /\
  t_float (nth 1 cols (Build_token 0 None None)) = Some (s_x s) /\
  t_float (nth 2 cols (Build_token 0 None None)) = Some (s_y s).
Proof. exact C20_accept_shape. Qed.

(* flags outside {0,1,2,3,4,9} or non-integers are rejected *)
Theorem C20_flags : forall cols s i, from_ascii_m cols = Ok s -> i < length (s_flags s) ->
  exists z, t_int (nth (3 + i) cols (Build_token 0 None None)) = Some z /\ flag_ok z = true.
Proof. exact C20_flags_lemma. Qed.

(* fewer than three columns ends the input *)
Theorem C20_eof : forall cols, length cols < 3 -> from_ascii_m cols = Err E_eof.
Proof. exact C20_eof_lemma. Qed.

(* non-vacuity: a two-band line *)
Example C20_example :
  from_ascii_m (layout 7 (1#2) (3#4) [1%Z; 9%Z] [5#1; -999#1]%Q [1#10; -999#1]%Q) =
  Ok {| s_name := 7; s_x := (1#2)%Q; s_y := (3#4)%Q; s_flags := [1%Z; 9%Z]; s_flux := [5#1; -999#1]%Q; s_err := [1#10; -999#1]%Q |}.
Proof. reflexivity. Qed.

(* ---- "to the printed precision": Source.to_ascii prints fluxes and errors with "%11.3e" and coordinates with "%9.5f".
   Model: Fmt.fmt_e / fmt_f (correctly rounded decimal of the exact value, ties to even; the decimal exponent is proposed by an
   oracle and validated).  Proofs: FmtProofs. *)
From Coq Require Import QArith Qabs ZArith.
From SedV Require Import Fmt FmtProofs.
Open Scope Q_scope.

(* what is printed always has p+1 significant digits ... *)
Theorem C20_print_digits : forall p e x me, fmt_e p e x = Some me -> (10 ^ Z.of_nat p <= fst me < 10 ^ (Z.of_nat p + 1))%Z.
Proof. exact fmt_e_digits. Qed.

(* ... and parsing it back gives the value within half a unit of the last printed digit: relative error <= 10^-p / 2 *)
Theorem C20_print_precision : forall p e x me, fmt_e p e x = Some me ->
  Qabs (val_e p me - Qabs x) <= (1 # 2) * pow10 (- Z.of_nat p) * Qabs x.
Proof. exact fmt_e_rel. Qed.

(* formatting, parsing and formatting again reproduces the text *)
Theorem C20_reprint : forall p e x me, fmt_e p e x = Some me -> fmt_e p (snd me) (val_e p me) = Some me.
Proof. exact fmt_e_reformat. Qed.

(* the printed text does not depend on the exponent oracle *)
Theorem C20_print_oracle_free : forall p e1 e2 x m1 m2, fmt_e p e1 x = Some m1 -> fmt_e p e2 x = Some m2 -> m1 = m2.
Proof. exact fmt_e_oracle_free. Qed.

(* coordinates, "%9.5f": absolute error <= 10^-p / 2 *)
Theorem C20_print_fixed : forall p x, Qabs (val_f p (fmt_f p x) - Qabs x) <= (1 # 2) * pow10 (- Z.of_nat p).
Proof. exact fmt_f_error. Qed.

Example C20_print_example :
  fmt_e 3 3 (2001 # 2) = Some (1000, 3)%Z /\ fmt_e 3 0 (99996 # 10000) = Some (1000, 1)%Z /\ fmt_f 5 (314159265 # 100000000) = 314159%Z.
Proof. vm_compute. repeat split; reflexivity. Qed.

(* ---- to_ascii followed by from_ascii (layout model + formatting model): the printed line parses back to the same name and
   flags, and every flux / error comes back within half a unit of its fourth significant digit, the coordinates within 5e-6,
   whatever exponents the oracle proposes.  Proof: FmtRound. *)
From SedV Require Import SrcAscii SrcAscii2 FmtRound.
Theorem C20_roundtrip : forall name x y flags flux err ef ee flux' err',
  length flux = length flags -> length err = length flags -> forallb flag_ok flags = true ->
  printed_list 3 ef flux = Some flux' -> printed_list 3 ee err = Some err' ->
  from_ascii_m (layout name (printed_f 5 x) (printed_f 5 y) flags flux' err') =
    Ok {| s_name := name; s_x := printed_f 5 x; s_y := printed_f 5 y; s_flags := flags; s_flux := flux'; s_err := err' |}
  /\ Forall2 (within 3) flux flux' /\ Forall2 (within 3) err err'
  /\ Qabs (printed_f 5 x - x) <= (1 # 2) * pow10 (-5) /\ Qabs (printed_f 5 y - y) <= (1 # 2) * pow10 (-5).
Proof. exact ascii_roundtrip. Qed.
