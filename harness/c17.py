"""C17 — plot(): number, order and values of the drawn model curves against PlotM and the stored predictions."""
import math
import os
import tempfile
from fractions import Fraction

from common import Rng, F, close
import pkgcase
import fitcase

PROP = 'C17'
MODEL_OPS = 'PlotM.curve_list (count, draw order), PlotM.curve_val (distance scaling and reddening of the interpolated SED flux)'
RULE = ('cube packages (stored in mJy, Jy, erg cm-2 s-1 or erg s-1) with 3-8 wavelengths, 2-6 models, single- and multi-aperture, fitted with Fitter at 2-4 of the tabulated wavelengths listed in any order (apertures with repeats), '
        '1-5 fits selected, display mode in {interp, largest, largest+smallest, all}, results passed as object(s) or as file, 1-3 sources per plot() call, memmap on/off; plot(output_dir=None) and the '
        'segments of the returned LineCollection compared with the stored predictions and with the model. non-trivial = multi-aperture package with >= 2 selected fits.')
EXHAUSTIVE = {'quick': False, 'thorough': False}
ASSUMPTIONS = ['"within the rounding of the physical constants used": relative tolerance 1e-3 between a curve and the stored prediction (c = 3e8 vs 299792458, KPC = 3.086e21 vs 3.0857e21 cm)',
               'matplotlib itself, colours, axes, labels and file output are not examined']

MODES = ['interp', 'largest', 'largest+smallest', 'all']
KPC_CODE = 3.086e21
C_LIGHT = 299792458.0


def generate(tier, seed):
    rng = Rng(seed * 573259391 + 17)
    cases = []
    for k in range(120 if tier == 'quick' else 1200):
        nap = 1 if k % 3 == 0 else rng.randint(2, 4)
        many = (k % 20 == 7)                 # a fit in 12 filters that all have their own aperture
        nw = rng.randint(12, 14) if many else rng.randint(3, 8)
        pkg = pkgcase.gen_package(rng, nm=rng.randint(2, 6), nap=nap, nw=nw, nfilt=1)
        wav = sorted(set(rng.dyadic(0.5, 60.0, 8) for _ in range(nw * 3)))[:nw]
        pkg['wav'] = wav
        pkg['nu'] = pkg['nu'][:len(wav)]
        pkg['flux_unit'] = ['mJy', 'Jy', 'mJy', 'erg / (cm2 s)', 'erg / s'][k % 5]        # the unit the cube is stored in
        pkg['wav_unit'] = ['micron', 'micron', 'Angstrom', 'micron', 'm', 'cm', 'micron'][k % 7]   # ... and the unit of its spectral axis
        for n in pkg['names']:
            sd = pkg['seds'][n]
            base = [rng.logdyadic(0.01, 100.0, 10) for _ in wav]
            rows, acc = [], [b * rng.dyadic(0.2, 1.0, 6) for b in base]
            for a in range(1 if pkg['aps'] is None else len(pkg['aps'])):
                rows.append(list(acc))
                acc = [x + b * rng.dyadic(0.05, 1.0, 6) for x, b in zip(acc, base)]
            sd['flux'] = rows
            sd['err'] = [[x * 0.1 for x in r] for r in rows]
        nb = 12 if many and len(wav) >= 12 else rng.randint(2, min(4, len(wav)))
        fidx = rng.sample(range(len(wav)), nb)      # the filter list follows the data file's columns: any order
        if rng.random() < 0.4:
            fidx.sort()
        thetas = [rng.choice([1.5, 2.0, 3.5, 5.0, 8.0]) for _ in fidx]
        if nb == 12:
            thetas = [1.5 + 0.25 * i for i in range(12)]
            rng.shuffle(thetas)
        c = dict(pkg=pkg, fidx=fidx, theta=thetas, mode=('all' if nb == 12 else rng.choice(MODES)), nsel=rng.randint(1, 5), form=rng.choice(['object', 'file']), memmap=rng.random() < 0.5,
                 src=fitcase.gen_source(rng, nb, flags=[1] * nb), ext=fitcase.gen_ext(rng, [wav[i] for i in fidx]), av_range=[0.0, 20.0])
        # further sources plotted in the same plot() call (their best models overlap with the first source's)
        c['more'] = [rng.choice([0.25, 0.5, 2.0, 3.0]) for _ in range(rng.choice([0, 1, 2]))]
        c['ext']['wav'][0], c['ext']['wav'][-1] = min(c['ext']['wav'][0], 0.05), max(c['ext']['wav'][-1], 200.0)
        if pkg['aps'] is not None:
            amin, amax = pkg['aps'][0], pkg['aps'][-1]
            dmin = amin / (min(thetas) * 1000.0) * rng.dyadic(1.05, 1.5, 6)
            dmax = max(dmin * 1.5, amax / (max(thetas) * 1000.0) * rng.choice([0.5, 2.0]))
            c['drange'] = [dmin, dmax]
        c['law_reused'] = (len(cases) % 3 == 1) and c['form'] != 'file'
        cases.append(c)
    return cases


def impl(case):
    import numpy as np
    import matplotlib
    matplotlib.use('Agg')
    from astropy import units as u
    from sedfitter.fit import Fitter
    from sedfitter.fit_info import FitInfoFile
    from sedfitter import plot
    pkg = case['pkg']
    with tempfile.TemporaryDirectory() as d:
        pkgcase.write_v2(d, pkg, logd_step=0.05)
        names = [pkg['wav'][i] * u.micron for i in case['fidx']]
        dr = np.array(case.get('drange', [1.0, 2.0])) * u.kpc
        ext = fitcase.make_extinction(case['ext'])
        fitter = Fitter(names, np.array(case['theta']) * u.arcsec, d, extinction_law=ext, av_range=tuple(case['av_range']), distance_range=dr, use_memmap=False)
        srcs = [dict(case['src'], name='src')] + [dict(case['src'], name='src_more%d' % i, flux=[x * c for x in case['src']['flux']], err=[x * c for x in case['src']['err']])
                                                  for i, c in enumerate(case.get('more', []))]
        infos = [fitter.fit(fitcase.make_source(sd)) for sd in srcs]
        info = infos[0]
        rec = fitcase.info_out(info)
        arg = info if len(infos) == 1 else infos
        if case['form'] == 'file':
            arg = os.path.join(d, 'fits.fitinfo')
            f = FitInfoFile(arg, 'w')
            for i in infos:
                f.write(i)
            f.close()
        law_at = [float(x) for x in np.asarray(ext.get_av(np.array(pkg['wav']) * u.micron))]
        if case.get('law_reused'):
            # the caller goes on to use its Extinction object for another law (public setter) after the fits were made: the fits were made
            # with the law as it was, and that is the law their curves have to be reddened with
            ext.chi = ext.chi * (1.0 + ext.wav.to(u.micron).value) ** 2
        try:
            figs = plot(arg, output_dir=None, select_format=('N', case['nsel']), sed_type=case['mode'], memmap=case['memmap'])
        except Exception as e:
            return dict(rec=rec, segs=[], law=law_at, plot_exc=('%s: %s' % (type(e).__name__, e))[:200])
        def segs_of(fig):
            return [[[float(x), float(y)] for x, y in s] for s in fig['lines'].get_segments()] if 'lines' in fig else []
        segs = segs_of(figs['src'])
        more = [dict(rec=fitcase.info_out(i), segs=segs_of(figs[sd['name']])) for sd, i in zip(srcs[1:], infos[1:])]
    return dict(rec=rec, segs=segs, law=law_at, more=more)


MODEL_NEEDS_IMPL = True


def _interp(aps, col, r):
    if aps is None:
        return col[0]
    r = min(r, aps[-1])
    for i in range(len(aps) - 1):
        if aps[i] <= r <= aps[i + 1]:
            return col[i] + (r - aps[i]) * (col[i + 1] - col[i]) / (aps[i + 1] - aps[i])
    return None


def _curves_per_fit(case):
    ua = sorted(set(case['theta']))
    return {'interp': 1, 'largest': 1, 'largest+smallest': 2, 'all': len(ua)}[case['mode']], ua


def model_requests(case, im):
    if not isinstance(im, dict) or 'rec' not in im:
        return []
    ncur, ua = _curves_per_fit(case)
    nsel = min(case['nsel'], len(im['rec']['chi2']))
    reqs = [('curve_list', [case['mode'], len(ua), nsel])]
    # one value per selected fit: the curve through the first fitted wavelength
    pkg = case['pkg']
    j0 = case['fidx'][0]
    kpc_cm = 3.0856775814913674e21
    for i in range(nsel):
        name = im['rec']['model_name'][i]
        sc, av = im['rec']['sc'][i], im['rec']['av'][i]
        col = [row[len(pkg['wav']) - 1 - j0] for row in pkg['seds'][name]['flux']]         # flux rows run along increasing frequency
        f_mjy = _interp(pkg['aps'], col, case['theta'][0] * 10.0 ** sc * 1000.0)
        if f_mjy is None:
            reqs.append(('curve_val', [F(0.0), F(1.0), F(1.0), F(1.0), F(0.0), F(0.0)]))
            continue
        nu = C_LIGHT / (pkg['wav'][j0] * 1e-6)
        f_mjy = float(pkgcase.to_mjy(pkg, f_mjy, nu))          # the cube may be stored in another unit
        f = f_mjy * 1e-26 * nu
        reqs.append(('curve_val', [F(f), F(kpc_cm), F(10.0 ** sc), F(KPC_CODE), F(av), F(im['law'][j0])]))
    return reqs


def judge(case, im, mo):
    pkg = case['pkg']
    tags = ['unit=' + pkg.get('flux_unit', 'mJy'), 'sources=%d' % (1 + len(case.get('more', []))), 'filters-sorted=%s' % (case['fidx'] == sorted(case['fidx'])), 'mode=' + case['mode'], 'nap=%s' % (1 if pkg['aps'] is None else len(pkg['aps'])), 'form=' + case['form'], 'nsel=%d' % case['nsel']]
    if 'exc' in im:
        if im['exc'] == 'too_small':
            return dict(disagree=[], fail=[], nontrivial=False, tags=tags + ['refused'])
        return dict(disagree=['implementation raised ' + im['msg']], fail=['raised: plot raised %s' % im['msg']], nontrivial=False, tags=tags + ['raised'])
    if any(isinstance(m, tuple) for m in mo):
        return dict(disagree=['driver %r' % ([m for m in mo if isinstance(m, tuple)][:1],)], fail=[], nontrivial=False)
    disagree, fail = [], []
    rec, segs = im['rec'], im['segs']
    if 'plot_exc' in im:
        nsel0 = min(case['nsel'], len(rec['chi2']))
        smallest = min(min(case['theta']) * 10.0 ** rec['sc'][i] * 1000.0 for i in range(nsel0)) if nsel0 else None
        if 'too small' in im['plot_exc'] and pkg['aps'] is not None and smallest is not None and smallest < pkg['aps'][0] * (1 - 1e-10):
            return dict(disagree=[], fail=[], nontrivial=False, tags=tags + ['aperture-below-table'])       # genuinely below the table: a legitimate refusal
        return dict(disagree=['plot raised ' + im['plot_exc']], fail=['raised: plot raised %s although the fit itself was made at these apertures' % im['plot_exc']],
                    nontrivial=False, tags=tags + ['raised'])
    ncur, ua = _curves_per_fit(case)
    nsel = min(case['nsel'], len(rec['chi2']))
    clist = mo[0]
    if len(segs) != len(clist):
        disagree.append('%d curves drawn, model %d' % (len(segs), len(clist)))
    wav = pkg['wav']
    thetas = case['theta']
    if case['mode'] == 'interp':
        groups = [list(range(len(thetas)))]
    elif case['mode'] == 'largest':
        groups = [[j for j, t in enumerate(thetas) if t == max(thetas)]]
    elif case['mode'] == 'largest+smallest':
        groups = [[j for j, t in enumerate(thetas) if t == min(thetas)], [j for j, t in enumerate(thetas) if t == max(thetas)]]
    else:
        groups = [[j for j, t in enumerate(thetas) if t == a] for a in ua]

    def clauses(rec, segs, label):
        """count and 'passes through the stored prediction' for one plotted source"""
        out = []
        if any(abs(x) > 20 for x in rec['sc'][:nsel]):
            tags.append('extreme-scale-skipped')       # a nearly singular regression gave |scale| > 20 dex: 10**(2 scale) leaves the float range, nothing is drawn
            return out
        if len(segs) != nsel * ncur:
            return ['count: %s%d curves drawn for %d selected fits in mode %s (%d per fit)' % (label, len(segs), nsel, case['mode'], ncur)]
        for pos, (fi, cj) in enumerate(clist):
            seg = segs[pos]
            xs = [p[0] for p in seg]
            for j in groups[cj]:
                lam = wav[case['fidx'][j]]
                k = min(range(len(xs)), key=lambda t: abs(xs[t] - lam))
                if abs(xs[k] - lam) > 1e-9 * lam:
                    out.append('wav: %scurve %d has no point at the fitted wavelength %r' % (label, pos, lam))
                    break
                pred = rec['model_fluxes'][fi][j]
                want = 10.0 ** (pred - 26.0 + math.log10(C_LIGHT / (lam * 1e-6)))
                if abs(seg[k][1] - want) > 1e-3 * want:
                    out.append('through: %scurve %d (fit %d, %s) is %r at %r micron; the prediction stored with fit %d gives %r'
                               % (label, pos, fi + 1, case['mode'], seg[k][1], lam, fi + 1, want))
                    break
        return out
    if len(clist) != nsel * ncur:
        disagree.append('model curve list has %d entries for %d fits x %d' % (len(clist), nsel, ncur))
        return dict(disagree=disagree, fail=fail, nontrivial=False, tags=tags)
    fail += clauses(rec, segs, '')
    if len(segs) != nsel * ncur:
        return dict(disagree=disagree, fail=fail, nontrivial=False, tags=tags)
    for i, mr in enumerate(im.get('more', [])):
        fail += clauses(mr['rec'], mr['segs'], 'source %d of the same plot() call: ' % (i + 2))
    # best fit drawn last
    if clist and clist[-1][0] != 0:
        disagree.append('model draws fit %d last' % clist[-1][0])
    # model curve value (first fitted wavelength, first curve of each fit where that filter belongs to it)
    j0 = case['fidx'][0]
    for i in range(nsel):
        mv = mo[1 + i]
        if float(mv) == 0.0 or 'extreme-scale-skipped' in tags:
            continue
        for pos, (fi, cj) in enumerate(clist):
            if fi == i and 0 in groups[cj]:
                seg = segs[pos]
                k = min(range(len(seg)), key=lambda t: abs(seg[t][0] - wav[j0]))
                if not close(seg[k][1], mv, 1e-6, 0):
                    disagree.append('curve value of fit %d at %r micron: implementation %r, model %r' % (i + 1, wav[j0], seg[k][1], float(mv)))
                break
    return dict(disagree=disagree[:3], fail=fail[:3], nontrivial=pkg['aps'] is not None and nsel >= 2, tags=tags)


def signature(case, im, mo, v):
    return None
