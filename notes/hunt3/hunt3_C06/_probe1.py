import numpy as np
from astropy import units as u
from sedfitter.filter import Filter
from fractions import Fraction

rng = np.random.default_rng(1)

def exact_R(fnu, fr, snu):
    # reference in float with careful piecewise integration
    fn = np.array(fnu, float); r = np.array(fr, float)
    if fn[0] > fn[-1]:
        fn = fn[::-1]; r = r[::-1]
    s = np.array(snu, float)
    n = len(s)
    R = np.zeros(n)
    def F(a, b):
        # integral of piecewise linear from a to b (a<=b) within [fn0, fn-1]
        if b <= a: return 0.
        pts = [a] + [x for x in fn if a < x < b] + [b]
        ys = np.interp(pts, fn, r)
        return float(np.sum(0.5*(np.diff(pts))*(ys[1:]+ys[:-1])))
    for i in range(n):
        lo = s[i] if i == 0 else 0.5*(s[i-1]+s[i])
        hi = s[i] if i == n-1 else 0.5*(s[i]+s[i+1])
        if lo > hi: lo, hi = hi, lo
        lo = min(max(lo, fn[0]), fn[-1]); hi = min(max(hi, fn[0]), fn[-1])
        R[i] = F(lo, hi)
    return R

worst = 0
for trial in range(20000):
    nf = rng.integers(2, 61); ns = rng.integers(2, 81)
    mode = rng.integers(0, 4)
    if mode == 0:
        fnu = np.sort(rng.uniform(1e13, 2e13, nf))
        snu = np.sort(rng.uniform(0.5e13, 2.5e13, ns))
    elif mode == 1:
        # integer grids to get coincidences
        fnu = np.sort(rng.choice(np.arange(10, 200), nf, replace=False)).astype(float)*1e11
        snu = np.sort(rng.choice(np.arange(0, 220), ns, replace=False)+1).astype(float)*1e11
    elif mode == 2:
        fnu = np.sort(rng.choice(np.arange(10, 200), nf, replace=False)).astype(float)*1e11
        lo = rng.integers(1, 150); 
        snu = np.sort(rng.choice(np.arange(lo, lo+100), ns, replace=False)).astype(float)*1e11
    else:
        fnu = np.sort(rng.uniform(1e13, 2e13, nf))
        snu = np.sort(rng.uniform(1.2e13, 1.3e13, ns))
    if len(np.unique(fnu)) < nf or len(np.unique(snu)) < ns: continue
    fr = rng.uniform(0, 1, nf)
    if rng.random() < 0.5: fr[0] = 0; fr[-1] = 0
    if rng.random() < 0.3: fr[rng.integers(0, nf)] = 0
    if rng.random() < 0.5: fnu = fnu[::-1]; fr = fr[::-1]
    if rng.random() < 0.5: snu = snu[::-1]
    f = Filter(name='x', central_wavelength=1*u.micron, nu=fnu*u.Hz, response=fr.copy())
    try:
        b = f.rebin(snu*u.Hz)
    except Exception as e:
        print("EXC", trial, mode, repr(e), fnu, snu); raise
    R = exact_R(fnu, fr, snu)
    err = np.max(np.abs(b.response - R)) / max(np.max(np.abs(R)), 1e-300)
    if err > 1e-9:
        print("MISMATCH", trial, mode, err, nf, ns); print(fnu, fr, snu, b.response, R); break
    worst = max(worst, err)
print("worst", worst)
