(* filter_output: one pass over the records, each written to exactly one of two writers. *)
From Coq Require Import QArith Lqa Lia List Bool Permutation ZArith.
Import ListNotations.
From SedV Require Import Xnum Misc.
Open Scope Q_scope.

Definition xlt (a b : xnum) : bool :=      (* IEEE < : false on NaN *)
  match a, b with
  | NaN, _ | _, NaN => false
  | PInf, _ => false | _, NInf => false
  | NInf, _ => true | _, PInf => true
  | Fin x, Fin y => negb (Qle_bool y x)
  end.

(* Python truthiness of an optional threshold: None and 0 are false *)
Definition thr_on (t : option Q) : bool := match t with Some c => negb (Qeq_bool c 0) | None => false end.
Definition thr_val (t : option Q) : Q := match t with Some c => c | None => 0 end.

Record frec := { fr_id : Z; fr_best : xnum; fr_nd : positive }.

(* (chi and bestchi < chi) or (cpd and bestcpd < cpd) *)
Definition good_m (chi cpd : option Q) (r : frec) : bool :=
  (thr_on chi && xlt (fr_best r) (Fin (thr_val chi))) ||
  (thr_on cpd && xlt (xdivn (fr_best r) (fr_nd r)) (Fin (thr_val cpd))).

Definition filter_output_m (chi cpd : option Q) (recs : list frec) : list frec * list frec :=
  pass frec (good_m chi cpd) recs [] [].

Theorem C18_partition_lemma chi cpd recs :
  let '(g, b) := filter_output_m chi cpd recs in
  g = filter (good_m chi cpd) recs /\ b = filter (fun r => negb (good_m chi cpd r)) recs /\ Permutation (g ++ b) recs.
Proof. exact (C18_partition frec (good_m chi cpd) recs). Qed.

(* every record lands in exactly one output *)
Theorem C18_exactly_one chi cpd recs r : In r recs ->
  let '(g, b) := filter_output_m chi cpd recs in
  (In r g /\ good_m chi cpd r = true) \/ (In r b /\ good_m chi cpd r = false).
Proof.
  intros Hin. pose proof (C18_partition_lemma chi cpd recs) as H.
  destruct (filter_output_m chi cpd recs) as [g b]. destruct H as (Hg & Hb & _). subst.
  destruct (good_m chi cpd r) eqn:E; [left|right]; split; try reflexivity; apply filter_In; split; auto.
  now rewrite E.
Qed.

(* the criterion, for finite best chi^2: below the chi= threshold, resp. chi^2 / n_data below cpd= *)
Theorem C18_criterion_chi c best nd id : ~ c == 0 ->
  good_m (Some c) None {| fr_id := id; fr_best := Fin best; fr_nd := nd |} = true <-> best < c.
Proof.
  intros Hc. unfold good_m, thr_on, thr_val. cbn [fr_best fr_nd xlt andb orb].
  destruct (Qeq_bool c 0) eqn:E; [apply Qeq_bool_iff in E; contradiction|]. cbn [negb andb orb].
  rewrite orb_false_r. split; intros H.
  - apply negb_true_iff in H. destruct (Qlt_le_dec best c) as [L|L]; [exact L|].
    apply Qle_bool_iff in L. rewrite L in H. discriminate.
  - apply negb_true_iff. destruct (Qle_bool c best) eqn:L; [|reflexivity]. apply Qle_bool_iff in L. lra.
Qed.

Theorem C18_criterion_cpd c best nd id : ~ c == 0 ->
  good_m None (Some c) {| fr_id := id; fr_best := Fin best; fr_nd := nd |} = true <-> best / (Zpos nd # 1) < c.
Proof.
  intros Hc. unfold good_m, thr_on, thr_val. cbn [fr_best fr_nd xlt xdivn andb orb].
  destruct (Qeq_bool c 0) eqn:E; [apply Qeq_bool_iff in E; contradiction|]. cbn [negb andb orb].
  split; intros H.
  - apply negb_true_iff in H. destruct (Qlt_le_dec (best / (Zpos nd # 1)) c) as [L|L]; [exact L|].
    apply Qle_bool_iff in L. rewrite L in H. discriminate.
  - apply negb_true_iff. destruct (Qle_bool c (best / (Zpos nd # 1))) eqn:L; [|reflexivity]. apply Qle_bool_iff in L. lra.
Qed.

(* a source without any stored fit has no best chi^2 (NaN here): it is in the bad file whatever the criterion (repair F60) *)
Theorem C18_no_fit_lemma chi cpd nd id : good_m chi cpd {| fr_id := id; fr_best := NaN; fr_nd := nd |} = false.
Proof. unfold good_m. simpl. destruct (thr_on chi), (thr_on cpd); reflexivity. Qed.
