"""
C01 (marginal): a Source whose fluxes are given as an astropy Quantity in mJy - the style the
documentation prescribes for every other physical input - is accepted by the Source.flux /
Source.error setters (a Quantity is an ndarray) but Fitter.fit() then refuses it with a
UnitTypeError from np.log10 inside Source.get_log_fluxes(), although the statement promises
a best fit for every source with positive finite fluxes and errors.
"""
import os, io, tempfile, contextlib
import numpy as np
from astropy import units as u
from sedfitter.convolved_fluxes import ConvolvedFluxes
from sedfitter.extinction import Extinction
from sedfitter.source import Source
from sedfitter.fit import Fitter

names = np.array(['m0', 'm1', 'm2'])
wavs = [0.55, 1.2, 3.6]
flux = np.array([[1., 2., 3.], [3., 2., 1.], [2., 5., 2.]])
d = tempfile.mkdtemp()
os.mkdir(d + '/convolved')
for j, w in enumerate(wavs):
    c = ConvolvedFluxes(wavelength=w * u.micron, model_names=names,
                        flux=flux[:, j:j + 1] * u.mJy, error=flux[:, j:j + 1] * 0 * u.mJy)
    c.write(d + '/convolved/f%d.fits' % j)
open(d + '/models.conf', 'w').write("name = test\nlength_subdir = 0\naperture_dependent = no\nlogd_step = 0.02\n")
ext = Extinction()
ext.wav = np.logspace(-2., 3., 50) * u.micron
ext.chi = ext.wav.value ** -1.5 * u.cm ** 2 / u.g
with contextlib.redirect_stdout(io.StringIO()):
    fitter = Fitter(['f0', 'f1', 'f2'], np.ones(3) * u.arcsec, d, extinction_law=ext, av_range=(0., 10.))

plain = Source(); plain.name = 'p'; plain.valid = [1, 1, 1]
plain.flux = np.array([1., 2., 3.]); plain.error = np.array([.1, .2, .3])
ref = fitter.fit(plain)

s = Source(); s.name = 'q'; s.valid = [1, 1, 1]
s.flux = np.array([1., 2., 3.]) * u.mJy      # accepted silently
s.error = np.array([.1, .2, .3]) * u.mJy     # accepted silently
try:
    info = fitter.fit(s)
except Exception as exc:
    raise AssertionError("C01 promises a fit for every source with positive finite fluxes/errors, but a Source "
                         "whose flux/error are Quantities in mJy (accepted by the setters) makes Fitter.fit() "
                         "fail with %s: %s" % (type(exc).__name__, exc))
assert np.allclose(np.asarray(info.av), np.asarray(ref.av)) and np.allclose(np.asarray(info.chi2), np.asarray(ref.chi2))
print("no violation")
