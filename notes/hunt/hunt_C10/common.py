import os, sys, tempfile, io, contextlib, pickle
import numpy as np
from astropy import units as u
from astropy.table import Table
import matplotlib
matplotlib.use('Agg')

def build(models_dir, version=1, apdep=False, n=5, seed=12345, names=None):
    np.random.seed(seed)
    from sedfitter.sed import SED, SEDCube
    if names is None:
        names = ['model_{0:04d}'.format(i) for i in range(n)]
    n = len(names)
    if version == 1:
        os.mkdir(os.path.join(models_dir, 'seds'))
        for i in range(n):
            sed = SED()
            sed.name = names[i]
            sed.distance = 1 * u.kpc
            sed.wav = np.logspace(-2., 3., 100) * u.micron
            sed.nu = sed.wav.to(u.Hz, equivalencies=u.spectral())
            if apdep:
                sed.apertures = np.logspace(1., 6., 10) * u.au
                sed.flux = np.cumsum(np.random.random((10, 100)), axis=0) * u.mJy
            else:
                sed.apertures = None
                sed.flux = (1 + np.random.random((1, 100))) * u.mJy
            sed.error = sed.flux * np.random.random(100) / 100.
            sed.write(os.path.join(models_dir, 'seds', sed.name + '_sed.fits'))
    else:
        cube = SEDCube()
        cube.names = np.array(names)
        cube.distance = 1 * u.kpc
        cube.wav = np.logspace(-2., 3., 100) * u.micron
        if apdep:
            cube.apertures = np.logspace(1., 6., 10) * u.au
            cube.val = np.cumsum(np.random.random((n, 10, 100)), axis=0) * u.mJy
        else:
            cube.apertures = None
            cube.val = (1 + np.random.random((n, 1, 100))) * u.mJy
        cube.unc = cube.val * 0.01 * np.random.random(cube.val.shape)
        cube.write(os.path.join(models_dir, 'flux.fits'))
    with open(os.path.join(models_dir, 'models.conf'), 'w') as f:
        f.write("name = test\nlength_subdir = 0\n")
        f.write("aperture_dependent = {0}\n".format('yes' if apdep else 'no'))
        f.write("logd_step = 0.02\n")
        if version == 2:
            f.write("version = 2\n")
    t = Table()
    t['MODEL_NAME'] = np.array(names, dtype='S30')
    t['par1'] = np.random.random(n)
    t['par2'] = np.random.random(n)
    t.write(os.path.join(models_dir, 'parameters.fits'))
    from sedfitter.filter import Filter
    fl = []
    for nm, lo, hi, c in [('alice', 1., 5., 3.), ('bob', 10., 15., 12.), ('eve', 15., 25., 20.)]:
        w = np.linspace(hi, lo, 100) * u.micron
        f1 = Filter()
        f1.name = nm
        f1.central_wavelength = c * u.micron
        f1.nu = w.to(u.Hz, equivalencies=u.spectral())
        f1.response = np.random.random(100)
        f1.normalize()
        fl.append(f1)
    from sedfitter.convolve import convolve_model_dir
    with contextlib.redirect_stdout(io.StringIO()):
        convolve_model_dir(models_dir, filters=fl)

def extlaw():
    from sedfitter.extinction import Extinction
    e = Extinction()
    e.wav = np.logspace(-2., 3.) * u.micron
    e.chi = e.wav.value ** -2 * u.cm ** 2 / u.g
    return e

def quiet(fn, *a, **k):
    with contextlib.redirect_stdout(io.StringIO()):
        return fn(*a, **k)

def arr_eq(a, b):
    if a is None or b is None:
        return a is None and b is None
    if type(a) is not type(b): return False
    if hasattr(a, "unit") and a.unit != b.unit: return False
    a = np.asarray(a); b = np.asarray(b)
    if a.shape != b.shape or a.dtype != b.dtype:
        return False
    if a.dtype.kind == 'f':
        return bool(np.all((a == b) | (np.isnan(a) & np.isnan(b))))
    return bool(np.all(a == b))

def src_eq(s, t):
    return (s.name == t.name and arr_eq(s.x, t.x) and arr_eq(s.y, t.y) and arr_eq(s.valid, t.valid)
            and arr_eq(s.flux, t.flux) and arr_eq(s.error, t.error))

def info_eq(a, b, why=None):
    for k in ['av', 'sc', 'chi2', 'model_id', 'model_name', 'model_fluxes']:
        if not arr_eq(getattr(a, k), getattr(b, k)):
            if why is not None: why.append(k)
            return False
    if not src_eq(a.source, b.source):
        if why is not None: why.append('source')
        return False
    return True

def read_all(fn):
    from sedfitter.fit_info import FitInfoFile
    f = FitInfoFile(fn, 'r')
    out = list(f)
    meta = f.meta
    f.close()
    return meta, out
