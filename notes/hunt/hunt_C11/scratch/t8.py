import itertools, os, tempfile, warnings
import numpy as np
from astropy import units as u
from sedfitter.sed import SED, SEDCube
tmp = tempfile.mkdtemp()
rng = np.random.default_rng(1)
units = [u.mJy, u.Jy, u.erg/u.cm**2/u.s, u.erg/u.s]
bad = []; k = 0
for wu, nuu, apu, dt, dist, setmode, fu in itertools.product([u.micron, u.AA, u.nm, u.mm, u.cm, u.m], [u.Hz, u.GHz, u.THz], [u.au, u.pc, u.cm, u.km], [np.float64, np.float32], [1*u.kpc, 140*u.pc, 3.3e21*u.cm], ['both','wav','nu'], units):
    n_wav = 5; n_ap = 3
    wav = np.sort(rng.uniform(0.1, 1000, n_wav))[::-1]
    s = SED(); s.name = 'x'; s.distance = dist
    W = (wav*u.micron).to(wu); N = W.to(nuu, equivalencies=u.spectral())
    if setmode in ('both','wav'): s.wav = W
    if setmode in ('both','nu'): s.nu = N
    s.apertures = (np.sort(rng.uniform(10,1000,n_ap))*u.au).to(apu)
    s.flux = rng.uniform(1,2,(n_ap,n_wav)).astype(dt)*fu
    s.error = rng.uniform(.1,.2,(n_ap,n_wav)).astype(dt)*fu
    k += 1; fn = os.path.join(tmp, 's%i.fits'%k)
    cfg = (str(wu), str(nuu), str(apu), dt.__name__, str(dist), setmode, str(fu))
    try:
        s.write(fn)
        for order in ['nu','wav']:
            r = SED.read(fn, unit_wav=wu, unit_freq=nuu, unit_flux=fu, order=order)
            w, n, f, e = W, N, s.flux, s.error
            if order == 'wav': w, n, f, e = w[::-1], n[::-1], f[:, ::-1], e[:, ::-1]
            tol = 1e-12 if dt is np.float64 else 1e-6
            ok = np.allclose(r.wav.value, w.value, rtol=1e-12) and np.allclose(r.nu.value, n.value, rtol=1e-12) and np.allclose(r.flux.value, f.value, rtol=tol) and np.allclose(r.error.value, e.value, rtol=tol) and np.allclose(r.apertures.to(apu).value, s.apertures.value, rtol=1e-12)
            if not ok: bad.append(('mismatch', cfg, order))
    except Exception as ex:
        bad.append(('exc', cfg, repr(ex)))
print(k, len(bad))
for b in bad[:30]: print(b)
