import numpy as np, pickle, itertools, random
from sedfitter.source import Source
random.seed(1)
bad=0
# column counts
for n in range(0,13):
    for c in range(0,3*n+7):
        flags=[random.choice([0,1,2,3,4,9]) for _ in range(n)]
        vals=[repr(random.uniform(-5,5)) for _ in range(2*n+10)]
        cols=(['nm','1.0','2.0']+[str(f) for f in flags]+vals)[:c]
        # make it exactly c columns: name x y flags... then values
        line=' '.join(cols)
        try:
            s=Source.from_ascii(line)
            res='ok n_wav=%s'%s.n_wav
        except EOFError:
            res='EOF'
        except Exception as e:
            res='ERR %s'%type(e).__name__
        exp = 'EOF' if c<3 else ('ok' if c%3==0 else 'ERR')
        if not res.startswith(exp) or (c==3*n+3 and res!='ok n_wav=%d'%n):
            print(n,c,res)
        elif c%3==0 and c>=3 and c!=3*n+3:
            print('accepted other layout',n,c,res)
