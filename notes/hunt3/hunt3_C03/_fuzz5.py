import sys, itertools
sys.path.insert(0, '/tmp/hunt3_C03/hunt_out')
from _common import *
from sedfitter.fit import Fitter
rng = np.random.default_rng(1)
nm, nf = 6, 4
names = ['m%03d' % i for i in range(nm)]
wavs = [0.5, 1.2, 3.6, 8.0]
fn = ['f%d' % i for i in range(nf)]
aps = np.logspace(1, 6, 8) * u.au
fl_ind = 10 ** rng.uniform(-1, 2, (nm, 1, nf))
fl_dep = np.cumsum(10 ** rng.uniform(-1, 1, (nm, 8, nf)), axis=1)
d1 = write_v1(names, fl_ind, wavs, fn)
d2 = write_v1(names, fl_dep, wavs, fn, apertures=aps)
ext = extinction()
F1 = quiet(Fitter, fn, [3.] * nf * u.arcsec, d1, extinction_law=ext, av_range=[0., 10.])
F2 = quiet(Fitter, fn, [3.] * nf * u.arcsec, d2, extinction_law=ext, av_range=[0., 10.], distance_range=[0.5, 3.] * u.kpc)
for flags in ([1, 2, 3, 0], [2, 3, 0, 9], [0, 0, 0, 0], [4, 9, 9, 2]):
    s = mksource(flags, [1., 2., 3., 4.], [0.1, 0.5, 0.5, 0.5])
    for F in (F1, F2):
        r = F.fit(s)
        print(flags, F is F1, r.av[:3], r.sc[:3], r.chi2[:3])
