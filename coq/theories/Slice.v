From Coq Require Import QArith Lqa Lia List Bool.
Import ListNotations.
Open Scope Q_scope.
From SedV Require Import PLin Xnum.

Definition ltv (v : Q) (p : pt) : bool := negb (Qle_bool v (fst p)).      (* fst p < v *)
Definition ss (l : list pt) (v : Q) : nat := count pt (ltv v) l.            (* np.searchsorted(x, v), x increasing *)
Definition slice {A} (l : list A) (i j : nat) : list A := firstn (j - i) (skipn i l).   (* l[i:j] *)

Lemma incr_sorted l : incr l -> sorted pt (fun p q => fst p <= fst q) l.
Proof.
  induction l as [|p r IH]; intros H; [exact I|]. split.
  - eapply Forall_impl; [|apply incr_forall; exact H]. simpl; intros; lra.
  - apply IH. destruct r; [exact I|]. now destruct H.
Qed.
Lemma ltv_anti v x y : fst x <= fst y -> ltv v y = true -> ltv v x = true.
Proof. unfold ltv. intros H. rewrite !negb_true_iff. intros E. apply nle_bool in E. apply nle_bool. lra. Qed.

Lemma firstn_ss l v : incr l -> firstn (ss l v) l = filter (ltv v) l.
Proof. intros H. apply (antitone_prefix pt (fun p q => fst p <= fst q) (ltv v) (ltv_anti v) l (incr_sorted l H)). Qed.

Lemma ss_zero r v : Forall (fun p => v <= fst p) r -> ss r v = 0%nat.
Proof. unfold ss. induction 1 as [|p r Hp _ IH]; simpl; [reflexivity|].
  unfold ltv at 1. assert (E : Qle_bool v (fst p) = true) by (now apply Qle_bool_iff). rewrite E. simpl. exact IH. Qed.

Lemma ss_cons p r v : ss (p :: r) v = ((if ltv v p then 1 else 0) + ss r v)%nat.
Proof. reflexivity. Qed.

(* the index range [searchsorted a, searchsorted b) selects exactly the nodes with a <= x < b *)
Theorem slice_is_mid l a b : incr l -> a <= b -> slice l (ss l a) (ss l b) = mid l a b.
Proof.
  induction l as [|p r IH]; intros Hi Hab; [reflexivity|].
  assert (Hr : incr r) by (destruct r; [exact I|now destruct Hi]).
  pose proof (incr_forall p r Hi) as F.
  rewrite !ss_cons. unfold mid. rewrite filter_cons. fold (mid r a b).
  destruct (ltv a p) eqn:Ea.
  - (* p < a <= b *)
    assert (Eb : ltv b p = true).
    { unfold ltv in *. rewrite negb_true_iff in *. apply nle_bool in Ea. apply nle_bool. lra. }
    rewrite Eb. unfold inab. unfold ltv in Ea. rewrite negb_true_iff in Ea. rewrite Ea. simpl.
    unfold slice. simpl. apply (IH Hr Hab).
  - unfold ltv in Ea. rewrite negb_false_iff in Ea. pose proof Ea as Ea'. apply Qle_bool_iff in Ea'.
    assert (Fa : Forall (fun q => a <= fst q) r) by (eapply Forall_impl; [|exact F]; simpl; intros; lra).
    rewrite (ss_zero r a Fa). unfold inab. rewrite Ea. simpl andb.
    destruct (ltv b p) eqn:Eb.
    + unfold ltv in Eb. rewrite Eb. unfold slice. simpl.
      f_equal. rewrite Nat.sub_0_r || idtac.
      rewrite (mid_all_right r a b Fa). rewrite (firstn_ss r b Hr). reflexivity.
    + unfold ltv in Eb. rewrite Eb. rewrite negb_false_iff in Eb. apply Qle_bool_iff in Eb.
      assert (Fb : Forall (fun q => b <= fst q) r) by (eapply Forall_impl; [|exact F]; simpl; intros; lra).
      rewrite (ss_zero r b Fb). unfold slice. simpl. symmetry. apply (mid_none r a b Fb).
Qed.
Print Assumptions slice_is_mid.
