"""
C01 (borderline / low confidence): a package whose convolved fluxes are stored
in ergs/cm^2/s (nu*F_nu at the filter wavelength) is refused by the fitter.

ConvolvedFluxes explicitly accepts and writes fluxes of physical type
'power', 'flux' or 'spectral flux density' (the same three families that SED
files and cubes may be stored in, and that the fitter converts for cube slices
selected by wavelength).  But Models.read copies the convolved fluxes into an
array in mJy with a plain unit conversion, so a legal, strictly positive grid
stored in ergs/cm^2/s makes Fitter()/fit() raise UnitConversionError instead of
reporting the least-squares A_V/scale.  The very same fluxes stored in Jy or
W/m^2/Hz are fitted correctly (control below).

Clause: "for every source and every model of the grid, the reported A_V and
scale minimise ..." (a result is promised for any grid of strictly positive
model fluxes; here none is produced).
"""
import contextlib
import io
import os
import sys
import tempfile

import numpy as np
from astropy import units as u

from sedfitter.convolved_fluxes import ConvolvedFluxes
from sedfitter.extinction import Extinction
from sedfitter.fit import Fitter
from sedfitter.source import Source


def quiet(func, *args, **kwargs):
    with contextlib.redirect_stdout(io.StringIO()):
        return func(*args, **kwargs)


wavs = np.array([1.25, 4.5, 24.]) * u.micron
nu = wavs.to(u.Hz, equivalencies=u.spectral())
flux_mJy = np.array([[1.3, 2.9, 4.1],
                     [12.0, 7.0, 3.0]]) * u.mJy            # 2 models x 3 bands, strictly positive

ext = Extinction()
ext.wav = np.logspace(-1, 2, 40) * u.micron
ext.chi = 200. * ext.wav.value ** -1.7 * u.cm ** 2 / u.g

src = Source()
src.name = 'src'
src.valid = [1, 1, 1]
src.flux = [0.8, 2.1, 3.3]
src.error = [0.04, 0.1, 0.2]


def build(unit):
    tmp = tempfile.mkdtemp()
    os.mkdir(os.path.join(tmp, 'convolved'))
    for i in range(3):
        c = ConvolvedFluxes()
        c.model_names = np.array(['m1', 'm2'])
        c.central_wavelength = wavs[i]
        if unit.is_equivalent(u.mJy):
            f = flux_mJy[:, i:i + 1].to(unit)
        else:
            f = (flux_mJy[:, i:i + 1] * nu[i]).to(unit)        # nu * F_nu
        c.flux = f                                              # accepted by the validator
        c.error = f * 0.
        c.write(os.path.join(tmp, 'convolved', 'B%d.fits' % i))  # written with its unit
    with open(os.path.join(tmp, 'models.conf'), 'w') as fh:
        fh.write("name = test\nlength_subdir = 0\naperture_dependent = no\nlogd_step = 0.02\n")
    return tmp


def run(unit):
    fitter = quiet(Fitter, ['B0', 'B1', 'B2'], np.ones(3) * u.arcsec, build(unit),
                   extinction_law=ext, av_range=[0., 10.], distance_range=[1., 2.] * u.kpc)
    info = fitter.fit(src)
    order = np.argsort(info.model_name)
    return np.array([np.asarray(info.av)[order], np.asarray(info.sc)[order], np.asarray(info.chi2)[order]])


control = run(u.Jy)
control2 = run(u.W / u.m ** 2 / u.Hz)
assert np.allclose(control, control2, rtol=1e-10, atol=1e-12)
print("stored in Jy / W m-2 Hz-1: (A_V, scale, chi2) per model =\n", control)

try:
    got = run(u.erg / u.cm ** 2 / u.s)
except Exception as exc:
    print()
    print("C01 VIOLATED (borderline): the same grid stored in ergs/cm^2/s (accepted and written by "
          "ConvolvedFluxes) is refused: %s: %s" % (type(exc).__name__, exc))
    sys.exit("C01 violated: no A_V/scale/chi2 reported for a legal package whose convolved fluxes are stored "
             "in ergs/cm^2/s (UnitConversionError in Models.read)")

assert np.allclose(got, control, rtol=1e-9, atol=1e-12), \
    "C01 violated: ergs/cm^2/s package gives different results: %r vs %r" % (got, control)
print("C01 holds on this input")
