import numpy as np, tempfile, os, gzip
from astropy import units as u
from sedfitter.extinction import Extinction
d = tempfile.mkdtemp()
w = np.array([0.1, 0.3, 0.55, 1.0, 2.2, 10.])
c = np.array([900., 400., 210., 80., 20., 3.])
extra = np.arange(6) * 1.5
def ref(q): return -0.4 * np.interp(q, w, c, left=0, right=0) / 210.
q = np.array([0.05, 0.1, 0.2, 0.55, 5., 10., 11.])
def chk(tag, e, scale=1):
    g = e.get_av(q * u.micron)
    print(tag, np.allclose(g, ref(q), rtol=1e-12, atol=0), np.asarray(g))
fn = d + '/a.txt'
np.savetxt(fn, np.c_[w, c]); chk('plain', Extinction.from_file(fn))
np.savetxt(fn, np.c_[c, w]); chk('swapped (1,0)', Extinction.from_file(fn, columns=(1, 0)))
np.savetxt(fn, np.c_[extra, c, extra, w]); chk('(3,1)', Extinction.from_file(fn, columns=(3, 1)))
chk('[-1,1]', Extinction.from_file(fn, columns=[-1, 1]))
chk('np ints', Extinction.from_file(fn, columns=np.array([3, 1])))
np.savetxt(fn, np.c_[extra, w, extra, c]); chk('(1,3)', Extinction.from_file(fn, columns=(1, 3)))
np.savetxt(fn, np.c_[w * 1e4, c * 0.1]); chk('AA, m2/kg', Extinction.from_file(fn, wav_unit=u.AA, chi_unit=u.m**2/u.kg))
np.savetxt(fn, np.c_[w * 1e-4, c]); chk('cm', Extinction.from_file(fn, wav_unit=u.cm))
np.savetxt(fn, np.c_[w, c], header='wav chi\n more'); chk('header', Extinction.from_file(fn))
np.savetxt(fn + '.gz', np.c_[w, c]); chk('gz', Extinction.from_file(fn + '.gz'))
np.savetxt(fn, np.c_[w, c], fmt='%d' if False else '%.6e', delimiter='\t'); chk('tab', Extinction.from_file(fn))
open(fn, 'w').write(''.join('%g %g   # c\n' % (a, b) for a, b in zip(w, c))); chk('trailing comments', Extinction.from_file(fn))
open(fn, 'w').write(''.join('%g %g\n' % (a, b) for a, b in zip(w[:2].tolist() + [0.55], c[:3]))); 
e = Extinction.from_file(fn); print('3 rows', e.get_av([0.55, 0.56, 0.3] * u.micron))
open(fn, 'w').write('0.1 5\n1 2\n'); e = Extinction.from_file(fn); print('2 rows', e.get_av([0.55, 0.1, 1, 1.01] * u.micron), -0.4 * np.array([1, 5/3.5, 2/3.5, 0]))
# ints in file
open(fn, 'w').write('0 5\n1 2\n3 1\n'); e = Extinction.from_file(fn); print('ints', e.get_av([0.55, 0, 3] * u.micron))
from pathlib import Path
np.savetxt(fn, np.c_[w, c]); chk('Path', Extinction.from_file(Path(fn)))
chk('open file', Extinction.from_file(open(fn)))
chk('unit strings', Extinction.from_file(fn, wav_unit='micron', chi_unit='cm2/g'))
