from common import *
from t6 import make_cube_dir
rng = np.random.RandomState(5)
nm = 4
wav = np.logspace(-1, 2, 30)
val = 10 ** rng.uniform(-1, 1, (nm, 1, 30))
val[0, 0, :8] = 1e-50    # deeply embedded model: essentially no short-wavelength flux (but > 0)
names = ['model_%d' % i for i in range(nm)]
d = make_cube_dir(names, val, wav)
filt = [wav[5] * u.micron, wav[10] * u.micron, wav[15] * u.micron, wav[20] * u.micron]
for mm in (True, False):
    F = quiet(Fitter, filt, [3.]*4*u.arcsec, d, extinction_law=ext(), av_range=[0., 4.], distance_range=[1., 1.2]*u.kpc, use_memmap=mm)
    for v0 in (0, 3):
        s = src([v0, 1, 1, 1], [1., 2., 3., 4.], [.5, .1, .1, .1])
        info = F.fit(s)
        print(mm, v0, info.chi2, info.av, info.model_id)
