(* C14 — the extinction law is normalised at V, unit-free and zero outside its table.
   Model: FitModel.get_av_m (Extinction.get_av: -0.4 * np.interp(lambda, wav, chi, left=0, right=0) / np.interp(V, wav, chi),
   np.interp = exact piecewise-linear PLin.fval on an increasing table).  Proofs: Interp, ExtProofs.
   Pickling, table conversion and the text reader are run-time facts exercised by the correspondence runs. *)
From Coq Require Import QArith List.
Import ListNotations.
From SedV Require Import PLin Interp FitModel ExtProofs.
Open Scope Q_scope.

Theorem C14_at_V : forall tab v, tab_lo tab <= v -> v <= tab_hi tab -> ~ fval tab v == 0 -> get_av_m tab v v == -(4#10).
Proof. exact get_av_at_V. Qed.

Theorem C14_outside : forall tab v t, t < tab_lo tab \/ tab_hi tab < t -> get_av_m tab v t == 0.
Proof. exact get_av_outside. Qed.

Theorem C14_inside : forall tab v t, tab_lo tab <= t -> t <= tab_hi tab ->
  get_av_m tab v t == -(4#10) * fval tab t / fval tab v.
Proof. exact get_av_inside. Qed.

(* chi is the linear interpolant: exact at the nodes, the two-point formula between neighbours *)
Theorem C14_chi_knot : forall l, incr l -> forall p, In p l -> fval l (fst p) == snd p.
Proof. exact fval_knot. Qed.
Theorem C14_chi_between : forall pre p0 p1 post t, incr (pre ++ p0 :: p1 :: post) -> fst p0 < t -> t <= fst p1 ->
  fval (pre ++ p0 :: p1 :: post) t = lin p0 p1 t.
Proof. exact fval_between. Qed.

(* multiplying chi by a constant (e.g. another opacity unit) changes nothing *)
Theorem C14_chi_scale : forall c tab v t, ~ c == 0 -> ~ fval tab v == 0 -> get_av_m (scaley c tab) v t == get_av_m tab v t.
Proof. exact get_av_chi_scale. Qed.

(* expressing wavelengths (table, V, query) in another unit changes nothing *)
Theorem C14_wav_units : forall k tab v t, 0 < k -> incr tab -> get_av_m (scalex k tab) (k * v) (k * t) == get_av_m tab v t.
Proof. exact get_av_wav_units. Qed.

Example C14_example : get_av_m [(1#10, 8); (1, 2); (10, 1#2)]%Q (55#100) (55#100) == -(4#10) /\ get_av_m [(1#10, 8); (1, 2); (10, 1#2)]%Q (55#100) 20 == 0.
Proof. split; vm_compute; reflexivity. Qed.

(* --- the function as computed since F25 (ExtSnap): converted wavelengths within a RELATIVE distance tol of the first or last
   tabulated one are moved onto it.  Away from the ends nothing changes (so the statements above apply); within the radius the
   end's value is returned; the pattern at V is exactly -0.4 whenever the moved V is covered; nothing is moved by more than
   tol (|lo| + |hi|), whatever the unit of the table. *)
From SedV Require Import ExtSnap.
Theorem C14_snap_far : forall tol tab v t,
  ~ near tol (tab_lo tab) t -> ~ near tol (tab_hi tab) t -> ~ near tol (tab_lo tab) v -> ~ near tol (tab_hi tab) v ->
  get_av_snap_m tol tab v t = get_av_m tab v t.
Proof. exact get_av_snap_far. Qed.
Theorem C14_snap_lo : forall tol tab v t, near tol (tab_lo tab) t -> ~ near tol (tab_hi tab) (tab_lo tab) ->
  tab_lo tab <= tab_hi tab ->
  get_av_snap_m tol tab v t == -(4#10) * fval tab (tab_lo tab) / fval tab (on_table tol tab v).
Proof. exact get_av_snap_lo. Qed.
Theorem C14_snap_hi : forall tol tab v t, ~ near tol (tab_lo tab) t -> near tol (tab_hi tab) t -> tab_lo tab <= tab_hi tab ->
  get_av_snap_m tol tab v t == -(4#10) * fval tab (tab_hi tab) / fval tab (on_table tol tab v).
Proof. exact get_av_snap_hi. Qed.
Theorem C14_snap_at_V : forall tol tab v,
  tab_lo tab <= on_table tol tab v -> on_table tol tab v <= tab_hi tab -> ~ fval tab (on_table tol tab v) == 0 ->
  get_av_snap_m tol tab v v == -(4#10).
Proof. exact get_av_snap_at_V. Qed.
Theorem C14_snap_radius : forall tol tab x, 0 <= tol ->
  Qabs.Qabs (on_table tol tab x - x) <= tol * Qabs.Qabs (tab_lo tab) + tol * Qabs.Qabs (tab_hi tab).
Proof. exact on_table_moves_little. Qed.
Example C14_snap_example :
  let tab := [(55#100, 4); (1, 2); (2, 1)] in
  on_table (1#100) tab (5501#10000) = 55#100 /\ get_av_snap_m (1#100) tab (5501#10000) (5499#10000) == -(4#10).
Proof. cbv zeta. split; reflexivity. Qed.
