import numpy as np
from astropy import units as u
from sedfitter.filter import Filter

def exact_integral(x, y, a, b):
    # x ascending; integrate piecewise-linear y over [a,b] within [x0,xn]
    if b <= a: return 0.
    pts = np.unique(np.concatenate([[a, b], x[(x > a) & (x < b)]]))
    vals = np.interp(pts, x, y)
    return np.sum(0.5 * (pts[1:] - pts[:-1]) * (vals[1:] + vals[:-1]))

def ref_rebin(fnu, fr, snu):
    if fnu[0] > fnu[-1]:
        fnu = fnu[::-1]; fr = fr[::-1]
    rev = snu[0] > snu[-1]
    s = snu[::-1] if rev else snu
    n = len(s)
    R = np.zeros(n)
    for i in range(n):
        lo = s[0] if i == 0 else 0.5 * (s[i-1] + s[i])
        hi = s[-1] if i == n-1 else 0.5 * (s[i] + s[i+1])
        lo = min(max(lo, fnu[0]), fnu[-1]); hi = min(max(hi, fnu[0]), fnu[-1])
        R[i] = exact_integral(fnu, fr, lo, hi)
    return R[::-1] if rev else R

