From Coq Require Import List Arith Lia Bool ZArith.
Import ListNotations.

(* C10: post-processing calls on in-memory results.  A result is just its list of fits here;
   keep s = firstn (nkeep s r) r for some count function nkeep (from RankM).  *)
Section History.
Variable fit : Type.
Variable sel : Type.
Variable nkeep : sel -> list fit -> nat.
Definition keep (s : sel) (r : list fit) : list fit := firstn (nkeep s r) r.

Definition results := list (list fit).     (* one entry per source *)

(* a post-processing call with selector s: iterates the results, filters each, and writes what is left *)
(* file form: every call re-reads the immutable file *)
Definition call_file (file : results) (s : sel) : results := map (keep s) file.
Definition run_file (file : results) (ops : list sel) : list results := map (call_file file) ops.

(* in-memory form, current code: the iterator yields the caller's own objects and keep() truncates them in place *)
Fixpoint run_alias (state : results) (ops : list sel) : list results * results :=
  match ops with
  | [] => ([], state)
  | s :: rest => let out := map (keep s) state in           (* the objects are now the filtered ones *)
                 let '(outs, final) := run_alias out rest in (out :: outs, final)
  end.
(* in-memory form, repaired: the iterator hands out copies *)
Fixpoint run_copy (state : results) (ops : list sel) : list results * results :=
  match ops with
  | [] => ([], state)
  | s :: rest => let out := map (keep s) state in
                 let '(outs, final) := run_copy state rest in (out :: outs, final)
  end.

Theorem C10_history state ops : run_copy state ops = (run_file state ops, state).
Proof. induction ops as [|s rest IH]; simpl; [reflexivity|]. now rewrite IH. Qed.
End History.

(* the current code is refuted: selectors N 1 then N 3 on one source with three fits *)
Definition nkeepN (n : nat) (r : list nat) : nat := Nat.min n (length r).
Example C10_history_refuted :
  fst (run_alias nat nat nkeepN [[10; 20; 30]] [1; 3]) <> run_file nat nat nkeepN [[10; 20; 30]] [1; 3]
  /\ snd (run_alias nat nat nkeepN [[10; 20; 30]] [1; 3]) <> [[10; 20; 30]].
Proof. split; vm_compute; discriminate. Qed.
Print Assumptions C10_history.
