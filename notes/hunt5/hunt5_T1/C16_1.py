"""
C16 (theme: single-precision storage) -- a monochromatic window whose lower
end lies ON a tabulated wavelength loses that wavelength when the SED files
store WAVELENGTH in single precision in a unit other than micron.

The SED files below tabulate 5000, 6000, 7000, 12000, 16000, 22000 Angstrom
in an 'E' column with unit 'Angstrom' (all exactly representable in float32).
convolve_model_dir_monochromatic reads them through SED.read, which converts
the column to micron IN float32: 6000 A becomes 0.59999996 micron.  The window
limit wav_min = 6000 * u.AA (a double, exactly the stored number, in the
file's own unit) converts to 0.6 micron; the tolerance that moves a limit back
onto a tabulated wavelength is 1e-14 for double-precision limits, so the
wavelength 6000 A is judged to lie below the window and MO00n.fits for it is
not written.  The same happens for 7000, 12000 and 16000 A.  With the column
stored in double precision ('D') every window is right.

Statement violated: "writes exactly one file per SED wavelength lying inside
the requested wavelength window ... every window [wav_min, wav_max] whose ends
fall between or on tabulated wavelengths".
"""
import glob
import os
import shutil
import tempfile
import warnings

import numpy as np

warnings.filterwarnings('ignore')

from astropy import units as u
from astropy.io import fits
from astropy.table import Table

from sedfitter.sed import SED
from sedfitter.convolve import convolve_model_dir_monochromatic
from sedfitter.convolved_fluxes import ConvolvedFluxes

WAVS = [5000., 6000., 7000., 12000., 16000., 22000.]   # Angstrom
NAMES = ['m1', 'm2']


def build(dtype):
    d = tempfile.mkdtemp()
    os.mkdir(os.path.join(d, 'seds'))
    rng = np.random.default_rng(0)
    wav = np.array(WAVS, dtype=dtype)
    fluxes = {}
    for name in NAMES:
        s = SED()
        s.name = name
        s.distance = 1. * u.kpc
        s.wav = wav * u.AA
        s.nu = (2.99792458e18 / wav.astype(float)).astype(dtype) * u.Hz
        s.apertures = None
        fl = (1. + rng.random((1, len(wav)))).astype(dtype)
        s.flux = fl * u.mJy
        s.error = (0.1 * fl).astype(dtype) * u.mJy
        s.write(os.path.join(d, 'seds', name + '_sed.fits'))
        fluxes[name] = fl[0].astype(float)
    with open(os.path.join(d, 'models.conf'), 'w') as fh:
        fh.write("name = t\nlength_subdir = 0\naperture_dependent = no\nlogd_step = 0.02\n")
    t = Table()
    t['MODEL_NAME'] = np.array(NAMES, dtype='S30')
    t['par'] = np.array([1., 2.], dtype=dtype)
    t.write(os.path.join(d, 'parameters.fits'))
    return d, fluxes


def emitted(d, **window):
    """Wavelengths (Angstrom, rounded) of the MO files written for a window"""
    shutil.rmtree(os.path.join(d, 'convolved'), ignore_errors=True)
    convolve_model_dir_monochromatic(d, **window)
    out = []
    for fn in sorted(glob.glob(os.path.join(d, 'convolved', 'MO*.fits'))):
        c = ConvolvedFluxes.read(fn)
        out.append(int(round(c.central_wavelength.to(u.AA).value)))
    return sorted(out)


problems = {}
for dtype in (np.float32, np.float64):
    d, fluxes = build(dtype)
    col = fits.open(os.path.join(d, 'seds', 'm1_sed.fits'))[1].columns['WAVELENGTH']
    stored = fits.open(os.path.join(d, 'seds', 'm1_sed.fits'))[1].data['WAVELENGTH']
    assert [float(x) for x in stored] == WAVS[::-1] or [float(x) for x in stored] == WAVS
    bad = []
    for lo in WAVS:
        got = emitted(d, wav_min=lo * u.AA)
        want = sorted(int(w) for w in WAVS if w >= lo)
        print("%s column (%s, %s): wav_min = %5d A -> files at %s" %
              (np.dtype(dtype).name, col.format, col.unit, lo, got))
        if got != want:
            bad.append((int(lo), got, want))
    problems[dtype] = bad
    shutil.rmtree(d)

assert not problems[np.float64], "double-precision control failed: %r" % (problems[np.float64],)
assert not problems[np.float32], (
    "C16 violated for SED files that store WAVELENGTH in single precision in Angstrom: "
    "a window whose lower end is exactly a tabulated wavelength (given as a double in the "
    "file's own unit) does not emit the file of that wavelength, because SED.read converts "
    "the column to micron in float32 (6000 A -> 0.59999996 micron < 0.6). "
    "(wav_min, files written, files expected) = %r; the same package stored in double "
    "precision gives the expected files for every window" % (problems[np.float32],))
print("OK")
