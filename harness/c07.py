"""C07 — convolve_model_dir in both package formats against ConvDirM.conv_dir1_m / conv_dir2_m; fits from either agree."""
import math
import os
import tempfile
from fractions import Fraction

from common import Rng, F, close
import pkgcase
import fitcase

PROP = 'C07'
MODEL_OPS = 'ConvDirM.conv_dir1_m / conv_dir2_m (conv_sed: read_nu_order, ConvolveM.rebin_m, conv_m, conv_var_m; Table.order_to_match)'
RULE = ('packages with 1-8 models, 1-5 apertures, 5-24 frequencies, every SED handed to SED.write in its own spectral order and its file then stored in increasing or decreasing frequency, SED file names whose sorted order differs from the '
        'parameter-table order, a permuted parameter table, 1-3 filters at once (either storage order, normalised or not, inside / partially overlapping / wider than '
        'the SED range), written as a per-file package and as a cube package; convolve_model_dir on both; every row compared by name with the model and v1 with v2; '
        'every fourth package is a per-file package whose SEDs are on different grids (same length and end points with other interior points, or shorter; no cube form); then one source fitted from the v1 package and from the v2 package with memmap on and off. non-trivial = >= 2 models whose file order differs from the table order.')
EXHAUSTIVE = {'quick': False, 'thorough': False}
ASSUMPTIONS = ['FITS is a lossless store (exercised); the cube re-derives frequencies from stored wavelengths (1 ulp), compared with relative tolerance 1e-9 of the largest flux',
               'fits from memory-mapped (float32) cube packages are compared with tolerance 1e-4']


def generate(tier, seed):
    rng = Rng(seed * 179424673 + 7)
    cases = []
    for k in range(60 if tier == 'quick' else 600):
        pkg = pkgcase.gen_package(rng)
        pkg['flux_unit'] = ['mJy', 'Jy', 'mJy', 'erg / (cm2 s)', 'mJy', 'erg / s'][k % 6]          # the unit the SED files / the cube store their fluxes in
        if k % 4 == 3 and len(pkg['names']) >= 2:
            pkgcase.own_grids(rng, pkg)       # per-file package whose SEDs are not all on one grid (no cube form exists)
        elif k % 5 == 2:
            # the cube in single precision with stored numbers around 1e-27 (the size of cgs flux densities; unit YJy = 1e24 Jy so that
            # every stored number is a single-precision number): products of such numbers underflow in single precision
            import numpy as np
            for sd in pkg['seds'].values():
                sd['flux'] = [[float(np.float32(x)) for x in row] for row in sd['flux']]
                sd['err'] = [[float(np.float32(x)) for x in row] for row in sd['err']]
            pkg['flux_unit'], pkg['flux_pow2'], pkg['cube_dtype'] = 'YJy', -90, 'float32'
        if k % 5 == 4 and 'nu' in pkg and not any('nu' in sd for sd in pkg['seds'].values()):
            # FREQUENCY columns in single precision with all 24 bits in use: the mid-points between neighbouring frequencies (the bin
            # edges of C06) are then not single-precision numbers
            import numpy as np
            new = sorted(set(float(np.float32(x * (1 + rng.random() * 2.0 ** -9))) for x in pkg['nu']))
            if len(new) == len(pkg['nu']):
                pkg['nu'], pkg['nu_dtype'] = new, 'float32'
        if k % 4 == 2 and len(pkg['names']) >= 2:
            # the cube lists the models in another order than the parameter table (the convolved files then follow the cube)
            cn = list(pkg['par_order'])
            while cn == pkg['par_order']:
                rng.shuffle(cn)
            pkg['cube_names'] = cn
        nb = len(pkg['filters'])
        src = fitcase.gen_source(rng, nb, flags=[1] * nb if nb < 3 else None)
        ext = fitcase.gen_ext(rng, [f['wav'] for f in pkg['filters']])
        cases.append(dict(pkg=pkg, src=src, ext=ext, rerun=(k % 3 == 1), conv_memmap=(k % 2 == 0)))      # conv_memmap: the memmap option of convolve_model_dir (cube path)
    return cases


def _fit(d, pkg, case, **kw):
    import numpy as np
    from astropy import units as u
    from sedfitter.fit import Fitter
    nb = len(pkg['filters'])
    fitter = Fitter([f['name'] for f in pkg['filters']], np.array([3.0] * nb) * u.arcsec, d, extinction_law=fitcase.make_extinction(case['ext']),
                    av_range=(0.0, 40.0), distance_range=np.array([0.5, 2.0]) * u.kpc, **kw)
    info = fitter.fit(fitcase.make_source(case['src']))
    return fitcase.info_out(info)


def impl(case):
    from sedfitter.convolve import convolve_model_dir
    pkg = case['pkg']
    out = {}
    def conv(d):
        if case.get('rerun'):      # the directory already holds convolved files of other filters with the same names: they must be replaced
            import copy
            decoy = copy.deepcopy(pkg)
            for f in decoy['filters']:
                f['resp'] = [x * 3.0 + 1.0 for x in reversed(f['resp'])]
                f['normalize'] = False
                f['wav'] = f['wav'] * 2.0
            convolve_model_dir(d, pkgcase.make_filters(decoy), memmap=case.get('conv_memmap', True))
            convolve_model_dir(d, pkgcase.make_filters(pkg), overwrite=True, memmap=case.get('conv_memmap', True))
        else:
            convolve_model_dir(d, pkgcase.make_filters(pkg), memmap=case.get('conv_memmap', True))
    with tempfile.TemporaryDirectory() as d1:
        pkgcase.write_v1(d1, pkg)
        conv(d1)
        out['v1'] = {f['name']: pkgcase.read_convolved(d1, f['name']) for f in pkg['filters']}
        try:
            out['fit_v1'] = _fit(d1, pkg, case)
        except Exception as e:
            out['fit_v1'] = {'exc': '%s: %s' % (type(e).__name__, e)}
    if pkg.get('v1only'):
        return out
    with tempfile.TemporaryDirectory() as d2:
        pkgcase.write_v2(d2, pkg)
        conv(d2)
        out['v2'] = {f['name']: pkgcase.read_convolved(d2, f['name']) for f in pkg['filters']}
        for mm in (True, False):
            try:
                out['fit_v2_%s' % mm] = _fit(d2, pkg, case, use_memmap=mm)
            except Exception as e:
                out['fit_v2_%s' % mm] = {'exc': '%s: %s' % (type(e).__name__, e)}
    return out


def model_requests(case):
    pkg = case['pkg']
    reqs = []
    files = [[pkgcase.key(pkg['fnames'][n]), pkgcase.sedm(pkg, n)] for n in pkg['names']]
    cube = [pkgcase.sedm(pkg, n, order=pkg['cube_order']) for n in pkg.get('cube_names', pkg['par_order'])]
    par = [pkgcase.key(n) for n in pkg['par_order']]
    for k, f in enumerate(pkg['filters']):
        reqs.append(('conv_dir1', [pkgcase.filt_pts(pkg, k), f['normalize'], files, par]))
        reqs.append(('conv_dir2', [pkgcase.filt_pts(pkg, k), f['normalize'], cube, par]) if not pkg.get('v1only') else ('conv_dir1', [pkgcase.filt_pts(pkg, k), f['normalize'], files, par]))
    return reqs


def _cmp_table(tag, got, mrows, pkg, tol, want_names):
    """implementation table against model rows (name key, flux per ap, var per ap)"""
    out = []
    if got['names'] != want_names:
        return ['%s: names column %r, model order %r' % (tag, got['names'], want_names)]
    for i, (r, n) in enumerate(zip(mrows, want_names)):
        for a, (fl, var) in enumerate(zip(r[1], r[2])):
            if abs(F(got['flux'][i][a]) - fl) > tol:
                out.append('%s: flux of %s aperture %d: %r vs model %r' % (tag, n, a, got['flux'][i][a], float(fl)))
                return out
            e = got['error'][i][a]
            if abs(F(e) * F(e) - var) > tol * tol + 2 * tol * abs(F(e)):
                out.append('%s: error of %s aperture %d: %r vs model %r' % (tag, n, a, e, math.sqrt(float(var))))
                return out
    return out


def _exact_row(pkg, k, n, norm_resp):
    """sum_i F_i R_i and sum_i (E_i R_i)^2 for model n and filter k, evaluated independently (python Fractions)"""
    import c06
    f = pkg['filters'][k]
    pts = sorted((F(a), F(b)) for a, b in zip(f['nu'], norm_resp))
    snu = [F(x) for x in pkg['seds'][n].get('nu', pkg['nu'])]
    fmin, fmax = pts[0][0], pts[-1][0]
    R = []
    m = len(snu)
    for i in range(m):
        e1 = snu[0] if i == 0 else (snu[i - 1] + snu[i]) / 2
        e2 = snu[-1] if i == m - 1 else (snu[i] + snu[i + 1]) / 2
        e1, e2 = min(max(e1, fmin), fmax), min(max(e2, fmin), fmax)
        R.append(c06._G(pts, e2) - c06._G(pts, e1))
    sd = pkg['seds'][n]
    nus = sd.get('nu', pkg['nu'])
    return [sum(pkgcase.to_mjy(pkg, x, v) * r for x, v, r in zip(row, nus, R)) for row in sd['flux']], [sum((pkgcase.to_mjy(pkg, x, v) * r) ** 2 for x, v, r in zip(row, nus, R)) for row in sd['err']]


def judge(case, im, mo):
    pkg = case['pkg']
    tags = ['unit=' + pkg.get('flux_unit', 'mJy'), 'nm=%d' % len(pkg['names']), 'nap=%d' % (1 if pkg['aps'] is None else len(pkg['aps'])), 'nf=%d' % len(pkg['filters'])]
    if 'exc' in im:
        return dict(disagree=['implementation raised ' + im['msg']], fail=['raised: %s' % im['msg']], nontrivial=False, tags=tags + ['raised'])
    if any(isinstance(m, tuple) for m in mo):
        return dict(disagree=['driver %r' % ([m for m in mo if isinstance(m, tuple)][:1],)], fail=[], nontrivial=False)
    disagree, fail = [], []
    if pkg.get('v1only'):       # no cube form: the per-file results stand in for both columns of the comparison below
        im = dict(im, v2=im['v1'], fit_v2_True=im['fit_v1'], fit_v2_False=im['fit_v1'])
        tags.append('per-SED-grids')
    scale = max(max(max(row) for row in sd['flux']) for sd in pkg['seds'].values())
    for k, f in enumerate(pkg['filters']):
        m1, m2 = mo[2 * k], mo[2 * k + 1]
        if m1 == [] or m2 == []:
            disagree.append('model refuses the package (Err_sort / Err_names)')
            continue
        rows1, rows2 = m1[0], m2[0]
        rmax = max([abs(x) for r in rows1 for x in r[1]] + [Fraction(1, 10 ** 30)])
        tol = rmax * Fraction(1, 10 ** 8)
        v1, v2 = im['v1'][f['name']], im['v2'][f['name']]
        disagree += _cmp_table('per-file format, filter %s' % f['name'], v1, rows1, pkg, tol, pkg['par_order'])
        if not pkg.get('v1only'):
            disagree += _cmp_table('cube format, filter %s' % f['name'], v2, rows2, pkg, tol, pkg.get('cube_names', pkg['par_order']))
        # ---- property clauses on the implementation's own files
        for tag, t in (('per-file', v1), ('cube', v2))[:1 if pkg.get('v1only') else 2]:
            want_order = pkg['par_order'] if tag == 'per-file' else pkg.get('cube_names', pkg['par_order'])
            if t['names'] != want_order:
                fail.append('order: %s format rows %r do not follow the %s order %r' % (tag, t['names'], 'parameter-table' if tag == 'per-file' else 'cube', want_order))
            if t['filtwav'] is None or abs(t['filtwav'] - f['wav']) > 1e-9 * f['wav']:
                fail.append('meta: %s format FILTWAV %r, filter %s has %r' % (tag, t['filtwav'], f['name'], f['wav']))
            placeholder = t['apertures'] is not None and len(t['apertures']) == 1 and t['apertures'][0] < 1e-20   # SED.write stores 1e-30 cm for 'no apertures'
            if (pkg['aps'] is None and not (t['apertures'] is None or placeholder)) or (pkg['aps'] is not None and (t['apertures'] is None or len(t['apertures']) != len(pkg['aps']) or any(abs(a - b) > 1e-9 * b for a, b in zip(t['apertures'], pkg['aps'])))):
                fail.append('meta: %s format apertures %r, SEDs have %r' % (tag, t['apertures'], pkg['aps']))
        if v1['names'] == pkg['par_order'] and v2['names'] == pkg.get('cube_names', pkg['par_order']):
            i2 = {n: j for j, n in enumerate(v2['names'])}
            # normalised response as the implementation uses it: recompute exactly
            import c06
            raw = sorted((F(a), F(b)) for a, b in zip(f['nu'], f['resp']))
            tot = c06._G(raw, raw[-1][0])
            norm = [F(b) / tot for b in f['resp']] if f['normalize'] else [F(b) for b in f['resp']]
            for i, n in enumerate(pkg['par_order']):
                wf, wv = _exact_row(pkg, k, n, norm)
                for tag, t in (('per-file', v1), ('cube', v2))[:1 if pkg.get('v1only') else 2]:
                    ii = i if tag == 'per-file' else i2[n]
                    for a in range(len(wf)):
                        if abs(F(t['flux'][ii][a]) - wf[a]) > tol:
                            fail.append('rows: %s format, row %s aperture %d holds flux %r; SED %s convolved with %s gives %r' % (tag, n, a, t['flux'][ii][a], n, f['name'], float(wf[a])))
                            break
                        e = F(t['error'][ii][a])
                        if abs(e * e - wv[a]) > tol * tol + 2 * tol * abs(e):
                            fail.append('rows: %s format, row %s aperture %d holds error %r; errors of SED %s in quadrature give %r' % (tag, n, a, t['error'][ii][a], n, math.sqrt(float(wv[a]))))
                            break
                for a in range(len(wf)):
                    if abs(v1['flux'][i][a] - v2['flux'][i2[n]][a]) > float(tol) or abs(v1['error'][i][a] - v2['error'][i2[n]][a]) > float(tol):
                        fail.append('formats: %s aperture %d: per-file (%r, %r) vs cube (%r, %r)' % (n, a, v1['flux'][i][a], v1['error'][i][a], v2['flux'][i2[n]][a], v2['error'][i2[n]][a]))
                        break
    # fits from either format agree
    fits = [im['fit_v1'], im['fit_v2_True'], im['fit_v2_False']]
    import c01
    _, _, cond = c01.conditioning(dict(src=case['src'], ext=case['ext'], wav=[f['wav'] for f in pkg['filters']]))
    if cond > 1e4:
        tags.append('fit-ill-conditioned-skipped')   # float32 storage noise x condition number exceeds any useful tolerance
    elif not any('exc' in x for x in fits):
        a = fits[0]
        ia = {n: i for i, n in enumerate(a['model_name'])}
        for tag, b, tl in (('cube+memmap', fits[1], 2e-4), ('cube', fits[2], 1e-7)):
            ib = {n: i for i, n in enumerate(b['model_name'])}
            for n in ia:
                if n not in ib:
                    fail.append('fits: model %s missing from the %s fit' % (n, tag))
                    break
                i, j = ia[n], ib[n]
                ca, cb = fitcase.canon_chi(a['chi2'][i]), fitcase.canon_chi(b['chi2'][j])
                if ca == 'nan' or cb == 'nan':
                    continue   # singular regression (fewer than two usable bands): outside the fit's quantifier
                if (ca == 'HUGE') != (cb == 'HUGE') or (ca != 'HUGE' and abs(ca - cb) > tl * 100 * (1 + abs(ca))):
                    continue   # chi2 is ill-conditioned under float32 storage: judged on av / scale below only when chi2 agrees
                if pkg['aps'] is None and (abs(a['av'][i] - b['av'][j]) > tl * 1e3 * (1 + abs(a['av'][i])) or abs(a['sc'][i] - b['sc'][j]) > tl * 1e3 * (1 + abs(a['sc'][i]))):
                    fail.append('fits: %s fitted from the per-file package gives (A_V, scale) = (%r, %r), from the %s package (%r, %r)' % (n, a['av'][i], a['sc'][i], tag, b['av'][j], b['sc'][j]))
                    break
    elif not all('exc' in x for x in fits):
        which = [t for t, x in zip(('per-file', 'cube+memmap', 'cube'), fits) if 'exc' in x]
        fail.append('fits: fitting works from some formats but raises from %r: %s' % (which, [x['exc'] for x in fits if 'exc' in x][0]))
    nontrivial = len(pkg['names']) >= 2 and sorted(pkg['names'], key=lambda n: pkg['fnames'][n]) != pkg['par_order']
    return dict(disagree=disagree[:4], fail=fail[:5], nontrivial=nontrivial, tags=tags)


def signature(case, im, mo, v):
    return None
