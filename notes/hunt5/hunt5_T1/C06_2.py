"""
C06 / C07 (theme: single-precision storage) -- the "same frequency grid?"
test of the per-file convolution is 100 units in the last place, which for
FREQUENCY columns stored in single precision ('E') is ~1e-5 relative.

_convolve_model_dir_1 re-bins the filters only when
    np.testing.assert_array_almost_equal_nulp(s.nu.value, binned_nu.value, 100)
fails.  For double-precision grids that is 2e-14 relative ("identical up to
rounding"); for the float32 arrays SED.read returns for an 'E' column it is
~1e-5.  A package whose second SED is tabulated on a grid shifted by 5e-6
(e.g. a 1.5 km/s Doppler shift, or wavelengths written with five digits by
another run) is therefore convolved with the bins R_i of the FIRST SED's grid:
its flux is not sum_i F(nu_i) R_i with R_i the integral over the bin of ITS
nu_i.  The flux written for model 'b' also depends on which other SED files
are in the directory.  With the same numbers stored in double precision
('D') the filters are re-binned and the result is exact.
"""
import os
import shutil
import tempfile
import warnings

import numpy as np

warnings.filterwarnings('ignore')

from astropy import units as u
from astropy.table import Table

from sedfitter.filter import Filter
from sedfitter.sed import SED
from sedfitter.convolve import convolve_model_dir
from sedfitter.convolved_fluxes import ConvolvedFluxes

C = 2.99792458e14  # micron * Hz


def exact_R(fnu, fr, nu):
    fnu = np.asarray(fnu, float)
    fr = np.asarray(fr, float)
    nu = np.asarray(nu, float)
    if fnu[0] > fnu[-1]:
        fnu, fr = fnu[::-1], fr[::-1]
    cum = np.concatenate([[0.], np.cumsum(0.5 * (fnu[1:] - fnu[:-1]) * (fr[1:] + fr[:-1]))])

    def F(x):
        x = min(max(x, fnu[0]), fnu[-1])
        i = min(max(np.searchsorted(fnu, x, side='right') - 1, 0), len(fnu) - 2)
        dx = x - fnu[i]
        slope = (fr[i + 1] - fr[i]) / (fnu[i + 1] - fnu[i])
        return cum[i] + fr[i] * dx + 0.5 * slope * dx * dx

    n = len(nu)
    R = np.zeros(n)
    for i in range(n):
        a = nu[0] if i == 0 else 0.5 * (nu[i - 1] + nu[i])
        b = nu[-1] if i == n - 1 else 0.5 * (nu[i] + nu[i + 1])
        R[i] = abs(F(b) - F(a))
    return R


rng = np.random.default_rng(7)

n_sed = 80
nu_a = np.geomspace(C / 7.2, C / 1.5, n_sed)       # 80 frequencies, spacing 2 per cent
nu_b = nu_a * (1. + 5.e-6)                          # the same grid, shifted by 5e-6

# Filter: 30 irregular samples inside the SED range, zero edges, normalised
fw = np.sort(np.concatenate([[2.5, 4.5], rng.uniform(2.5, 4.5, 28)]))
f = Filter()
f.name = 'band'
f.central_wavelength = 3.5 * u.micron
f.nu = (C / fw) * u.Hz
resp = rng.random(30)
resp[0] = resp[-1] = 0.
f.response = resp
f.normalize()

flux_a = 1. + rng.random(n_sed)
flux_b = np.ones(n_sed)
flux_b[[30, 38, 39, 45]] = [50., 80., 20., 65.]     # a line spectrum


def make_package(models, dtype):
    d = tempfile.mkdtemp()
    os.mkdir(os.path.join(d, 'seds'))
    stored = {}
    for name, nu, flux in models:
        s = SED()
        s.name = name
        s.distance = 1. * u.kpc
        nu_st = nu.astype(dtype)
        s.nu = nu_st * u.Hz
        s.wav = (C / nu_st.astype(float)).astype(dtype) * u.micron
        s.apertures = None
        s.flux = flux.astype(dtype).reshape(1, -1) * u.mJy
        s.error = (0.1 * flux).astype(dtype).reshape(1, -1) * u.mJy
        s.write(os.path.join(d, 'seds', name + '_sed.fits'))
        stored[name] = (nu_st.astype(float), flux.astype(dtype).astype(float))
    with open(os.path.join(d, 'models.conf'), 'w') as fh:
        fh.write("name = t\nlength_subdir = 0\naperture_dependent = no\nlogd_step = 0.02\n")
    t = Table()
    t['MODEL_NAME'] = np.array([m[0] for m in models], dtype='S30')
    t['par'] = np.arange(len(models)).astype(dtype)
    t.write(os.path.join(d, 'parameters.fits'))
    return d, stored


def flux_of(d, name):
    c = ConvolvedFluxes.read(os.path.join(d, 'convolved', 'band.fits'))
    i = list(np.char.strip(c.model_names)).index(name)
    return c.flux[i, 0].to(u.mJy).value


results = {}
for dtype in (np.float32, np.float64):
    both, stored = make_package([('a', nu_a, flux_a), ('b', nu_b, flux_b)], dtype)
    alone, _ = make_package([('b', nu_b, flux_b)], dtype)
    convolve_model_dir(both, [f])
    convolve_model_dir(alone, [f])
    nu_st, fl_st = stored['b']
    want = np.sum(fl_st * exact_R(f.nu.value, f.response, nu_st))
    got_both = flux_of(both, 'b')
    got_alone = flux_of(alone, 'b')
    results[dtype] = (abs(got_both / want - 1.), abs(got_alone / want - 1.), abs(got_both / got_alone - 1.))
    print("%s: flux of 'b' next to 'a' %.12g | alone %.12g | exact %.12g" %
          (np.dtype(dtype).name, got_both, got_alone, want))
    shutil.rmtree(both)
    shutil.rmtree(alone)

r32, r64 = results[np.float32], results[np.float64]
print("float32 storage: rel. deviation from exact %.2e (package a+b), %.2e (b alone)" % r32[:2])
print("float64 storage: rel. deviation from exact %.2e (package a+b), %.2e (b alone)" % r64[:2])

assert r64[0] < 1e-10 and r64[1] < 1e-10, "reference computation is off"
assert r32[1] < 1e-5, "unexpected: 'b' alone is already off by %.1e" % r32[1]
assert r32[0] < 1e-5, (
    "C06/C07 violated for a per-file package stored in single precision: the flux written "
    "for SED 'b' (80 frequencies, grid shifted by 5e-6 w.r.t. SED 'a') is off by %.1e relative "
    "from sum_i F(nu_i) R_i over b's own bins, because the filters are not re-binned "
    "(100 nulp of float32 = 1e-5); the same SED file convolved alone is within %.1e, so the "
    "row of 'b' depends on the other SED files (%.1e between the two); in double-precision "
    "storage both are exact (%.1e)" % (r32[0], r32[1], r32[2], r64[0]))
print("OK")
