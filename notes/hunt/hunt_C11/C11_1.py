"""
C11, clause "Fit results are unchanged by permuting the filters (with the
photometry permuted alike)"  [labelling must not matter].

Cube package (models.conf version = 2) whose model names are longer than 30
characters, one broadband filter 'C0' in convolved/ (written with the public
ConvolvedFluxes.write, which silently truncates MODEL_NAME to 30 characters)
and two monochromatic filters.  Models.read takes the model names from
whatever filter happens to be LAST in the list: the cube (full names) for a
wavelength filter, the convolved file (truncated names) for a broadband one.
So the same fit with the filters permuted returns different model names - and
with the broadband filter last all three models get the SAME name, so the
result can no longer be matched to the parameter table.
"""
import contextlib
import io
import os
import sys
import tempfile

import numpy as np
from astropy import units as u

from sedfitter.convolved_fluxes import ConvolvedFluxes
from sedfitter.extinction import Extinction
from sedfitter.fit import Fitter
from sedfitter.sed import SEDCube
from sedfitter.source import Source

rng = np.random.default_rng(0)
d = tempfile.mkdtemp()

names = np.array(['envelope_model_with_a_long_name_%03i' % i for i in range(3)])  # 35 chars

cube = SEDCube()
cube.names = names
cube.distance = 1 * u.kpc
cube.wav = np.logspace(0, 2, 10) * u.micron
cube.val = rng.uniform(1, 2, (3, 1, 10)) * u.mJy
cube.unc = cube.val * 0.01
cube.write(os.path.join(d, 'flux.fits'))

with open(os.path.join(d, 'models.conf'), 'w') as f:
    f.write("name = test\nlength_subdir = 0\naperture_dependent = no\n"
            "logd_step = 0.02\nversion = 2\n")

os.mkdir(os.path.join(d, 'convolved'))
cf = ConvolvedFluxes()
cf.model_names = names
cf.central_wavelength = 3 * u.micron
cf.flux = rng.uniform(1, 2, (3, 1)) * u.mJy
cf.error = cf.flux * 0.01
cf.write(os.path.join(d, 'convolved', 'C0.fits'))

ext = Extinction()
ext.wav = np.logspace(-2., 3., 60) * u.micron
ext.chi = ext.wav.value ** -1.5 * u.cm ** 2 / u.g

kw = dict(extinction_law=ext, av_range=[0., 10.], distance_range=[0.5, 3.] * u.kpc)


def source(valid, flux, error):
    s = Source()
    s.name = 'src'
    s.x = s.y = 0.
    s.valid = valid
    s.flux = flux
    s.error = error
    return s


with contextlib.redirect_stdout(io.StringIO()):
    f1 = Fitter(['C0', 5 * u.micron, 20 * u.micron], [3, 3, 3] * u.arcsec, d, **kw)
    f2 = Fitter([5 * u.micron, 20 * u.micron, 'C0'], [3, 3, 3] * u.arcsec, d, **kw)

i1 = f1.fit(source([1, 1, 1], [1., 2., 3.], [.1, .2, .3]))
i2 = f2.fit(source([1, 1, 1], [2., 3., 1.], [.2, .3, .1]))   # photometry permuted alike

# numbers agree ...
assert np.allclose(i1.chi2, i2.chi2, rtol=1e-9) and np.allclose(i1.av, i2.av, rtol=1e-9)

n1 = [str(x) for x in i1.model_name]
n2 = [str(x) for x in i2.model_name]
if n1 != n2:
    print("C11 VIOLATED (filter permutation): same package, same photometry, filters "
          "('C0', 5um, 20um) vs (5um, 20um, 'C0'):")
    print("   model names, order 1:", n1)
    print("   model names, order 2:", n2)
    print("   distinct names in order 2: %i of %i models" % (len(set(n2)), len(n2)))
    sys.exit(1)
print("no violation")
