import numpy as np, pickle
from sedfitter.source import Source
for v in [np.array([1., 0., 9.]), [1., 0., 9.], np.array([True, False, True]), np.array([1, 0, 9], dtype=np.uint8), np.array([1,0,9], dtype=object), (1, 0, 9), np.array(['1','0','9'])]:
    s = Source(); s.name = 'a'; s.x = 1; s.y = 2
    try:
        s.valid = v
    except Exception as e:
        print(repr(v), 'setter refused', type(e).__name__, e); continue
    s.flux = [1., 2., 3.]; s.error = [.1, .2, .3]
    try:
        print(repr(v), '->', Source.from_ascii(s.to_ascii()).valid, s.n_data)
    except Exception as e:
        print(repr(v), 'to_ascii EXC', type(e).__name__, e)
