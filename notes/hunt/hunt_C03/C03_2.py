import os, io, sys, tempfile, contextlib, warnings
import numpy as np
warnings.simplefilter('ignore')
from astropy import units as u
from sedfitter.convolved_fluxes import ConvolvedFluxes
from sedfitter.extinction import Extinction
from sedfitter.source import Source
from sedfitter.fit import Fitter


def ext():
    e = Extinction()
    e.wav = np.logspace(-2., 3., 50) * u.micron
    e.chi = e.wav.value ** -1.5 * u.cm ** 2 / u.g
    return e


def make_dir(names, fluxes, wavs, apertures=None):
    """Per-file (version 1) package holding only what the fitter reads:
    models.conf and convolved/<filter>.fits.
    fluxes: (n_models, n_wav) or (n_models, n_ap, n_wav), in mJy"""
    d = tempfile.mkdtemp()
    os.mkdir(os.path.join(d, 'convolved'))
    filt_names = ['F%d' % i for i in range(len(wavs))]
    for i in range(len(wavs)):
        c = ConvolvedFluxes()
        c.model_names = np.array(names)
        c.central_wavelength = wavs[i] * u.micron
        if apertures is not None:
            c.apertures = np.array(apertures) * u.au
            c.flux = np.array(fluxes)[:, :, i] * u.mJy
        else:
            c.flux = np.array(fluxes)[:, i].reshape(-1, 1) * u.mJy
        c.error = c.flux * 0.
        c.write(os.path.join(d, 'convolved', filt_names[i] + '.fits'))
    with open(os.path.join(d, 'models.conf'), 'w') as f:
        f.write("name = test\nlength_subdir = 0\naperture_dependent = %s\nlogd_step = 0.02\n"
                % ('yes' if apertures is not None else 'no'))
    return d, filt_names


def quiet(fn, *a, **k):
    with contextlib.redirect_stdout(io.StringIO()):
        return fn(*a, **k)


def src(valid, flux, error):
    s = Source()
    s.name = 's'
    s.x = 0.
    s.y = 0.
    s.valid = np.array(valid)
    s.flux = np.array(flux, dtype=float)
    s.error = np.array(error, dtype=float)
    return s


def row(info, name):
    i = list(info.model_name).index(name)
    return float(info.chi2[i]), float(info.av[i]), float(info.sc[i])

# ---------------------------------------------------------------------------
# C03, clause "Points flagged 0 (unused) or 9 (plot only) never influence any
# fit output, whatever values they carry" and, for limits, "adds exactly
# -2 ln(1-confidence) when, and only when, the fitted model lies on the
# forbidden side".
#
# One model of the package has no flux (0 mJy, which Models.valid /
# Models.log_fluxes_mJy treat as log10 = -inf) in band 4.  The source does not
# use band 4 (flag 0, flag 9) or only has an upper limit there, which a model
# with no flux trivially satisfies.  The same four used bands fitted with a
# four-filter Fitter give the reference.  residual = log_flux - (-inf) = +inf
# is multiplied by weight 0 inside linear_regression / optimal_scaling, which
# gives NaN for A_V, scale and chi^2 of that model.
#   (a) aperture-independent package
#   (b) aperture-dependent package where the flux is missing only inside the
#       smallest apertures: np.argmin over distances then picks a NaN distance
#       although the model fits perfectly well at larger distances.
# ---------------------------------------------------------------------------
failures = []
wavs = [1., 2., 4., 8., 16.]
nm = 4
names = ['m%d' % i for i in range(nm)]
kw = dict(extinction_law=ext(), av_range=[0., 10.])
cases = (('flag 0', 0, .5), ('flag 9', 9, .5), ('upper limit, confidence 0.5', 3, .5), ('upper limit, confidence 0', 3, 0.))

# (a)
rng = np.random.RandomState(3)
fl = 1 + rng.random_sample((nm, 5))
fl[0, 4] = 0.
d5, fn5 = make_dir(names, fl, wavs)
d4, fn4 = make_dir(names, fl[:, :4], wavs[:4])
F5 = quiet(Fitter, fn5, [3.] * 5 * u.arcsec, d5, distance_range=[1., 3.] * u.kpc, **kw)
F4 = quiet(Fitter, fn4, [3.] * 4 * u.arcsec, d4, distance_range=[1., 3.] * u.kpc, **kw)
ref = row(F4.fit(src([1, 1, 1, 1], [1., 2., 3., 4.], [.1, .2, .3, .4])), 'm0')
print('(a) reference (band 4 absent): m0 chi2=%.6f av=%.6f scale=%.6f' % ref)
for label, v4, e4 in cases:
    got = row(F5.fit(src([1, 1, 1, 1, v4], [1., 2., 3., 4., 5.], [.1, .2, .3, .4, e4])), 'm0')
    print('(a)', label, '-> m0 chi2=%r av=%r scale=%r' % got)
    if not np.allclose(got, ref, rtol=1e-10, atol=1e-10):
        failures.append('(a) aperture-independent, band 4 %s: m0 gives %r, expected %r' % (label, got, ref))

# (b)
rng = np.random.RandomState(3)
aps = np.logspace(2, 5, 12)
fl = np.cumsum(10 ** rng.uniform(-1, 0, (nm, 12, 5)), axis=1)
fl[0, :5, 4] = 0.       # nothing inside the 5 smallest apertures at 16 micron
d5, fn5 = make_dir(names, fl, wavs, apertures=aps)
d4, fn4 = make_dir(names, fl[:, :, :4], wavs[:4], apertures=aps)
F5 = quiet(Fitter, fn5, [3.] * 5 * u.arcsec, d5, distance_range=[0.1, 3.] * u.kpc, **kw)
F4 = quiet(Fitter, fn4, [3.] * 4 * u.arcsec, d4, distance_range=[0.1, 3.] * u.kpc, **kw)
ref = row(F4.fit(src([1, 1, 1, 1], [1., 2., 3., 4.], [.1, .2, .3, .4])), 'm0')
print('(b) reference (band 4 absent): m0 chi2=%.6f av=%.6f scale=%.6f' % ref)
for label, v4, e4 in (cases[0], cases[1], cases[3]):
    got = row(F5.fit(src([1, 1, 1, 1, v4], [1., 2., 3., 4., 5.], [.1, .2, .3, .4, e4])), 'm0')
    print('(b)', label, '-> m0 chi2=%r av=%r scale=%r' % got)
    if not np.allclose(got, ref, rtol=1e-10, atol=1e-10):
        failures.append('(b) aperture-dependent, band 4 %s: m0 gives %r, expected %r' % (label, got, ref))

assert not failures, ("C03 violated: a band that is unused (flag 0/9) or only carries a satisfied upper limit changes "
                      "the fit of a model that has zero flux in that band:\n  " + "\n  ".join(failures))
print("no violation")
