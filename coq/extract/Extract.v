(* Extraction of the executable model.  Directives used: those of the stdlib files
   ExtrOcamlBasic and ExtrOcamlZBigInt (positive/Z/N -> zarith big integers), nothing of ours. *)
Require Coq.extraction.Extraction.
Require Import ExtrOcamlBasic ExtrOcamlZBigInt.
From SedV Require Import Clamp FitCore Flags Fit3 Xnum Keep Keep0 SrcAscii FilterOut FitModel Grid FTable TableProofs StreamM Frame Reader ConvolveM ConvDirM MonoM SedIOM Misc ApertureM PlotM Fmt FitMask ReadM Additional ExtSnap UnitM LinregOrtho RadiusM ResolvedM GridGuard.
Extraction Language OCaml.
Extraction "sedmodel.ml" Keep.nkeep Keep0.nkeepN SrcAscii.from_ascii_m FilterOut.filter_output_m
  FitModel.get_av_m FitModel.interp_clamp_m FitModel.rank_m FitModel.fit2_all FitModel.fit2_det FitModel.fit3_m11 FitModel.fit3_all FitModel.fit2_pkg FitModel.fit3_pkg Grid.ndist Grid.gridlog_m
  FTable.filter_table_m TableProofs.prep_table_m TableProofs.ranges_m
  StreamM.fit_file_m StreamM.history_copy StreamM.history_alias
  StreamM.reader_m Reader.cut_status Reader.read_all
  ConvolveM.rebin_m ConvolveM.isub_full ConvolveM.normalize_m ConvolveM.conv_m ConvolveM.conv_var_m
  ConvDirM.conv_dir1_m ConvDirM.conv_dir2_m
  MonoM.mono_m MonoM.nearest_m
  SedIOM.sed_roundtrip SedIOM.cube_roundtrip
  Misc.convert
  ApertureM.sed_interp_var_m
  PlotM.curve_list PlotM.curve_val
  Fmt.fmt_e Fmt.fmt_f FitMask.fit3_pkg_masked ReadM.read_files Additional.attach_col ExtSnap.get_av_snap_m UnitM.convert_u LinregOrtho.linreg_ortho_m
  RadiusM.radius_sigma_m RadiusM.radius_cumul_m ResolvedM.resolved_pkg GridGuard.ndist_g
  Flags.get_log_fluxes_m FitCore.linreg_m FitCore.optscale_sc_m Fit3.optscale_av_m Flags.chi2_m.
