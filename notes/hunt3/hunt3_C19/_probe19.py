import os, tempfile, pickle, itertools, sys
import numpy as np
from sedfitter.fit_info import FitInfo, FitInfoFile
from sedfitter.source import Source
from sedfitter.extinction import Extinction

def mk(i, nfit, nw, fluxes):
    s = Source()
    s.name = "src%d" % i
    s.x = 1.5 * i; s.y = -2.0
    s.valid = np.array([1] * nw)
    s.flux = np.arange(nw) + 1.0
    s.error = np.ones(nw) * 0.1
    info = FitInfo(s)
    info.av = np.arange(nfit) * 0.5
    info.sc = np.arange(nfit) * -0.25
    info.chi2 = np.arange(nfit) * 1.0 + i
    info.model_id = np.arange(nfit)[::-1].copy()
    info.model_name = np.array(["m%04d" % j for j in range(nfit)], dtype='S30') if nfit else np.array([], dtype='S30')
    info.model_fluxes = np.arange(nfit * nw, dtype=float).reshape(nfit, nw) if fluxes else None
    return info

def same(a, b):
    sa, sb = a.__getstate__(), b.__getstate__()
    for k in sa:
        if k == 'source':
            da, db = sa[k].to_dict(), sb[k].to_dict()
            for kk in da:
                if not np.array_equal(np.asarray(da[kk]), np.asarray(db[kk])): return False
        else:
            if (sa[k] is None) != (sb[k] is None): return False
            if sa[k] is not None:
                if sa[k].dtype != sb[k].dtype or sa[k].shape != sb[k].shape or not np.array_equal(sa[k], sb[k]): return False
    return True

ext = Extinction()
from astropy import units as u
ext.wav = np.array([0.1, 1, 10.]) * u.micron; ext.chi = np.array([3., 2., 1.]) * u.cm**2 / u.g
tmp = tempfile.mkdtemp()
bad = 0
outcomes = {}
for fluxes in (False, True):
    for sizes in [(1,), (3, 0), (0, 2, 5), (2, 1, 0, 7), (0,), (0, 0)]:
        infos = [mk(i, n, 3, fluxes) for i, n in enumerate(sizes)]
        for inf in infos:
            inf.meta.model_dir = "models_x"; inf.meta.filters = [{'name': 'A', 'aperture_arcsec': 3.0, 'wav': 1.0}]; inf.meta.extinction_law = ext
        p = os.path.join(tmp, "f.fitinfo")
        f = FitInfoFile(p, 'w')
        for inf in infos: f.write(inf)
        f.close()
        data = open(p, 'rb').read()
        for cut in range(len(data)):
            q = os.path.join(tmp, "t.fitinfo")
            open(q, 'wb').write(data[:cut])
            try:
                fin = FitInfoFile(q, 'r')
                got = list(fin)
                fin.close()
            except Exception as e:
                outcomes[type(e).__name__] = outcomes.get(type(e).__name__, 0) + 1
                continue
            outcomes['ok%d' % len(got)] = outcomes.get('ok%d' % len(got), 0) + 1
            if len(got) > len(infos) or not all(same(a, b) for a, b in zip(got, infos)) or not all(isinstance(g, FitInfo) for g in got):
                bad += 1
                print("BAD", fluxes, sizes, cut, len(got))
print(outcomes, bad)
