(* C11 — fits do not depend on labelling, ordering, units of brightness, or history.
   Model: FitCore.fit2_avsc, Flags.chi2_m, Fit3.av_at_distance, FitModel.fit2_all.  Proofs: FitPerm, InvarProofs.
   History independence and non-mutation of the source are true of any Gallina function by construction; for the
   implementation they are established by the correspondence runs only (see DESIGN.md, C11 "partial"). *)
From Coq Require Import QArith List ZArith Permutation.
Import ListNotations.
From SedV Require Import Clamp FitCore Flags Fit3 FitModel FitModelProofs FitPerm InvarProofs PermChi2.
Open Scope Q_scope.

(* permuting the filters together with the photometry: same (A_V, scale), same chi^2; same per-distance A_V in 3-D *)
Theorem C11_band_perm : forall lo hi rows rows', Permutation rows rows' ->
  let '(av, sc) := fit2_avsc lo hi rows in let '(av', sc') := fit2_avsc lo hi rows' in
  0 < m22 rows -> 0 < det rows -> av == av' /\ sc == sc'.
Proof. exact fit2_perm. Qed.

Theorem C11_band_perm_chi2 : forall pen rows rows' av sc, Permutation rows rows' ->
  chi2_m pen rows av sc == chi2_m pen rows' av sc.
Proof. exact chi2_perm. Qed.

Theorem C11_band_perm_3d : forall lo hi rows rows', Permutation rows rows' ->
  av_at_distance lo hi rows == av_at_distance lo hi rows'.
Proof. exact av3_perm. Qed.

(* permuting the models permutes the per-model results alike *)
Theorem C11_model_perm : forall lg ln10 pen lo hi raws alaw models models', Permutation models models' ->
  Permutation (fit2_all lg ln10 pen lo hi raws alaw models) (fit2_all lg ln10 pen lo hi raws alaw models').
Proof. intros. unfold fit2_all. now apply Permutation_map. Qed.

(* multiplying every flux and error by c > 0 (for any log10 oracle with lg(c x) = lg c + lg x):
   A_V unchanged, scale shifted by -lg(c)/2, chi^2 unchanged *)
Theorem C11_scale : forall lg ln10 c, 0 < c -> (forall x, 0 < x -> lg (c * x) == lg c + lg x) ->
  forall lo hi raws alaw lms, Forall pos_flux raws ->
  let rows := mkrows (bands_of lg ln10 raws) alaw lms in
  let rows' := mkrows (bands_of lg ln10 (map (scale_raw lg c) raws)) alaw lms in
  0 < m22 rows -> 0 < det rows ->
  let '(av, sc) := fit2_avsc lo hi rows in let '(av', sc') := fit2_avsc lo hi rows' in
  av' == av /\ sc' == sc - (1#2) * lg c.
Proof. intros lg ln10 c Hc Hl. exact (scale_shifts_scale lg ln10 c Hc Hl). Qed.

Theorem C11_scale_chi2 : forall lg ln10 pen c, 0 < c -> (forall x, 0 < x -> lg (c * x) == lg c + lg x) ->
  forall raws, Forall pos_flux raws -> forall alaw lms av av' sc sc',
  av' == av -> sc' == sc - (1#2) * lg c ->
  chi2_m pen (mkrows (bands_of lg ln10 (map (scale_raw lg c) raws)) alaw lms) av' sc' ==
  chi2_m pen (mkrows (bands_of lg ln10 raws) alaw lms) av sc.
Proof. intros lg ln10 pen c Hc Hl. exact (scale_keeps_chi2 lg ln10 pen c Hc Hl). Qed.

(* end to end: permuting the filters with the photometry leaves the chi^2 reported for the fitted (A_V, scale) unchanged *)
Theorem C11_band_perm_fitted_chi2 : forall pen lo hi rows rows', Permutation rows rows' ->
  let '(av, sc) := fit2_avsc lo hi rows in let '(av', sc') := fit2_avsc lo hi rows' in
  0 < m22 rows -> 0 < det rows -> chi2_m pen rows av sc == chi2_m pen rows' av' sc'.
Proof. exact fit2_perm_chi2. Qed.
(* non-vacuity: a positive flag-1 band meets pos_flux and scale_raw multiplies flux and error *)
Example C11_example :
  pos_flux {| rb_flag := 1; rb_flux := 2; rb_err := 1#10 |} /\
  scale_raw (fun _ => 0) 10 {| rb_flag := 1; rb_flux := 2; rb_err := 1#10 |} = {| rb_flag := 1; rb_flux := 10 * 2; rb_err := 10 * (1#10) |}.
Proof. split; [intros _; reflexivity|reflexivity]. Qed.
