import os, tempfile, numpy as np
from astropy import units as u
from astropy.table import Table
from sedfitter.convolved_fluxes import ConvolvedFluxes
from sedfitter.extinction import Extinction
from sedfitter.source import Source
from sedfitter.fit import Fitter
from sedfitter.sed import SEDCube

def make_ext():
    e = Extinction()
    e.wav = np.logspace(-2., 3., 50) * u.micron
    e.chi = e.wav.value ** -1.5 * u.cm ** 2 / u.g
    return e

def make_pkg(names, wavs, aps, fluxes, version=1, logd_step=0.02, ap_unit=u.au, flux_unit=u.mJy, orders=None, gz=False, filt_names=None):
    """fluxes: (n_models, n_ap, n_filt) in mJy, aps in AU"""
    d = tempfile.mkdtemp()
    os.mkdir(os.path.join(d, 'convolved'))
    with open(os.path.join(d, 'models.conf'), 'w') as f:
        f.write("name = test\nlength_subdir = 0\naperture_dependent = yes\nlogd_step = %s\n" % logd_step)
        if version == 2:
            f.write("version = 2\n")
    names = np.array(names)
    nf = len(wavs)
    filt_names = filt_names or ['F%d' % i for i in range(nf)]
    for i in range(nf):
        order = np.arange(len(names)) if orders is None else orders[i]
        c = ConvolvedFluxes(wavelength=wavs[i] * u.micron, model_names=names[order],
                            apertures=(np.array(aps) * u.au).to(ap_unit),
                            flux=(fluxes[order, :, i] * u.mJy).to(flux_unit),
                            error=(fluxes[order, :, i] * 0.01 * u.mJy).to(flux_unit))
        fn = os.path.join(d, "convolved", filt_names[i] + ".fits"); os.makedirs(os.path.dirname(fn), exist_ok=True)
        c.write(fn)
        if gz:
            import gzip, shutil
            with open(fn, 'rb') as fi, gzip.open(fn + '.gz', 'wb') as fo:
                shutil.copyfileobj(fi, fo)
            os.remove(fn)
    if version == 2:
        cube = SEDCube()
        cube.names = names
        cube.distance = 1 * u.kpc
        cube.wav = np.array(sorted(wavs)) * u.micron
        cube.apertures = np.array(aps) * u.au
        idx = np.argsort(wavs)
        cube.val = fluxes[:, :, idx] * u.mJy
        cube.unc = cube.val * 0.01
        cube.write(os.path.join(d, 'flux.fits'))
    t = Table()
    t['MODEL_NAME'] = np.array(names, dtype='S30')
    t['par1'] = np.arange(len(names)) * 1.
    t.write(os.path.join(d, 'parameters.fits'))
    return d, filt_names

def ref_grid(dmin, dmax, step):
    if dmin == dmax:
        return np.array([dmin])
    n = int(np.ceil(1 + (np.log10(dmax) - np.log10(dmin)) / step))
    return 10 ** np.linspace(np.log10(dmin), np.log10(dmax), n)

def ref_fit(src, aps, fluxes, theta, dgrid, avlaw, av_min, av_max):
    """returns per model (av, logd, chi2) brute force"""
    w, lf, le = src.get_log_fluxes()
    out = []
    for m in range(fluxes.shape[0]):
        best = None
        for d in dgrid:
            mf = np.zeros(len(theta))
            for j in range(len(theta)):
                r = min(theta[j] * d * 1000., aps[-1])
                r = max(r, aps[0])
                mf[j] = np.interp(r, aps, fluxes[m, :, j]) / d ** 2
            res = lf - np.log10(mf)
            use = w > 0
            av = np.sum(res * avlaw * w) / np.sum(avlaw ** 2 * w)
            av = min(max(av, av_min), av_max)
            r2 = res - av * avlaw
            chi = 0.
            for j in range(len(theta)):
                v = src.valid[j]
                if v in (1, 4):
                    chi += r2[j] ** 2 * w[j]
                elif v == 2 and r2[j] > 0:   # model < data
                    chi += -2 * np.log(1 - le[j])
                elif v == 3 and r2[j] < 0:
                    chi += -2 * np.log(1 - le[j])
            if best is None or chi < best[2]:
                best = (av, np.log10(d), chi)
        out.append(best)
    return out

def compare(info, names, ref, tol=1e-8):
    bad = []
    for i, nm in enumerate(info.model_name):
        k = list(names).index(nm.strip())
        av, sc, chi = ref[k]
        if not (abs(info.av[i] - av) <= tol * max(1, abs(av)) and abs(info.sc[i] - sc) <= tol and abs(info.chi2[i] - chi) <= tol * max(1, abs(chi))):
            bad.append((nm, (info.av[i], info.sc[i], info.chi2[i]), ref[k]))
    return bad
