"""
C09 violation (sources given as a single result object / a list of result
objects): a FitInfo that has gone through copy.copy(), copy.deepcopy() or a
pickle round trip (what happens to every result returned by a
multiprocessing worker, or saved by the user with pickle.dump) is still a
complete fit result - same source, same ranking, same model names - but
write_parameters, write_parameter_ranges and extract_parameters refuse it with

    AttributeError: 'FitInfoMeta' object has no attribute 'model_dir'

FitInfo.__getstate__ leaves `meta` (model directory, filters, extinction law)
out and __setstate__ replaces it by an empty FitInfoMeta, so the copy no longer
knows which package's parameter file to list.  (FitInfoFile re-attaches the
meta by hand for the results it reads from a file or copies from a list, which
is why only results copied/pickled by the caller are affected.)
"""
import os
import io
import copy
import pickle
import tempfile
import contextlib
import warnings

import numpy as np
from astropy import units as u
from astropy.table import Table

warnings.filterwarnings('ignore')

from sedfitter import Fitter, write_parameters, write_parameter_ranges, extract_parameters
from sedfitter.sed import SED
from sedfitter.filter import Filter
from sedfitter.extinction import Extinction
from sedfitter.convolve import convolve_model_dir
from sedfitter.source import Source

NAMES = ['zeta', 'b', 'ab', 'a', 'a_1', 'B2']
WAV = np.logspace(-1., 2.5, 80)


def quiet(fn, *args, **kwargs):
    with contextlib.redirect_stdout(io.StringIO()), contextlib.redirect_stderr(io.StringIO()):
        return fn(*args, **kwargs)


def shape(k):
    return (1 + k) * np.exp(-0.5 * ((np.log10(WAV) - (0.2 + 0.25 * k)) / (0.3 + 0.07 * k)) ** 2) + 0.05 + 0.01 * np.sin(WAV + k)


d = tempfile.mkdtemp()
os.mkdir(os.path.join(d, 'seds'))
for k, n in enumerate(NAMES):
    s = SED()
    s.name = n
    s.distance = 1. * u.kpc
    s.wav = WAV * u.micron
    s.nu = s.wav.to(u.Hz, equivalencies=u.spectral())
    s.apertures = None
    s.flux = shape(k)[np.newaxis, :] * u.mJy
    s.error = s.flux * 0.01
    s.write(os.path.join(d, 'seds', n + '_sed.fits'))
with open(os.path.join(d, 'models.conf'), 'w') as f:
    f.write("name = test\nlength_subdir = 0\naperture_dependent = no\nlogd_step = 0.05\n")
t = Table()
t['MODEL_NAME'] = np.array(NAMES, dtype='S30')
t['par1'] = np.arange(len(NAMES)) * 10. + 1.
t['par2'] = np.arange(len(NAMES)) * 10. + 2.
t = t[[3, 5, 1, 0, 4, 2]]          # any row order
t.write(os.path.join(d, 'parameters.fits'))

fs = []
for name, lo, hi, cw in [('fa', 1., 2., 1.5), ('fb', 3., 5., 4.), ('fc', 8., 12., 10.), ('fd', 20., 30., 24.)]:
    wav = np.linspace(hi, lo, 40) * u.micron
    f = Filter()
    f.name = name
    f.central_wavelength = cw * u.micron
    f.nu = wav.to(u.Hz, equivalencies=u.spectral())
    f.response = 1. + np.sin(np.linspace(0., 3., 40))
    f.normalize()
    fs.append(f)
quiet(convolve_model_dir, d, fs)

law = Extinction()
law.wav = np.logspace(-2., 3., 60) * u.micron
law.chi = 200. * law.wav.value ** -1.5 * u.cm ** 2 / u.g

fitter = quiet(Fitter, [f.name for f in fs], [3., 3., 3., 3.] * u.arcsec, d,
               extinction_law=law, av_range=[0., 10.])

src = Source()
src.name = 'src'
src.x = 0.
src.y = 0.
src.valid = [1, 1, 1, 1]
src.flux = fitter.models.fluxes[1].to(u.mJy).value * 3.
src.error = src.flux * 0.1
info = fitter.fit(src)


def listings(result, tag):
    a = os.path.join(d, 'wp_' + tag)
    b = os.path.join(d, 'wr_' + tag)
    c = os.path.join(d, 'ex_' + tag + '_')
    write_parameters(result, a, select_format=('N', 3))
    write_parameter_ranges(result, b, select_format=('N', 3))
    extract_parameters(result, output_prefix=c, select_format=('N', 3))
    return open(a).read(), open(b).read(), open(c + 'src').read()


reference = listings(info, 'orig')          # works
print(reference[0])

variants = [('copy.copy', lambda r: copy.copy(r)),
            ('copy.deepcopy', lambda r: copy.deepcopy(r)),
            ('pickle round trip (multiprocessing / pickle.dump)', lambda r: pickle.loads(pickle.dumps(r))),
            ('list of deep copies', lambda r: [copy.deepcopy(r), copy.deepcopy(r)])]

failures = []
for label, make in variants:
    other = make(info)
    one = other[0] if isinstance(other, list) else other
    # it is the same fit result ...
    assert one.source == info.source and np.all(one.model_name == info.model_name) and np.all(one.chi2 == info.chi2) \
        and np.all(one.av == info.av) and np.all(one.sc == info.sc)
    # ... but it cannot be listed
    try:
        got = listings(other, 'v%d' % len(failures))
    except Exception as exc:
        failures.append("%s: %s: %s" % (label, type(exc).__name__, exc))
        continue
    if not isinstance(other, list) and got != reference:
        failures.append("%s: listing differs from the one of the original object" % label)

assert not failures, (
    "C09 (sources given as a single result object or a list of result objects): a copied / pickled FitInfo holds the "
    "same fits but write_parameters / write_parameter_ranges / extract_parameters refuse it, because "
    "FitInfo.__getstate__ drops `meta`: " + " | ".join(failures))
print("no violation")
