"""C07 - 'identically in both package formats' fails for a package directory
whose path contains a glob metacharacter ('[', '*', '?').

convolve_model_dir() on a per-file package lists the SED files with
glob.glob(model_dir + '/seds/*.fits') without escaping model_dir.  With a
directory called e.g. 'models[v1]' the pattern matches nothing and the
convolution is refused ("No SEDs found"), although the very same SEDs stored
as a cube package in a sibling directory are convolved fine.  With '*' or '?'
in the name the pattern can instead pick up the SED files of *other*
packages.
"""
import contextlib
import io
import os
import sys
import tempfile

import numpy as np
from astropy import units as u
from astropy.table import Table

from sedfitter.sed import SED, SEDCube
from sedfitter.filter import Filter
from sedfitter.convolve import convolve_model_dir
from sedfitter.convolved_fluxes import ConvolvedFluxes


def conf(d, version=None):
    with open(os.path.join(d, 'models.conf'), 'w') as f:
        f.write("name = test\nlength_subdir = 0\naperture_dependent = no\nlogd_step = 0.02\n")
        if version:
            f.write("version = %d\n" % version)


base = tempfile.mkdtemp()
root = os.path.join(base, 'models[v1]')      # a perfectly legal directory name
d1 = os.path.join(root, 'perfile')
d2 = os.path.join(root, 'cube')
os.makedirs(os.path.join(d1, 'seds'))
os.makedirs(d2)

names = np.array(['model_b', 'model_a', 'model_c'])
wav = np.logspace(0., 2., 20)
rng = np.random.RandomState(1)
val = 1. + rng.rand(3, 1, 20)
unc = 0.1 * rng.rand(3, 1, 20)
aps = [100.] * u.au

for i in range(3):
    s = SED()
    s.name = names[i]
    s.distance = 1. * u.kpc
    s.wav = wav * u.micron
    s.apertures = aps
    s.flux = val[i] * u.mJy
    s.error = unc[i] * u.mJy
    s.write(os.path.join(d1, 'seds', names[i] + '_sed.fits'))
conf(d1)
t = Table()
t['MODEL_NAME'] = np.array(names, dtype='S30')
t['par1'] = [1., 2., 3.]
t.write(os.path.join(d1, 'parameters.fits'))

cube = SEDCube(names=names, distance=1. * u.kpc, wav=wav * u.micron,
               apertures=aps, val=val * u.mJy, unc=unc * u.mJy)
cube.write(os.path.join(d2, 'flux.fits'))
conf(d2, 2)
t.write(os.path.join(d2, 'parameters.fits'))

f = Filter()
f.name = 'F'
fw = np.linspace(3., 8., 11)
f.nu = (fw * u.micron).to(u.Hz, equivalencies=u.spectral())
f.response = np.ones(11)
f.central_wavelength = 5. * u.micron
f.normalize()

with contextlib.redirect_stdout(io.StringIO()), contextlib.redirect_stderr(io.StringIO()):
    convolve_model_dir(d2, [f], memmap=False)
c2 = ConvolvedFluxes.read(os.path.join(d2, 'convolved', 'F.fits'))

error = None
try:
    with contextlib.redirect_stdout(io.StringIO()), contextlib.redirect_stderr(io.StringIO()):
        convolve_model_dir(d1, [f])
except Exception as exc:
    error = exc

assert error is None, (
    "C07 violated (clause 'a per-file package and a cube package built from the "
    "same SEDs produce the same fluxes and errors'): for the package directory %r "
    "the cube package is convolved (fluxes %s) but the per-file package with the "
    "same 3 SEDs is refused with %s: %s  [model_dir is pasted un-escaped into "
    "glob.glob()]" % (root, c2.flux.value.ravel(), type(error).__name__, error))

c1 = ConvolvedFluxes.read(os.path.join(d1, 'convolved', 'F.fits'))
np.testing.assert_allclose(c1.flux.value, c2.flux.value, rtol=1e-10)
np.testing.assert_allclose(c1.error.value, c2.error.value, rtol=1e-10)
print("no violation")
