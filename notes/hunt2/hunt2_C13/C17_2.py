"""
C17 (LOW CONFIDENCE - may be judged a mis-declared package): "at each fitted
monochromatic wavelength the curve drawn for that filter's aperture (the single
composite curve in the default display mode) passes through the predicted flux
stored with the fit", for "single- and multi-aperture packages".

A multi-aperture cube package whose models.conf says `aperture_dependent = no`
is fitted with the fluxes of the SMALLEST tabulated aperture (conv.flux[:, 0] in
Models._read_version_2), whatever the apertures of the data are.  plot() does not
look at that switch: it interpolates the model SED to aperture_arcsec * distance
as for an aperture-dependent package.  The curve therefore misses the predicted
fluxes stored with the fit by a large factor (or plot() raises "Aperture(s)
requested too small" when the apertures at the fitted distance fall below the
table, although the fit itself succeeded).
"""
import os, sys, tempfile, io, contextlib
import numpy as np
import matplotlib
matplotlib.use('Agg')
from astropy import units as u

# ---- helper: a small cube package built with the public API ----
import os
import numpy as np
from astropy import units as u
from astropy.table import Table
from sedfitter.sed import SEDCube
from sedfitter.extinction import Extinction


def make_pkg(d, n_models=4, n_ap=5, n_wav=12, aperture_dependent=True, seed=1):
    rng = np.random.RandomState(seed)
    cube = SEDCube()
    cube.names = np.array(['m_%02d' % i for i in range(n_models)])
    cube.distance = 1 * u.kpc
    cube.wav = np.logspace(-1, 3, n_wav) * u.micron
    cube.apertures = np.logspace(2, 5, n_ap) * u.au
    cube.val = np.cumsum(0.5 + rng.random_sample((n_models, n_ap, n_wav)), axis=1) * u.mJy
    cube.unc = cube.val * 0.01
    cube.write(os.path.join(d, 'flux.fits'))
    with open(os.path.join(d, 'models.conf'), 'w') as f:
        f.write("name = test\nlength_subdir = 0\naperture_dependent = %s\nlogd_step = 0.02\nversion = 2\n"
                % ('yes' if aperture_dependent else 'no'))
    t = Table()
    t['MODEL_NAME'] = np.array(cube.names, dtype='S')
    t['par1'] = rng.random_sample(n_models)
    t.write(os.path.join(d, 'parameters.fits'))
    return cube


def law():
    e = Extinction()
    e.wav = np.logspace(-2., 4., 80) * u.micron
    e.chi = e.wav.value ** -1.5 * 200. * u.cm ** 2 / u.g
    return e

# ratio (drawn curve) / (stored prediction) that the rounded constants of plot.py produce
CONST = (3.0856775814913673e21 / 3.086e21) ** 2 * (2.99792458e8 / 3.e8)
# ---- end of helper ----

from sedfitter.fit import Fitter
from sedfitter.source import Source
from sedfitter import plot

d = tempfile.mkdtemp()
with contextlib.redirect_stdout(io.StringIO()):
    cube = make_pkg(d, n_ap=4, aperture_dependent=False)
    wavs = cube.wav.to(u.micron).value
    fitter = Fitter([wavs[3] * u.micron, wavs[6] * u.micron, wavs[9] * u.micron], [200., 500., 900.] * u.arcsec, d,
                    extinction_law=law(), av_range=[0., 5.], distance_range=[0.5, 3.] * u.kpc, use_memmap=False)
s = Source()
s.name = 'src'; s.x = 0.; s.y = 0.
s.valid = [1, 1, 1]; s.flux = np.array([3., 4., 5.]); s.error = s.flux * 0.1
info = fitter.fit(s)

wav = np.array([f['wav'].to(u.micron).value for f in fitter.filters])
pred = 10. ** (info.model_fluxes - 26. + np.log10(3.e8 / (wav * 1.e-6)))

figs = plot(info, select_format=('N', 1), sed_type='interp', memmap=False)
seg = figs['src']['lines'].get_segments()[0]
drawn = np.array([seg[np.argmin(np.abs(seg[:, 0] - w)), 1] for w in wav])
ratio = drawn / pred[0] / CONST
assert np.allclose(ratio, 1., rtol=1e-6), \
    ("C17 (curve passes through the predicted fluxes): multi-aperture cube package with aperture_dependent = no, "
     "filters at tabulated wavelengths %s micron, apertures 200/500/900 arcsec: best fit %s (A_V=%.3f, scale=%.3f) "
     "is drawn at %s but the fluxes stored with the fit are %s, ratio %s (after allowing for the rounded constants)"
     % (wav, info.model_name[0], info.av[0], info.sc[0], drawn, pred[0], ratio))
print("no violation")
