(* GridGuard — the number of trial distances as the code computes it since the repair F64:
     n = ceil(1 + log10(dmax/dmin)/step - 1e-10)
   The guard g absorbs the rounding of L/step when it is a whole number; this file says what it costs: n is the exact count
   (Grid.ndist) or one less, never coarser than the step by more than the relative g/(n-1), and never finer than necessary. *)
From Coq Require Import QArith Lqa Lia ZArith Qround.
From SedV Require Import Grid.
Open Scope Q_scope.

Definition ndist_g (g L step : Q) : Z := Qceiling (1 + L / step - g).

Lemma Qceiling_le_Z (y : Q) (z : Z) : y <= inject_Z z -> (Qceiling y <= z)%Z.
Proof. intro H. rewrite <- (Qceiling_Z z). apply Qceiling_resp_le. exact H. Qed.

Theorem ndist_g_near g L step : 0 <= g -> g < 1 ->
  ndist_g g L step = ndist L step \/ ndist_g g L step = (ndist L step - 1)%Z.
Proof.
  intros G0 G1. unfold ndist_g, ndist. set (x := 1 + L / step).
  destruct (Qceiling_bounds x) as [M1 M2]. destruct (Qceiling_bounds (x - g)) as [N1 N2].
  set (m := Qceiling x) in *. set (n := Qceiling (x - g)) in *.
  assert (A : (n <= m)%Z) by (apply Qceiling_le_Z; lra).
  assert (B : (m <= n + 1)%Z).
  { apply Qceiling_le_Z. rewrite inject_Z_plus. change (inject_Z 1) with 1. lra. }
  lia.
Qed.

Theorem C02_grid_guard_lemma g L step : 0 <= g -> 0 < L -> 0 < step -> g < L / step ->
  let n := ndist_g g L step in
  (2 <= n)%Z /\
  L / (inject_Z n - 1) <= step * (1 + g / (inject_Z n - 1)) /\
  ((2 < n)%Z -> step < L / (inject_Z n - 2)).
Proof.
  intros G0 HL Hs Hg n.
  destruct (Qceiling_bounds (1 + L / step - g)) as [B1 B2]. fold (ndist_g g L step) in B1, B2. fold n in B1, B2.
  assert (Hn : 1 < inject_Z n) by lra.
  assert (Hn2 : (2 <= n)%Z).
  { destruct (Z_lt_le_dec n 2) as [Hlt|Hge]; [|exact Hge].
    exfalso. assert (X : (n <= 1)%Z) by lia. rewrite Zle_Qle in X. change (inject_Z 1) with 1 in X. lra. }
  split; [exact Hn2|]. split.
  - apply Qle_shift_div_r; [lra|].
    assert (Q1 : L / step <= inject_Z n - 1 + g) by lra.
    assert (E : L == (L / step) * step) by (field; lra).
    assert (E2 : step * (1 + g / (inject_Z n - 1)) * (inject_Z n - 1) == (inject_Z n - 1 + g) * step) by (field; lra).
    rewrite E2, E at 1. apply Qmult_le_compat_r; lra.
  - intros H3. assert (X : (3 <= n)%Z) by lia. rewrite Zle_Qle in X. change (inject_Z 3) with 3 in X.
    apply Qlt_shift_div_l; [lra|].
    assert (inject_Z n - 2 < L / step) by lra.
    assert (E : L == (L / step) * step) by (field; lra).
    rewrite E. rewrite (Qmult_comm step). apply Qmult_lt_compat_r; lra.
Qed.

(* one decade at step 1/2, guard 1e-10: three trial distances (the count the unrepaired code got wrong by rounding) *)
Example ndist_g_example : ndist_g (1 # 10000000000) 1 (1 # 2) = 3%Z /\ ndist 1 (1 # 2) = 3%Z.
Proof. split; vm_compute; reflexivity. Qed.
