"""C06, clause 'flux errors combine in quadrature with the same R_i' (cube packages).

A cube package whose flux.fits stores the values as 32-bit floats (the usual
storage of the published cube packages) is convolved with (a) a filter that is
not normalised and (b) a normalised filter.  Every input value and every
expected output is comfortably inside the float32 range, and the output table
is float64, but _convolve_model_dir_2 casts R_i to float32 and squares
(unc_i * R_i) in float32: the square overflows to inf / underflows to 0.
The convolved *flux* of the same models is right, only the error is lost.
Happens with memmap=True and memmap=False alike.
"""
import os
import sys
import tempfile

import numpy as np
from astropy import units as u
from astropy.table import Table

from sedfitter.sed import SEDCube
from sedfitter.filter import Filter
from sedfitter.convolve import convolve_model_dir
from sedfitter.convolved_fluxes import ConvolvedFluxes

d = tempfile.mkdtemp()

nu = np.linspace(1e13, 3e13, 21)
cube = SEDCube()
cube.names = np.array(['bright', 'faint'])
cube.distance = 1 * u.kpc
cube.nu = nu * u.Hz
cube.apertures = None
val = np.ones((2, 1, 21), dtype=np.float32)
unc = np.ones((2, 1, 21), dtype=np.float32)
val[0] *= 1e9     # mJy  (10^6 Jy at 1 kpc: a luminous source)
unc[0] *= 1e8
val[1] *= 1e-20   # mJy
unc[1] *= 1e-24
cube.val = val * u.mJy
cube.unc = unc * u.mJy
cube.write(os.path.join(d, 'flux.fits'))

with open(os.path.join(d, 'models.conf'), 'w') as f:
    f.write("name = test\nlength_subdir = 0\naperture_dependent = no\nlogd_step = 0.02\nversion = 2\n")

t = Table()
t['MODEL_NAME'] = np.array(cube.names, dtype='S')
t['par1'] = [1., 2.]
t.write(os.path.join(d, 'parameters.fits'))

fnu = np.array([1.5e13, 1.6e13, 2.4e13, 2.5e13]) * u.Hz
raw = Filter(name='raw', central_wavelength=15 * u.micron, nu=fnu, response=np.array([0., 1., 1., 0.]))
norm = Filter(name='norm', central_wavelength=15 * u.micron, nu=fnu, response=np.array([0., 1., 1., 0.]))
norm.normalize()

problems = []
for memmap in (True, False):
    convolve_model_dir(d, [raw, norm], overwrite=True, memmap=memmap)
    for filt in (raw, norm):
        R = filt.rebin(cube.nu).response          # the R_i of the statement (float64)
        got = ConvolvedFluxes.read(os.path.join(d, 'convolved', filt.name + '.fits'))
        for im in range(2):
            f_exp = np.sum(val[im, 0].astype(float) * R)
            e_exp = np.sqrt(np.sum((unc[im, 0].astype(float) * R) ** 2))
            f_got = got.flux[im, 0].to(u.mJy).value
            e_got = got.error[im, 0].to(u.mJy).value
            assert abs(f_got - f_exp) <= 1e-5 * f_exp, "flux itself is wrong?!"
            assert 1e-37 < e_exp < 1e37      # expected value is a normal float32 number
            if not abs(e_got - e_exp) <= 1e-5 * e_exp:
                problems.append("memmap=%s filter=%s model=%s: error=%r, expected sqrt(sum((unc_i R_i)^2))=%r (flux %r is right)"
                                % (memmap, filt.name, cube.names[im], e_got, e_exp, f_got))

if problems:
    print("\n".join(problems))
    raise AssertionError("C06 'errors combine in quadrature with the same R_i' violated for a float32 cube: "
                         "the squares are formed in float32 and overflow to inf / underflow to 0 although inputs "
                         "and expected outputs are ordinary float32 numbers:\n" + "\n".join(problems))
print("no violation")
