"""
C02 violation: a distance range whose lower end puts theta*dmin exactly ON the
smallest tabulated aperture is refused ("Aperture(s) requested too small"),
because the first point of the trial-distance grid is not dmin.

The grid is np.logspace(log10(dmin), log10(dmax), n).  For many dmin (8 kpc is
one: 10**log10(8.) == 7.999999999999999) the first grid point lies one ulp
BELOW the requested dmin, so
   * the grid does not include the lower end of the requested range, and
   * the aperture theta*d[0] = 7999.999999999999 AU is "smaller" than the
     smallest tabulated aperture (8000 AU) and ConvolvedFluxes.interpolate
     raises, although the statement promises a result for every range "with
     theta*dmin not below the smallest aperture".

The rounding itself is tiny, but the consequence is discrete: the whole fit is
refused.  dmin == dmax == 8 kpc (no logspace) and dmin = 8.000001 kpc are both
accepted, which shows the package and the call are legal.
"""
import contextlib
import io
import os
import sys
import tempfile

import numpy as np
from astropy import units as u

from sedfitter.convolved_fluxes import ConvolvedFluxes
from sedfitter.extinction import Extinction
from sedfitter.fit import Fitter
from sedfitter.source import Source


def quiet(func, *args, **kwargs):
    with contextlib.redirect_stdout(io.StringIO()):
        return func(*args, **kwargs)


tmp = tempfile.mkdtemp()
os.mkdir(os.path.join(tmp, 'convolved'))
names = np.array(['m1', 'm2', 'm3'])
apertures_tab = np.array([8000., 20000., 50000.]) * u.au       # 3 tabulated apertures
wavs = [1.25, 8.0]
flux = np.array([[[1.0, 2.0], [1.5, 2.5], [1.7, 3.5]],
                 [[0.3, 0.9], [0.6, 1.4], [0.8, 1.5]],
                 [[5.0, 1.0], [6.0, 3.0], [6.5, 4.0]]])          # (model, aperture, band)
for i, w in enumerate(wavs):
    c = ConvolvedFluxes()
    c.model_names = names
    c.central_wavelength = w * u.micron
    c.apertures = apertures_tab
    c.flux = flux[:, :, i] * u.mJy
    c.error = flux[:, :, i] * 0. * u.mJy
    c.write(os.path.join(tmp, 'convolved', 'B%d.fits' % i))
with open(os.path.join(tmp, 'models.conf'), 'w') as f:
    f.write("name = test\nlength_subdir = 0\naperture_dependent = yes\nlogd_step = 0.1\n")

ext = Extinction()
ext.wav = np.logspace(-1, 2, 40) * u.micron
ext.chi = 200. * ext.wav.value ** -1.7 * u.cm ** 2 / u.g

theta = [1., 1.] * u.arcsec      # 1 arcsec x 8 kpc = 8000 AU = smallest tabulated aperture (exactly)

src = Source()
src.name = 'src'
src.valid = [1, 1]
src.flux = [0.01, 0.03]
src.error = [0.001, 0.003]


def run(distance_range):
    fitter = quiet(Fitter, ['B0', 'B1'], theta, tmp, extinction_law=ext,
                   av_range=[0., 10.], distance_range=distance_range)
    info = fitter.fit(src)
    return fitter, info


# Controls: same package, same apertures, legal and accepted
fitter, info = run([8., 8.] * u.kpc)
print("dmin = dmax = 8 kpc       : accepted, grid =", fitter.models.distances)
fitter, info = run([8.000001, 16.] * u.kpc)
print("range [8.000001, 16] kpc  : accepted, %d distances" % fitter.models.n_distances)

# The case inside the quantifier: theta*dmin == smallest aperture (not below it)
dmin, dmax = 8., 16.
assert theta[0].value * dmin * 1000. == apertures_tab[0].value
print("first point of the code's grid: %r (requested dmin = %r)"
      % (np.logspace(np.log10(dmin), np.log10(dmax), 5)[0], dmin))
try:
    fitter, info = run([dmin, dmax] * u.kpc)
except Exception as exc:
    print()
    print("C02 VIOLATED: distance_range = [8, 16] kpc with 1 arcsec apertures and a smallest "
          "tabulated aperture of 8000 AU (theta*dmin == smallest aperture, which the statement allows) "
          "is refused: %s: %s" % (type(exc).__name__, exc))
    sys.exit("C02 violated: trial-distance grid starts one ulp below dmin (does not include the requested "
             "lower end) and the fit is refused with 'Aperture(s) requested too small' although "
             "theta*dmin is not below the smallest tabulated aperture")

assert fitter.models.distances[0].value == dmin, "grid does not start at dmin"
print("C02 holds on this input")
