From Coq Require Import QArith Lqa Lia List Bool ZArith Qround.
Import ListNotations.
Open Scope Q_scope.

(* n = ceil(1 + L/step) ; grid of n points from lo to hi = lo + L *)
Definition ndist (L step : Q) : Z := Qceiling (1 + L / step).

Lemma Qceiling_bounds (x : Q) : inject_Z (Qceiling x) - 1 < x /\ x <= inject_Z (Qceiling x).
Proof.
  split; [|apply Qle_ceiling].
  pose proof (Qceiling_lt x) as H. unfold Z.sub in H. rewrite inject_Z_plus, inject_Z_opp in H.
  change (inject_Z 1) with 1 in H. lra.
Qed.

Theorem C02_grid L step : 0 < L -> 0 < step ->
  let n := ndist L step in
  (2 <= n)%Z /\
  L / (inject_Z n - 1) <= step /\                                (* spacing fine enough *)
  ((2 < n)%Z -> step < L / (inject_Z n - 2)).                     (* one point fewer would be too coarse *)
Proof.
  intros HL Hs n.
  destruct (Qceiling_bounds (1 + L / step)) as [B1 B2]. fold (ndist L step) in B1, B2. fold n in B1, B2.
  assert (Hq : 0 < L / step) by (apply Qlt_shift_div_l; lra).
  assert (Hn : 1 < inject_Z n) by lra.
  assert (Hn2 : (2 <= n)%Z).
  { destruct (Z_lt_le_dec n 2) as [Hlt|Hge]; [|exact Hge].
    exfalso. assert (X : (n <= 1)%Z) by lia. rewrite Zle_Qle in X. change (inject_Z 1) with 1 in X. change (inject_Z 3) with 3 in X. lra. }
  split; [exact Hn2|]. split.
  - apply Qle_shift_div_r; [lra|].
    assert (L / step <= inject_Z n - 1) by lra.
    assert (E : L == (L / step) * step) by (field; lra).
    rewrite E at 1. rewrite (Qmult_comm step). apply Qmult_le_compat_r; lra.
  - intros H3. assert (X : (3 <= n)%Z) by lia. rewrite Zle_Qle in X. change (inject_Z 1) with 1 in X. change (inject_Z 3) with 3 in X.
    apply Qlt_shift_div_l; [lra|].
    assert (inject_Z n - 2 < L / step) by lra.
    assert (E : L == (L / step) * step) by (field; lra).
    rewrite E. rewrite (Qmult_comm step). apply Qmult_lt_compat_r; lra.
Qed.
Print Assumptions C02_grid.

(* np.linspace(lo, hi, n) for n >= 2 : the log-distances of the trial grid *)
Definition gridlog_m (lo hi : Q) (n : nat) : list Q :=
  map (fun i => lo + inject_Z (Z.of_nat i) * ((hi - lo) / (inject_Z (Z.of_nat n) - 1))) (seq 0 n).

Lemma gridlog_length lo hi n : length (gridlog_m lo hi n) = n.
Proof. unfold gridlog_m. now rewrite map_length, seq_length. Qed.

Lemma gridlog_nth lo hi n i : (i < n)%nat ->
  nth i (gridlog_m lo hi n) 0 = lo + inject_Z (Z.of_nat i) * ((hi - lo) / (inject_Z (Z.of_nat n) - 1)).
Proof.
  intros H. unfold gridlog_m.
  set (f := fun i : nat => lo + inject_Z (Z.of_nat i) * ((hi - lo) / (inject_Z (Z.of_nat n) - 1))).
  rewrite (nth_indep _ 0 (f 0%nat)) by (rewrite map_length, seq_length; exact H).
  rewrite map_nth, seq_nth by exact H. reflexivity.
Qed.

(* both ends of the requested range are on the grid and the spacing is uniform *)
Theorem C02_grid_ends lo hi n : (2 <= n)%nat ->
  nth 0 (gridlog_m lo hi n) 0 == lo /\ nth (n - 1) (gridlog_m lo hi n) 0 == hi /\
  forall i, (S i < n)%nat -> nth (S i) (gridlog_m lo hi n) 0 - nth i (gridlog_m lo hi n) 0 == (hi - lo) / (inject_Z (Z.of_nat n) - 1).
Proof.
  intros Hn.
  assert (Hd : ~ inject_Z (Z.of_nat n) - 1 == 0).
  { assert (X : (2 <= Z.of_nat n)%Z) by lia. rewrite Zle_Qle in X. change (inject_Z 2) with 2 in X. lra. }
  repeat split.
  - rewrite gridlog_nth by lia. simpl. ring.
  - rewrite gridlog_nth by lia. replace (Z.of_nat (n - 1)) with (Z.of_nat n - 1)%Z by lia.
    unfold Z.sub. rewrite inject_Z_plus, inject_Z_opp. change (inject_Z 1) with 1. field. exact Hd.
  - intros i Hi. rewrite !gridlog_nth by lia. replace (Z.of_nat (S i)) with (Z.of_nat i + 1)%Z by lia.
    rewrite inject_Z_plus. change (inject_Z 1) with 1. field. exact Hd.
Qed.
