"""C13 — ConvolvedFluxes.interpolate / SED.interpolate / SED.interpolate_variable against FitModel.interp_clamp_m,
ApertureM.sed_interp_var_m and the knot / linear / clamp / refuse clauses."""
import math
from fractions import Fraction

from common import Rng, F, close

PROP = 'C13'
MODEL_OPS = 'FitModel.interp_clamp_m, ApertureM.sed_interp_var_m (aperture_at)'
RULE = ('tables with 1-8 increasing apertures and 1-6 models (SEDs: 2-10 wavelengths); requests inside, exactly on tabulated radii (incl. both ends), above and below the '
        'table; for ConvolvedFluxes.interpolate as quantities in the table\'s unit (AU or pc) or in pc / cm / km; for SED.interpolate as quantities and as bare AU numbers '
        '(what plot() passes); for SED.interpolate_variable bare AU apertures per filter wavelength, incl. apertures beyond the table. '
        'non-trivial = a multi-aperture table with at least one request strictly between two radii.')
EXHAUSTIVE = {'quick': False, 'thorough': False}
ASSUMPTIONS = ['interp1d is an exact piecewise-linear interpolant up to rounding (tolerance 1e-9)',
               'requests converted from another unit that land within 1e-12 of a table end are compared only on the value, not on refused / accepted (near-tie filter)',
               '10**log10(x) = x up to rounding at the filter apertures (tolerance 1e-7 for the variable variant)']

LEN = {'AU': 1.0, 'pc': 206264.80624709636, 'cm': 6.684587122268446e-14, 'km': 6.684587122268445e-09, 'kpc': 206264806.24709636, 'Mpc': 206264806247.09637}    # in AU


def generate(tier, seed):
    rng = Rng(seed * 141650939 + 13)
    cases = []
    for k in range(300 if tier == 'quick' else 5000):
        kind = ['conv', 'conv', 'sed', 'var'][k % 4]
        nap = rng.choice([1, 2, 2, 3, 5, 8])
        aps = sorted(set(rng.logdyadic(10.0, 1e5, 10) for _ in range(nap * 2)))[:nap]
        if kind == 'conv' and rng.random() < 0.4:      # arbitrary doubles: unit round trips are not exact on these
            aps = sorted(set(10 ** rng.uniform(1, 5) for _ in range(nap)))
        nap = len(aps)
        nm = rng.randint(1, 6) if kind == 'conv' else 1
        nw = 1 if kind == 'conv' else rng.randint(2, 10)
        val = [[[rng.logdyadic(0.01, 100.0, 10) for _ in range(nw)] for _ in range(nap)] for _ in range(nm)]
        lo, hi = aps[0], aps[-1]
        req = []
        for _ in range(rng.randint(2, 7)):
            u = rng.random()
            if u < 0.4 and nap > 1:
                req.append(rng.dyadic(lo, hi, 14))
            elif u < 0.6:
                req.append(rng.choice(aps))
            elif u < 0.8:
                req.append(hi * rng.choice([1.5, 4.0, 100.0]))
            else:
                req.append(rng.choice(aps))
        below = rng.random() < 0.15
        if below:
            req.append(lo * rng.choice([0.5, 0.99]))
        tunit = rng.choice(['AU', 'AU', 'pc']) if kind == 'conv' else 'AU'
        runit = rng.choice(['table', 'table', 'pc', 'cm', 'km', 'kpc', 'Mpc']) if kind == 'conv' else rng.choice(['bare', 'bare', 'AU', 'pc'])
        c = dict(kind=kind, aps=aps, val=val, req=req, tunit=tunit, runit=runit, below=below)
        if kind == 'conv' and k % 10 == 7 and nap > 1:
            # a radius a little below the smallest tabulated one, written in kpc or Mpc (where a tolerance of 1e-8 taken in the unit of
            # the request is thousands of AU): it must be refused (seed C13_m)
            c['tunit'], c['runit'], c['below'] = 'AU', rng.choice(['kpc', 'Mpc']), True
            c['req'] = list(c['req']) + [lo * 0.99]
        if kind == 'conv' and k % 6 == 1 and nap > 1:
            # the request array in single precision or as whole numbers (the values are what the array holds); the table's largest
            # aperture is neither a whole number nor a single-precision number
            import numpy as np
            c['tunit'] = c['runit'] = 'AU'
            c['runit'] = 'table'
            aps[-1] = aps[-1] * (1 + 2.0 ** -30) + 0.3
            hi = aps[-1]
            c['rdtype'] = rng.choice(['float32', 'int'])
            c['req'] = [float(np.float32(x)) if c['rdtype'] == 'float32' else float(math.ceil(x)) for x in c['req']]
            # a request meant to be ON the smallest aperture may round to just below it in single precision; the code accepts what
            # equals the smallest aperture up to 1e-10 (F22), so whether 3e-11 below is "below" is not for this check to decide:
            # such a request is moved to the next single-precision number above the aperture
            c['req'] = [float(np.nextafter(np.float32(lo), np.float32(np.inf))) if lo * (1 - 1e-6) < x < lo else x for x in c['req']]
            c['below'] = any(x < lo for x in c['req'])
        if kind == 'conv' and k % 5 == 2:
            c['history'] = True
        if nap > 1 and not c.get('rdtype') and ((kind == 'conv' and k % 7 == 4) or (kind != 'conv' and k % 3 == 0)):
            # the table of apertures stored in single precision in cm or pc (as in files read from disk), requests in AU: every
            # tabulated aperture is a single-precision number of that unit, and `aps` holds their exact values in AU
            import numpy as np
            un = rng.choice(['cm', 'cm', 'pc'])
            new = [float(np.float32(a / LEN[un])) * LEN[un] for a in aps]
            if len(set(new)) == len(new):
                mp = dict(zip(aps, new))
                c['aps'] = new
                c['req'] = [mp.get(x, x) for x in c['req']]
                c['tdtype'] = 'float32'
                if kind == 'conv':
                    c['tunit'], c['runit'] = un, rng.choice(['AU', 'AU', 'table'])
                else:
                    c['sunit'] = un
                    if rng.random() < 0.5:
                        # ... and the request a single-precision quantity in that unit too (every requested radius is a single-precision
                        # number of it; the tabulated ones among them are exactly the tabulated values)
                        c['runit'], c['rdtype32'] = un, True
                        c['req'] = [float(np.float32(x / LEN[un])) * LEN[un] for x in c['req']]
                aps, lo, hi = new, new[0], new[-1]
        if kind in ('sed', 'var'):
            su = rng.choice(['AU', 'AU', 'pc', 'cm'])            # unit in which the SED stores its apertures
            c['sunit'] = c.get('sunit', su)
            c['both'] = nap > 1 and rng.random() < 0.5                  # the other interpolation method is called on the same SED object first
        if kind == 'conv' and nap > 1 and not below and k % 8 == 5:
            # the SAME request object is then passed to a second table that reaches further out
            c['twice'] = dict(ap=hi * 1000.0, val=[rng.logdyadic(0.01, 100.0, 10) for _ in range(nm)])
        if kind == 'var':
            nf = rng.randint(1, 5)
            fw = sorted(set(rng.dyadic(0.5, 50.0, 8) for _ in range(nf * 2)))[:nf]
            c['fwav'] = fw
            c['fap'] = [rng.choice([rng.dyadic(lo, hi, 12) if nap > 1 else lo, rng.choice(aps), hi * 3.0]) for _ in fw]
            if below:
                c['fap'][0] = lo * 0.5
            if c.get('rdtype32'):
                import numpy as np
                c['fap'] = [float(np.float32(x / LEN[c['runit']])) * LEN[c['runit']] for x in c['fap']]
            if k % 16 == 3:       # whole-number radii handed over as an integer array (bare numbers are AU)
                c['fap'] = [float(math.ceil(a)) for a in c['fap']]
                c['fap_int'] = True
            # SED wavelengths: include every filter wavelength plus others
            wav = sorted(set(fw + [rng.dyadic(0.2, 100.0, 8) for _ in range(max(0, nw - len(fw)))]))
            c['wav'] = wav
            c['val'] = [[[rng.logdyadic(0.01, 100.0, 10) for _ in wav] for _ in range(nap)]]
            sh = list(fw)
            rng.shuffle(sh)
            c['forder'] = [c['fwav'].index(x) for x in sh]    # filters are not given in wavelength order
        # requests drawn on a dyadic grid, or rounded to single precision, can land a hair below the smallest aperture of the final
        # table: within 1e-6 they are put ON it (whether 1e-11 below is "below" is a matter of the code's 1e-10 tolerance, F22, not
        # of this check); anything further below is a request that must be refused
        lo_f = c['aps'][0]
        key = 'fap' if kind == 'var' else 'req'
        if not c.get('rdtype'):
            c[key] = [lo_f if lo_f * (1 - 1e-6) < x < lo_f else x for x in c[key]]
        if len(c['aps']) > 1 and any(x < lo_f for x in c[key]):
            c['below'] = True
        cases.append(c)
    return cases


def impl(case):
    import numpy as np
    from astropy import units as u
    aps = np.array(case['aps'])
    if case['kind'] == 'conv':
        from sedfitter.convolved_fluxes import ConvolvedFluxes
        tu = u.Unit(case['tunit'])
        flux = np.array([[m[a][0] for a in range(len(aps))] for m in case['val']])
        c = ConvolvedFluxes(wavelength=2.0 * u.micron, model_names=np.array(['m%d' % i for i in range(len(case['val']))]),
                            apertures=None if len(aps) == 1 and case.get('noap') else ((aps / LEN[case['tunit']]).astype(np.float32) if case.get('tdtype') == 'float32' else (aps / LEN[case['tunit']])) * tu,
                            flux=flux * u.mJy, error=flux * 0.25 * u.mJy)
        ru = tu if case['runit'] == 'table' else u.Unit(case['runit'])
        req = (np.array(case['req']) / LEN[str(ru)]) * ru
        if case.get('rdtype'):
            req = u.Quantity(np.array(case['req']).astype({'float32': np.float32, 'int': int}[case['rdtype']]), ru, dtype={'float32': np.float32, 'int': int}[case['rdtype']])
        if case.get('history') and len(aps) > 1:
            # the same object held another table before (rows reversed, three times brighter) and was interpolated in that state;
            # fluxes and errors were then assigned anew (the apertures were not)
            c.flux = flux[::-1] * 3.0 * u.mJy
            c.error = flux[::-1] * 0.5 * u.mJy
            try:
                c.interpolate((np.array([float(aps[0]), float(aps[-1])]) / LEN[case['tunit']]) * tu)
            except Exception:
                pass
            c.flux = flux * u.mJy
            c.error = flux * 0.25 * u.mJy
        r = c.interpolate(req)
        out = dict(flux=[[float(x) for x in row] for row in r.flux.to(u.mJy).value], error=[[float(x) for x in row] for row in r.error.to(u.mJy).value],
                   names=[str(x) for x in r.model_names], wav=float(r.central_wavelength.to(u.micron).value),
                   out_aps=[float(x) for x in r.apertures.to(u.au).value])
        if case.get('twice'):
            aps2 = np.array(list(case['aps']) + [case['twice']['ap']])
            flux2 = np.array([list(row) + [v] for row, v in zip(flux, case['twice']['val'])])
            c2 = ConvolvedFluxes(wavelength=2.0 * u.micron, model_names=np.array(['m%d' % i for i in range(len(case['val']))]),
                                 apertures=(aps2 / LEN[case['tunit']]) * tu, flux=flux2 * u.mJy, error=flux2 * 0.25 * u.mJy)
            r2 = c2.interpolate(req)
            out['flux2'] = [[float(x) for x in row] for row in r2.flux.to(u.mJy).value]
        return out
    from sedfitter.sed import SED
    s = SED()
    s.name = 'x'
    s.distance = 1.0 * u.kpc
    wav = case.get('wav') or [1.0 + i for i in range(len(case['val'][0][0]))]
    s.wav = np.array(wav) * u.micron
    s.nu = s.wav.to(u.Hz, equivalencies=u.spectral())
    su = case.get('sunit', 'AU')
    s.apertures = ((aps / LEN[su]).astype(np.float32) if case.get('tdtype') == 'float32' else (aps / LEN[su])) * u.Unit(su)
    s.flux = np.array(case['val'][0]) * u.mJy
    s.error = s.flux * 0.25
    if case.get('both') and len(aps) > 1:
        try:
            if case['kind'] == 'sed':
                s.interpolate_variable(np.array([float(wav[0]), float(wav[-1])]) if wav[0] < wav[-1] else np.array([float(wav[-1]), float(wav[0])]), np.array([float(aps[0]), float(aps[-1])]))
            else:
                s.interpolate(np.array([float(aps[0]), float(aps[-1])]))
        except Exception:
            pass        # the call under test is the next one
    if case['kind'] == 'sed':
        if case['runit'] == 'bare':
            req = np.array(case['req'])
        else:
            ru = u.Unit(case['runit'])
            req = (np.array(case['req']) / LEN[case['runit']]) * ru
            if case.get('rdtype32'):
                req = req.astype(np.float32)
        r = s.interpolate(req)
        r = r.value if hasattr(r, 'value') else r
        return dict(flux=[[float(x) for x in row] for row in np.asarray(r)])     # (n_wav, n_requests)
    fw = np.array([case['fwav'][i] for i in case['forder']])
    fa = np.array([case['fap'][i] for i in case['forder']])
    if case.get('fap_int'):
        fa = fa.astype(int)
    elif case['runit'] != 'bare':       # the radii handed over as a quantity, in AU or another length unit
        fa = (fa / LEN[case['runit']]) * u.Unit(case['runit'])
        if case.get('rdtype32'):
            fa = fa.astype(np.float32)
    r = s.interpolate_variable(fw, fa)
    r = r.value if hasattr(r, 'value') else r
    return dict(flux=[float(x) for x in np.asarray(r)])


def model_requests(case):
    aps = case['aps']
    if case['kind'] in ('conv', 'sed'):
        reqs = []
        for m in case['val']:
            for k in range(len(m[0])):
                tab = [[F(a), F(m[i][k])] for i, a in enumerate(aps)]
                reqs.append(('interp_clamp', [tab, [F(r) for r in case['req']]]))
        return reqs
    filt = [[F(w), F(a)] for w, a in sorted(zip(case['fwav'], case['fap']))]      # np.argsort(wavelengths)
    cols = [[F(w), [[F(a), F(case['val'][0][i][k])] for i, a in enumerate(aps)]] for k, w in enumerate(case['wav'])]
    return [('interp_var', [filt, F(aps[0]), F(aps[-1]), cols])]


def _doc(aps, col, r):
    """the documented value: tabulated at a knot, linear between, last above; None below"""
    aps = [F(a) for a in aps]
    col = [F(x) for x in col]
    if len(aps) == 1:
        return col[0]
    r = F(r)
    if r < aps[0]:
        return None
    if r >= aps[-1]:
        return col[-1]
    for i in range(len(aps) - 1):
        if aps[i] <= r <= aps[i + 1]:
            return col[i] + (r - aps[i]) * (col[i + 1] - col[i]) / (aps[i + 1] - aps[i])


def judge(case, im, mo):
    aps = case['aps']
    tags = ['kind=' + case['kind'], 'nap=%d' % len(aps), 'runit=' + case['runit'], 'below=%s' % case['below']]
    if any(isinstance(m, tuple) for m in mo):
        return dict(disagree=['driver %r' % ([m for m in mo if isinstance(m, tuple)][:1],)], fail=[], nontrivial=False)
    disagree, fail = [], []
    foreign = case['runit'] not in ('table', 'bare', 'AU') or case['tunit'] != 'AU'
    refused_doc = len(aps) > 1 and case['below']
    nontrivial = len(aps) > 1 and any(aps[0] < r < aps[-1] and r not in aps for r in case['req'])
    if 'exc' in im:
        if im['exc'] == 'too_small':
            if not refused_doc:
                near = foreign and any(abs(r - aps[0]) <= 1e-12 * aps[0] for r in case.get('req', []))
                if not near:
                    fail.append('refuse: refused although no request is below the smallest aperture')
                    disagree.append('implementation refuses, model does not')
            return dict(disagree=disagree, fail=fail, nontrivial=True, tags=tags + ['refused'])
        return dict(disagree=['implementation raised ' + im['msg']], fail=['raised: %s raised %s' % (case['kind'], im['msg'])], nontrivial=False, tags=tags + ['raised'],
                    sigdata=im['msg'])
    if refused_doc:
        fail.append('refuse: a request below the smallest aperture was accepted')
        return dict(disagree=['model refuses, implementation does not'], fail=fail, nontrivial=True, tags=tags)
    if case['kind'] == 'var':
        m = mo[0]
        if m == []:
            disagree.append('model refuses the filter apertures')
        else:
            for k, (a, b) in enumerate(zip(im['flux'], m[0])):
                if not close(a, b, 1e-7, 1e-12):
                    disagree.append('wavelength %r: implementation %r, model %r' % (case['wav'][k], a, float(b)))
                    break
        # property: at each filter wavelength, the linear interpolant at that filter's aperture (clamped above)
        for w, a in zip(case['fwav'], case['fap']):
            k = case['wav'].index(w)
            want = _doc(aps, [case['val'][0][i][k] for i in range(len(aps))], a)
            if want is not None and abs(F(im['flux'][k]) - want) > Fraction(1, 10 ** 6) * abs(want):
                fail.append('variable: at the filter wavelength %r (aperture %r AU) the curve has %r; the interpolant at that aperture is %r' % (w, a, im['flux'][k], float(want)))
                break
        return dict(disagree=disagree[:2], fail=fail[:2], nontrivial=len(aps) > 1, tags=tags)
    if 'flux2' in im:
        tags.append('twice')
        aps2 = list(aps) + [case['twice']['ap']]
        for mi, m in enumerate(case['val']):
            col2 = [m[i][0] for i in range(len(aps))] + [case['twice']['val'][mi]]
            for j, r in enumerate(case['req']):
                want = _doc(aps2, col2, r)
                if want is not None and abs(F(im['flux2'][mi][j]) - want) > Fraction(1, 10 ** 8) * abs(want):
                    fail.append('history: the same request (%r AU) passed on to a second table reaching further out gives %r; the interpolant at that radius is %r (the first call changed the request in place)'
                                % (r, im['flux2'][mi][j], float(want)))
                    break
            if fail:
                break
    # conv / sed: values per (model, wavelength, request)
    idx = 0
    for mi, m in enumerate(case['val']):
        for k in range(len(m[0])):
            mrow = mo[idx]
            idx += 1
            col = [m[i][k] for i in range(len(aps))]
            for j, r in enumerate(case['req']):
                got = im['flux'][mi][j] if case['kind'] == 'conv' else im['flux'][k][j]
                if mrow[j] == []:
                    disagree.append('model refuses request %r' % r)
                    continue
                if not close(got, mrow[j][0], 1e-9, 1e-12):
                    disagree.append('model %d wavelength %d request %r: implementation %r, model %r' % (mi, k, r, got, float(mrow[j][0])))
                want = _doc(aps, col, r)
                if want is not None and abs(F(got) - want) > Fraction(1, 10 ** 9) * abs(want):
                    fail.append('value: request %r AU on apertures %r gives %r; tabulated / linear / clamped value is %r' % (r, aps, got, float(want)))
            if fail or disagree:
                break
    if case['kind'] == 'conv':
        if im['names'] != ['m%d' % i for i in range(len(case['val']))] or abs(im['wav'] - 2.0) > 1e-12:
            fail.append('structure: model names / wavelength changed by the interpolation')
        if len(im['out_aps']) != len(case['req']):
            fail.append('structure: %d output apertures for %d requests' % (len(im['out_aps']), len(case['req'])))
        for mi, m in enumerate(case['val']):
            for j, r in enumerate(case['req']):
                want = _doc(aps, [m[i][0] * 0.25 for i in range(len(aps))], r)
                if want is not None and abs(F(im['error'][mi][j]) - want) > Fraction(1, 10 ** 9) * abs(want):
                    fail.append('value: error of model %d at request %r is %r, interpolated error %r' % (mi, r, im['error'][mi][j], float(want)))
                    break
    return dict(disagree=disagree[:3], fail=fail[:3], nontrivial=nontrivial, tags=tags)


def signature(case, im, mo, v):
    return None
