(* Parameter listings: table preparation (strip + sort by name), FitInfo.filter_table on the prepared table for any
   row order of the parameter file, ranges (nanmin, best, nanmax). *)
From Coq Require Import List Arith Lia Permutation Sorted Bool ZArith QArith.
Import ListNotations.
From SedV Require Import Argsort Table FTable Xnum FilterOut FitModel RankProofs.
Close Scope Q_scope.
Open Scope Z_scope.

Section Prep.
Variable P : Type.
Variable dP : P.

(* t.sort('MODEL_NAME') *)
Definition prep_table_m (table : list (trow P)) : list (trow P) :=
  gather (trow P) (0, dP) table (argsortK (map fst table)).

Lemma prep_keys table : map fst (prep_table_m table) = sortK (map fst table).
Proof.
  unfold prep_table_m. etransitivity; [apply (gather_map (@fst K P) (0, dP) table)|reflexivity].
  intros i Hi. unfold argsortK in Hi. apply argsort_bound in Hi. now rewrite map_length in Hi.
Qed.

Lemma prep_perm table : Permutation (prep_table_m table) table.
Proof. unfold prep_table_m. apply gather_perm. unfold argsortK.
  pose proof (argsort_perm K Z.leb 0 (map fst table)) as H. rewrite map_length in H. exact H. Qed.

Lemma prep_sorted table : NoDup (map fst table) -> StronglySorted Z.lt (map fst (prep_table_m table)).
Proof.
  intros N. rewrite prep_keys. apply sorted_le_nodup_ltZ; [apply sortK_sorted|].
  eapply Permutation_NoDup; [apply Permutation_sym, sortK_perm|exact N].
Qed.

(* whatever the row order of the parameter file: after preparation, row i of the listing carries the name of fit i and is
   a row of the parameter file *)
Theorem lookup_any_order (table : list (trow P)) names :
  NoDup (map fst table) -> NoDup names -> (forall k, In k names -> In k (map fst table)) ->
  exists out, filter_table_m P dP (prep_table_m table) names = Some out /\ map fst out = names /\
              (forall r, In r out -> In r table).
Proof.
  intros Nt Nn Sub.
  destruct (C09_lookup P dP (prep_table_m table) names (prep_sorted table Nt) Nn) as (out & H1 & H2 & H3).
  - intros k Hk. rewrite prep_keys. eapply Permutation_in; [apply Permutation_sym, sortK_perm|]. now apply Sub.
  - exists out. repeat split; try assumption. intros r Hr. eapply Permutation_in; [apply prep_perm|]. now apply H3.
Qed.

(* with distinct names a row of the table is determined by its name: the listing is the by-name lookup *)
Theorem lookup_unique (table : list (trow P)) r r' :
  NoDup (map fst table) -> In r table -> In r' table -> fst r = fst r' -> r = r'.
Proof.
  induction table as [|a t IH]; intros N H H' E; [contradiction|].
  simpl in N. inversion N as [|? ? Na Nt]; subst.
  destruct H as [<-|H], H' as [<-|H']; try reflexivity.
  - exfalso. apply Na. rewrite E. now apply in_map.
  - exfalso. apply Na. rewrite <- E. now apply in_map.
  - now apply IH.
Qed.
End Prep.

(* ---- ranges: np.nanmin, first element, np.nanmax ---- *)
Definition xmin2 (a b : xnum) : xnum :=
  match a, b with NaN, _ => b | _, NaN => a | _, _ => if xleb a b then a else b end.
Definition xmax2 (a b : xnum) : xnum :=
  match a, b with NaN, _ => b | _, NaN => a | _, _ => if xleb a b then b else a end.
Definition nanmin (l : list xnum) : xnum := fold_right xmin2 NaN l.
Definition nanmax (l : list xnum) : xnum := fold_right xmax2 NaN l.
Definition ranges_m (l : list xnum) : option (xnum * xnum * xnum) :=
  match l with [] => None | x :: _ => Some (nanmin l, x, nanmax l) end.

Definition notnan (x : xnum) : Prop := match x with NaN => False | _ => True end.

Lemma xleb_refl a : xleb a a = true.
Proof. destruct (xleb_total a a); assumption. Qed.

Lemma xmin2_le a b : notnan a -> xleb (xmin2 a b) a = true.
Proof. intros Ha. unfold xmin2. destruct a as [x| | |]; try contradiction; destruct b as [y| | |]; try apply xleb_refl;
  match goal with |- context [if ?c then _ else _] => destruct c eqn:E end; try apply xleb_refl;
  match goal with |- xleb ?p ?q = true => destruct (xleb_total p q) as [T|T]; [exact T|congruence] end. Qed.

Lemma nanmin_notnan_or l : nanmin l = NaN \/ notnan (nanmin l).
Proof. destruct (nanmin l); simpl; auto. Qed.

Lemma xmin2_le_r a b : notnan b -> xleb (xmin2 a b) b = true.
Proof. intros Hb. unfold xmin2. destruct a as [x| | |]; destruct b as [y| | |]; try contradiction; try apply xleb_refl;
  match goal with |- context [if ?c then _ else _] => destruct c eqn:E end; try apply xleb_refl; exact E. Qed.

Lemma xmin2_nan a b : xmin2 a b = NaN -> a = NaN /\ b = NaN.
Proof. unfold xmin2. destruct a as [x| | |], b as [y| | |]; try (intros; split; congruence); try discriminate;
  match goal with |- context [if ?c then _ else _] => destruct c end; discriminate. Qed.
Lemma xmax2_nan a b : xmax2 a b = NaN -> a = NaN /\ b = NaN.
Proof. unfold xmax2. destruct a as [x| | |], b as [y| | |]; try (intros; split; congruence); try discriminate;
  match goal with |- context [if ?c then _ else _] => destruct c end; discriminate. Qed.
Lemma nanmin_nan l : nanmin l = NaN -> forall x, In x l -> x = NaN.
Proof. induction l as [|a l IH]; intros H x Hin; [contradiction|]. simpl in H. apply xmin2_nan in H. destruct H as [Ha Hl].
  destruct Hin as [<-|Hin]; [exact Ha|now apply IH]. Qed.
Lemma nanmax_nan l : nanmax l = NaN -> forall x, In x l -> x = NaN.
Proof. induction l as [|a l IH]; intros H x Hin; [contradiction|]. simpl in H. apply xmax2_nan in H. destruct H as [Ha Hl].
  destruct Hin as [<-|Hin]; [exact Ha|now apply IH]. Qed.

Theorem nanmin_le l x : In x l -> notnan x -> xleb (nanmin l) x = true.
Proof.
  induction l as [|a l IH]; intros Hin Hx; [contradiction|]. simpl.
  destruct Hin as [->|Hin]; [now apply xmin2_le|].
  specialize (IH Hin Hx).
  assert (N : notnan (nanmin l)). { destruct (nanmin l) eqn:E; simpl; auto. rewrite (nanmin_nan l E x Hin) in Hx. exact Hx. }
  eapply xleb_trans; [apply xmin2_le_r; exact N|exact IH].
Qed.

Lemma xmax2_ge a b : notnan a -> xleb a (xmax2 a b) = true.
Proof. intros Ha. unfold xmax2. destruct a as [x| | |]; try contradiction; destruct b as [y| | |]; try apply xleb_refl;
  match goal with |- context [if ?c then _ else _] => destruct c eqn:E end; try apply xleb_refl; exact E. Qed.
Lemma xmax2_ge_r a b : notnan b -> xleb b (xmax2 a b) = true.
Proof. intros Hb. unfold xmax2. destruct a as [x| | |]; destruct b as [y| | |]; try contradiction; try apply xleb_refl;
  match goal with |- context [if ?c then _ else _] => destruct c eqn:E end; try apply xleb_refl;
  match goal with |- xleb ?p ?q = true => destruct (xleb_total p q) as [T|T]; [exact T|congruence] end. Qed.

Theorem nanmax_ge l x : In x l -> notnan x -> xleb x (nanmax l) = true.
Proof.
  induction l as [|a l IH]; intros Hin Hx; [contradiction|]. simpl.
  destruct Hin as [->|Hin]; [now apply xmax2_ge|].
  specialize (IH Hin Hx).
  assert (N : notnan (nanmax l)). { destruct (nanmax l) eqn:E; simpl; auto. rewrite (nanmax_nan l E x Hin) in Hx. exact Hx. }
  eapply xleb_trans; [exact IH|apply xmax2_ge_r; exact N].
Qed.

Theorem ranges_spec l lo best hi : ranges_m l = Some (lo, best, hi) ->
  best = hd NaN l /\ forall x, In x l -> notnan x -> xleb lo x = true /\ xleb x hi = true.
Proof.
  destruct l as [|a l]; [discriminate|]. intros H. unfold ranges_m in H. injection H as <- <- <-. split; [reflexivity|].
  intros x Hin Hx. split; [exact (nanmin_le (a :: l) x Hin Hx)|exact (nanmax_ge (a :: l) x Hin Hx)].
Qed.
