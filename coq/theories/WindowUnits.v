(* WindowUnits — the set of monochromatic files does not depend on the unit in which wavelengths and window are expressed:
   multiplying the tabulated wavelengths and both window ends by the same positive factor leaves jlo, jhi and hence the emitted
   indices unchanged.  This is the exact-arithmetic statement behind the repair F52 (in floating point a converted end that
   coincides with a tabulated wavelength is moved back onto it; C16 runs every window in micron and in another unit). *)
From Coq Require Import ZArith QArith Lqa Lia List Bool.
Import ListNotations.
From SedV Require Import Window Mono MonoM.
Open Scope Q_scope.

Lemma le_bool_scale k a b : 0 < k -> Qle_bool (k * a) (k * b) = Qle_bool a b.
Proof.
  intros Hk. destruct (Qle_bool a b) eqn:E.
  - apply Qle_bool_iff. apply Qle_bool_iff in E. apply Qmult_le_l; assumption.
  - destruct (Qle_bool (k * a) (k * b)) eqn:E'; [|reflexivity].
    apply Qle_bool_iff in E'. apply Qmult_le_l in E'; [|exact Hk]. apply Qle_bool_iff in E'. congruence.
Qed.

Lemma cnt_lt_scale k v l : 0 < k -> cnt_lt (k * v) (map (Qmult k) l) = cnt_lt v l.
Proof.
  intros Hk. unfold cnt_lt. induction l as [|x r IH]; [reflexivity|].
  cbn [map filter]. rewrite (le_bool_scale k v x Hk). destruct (Qle_bool v x); cbn [negb length]; [exact IH|now rewrite IH].
Qed.

Theorem jlo_scale k wavs wmax : 0 < k -> jlo (map (Qmult k) wavs) (k * wmax) = jlo wavs wmax.
Proof. intros Hk. unfold jlo. rewrite map_length, <- map_rev, (cnt_lt_scale k wmax (rev wavs) Hk). reflexivity. Qed.

Theorem jhi_scale k wavs wmin : 0 < k -> jhi (map (Qmult k) wavs) (k * wmin) = jhi wavs wmin.
Proof. intros Hk. unfold jhi. rewrite map_length, <- map_rev, (cnt_lt_scale k wmin (rev wavs) Hk). reflexivity. Qed.

Theorem mono_units k wavs wmin wmax chunk : 0 < k ->
  mono_m (map (Qmult k) wavs) (k * wmin) (k * wmax) chunk = mono_m wavs wmin wmax chunk.
Proof. intros Hk. unfold mono_m. now rewrite (jlo_scale k wavs wmax Hk), (jhi_scale k wavs wmin Hk). Qed.

Example units_example :
  mono_m (map (Qmult 1000) [8; 4; 2; 1]) (1000 * 2) (1000 * 8) 2 = mono_m [8; 4; 2; 1] 2 8 2.
Proof. vm_compute. reflexivity. Qed.
