"""
C02 (clause: "at each distance d the model flux in a band is the tabulated
convolved flux [of that model] ... the reported chi^2 is the minimum over the
grid", for BOTH package formats).

Input: an aperture-dependent package whose two convolved files
convolved/f0.fits and convolved/f1.fits list the same three models, with the
same fluxes per model NAME, but in a different row order (f0: A,B,C - f1: C,B,A).

For a version-1 package (models.conf without 'version') Models.read matches the
rows of the files by model name and the fit is right.  For a version-2 (cube)
package (same directory, models.conf with 'version = 2' and a flux.fits) the
rows are combined by POSITION: model 'A' gets the f1-band flux of model 'C'
and is reported under the name of the last file's row.  The chi^2/A_V/scale
reported for a model name are then not those of the correctly scaled fluxes of
that model, and a source synthesised from model A is not recovered.
"""
import os
import io
import sys
import shutil
import tempfile
import contextlib

import numpy as np
from astropy import units as u
from astropy.table import Table

from sedfitter.convolved_fluxes import ConvolvedFluxes
from sedfitter.sed import SEDCube
from sedfitter.extinction import Extinction
from sedfitter.fit import Fitter
from sedfitter.source import Source


def quiet(fn, *a, **k):
    with contextlib.redirect_stdout(io.StringIO()):
        return fn(*a, **k)


names = np.array(['A', 'B', 'C'])
aps = np.array([100., 1000., 10000.])                       # AU
wavs = [2., 20.]                                            # micron
flux = {                                                    # mJy, by model NAME, (n_ap,) per band
    'A': [np.array([1., 2., 4.]), np.array([10., 30., 50.])],
    'B': [np.array([3., 5., 6.]), np.array([2., 3., 9.])],
    'C': [np.array([7., 8., 20.]), np.array([0.5, 0.7, 0.9])],
}
file_order = [['A', 'B', 'C'], ['C', 'B', 'A']]             # row order of f0.fits / f1.fits
step = 0.1
theta = np.array([1., 2.])                                  # arcsec
drange = np.array([0.2, 20.])                               # kpc
av_range = (0., 10.)


def make_package(version):
    d = tempfile.mkdtemp()
    os.mkdir(os.path.join(d, 'convolved'))
    for i in range(2):
        order = file_order[i]
        c = ConvolvedFluxes(wavelength=wavs[i] * u.micron,
                            model_names=np.array(order),
                            apertures=aps * u.au,
                            flux=np.array([flux[n][i] for n in order]) * u.mJy,
                            error=np.array([flux[n][i] for n in order]) * 0.01 * u.mJy)
        c.write(os.path.join(d, 'convolved', 'f%d.fits' % i))
    with open(os.path.join(d, 'models.conf'), 'w') as f:
        f.write("name = test\nlength_subdir = 0\naperture_dependent = yes\nlogd_step = %g\n" % step)
        if version == 2:
            f.write("version = 2\n")
    t = Table()
    t['MODEL_NAME'] = names.astype('S30')
    t['par'] = [1., 2., 3.]
    t.write(os.path.join(d, 'parameters.fits'))
    if version == 2:
        # the cube itself (models A,B,C); the broadband fluxes come from convolved/
        cube = SEDCube()
        cube.names = names
        cube.distance = 1 * u.kpc
        cube.wav = np.array([1., 2., 20., 40.]) * u.micron
        cube.apertures = aps * u.au
        cube.val = np.ones((3, 3, 4)) * u.mJy
        cube.unc = cube.val * 0.01
        cube.write(os.path.join(d, 'flux.fits'))
    return d


ext = Extinction()
ext.wav = np.logspace(-2, 3, 50) * u.micron
ext.chi = ext.wav.value ** -1.5 * u.cm ** 2 / u.g
k = ext.get_av(np.array(wavs) * u.micron)

# the grid of the statement
n = 1 + int(np.ceil((np.log10(drange[1]) - np.log10(drange[0])) / step))
logd = np.linspace(np.log10(drange[0]), np.log10(drange[1]), n)


def model_flux(name, d_kpc):
    out = []
    for i in range(2):
        ap = min(theta[i] * d_kpc * 1000., aps.max())
        out.append(np.interp(ap, aps, flux[name][i]) / d_kpc ** 2)
    return np.array(out)


# source synthesised from model A at a grid distance and A_V = 2
d0 = 10. ** logd[7]
av0 = 2.
f_src = model_flux('A', d0) * 10. ** (av0 * k)
s = Source()
s.name = 'src'
s.x = 0.
s.y = 0.
s.valid = np.array([1, 1])
s.flux = f_src
s.error = 0.05 * f_src
weight, log_flux, log_error = s.get_log_fluxes()


def reference(name):
    best = None
    for ld in logd:
        r = log_flux - np.log10(model_flux(name, 10. ** ld))
        av = np.clip(np.sum(weight * r * k) / np.sum(weight * k * k), *av_range)
        chi2 = np.sum(weight * (r - av * k) ** 2)
        if best is None or chi2 < best[0]:
            best = (chi2, av, ld)
    return best


problems = []
for version in (1, 2):
    d = make_package(version)
    fitter = quiet(Fitter, ['f0', 'f1'], theta * u.arcsec, d, extinction_law=ext,
                   av_range=av_range, distance_range=drange * u.kpc, use_memmap=False)
    info = fitter.fit(s)
    print("version %d package:" % version)
    for name in names:
        j = list(info.model_name).index(name)
        ref = reference(name)
        print("   model %s: reported chi2=%.4f av=%.4f sc=%.4f | statement chi2=%.4f av=%.4f sc=%.4f"
              % (name, info.chi2[j], info.av[j], info.sc[j], ref[0], ref[1], ref[2]))
        if not (np.isclose(info.chi2[j], ref[0], rtol=1e-6, atol=1e-6)
                and np.isclose(info.av[j], ref[1], rtol=1e-6, atol=1e-6)
                and np.isclose(info.sc[j], ref[2], atol=1e-9)):
            problems.append("version %d, model %s: reported (chi2, A_V, scale) = (%.4f, %.4f, %.4f) but the "
                            "correctly scaled fluxes of that model give (%.4f, %.4f, %.4f)"
                            % (version, name, info.chi2[j], info.av[j], info.sc[j], ref[0], ref[1], ref[2]))
    shutil.rmtree(d)

assert not problems, (
    "C02 violated for a cube (version 2) package whose convolved files list the models in different "
    "row orders (the version-1 reader matches them by name, the version-2 reader combines them by position): "
    + "; ".join(problems))
