"""
C02 - the distance grid is not the one "with the fewest points whose spacing
does not exceed the package's log-distance step".

Models._read_version_1/_read_version_2 compute
    n = ceil(1 + (log10(dmax) - log10(dmin)) / logd_step)
For the range 13 .. 130 kpc (exactly one decade) and logd_step = 0.5 (exactly
representable) the fewest points with spacing <= 0.5 dex are THREE
(13, 41.1, 130 kpc; spacing exactly 0.5).  In floating point
log10(130) - log10(13) = 1.0000000000000002, so the code builds FOUR points
(spacing 0.333 dex).  The same happens e.g. for 30 .. 300 kpc with every step
0.1, 0.05, 0.025, 0.02 (12/22/42/52 points instead of 11/21/41/51), for
14 .. 140, 17 .. 170, 23 .. 230, 40 .. 400 kpc, ...

Observable through the public results: four models, each the inverse-square
image of the source at one of the four distances of the code's grid, are all
fitted with chi^2 ~ 0 and FOUR different scales are reported, two of which
(log10 d = 1.447 and 1.781) are not on the three-point grid of the statement.
With the grid of the statement, the models at 28.0 and 60.3 kpc could not be
fitted (chi^2 >> 1).

Clauses: "trial distances form a log-uniform grid ... with the fewest points
whose spacing does not exceed the package's log-distance step"; "the reported
scale is log10(d/kpc) of a grid distance".
"""
import os
import io
import sys
import tempfile
import contextlib

import numpy as np
from astropy import units as u
from astropy.table import Table

from sedfitter import Fitter
from sedfitter.sed import SEDCube
from sedfitter.convolved_fluxes import ConvolvedFluxes
from sedfitter.extinction import Extinction
from sedfitter.source import Source

DMIN, DMAX, STEP = 13., 130., 0.5
SRC = np.array([2., 5.])   # mJy in bands A, B

# the grid of the statement: fewest points, both ends, spacing <= STEP
# (exact arithmetic: DMAX / DMIN = 10, so 2 intervals of exactly 0.5 dex do)
assert DMAX == 10 * DMIN
n_statement = 3
grid_statement = np.log10(DMIN) + STEP * np.arange(n_statement)
# the four distances the code uses
grid_code = np.log10(DMIN) + np.arange(4) / 3.

NAMES = ['at_%d' % i for i in range(4)]
AP = np.array([10., 1.e9])  # AU; fluxes constant with aperture (non-decreasing)


def build(version):
    d = tempfile.mkdtemp()
    os.mkdir(os.path.join(d, 'convolved'))
    for j, (name, wav) in enumerate([('A', 2.), ('B', 20.)]):
        c = ConvolvedFluxes()
        c.model_names = np.array(NAMES)
        c.apertures = AP * u.au
        c.central_wavelength = wav * u.micron
        # model i reproduces the source when placed at 10**grid_code[i] kpc
        f1kpc = SRC[j] * (10 ** grid_code) ** 2
        c.flux = np.repeat(f1kpc[:, None], 2, axis=1) * u.mJy
        c.error = c.flux * 0.01
        c.write(os.path.join(d, 'convolved', name + '.fits'))
    with open(os.path.join(d, 'models.conf'), 'w') as f:
        f.write("name = test\nlength_subdir = 0\naperture_dependent = yes\nlogd_step = %g\n" % STEP)
        if version == 2:
            f.write("version = 2\n")
    t = Table()
    t['MODEL_NAME'] = np.array(NAMES, dtype='S30')
    t['par1'] = np.arange(4.)
    t.write(os.path.join(d, 'parameters.fits'))
    if version == 2:
        cube = SEDCube()
        cube.names = np.array(NAMES)
        cube.distance = 1 * u.kpc
        cube.wav = np.array([1., 10., 100.]) * u.micron
        cube.apertures = AP * u.au
        cube.val = np.ones((4, 2, 3)) * u.mJy
        cube.unc = cube.val * 0.01
        cube.write(os.path.join(d, 'flux.fits'))
    return d


ext = Extinction()
ext.wav = np.logspace(-2., 3., 60) * u.micron
ext.chi = ext.wav.value ** -1.5 * u.cm ** 2 / u.g

s = Source()
s.name = 'src'
s.x = 0.
s.y = 0.
s.valid = [1, 1]
s.flux = SRC
s.error = SRC * 0.05

problems = []
for version, kw in [(1, {}), (2, {'use_memmap': False})]:
    d = build(version)
    with contextlib.redirect_stdout(io.StringIO()):
        fitter = Fitter(['A', 'B'], [1., 1.] * u.arcsec, d, extinction_law=ext,
                        av_range=(0., 0.), distance_range=[DMIN, DMAX] * u.kpc, **kw)
        info = fitter.fit(s)
    o = np.argsort(info.model_name)
    sc, chi2 = info.sc[o], info.chi2[o]
    n_code = len(fitter.models.distances)
    print("version %d: %d trial distances (statement: %d); reported scales %s chi2 %s"
          % (version, n_code, n_statement, sc, chi2))
    off_grid = [x for x in sc if np.min(np.abs(grid_statement - x)) > 1e-9]
    if n_code != n_statement or off_grid:
        problems.append("version %d package: distance_range 13..130 kpc, logd_step 0.5: the code uses %d trial "
                        "distances where 3 (13, 41.1, 130 kpc, spacing exactly 0.5 dex) are the fewest with spacing "
                        "<= step; reported scales %s are not log10 of a distance of that grid %s"
                        % (version, n_code, off_grid, grid_statement))

if problems:
    print()
    print("C02 VIOLATED (distance grid clause):")
    for p in problems:
        print(" - " + p)
    sys.exit(1)
print("no violation")
