import os, io, sys, tempfile, contextlib, warnings
import numpy as np
warnings.simplefilter('ignore')
from astropy import units as u
from sedfitter.convolved_fluxes import ConvolvedFluxes
from sedfitter.extinction import Extinction
from sedfitter.source import Source
from sedfitter.fit import Fitter


def ext():
    e = Extinction()
    e.wav = np.logspace(-2., 3., 50) * u.micron
    e.chi = e.wav.value ** -1.5 * u.cm ** 2 / u.g
    return e


def make_dir(names, fluxes, wavs, apertures=None):
    """Per-file (version 1) package holding only what the fitter reads:
    models.conf and convolved/<filter>.fits.
    fluxes: (n_models, n_wav) or (n_models, n_ap, n_wav), in mJy"""
    d = tempfile.mkdtemp()
    os.mkdir(os.path.join(d, 'convolved'))
    filt_names = ['F%d' % i for i in range(len(wavs))]
    for i in range(len(wavs)):
        c = ConvolvedFluxes()
        c.model_names = np.array(names)
        c.central_wavelength = wavs[i] * u.micron
        if apertures is not None:
            c.apertures = np.array(apertures) * u.au
            c.flux = np.array(fluxes)[:, :, i] * u.mJy
        else:
            c.flux = np.array(fluxes)[:, i].reshape(-1, 1) * u.mJy
        c.error = c.flux * 0.
        c.write(os.path.join(d, 'convolved', filt_names[i] + '.fits'))
    with open(os.path.join(d, 'models.conf'), 'w') as f:
        f.write("name = test\nlength_subdir = 0\naperture_dependent = %s\nlogd_step = 0.02\n"
                % ('yes' if apertures is not None else 'no'))
    return d, filt_names


def quiet(fn, *a, **k):
    with contextlib.redirect_stdout(io.StringIO()):
        return fn(*a, **k)


def src(valid, flux, error):
    s = Source()
    s.name = 's'
    s.x = 0.
    s.y = 0.
    s.valid = np.array(valid)
    s.flux = np.array(flux, dtype=float)
    s.error = np.array(error, dtype=float)
    return s


def row(info, name):
    i = list(info.model_name).index(name)
    return float(info.chi2[i]), float(info.av[i]), float(info.sc[i])
from sedfitter.sed import SEDCube

# ---------------------------------------------------------------------------
# C04, clause "The predicted log10 fluxes stored with a row equal that model's
# log10 fluxes plus A_V*k(lambda) and the distance scaling implied by the
# reported scale".
#
# Cube package (flux.fits holds float64 values), wavelength filters, DEFAULT
# Fitter options.  With use_memmap=True (the default, and the only possibility
# through sedfitter.fit()) the model fluxes are squeezed through a float32
# memmap, so the predicted log10 fluxes differ from  log10(package flux) +
# A_V*k - 2*scale  by ~3e-8 (single precision, 4 orders of magnitude above
# rounding), and chi^2 changes in the 7th digit.  use_memmap=False is exact.
# ---------------------------------------------------------------------------
rng = np.random.RandomState(5)
nm = 5
wav = np.logspace(-1, 2, 30)
val = 10 ** rng.uniform(-1, 1, (nm, 1, 30))
names = np.array(['model_%d' % i for i in range(nm)])
d = tempfile.mkdtemp()
cube = SEDCube()
cube.names = names
cube.distance = 1 * u.kpc
cube.wav = wav * u.micron
cube.apertures = None
cube.val = val * u.mJy
cube.unc = cube.val * 0.01
cube.write(os.path.join(d, 'flux.fits'))
with open(os.path.join(d, 'models.conf'), 'w') as f:
    f.write("name = test\nlength_subdir = 0\naperture_dependent = no\nlogd_step = 0.02\nversion = 2\n")

idx = [5, 10, 15, 20]
filt = [wav[i] * u.micron for i in idx]
kw = dict(extinction_law=ext(), av_range=[0., 4.], distance_range=[1., 1.2] * u.kpc)
s = src([1, 1, 1, 1], [1., 2., 3., 4.], [.1, .1, .1, .1])
worst = {}
chi = {}
for label, opts in (('default (use_memmap=True)', {}), ('use_memmap=False', {'use_memmap': False})):
    F = quiet(Fitter, filt, [3.] * 4 * u.arcsec, d, **dict(kw, **opts))
    info = F.fit(s)
    w = 0.
    for r in range(nm):
        m = info.model_id[r]
        assert str(info.model_name[r]) == names[m]
        expected = np.log10(val[m, 0, idx]) + info.av[r] * np.asarray(F.av_law) - 2. * info.sc[r]
        w = max(w, np.max(np.abs(np.asarray(info.model_fluxes[r]) - expected)))
    worst[label] = w
    chi[label] = np.asarray(info.chi2, dtype=float)
    print(label, ': max |predicted - (log10 F_model + A_V k - 2 scale)| = %.3e' % w, ' best chi2 = %.8f' % chi[label][0])

assert worst['use_memmap=False'] < 1e-12
assert worst['default (use_memmap=True)'] < 1e-10, (
    "C04 violated with the default options on a cube package: predicted log10 fluxes differ from the package's log10 "
    "fluxes + A_V*k - 2*scale by %.2e (float32 truncation of the model fluxes); best chi2 %.8f instead of %.8f"
    % (worst['default (use_memmap=True)'], chi['default (use_memmap=True)'][0], chi['use_memmap=False'][0]))
print("no violation")
