"""C16, clause 'writes exactly one file per SED wavelength lying inside the
requested wavelength window' - window given the way the function documents it.

convolve_model_dir_monochromatic documents 'wav_min : float' / 'wav_max : float'.
A window [10, 300] given as plain numbers (micron, the unit of the wavelength
table it returns) is refused with a UnitConversionError, although the plain
numbers 0 and inf ARE accepted (astropy lets 0/inf/nan through), so the
behaviour depends on the numerical value of the bound.  The same window given
as Quantities works.
"""
import os
import glob
import tempfile

import numpy as np
from astropy import units as u
from astropy.table import Table

from sedfitter.sed import SED
from sedfitter.convolve import convolve_model_dir_monochromatic

d = tempfile.mkdtemp()
os.mkdir(os.path.join(d, 'seds'))
wav = np.array([1., 5., 20., 100., 500.])
for name in ('m1', 'm2'):
    s = SED()
    s.name = name
    s.distance = 1 * u.kpc
    s.wav = wav * u.micron
    s.nu = s.wav.to(u.Hz, equivalencies=u.spectral())
    s.apertures = None
    s.flux = np.arange(1., 6.).reshape(1, 5) * u.mJy
    s.error = 0.1 * s.flux
    s.write(os.path.join(d, 'seds', name + '_sed.fits'))
with open(os.path.join(d, 'models.conf'), 'w') as f:
    f.write("name = test\nlength_subdir = 0\naperture_dependent = no\nlogd_step = 0.02\n")
t = Table()
t['MODEL_NAME'] = np.array(['m1', 'm2'], dtype='S30')
t['par1'] = [1., 2.]
t.write(os.path.join(d, 'parameters.fits'))


def files():
    return sorted(os.path.basename(x) for x in glob.glob(os.path.join(d, 'convolved', '*.fits')))


def clean():
    for x in glob.glob(os.path.join(d, 'convolved', '*.fits')):
        os.remove(x)


# the window as Quantities: 20 and 100 micron are inside [10, 300)
convolve_model_dir_monochromatic(d, wav_min=10. * u.micron, wav_max=300. * u.micron)
ref = files()
assert ref == ['MO002.fits', 'MO003.fits'], ref
clean()

# plain numbers 0 and inf are accepted ...
convolve_model_dir_monochromatic(d, wav_min=0, wav_max=np.inf)
assert len(files()) == 5
clean()

# ... but the documented float window is refused
try:
    convolve_model_dir_monochromatic(d, wav_min=10., wav_max=300.)
except Exception as exc:
    raise AssertionError("C16 violated: the window wav_min=10., wav_max=300. (floats, as documented in the docstring; "
                         "wavelengths in micron) is refused with %s: %s -- no file is written, whereas the statement "
                         "promises one file per wavelength in the window (expected %s); the plain numbers 0 and inf "
                         "are accepted" % (type(exc).__name__, exc, ref))
assert files() == ref
print("no violation")
