From Coq Require Import List Arith Lia Bool.
Import ListNotations.

Definition byte := nat.
Inductive opclass := Fixed (n : nat) | LenPre (w : nat) | Line2 | Stop.
Inductive scanres := Complete (rest : list byte) | Truncated | Bad.

Section Framing.
Variable classify : byte -> option opclass.
Variable stopb : byte.
Hypothesis stop_class : classify stopb = Some Stop.

Fixpoint le_val (bs : list byte) : nat := match bs with [] => 0 | b :: r => b + 256 * le_val r end.
Fixpoint skip_line (bs : list byte) : option (list byte) :=
  match bs with [] => None | b :: r => if Nat.eqb b 10 then Some r else skip_line r end.

(* consume the argument of one opcode; None = ran out of input *)
Definition skip_arg (c : opclass) (r : list byte) : option (list byte) :=
  match c with
  | Stop => Some r
  | Fixed n => if length r <? n then None else Some (skipn n r)
  | LenPre w => if length r <? w then None else
                let L := le_val (firstn w r) in let r' := skipn w r in
                if length r' <? L then None else Some (skipn L r')
  | Line2 => match skip_line r with None => None | Some r1 => skip_line r1 end
  end.

Fixpoint scan (fuel : nat) (bs : list byte) : scanres :=
  match fuel with O => Truncated | S f =>
  match bs with
  | [] => Truncated
  | c :: r => match classify c with
              | None => Bad
              | Some Stop => Complete r
              | Some cl => match skip_arg cl r with None => Truncated | Some r' => scan f r' end
              end
  end end.

(* one encoded opcode instance: opcode byte, class, argument bytes *)
Record inst := { i_op : byte; i_cl : opclass; i_arg : list byte }.
Definition wf_arg (cl : opclass) (arg : list byte) : Prop :=
  match cl with
  | Stop => False
  | Fixed n => length arg = n
  | LenPre w => exists len payload, arg = len ++ payload /\ length len = w /\ le_val len = length payload
  | Line2 => exists l1 l2, arg = l1 ++ 10 :: l2 ++ [10] /\ ~ In 10 l1 /\ ~ In 10 l2
  end.
Definition wf_inst (i : inst) : Prop := classify (i_op i) = Some (i_cl i) /\ wf_arg (i_cl i) (i_arg i).
Fixpoint enc (ops : list inst) : list byte :=
  match ops with [] => [stopb] | i :: r => i_op i :: i_arg i ++ enc r end.

Lemma skip_line_app l rest : ~ In 10 l -> skip_line (l ++ 10 :: rest) = Some rest.
Proof. induction l as [|b r IH]; intros H; simpl; [reflexivity|].
  destruct (Nat.eqb b 10) eqn:E; [apply Nat.eqb_eq in E; exfalso; apply H; now left|].
  apply IH. intros X. apply H. now right. Qed.
Lemma skip_line_none l : ~ In 10 l -> skip_line l = None.
Proof. induction l as [|b r IH]; intros H; simpl; [reflexivity|].
  destruct (Nat.eqb b 10) eqn:E; [apply Nat.eqb_eq in E; exfalso; apply H; now left|].
  apply IH. intros X. apply H. now right. Qed.
Lemma notin_firstn {A} (x : A) l k : ~ In x l -> ~ In x (firstn k l).
Proof. revert k. induction l as [|y r IH]; intros k H X; destruct k; simpl in X; try contradiction.
  destruct X as [->|X]; [apply H; now left|]. apply (IH k); [intros Y; apply H; now right|exact X]. Qed.

(* the argument is consumed exactly when it is complete ... *)
Lemma skip_arg_complete cl arg rest : wf_arg cl arg -> skip_arg cl (arg ++ rest) = Some rest.
Proof.
  destruct cl as [n|w| |]; simpl; intros H.
  - subst n. rewrite app_length. replace (length arg + length rest <? length arg) with false by (symmetry; apply Nat.ltb_ge; lia).
    now rewrite skipn_app, skipn_all, Nat.sub_diag.
  - destruct H as (len & payload & -> & Hl & Hv). rewrite <- !app_assoc.
    rewrite !app_length. replace (length len + (length payload + length rest) <? w) with false by (symmetry; apply Nat.ltb_ge; lia).
    subst w. rewrite firstn_app, firstn_all, Nat.sub_diag, firstn_O, app_nil_r.
    rewrite skipn_app, skipn_all, Nat.sub_diag. simpl skipn. rewrite Hv.
    simpl length. rewrite app_length.
    rewrite (proj2 (Nat.ltb_ge _ _)) by lia.
    rewrite skipn_app, skipn_all, Nat.sub_diag. reflexivity.
  - destruct H as (l1 & l2 & -> & H1 & H2). rewrite <- !app_assoc. simpl.
    rewrite skip_line_app by exact H1. rewrite <- app_assoc. simpl. now rewrite skip_line_app by exact H2.
  - destruct H.
Qed.

(* ... and never on a proper prefix of it *)
Lemma skip_arg_truncated cl arg k : wf_arg cl arg -> k < length arg -> skip_arg cl (firstn k arg) = None.
Proof.
  destruct cl as [n|w| |]; simpl; intros H Hk.
  - subst n. rewrite firstn_length. replace (Nat.min k (length arg) <? length arg) with true by (symmetry; apply Nat.ltb_lt; lia). reflexivity.
  - destruct H as (len & payload & -> & Hl & Hv). rewrite app_length in Hk.
    rewrite firstn_length, app_length.
    destruct (Nat.ltb (Nat.min k (length len + length payload)) w) eqn:E; [reflexivity|].
    apply Nat.ltb_ge in E.
    assert (Hkw : w <= k) by lia.
    rewrite firstn_app. replace (k - length len) with (k - w) by lia.
    assert (F1 : firstn k len = len) by (apply firstn_all2; lia). rewrite F1.
    rewrite firstn_app. rewrite (firstn_all2 (n:=w) len) by lia. replace (w - length len) with 0 by lia. rewrite firstn_O, app_nil_r.
    rewrite skipn_app. rewrite (skipn_all2 (n:=w) len) by lia. replace (w - length len) with 0 by lia. simpl skipn. simpl app.
    rewrite Hv. rewrite firstn_length.
    replace (Nat.min (k - w) (length payload) <? length payload) with true by (symmetry; apply Nat.ltb_lt; lia).
    reflexivity.
  - destruct H as (l1 & l2 & -> & H1 & H2).
    (* cut inside l1, at the first newline boundary, or inside l2 / before the last newline *)
    rewrite firstn_app.
    destruct (le_lt_dec k (length l1)) as [L|G].
    + replace (k - length l1) with 0 by lia. rewrite firstn_O, app_nil_r.
      rewrite skip_line_none by (now apply notin_firstn). reflexivity.
    + rewrite firstn_all2 by lia.
      destruct (k - length l1) as [|k'] eqn:Ek; [lia|]. simpl firstn.
      rewrite skip_line_app by exact H1.
      rewrite !app_length in Hk. simpl in Hk. rewrite app_length in Hk. simpl in Hk.
      rewrite firstn_app.
      assert (Hk' : k' - length l2 = 0) by lia. rewrite Hk'. rewrite firstn_O, app_nil_r.
      apply skip_line_none. now apply notin_firstn.
  - destruct H.
Qed.

Lemma enc_length_pos ops : 0 < length (enc ops).
Proof. destruct ops; simpl; lia. Qed.

(* a complete pickle scans to completion *)
Theorem scan_complete ops : Forall wf_inst ops -> forall rest fuel,
  length ops < fuel -> scan fuel (enc ops ++ rest) = Complete rest.
Proof.
  induction 1 as [|i ops [Hc Ha] _ IH]; intros rest fuel Hf; (destruct fuel; [simpl in Hf; lia|]).
  - simpl. now rewrite stop_class.
  - simpl in Hf. cbn [enc app scan]. rewrite Hc. rewrite <- app_assoc.
    rewrite (skip_arg_complete _ _ _ Ha).
    destruct (i_cl i) eqn:E; try (apply IH; lia). simpl in Ha. destruct Ha.
Qed.

(* prefix-freeness: every proper prefix of a pickle is reported as truncated *)
Theorem C19_prefix_free ops : Forall wf_inst ops -> forall k fuel,
  k < length (enc ops) -> scan fuel (firstn k (enc ops)) = Truncated.
Proof.
  induction 1 as [|i ops [Hc Ha] _ IH]; intros k fuel Hk; (destruct fuel; [reflexivity|]).
  - simpl in Hk. assert (k = 0) by lia. subst. reflexivity.
  - cbn [enc] in *. destruct k as [|k]; [reflexivity|]. cbn [firstn scan]. rewrite Hc.
    simpl length in Hk. rewrite app_length in Hk.
    rewrite firstn_app.
    destruct (le_lt_dec (length (i_arg i)) k) as [L|G].
    + (* the argument is complete; the cut is in the rest of the stream *)
      rewrite firstn_all2 by lia. rewrite (skip_arg_complete _ _ _ Ha).
      destruct (i_cl i) eqn:E; try (apply IH; lia). simpl in Ha. destruct Ha.
    + replace (k - length (i_arg i)) with 0 by lia. rewrite firstn_O, app_nil_r.
      rewrite (skip_arg_truncated _ _ _ Ha G).
      destruct (i_cl i) eqn:E; try reflexivity. simpl in Ha. destruct Ha.
Qed.
End Framing.
Print Assumptions C19_prefix_free.
Print Assumptions scan_complete.
