"""C06, clauses 'sum_i R_i equals the filter's integral over the overlap' and
'a normalised filter lying inside the SED range returns c for a flat spectrum',
for a non-negative response handed over as a small unsigned-integer array
(e.g. a transmission curve digitised on a 0..255 scale).

Filter keeps the dtype of the response; integrate() adds neighbouring samples
(y[1:] + y[:-1]) and interp1d_fast subtracts them (y[i] - y[i-1]) in that dtype,
so 200 + 200 wraps to 144 and 0 - 200 wraps to 56.  The same curve given as
float (or int64) is handled correctly.
"""
import warnings

import numpy as np
from astropy import units as u

from sedfitter.filter import Filter

warnings.simplefilter('ignore')

fnu = np.array([1., 2., 3., 4.]) * 1e13 * u.Hz
resp = [0, 200, 200, 0]

# SED grid containing the filter range; one bin edge (3.5e13) falls on the falling edge
snu = np.array([0.5, 1.0, 2.5, 3.2, 3.8, 5.0]) * 1e13 * u.Hz
c = 7.0
flat = np.repeat(c, len(snu))

out = {}
for dtype in (float, np.uint8):
    f = Filter(name='x', central_wavelength=10 * u.micron, nu=fnu, response=np.array(resp, dtype=dtype))
    raw_sum = f.rebin(snu).response.sum()          # should be the integral: 200 * 2e13 = 4e15
    f.normalize()
    flat_result = np.sum(flat * f.rebin(snu).response)   # should be c
    out[dtype] = (raw_sum, flat_result)
    print(np.dtype(dtype).name, "sum R_i (un-normalised) = %.6g (exact 4e15);  flat spectrum c=7 -> %.6f" % (raw_sum, flat_result))

assert abs(out[float][0] - 4e15) < 1e3 and abs(out[float][1] - c) < 1e-12, "float reference wrong?!"

msgs = []
if abs(out[np.uint8][0] - 4e15) > 1e-9 * 4e15:
    msgs.append("sum_i R_i = %.6g instead of the filter integral 4e15" % out[np.uint8][0])
if abs(out[np.uint8][1] - c) > 1e-9 * c:
    msgs.append("normalised filter inside the SED range returns %.6f for the flat spectrum F_nu = 7" % out[np.uint8][1])
assert not msgs, "C06 violated for the non-negative response [0, 200, 200, 0] stored as uint8: " + "; ".join(msgs)
print("no violation")
