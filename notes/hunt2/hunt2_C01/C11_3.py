"""C11, scaling clause, read literally inside its own quantifier (STATEMENT-level finding, the code
does what the documentation of the flags says):

  "multiplying every flux and error by a constant shifts every scale by -0.5*log10(constant) and
   leaves A_V and chi^2 unchanged", for "all sources as in C01" = "any flag vector over
   {0,1,2,3,4,9}".

For flag 4 the 'flux' column is log10(flux) and the 'error' is in dex, for flags 2/3 the 'error'
column is a confidence in [0,1).  Multiplying those by the constant is not a change of the unit
of brightness, so A_V and chi^2 change (and with a confidence c*0.9 > 1 the chi^2 is NaN).
The clause only holds for sources whose flags are in {0,1,9} (or if flag-4 fluxes are shifted by
log10(constant) and flag-2/3 confidences are left alone).

Input: 4 filters, 5 models; source A flags (1,1,4,1); source B flags (1,1,3,1); constant 2.
"""
import os, io, tempfile, contextlib
import numpy as np
from astropy import units as u
from sedfitter.fit import Fitter
from sedfitter.source import Source
from sedfitter.extinction import Extinction
from sedfitter.convolved_fluxes import ConvolvedFluxes

d = tempfile.mkdtemp()
os.makedirs(os.path.join(d, 'convolved'))
open(os.path.join(d, 'models.conf'), 'w').write(
    "name = test\nlength_subdir = 0\naperture_dependent = no\nlogd_step = 0.02\n")
rng = np.random.RandomState(2)
wavs = [1.2, 3.6, 8.0, 24.]
M = 10 ** rng.uniform(0, 1, (5, 4))
names = np.array(['m%d' % i for i in range(5)])
filters = ['F0', 'F1', 'F2', 'F3']
for j, fn in enumerate(filters):
    ConvolvedFluxes(wavelength=wavs[j] * u.micron, model_names=names,
                    flux=M[:, j:j + 1] * u.mJy, error=0.01 * M[:, j:j + 1] * u.mJy
                    ).write(os.path.join(d, 'convolved', fn + '.fits'))
law = Extinction()
law.wav = np.logspace(-2., 3., 50) * u.micron
law.chi = law.wav.value ** -1.5 * u.cm ** 2 / u.g
with contextlib.redirect_stdout(io.StringIO()):
    fitter = Fitter(filters, [1.] * 4 * u.arcsec, d, extinction_law=law,
                    av_range=(0., 20.), distance_range=[1., 2.] * u.kpc)


def run(valid, flux, err, const):
    s = Source()
    s.name = 'src'
    s.valid = np.array(valid)
    s.flux = np.array(flux) * const
    s.error = np.array(err) * const
    info = fitter.fit(s)
    return {str(n): (float(a), float(sc), float(c)) for n, a, sc, c in zip(info.model_name, info.av, info.sc, info.chi2)}


problems = []
const = 2.
for label, valid, flux, err in [('flags (1,1,4,1)', [1, 1, 4, 1], [3., 5., 0.7, 6.], [0.3, 0.5, 0.05, 0.6]),
                                ('flags (1,1,3,1)', [1, 1, 3, 1], [3., 5., 0.5, 6.], [0.3, 0.5, 0.45, 0.6]),
                                ('flags (1,1,9,1) [control]', [1, 1, 9, 1], [3., 5., 0.5, 6.], [0.3, 0.5, 0.45, 0.6])]:
    r1 = run(valid, flux, err, 1.)
    r2 = run(valid, flux, err, const)
    for n in sorted(r1):
        a0, s0, c0 = r1[n]; a1, s1, c1 = r2[n]
        ok = abs(a1 - a0) < 1e-9 and abs(c1 - c0) < 1e-9 * max(1, c0) and abs(s1 - (s0 - 0.5 * np.log10(const))) < 1e-9
        print('%-26s %s A_V %.4f -> %.4f  scale %.4f -> %.4f (expected %.4f)  chi2 %.4f -> %.4f %s'
              % (label, n, a0, a1, s0, s1, s0 - 0.5 * np.log10(const), c0, c1, '' if ok else '  <-- differs'))
        if not ok:
            problems.append((label, n))
            assert 'control' not in label
assert not problems, (
    "C11 scaling clause fails as quantified (all flag vectors over {0,1,2,3,4,9}): multiplying every flux and "
    "error by 2 changes A_V / chi^2 for sources with a flag-4 point (flux column is log10 flux) or a flag-2/3 "
    "point (error column is a confidence): %s" % problems)
