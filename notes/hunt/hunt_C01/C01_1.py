"""
C01 violation: cube-format (version = 2) packages are fitted on float32 copies
of the model fluxes.

Models.read(..., use_memmap=True) -- the default of Fitter(), and the only mode
reachable from the top-level fit() -- stores the model fluxes (in mJy) in a
np.memmap of dtype float32 before fitting.  Consequences, all for a legal
aperture-independent package with strictly positive finite fluxes:

  (a) every model flux is rounded to 24 bits, so the reported A_V / scale /
      chi^2 are the optimum for *other* fluxes than the tabulated ones
      (relative deviations ~1e-7, five orders of magnitude above double
      rounding; the very same package fitted with use_memmap=False agrees with
      an independent least-squares solution to ~1e-13);
  (b) fluxes in the float32 subnormal range (< 1.2e-38 mJy) keep only a few
      bits: A_V is wrong in the first or second significant digit;
  (c) fluxes below 7e-46 mJy become 0 and fluxes above 3.4e38 mJy become inf:
      A_V, scale and chi^2 are reported as NaN although the regression is
      perfectly non-singular.

Clause violated: "for every source and every model of the grid, the reported
A_V and scale minimise sum w (log10 F_obs - log10 F_mod - A_V k + 2 scale)^2
... The reported chi^2 is that minimum ...".
"""
import contextlib
import io
import os
import sys
import tempfile

import numpy as np
from astropy import units as u

from sedfitter import fit
from sedfitter.fit import Fitter
from sedfitter.fit_info import FitInfoFile
from sedfitter.extinction import Extinction
from sedfitter.sed import SEDCube
from sedfitter.source import Source


def quiet(func, *args, **kwargs):
    with contextlib.redirect_stdout(io.StringIO()):
        return func(*args, **kwargs)


# ----------------------------------------------------------------------------
# A legal aperture-independent cube package: 5 models x 4 wavelengths, all
# fluxes strictly positive and finite (stored as float64 in mJy).
# ----------------------------------------------------------------------------
tmp = tempfile.mkdtemp()
names = ['ordinary', 'bright', 'faint', 'tiny', 'huge']
wav = np.array([1.25, 2.2, 4.5, 8.0]) * u.micron
shape = np.array([[1.3, 2.9, 4.1, 7.7],
                  [1234.5, 2345.6, 1357.9, 987.6],
                  [3.1e-44, 8.3e-44, 5.9e-44, 2.3e-43],
                  [1.0e-50, 3.0e-50, 2.0e-50, 7.0e-50],
                  [1.0e39, 2.0e39, 3.0e39, 5.0e39]])
cube = SEDCube()
cube.names = np.array(names)
cube.distance = 1 * u.kpc
cube.wav = wav
cube.apertures = None
cube.val = shape[:, np.newaxis, :] * u.mJy
cube.unc = cube.val * 0.
cube.write(os.path.join(tmp, 'flux.fits'))
with open(os.path.join(tmp, 'models.conf'), 'w') as f:
    f.write("name = test\nlength_subdir = 0\naperture_dependent = no\n"
            "logd_step = 0.02\nversion = 2\n")

ext = Extinction()
ext.wav = np.logspace(-1, 2, 40) * u.micron          # increasing wavelength
ext.chi = 200. * ext.wav.value ** -1.7 * u.cm ** 2 / u.g
k = np.asarray(ext.get_av(wav))                      # -0.4 at V by construction

AV_RANGE = (0., 30.)
filters = [w for w in wav]
apertures = np.ones(4) * u.arcsec

# One source, four ordinary fitted points (flag 1), 5% errors
src = Source()
src.name = 'src'
src.valid = [1, 1, 1, 1]
src.flux = [0.8, 2.1, 3.3, 4.9]
src.error = [0.04, 0.105, 0.165, 0.245]


# ----------------------------------------------------------------------------
# Independent reference: weighted least squares per model, clamp, re-scale
# ----------------------------------------------------------------------------
def reference(source, logm):
    w, lf, le = source.get_log_fluxes()
    out = {}
    for name, lm in zip(names, logm):
        r = lf - lm
        A = np.vstack([k, -2. * np.ones(4)]).T * np.sqrt(w)[:, None]
        (av, sc), *_ = np.linalg.lstsq(A, r * np.sqrt(w), rcond=None)
        if av < AV_RANGE[0] or av > AV_RANGE[1]:
            av = min(max(av, AV_RANGE[0]), AV_RANGE[1])
            sc = np.sum(w * (r - av * k) * -2.) / np.sum(4. * w)
        chi2 = np.sum(w * (r - av * k + 2. * sc) ** 2)
        out[name] = np.array([av, sc, chi2])
    return out


ref = reference(src, np.log10(shape))


def as_dict(info):
    return {str(n).strip(): np.array([float(a), float(s), float(c)])
            for n, a, s, c in zip(info.model_name, info.av, info.sc, info.chi2)}


# (1) the public top-level fit(): default path, no way to switch memmap off
data_file = os.path.join(tmp, 'data.txt')
with open(data_file, 'w') as f:
    f.write(src.to_ascii() + '\n')
# to_ascii() rounds to 4 digits, so re-read the source exactly as fit() sees it
src_file = Source.from_ascii(open(data_file).readline())
ref_file = reference(src_file, np.log10(shape))
out_file = os.path.join(tmp, 'output.fitinfo')
quiet(fit, data_file, filters, apertures, tmp, out_file, n_data_min=2,
      extinction_law=ext, av_range=AV_RANGE, distance_range=[1., 2.] * u.kpc,
      output_format=('A', 0))
fin = FitInfoFile(out_file, 'r')
got_fit = as_dict(list(fin)[0])
fin.close()

# (2) Fitter with its default (use_memmap=True) and the control (False)
got_mm = as_dict(quiet(Fitter, filters, apertures, tmp, extinction_law=ext,
                       av_range=AV_RANGE, distance_range=[1., 2.] * u.kpc).fit(src))
got_ctl = as_dict(quiet(Fitter, filters, apertures, tmp, extinction_law=ext,
                        av_range=AV_RANGE, distance_range=[1., 2.] * u.kpc,
                        use_memmap=False).fit(src))


def dev(got, reference_values):
    return {n: np.max(np.abs(got[n] - reference_values[n]) / (1. + np.abs(reference_values[n])))
            for n in names}


TOL = 1e-10
dev_ctl, dev_mm, dev_fit = dev(got_ctl, ref), dev(got_mm, ref), dev(got_fit, ref_file)

print("model      (A_V, scale, chi2) reference            | default Fitter / fit()")
for n in names:
    print("%-9s %s | %s" % (n, np.array2string(ref[n], precision=9), np.array2string(got_mm[n], precision=9)))
print("max relative deviation from the least-squares optimum:")
for n in names:
    print("  %-9s use_memmap=False: %.1e   default Fitter: %.1e   fit(): %.1e"
          % (n, dev_ctl[n], dev_mm[n], dev_fit[n]))

# The control proves the reference and the package are fine
assert all(d < TOL for d in dev_ctl.values()), "control (use_memmap=False) disagrees with reference: %r" % dev_ctl

problems = []
for label, d, got, rf in (('Fitter() default', dev_mm, got_mm, ref), ('fit()', dev_fit, got_fit, ref_file)):
    for n in names:
        if not np.all(np.isfinite(got[n])):
            problems.append("%s: model %r (strictly positive finite fluxes) -> A_V, scale, chi2 = %s"
                            % (label, n, got[n]))
        elif d[n] > TOL:
            problems.append("%s: model %r -> (A_V, scale, chi2) = %s but the constrained optimum is %s (rel. dev. %.1e)"
                            % (label, n, got[n], rf[n], d[n]))

if problems:
    print()
    print("C01 VIOLATED: cube packages are fitted on float32-rounded model fluxes "
          "(np.memmap dtype float32 in Models._read_version_2, default use_memmap=True):")
    for p in problems:
        print("  - " + p)
    sys.exit("C01 violated: reported A_V/scale/chi2 are not the least-squares optimum for the "
             "tabulated fluxes (float32 truncation / underflow / overflow of model fluxes)")

print("C01 holds on this input")
