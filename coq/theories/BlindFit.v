(* BlindFit — C03's first clause at the level of the fit OUTPUT: a source whose flag-0 / flag-9 bands carry other values gets
   the same A_V, scale / distance, chi^2 and predicted fluxes from Models.fit - in the aperture-independent branch, in the
   aperture-dependent branch (argmin over the distance grid included), and with the remove_resolved step (FitMask). *)
From Coq Require Import QArith Lqa Lia List Bool ZArith.
Import ListNotations.
Open Scope Q_scope.
From SedV Require Import Clamp FitCore Flags Fit3 Xnum FilterOut FitModel FlagsProofs InvarProofs FitMask.

(* equality of extended numbers up to == on finite values *)
Definition xeq (a b : xnum) : Prop :=
  match a, b with Fin x, Fin y => x == y | PInf, PInf | NInf, NInf | NaN, NaN => True | _, _ => False end.

Lemma xeq_refl a : xeq a a. Proof. destruct a; simpl; auto. reflexivity. Qed.

Lemma xlt_xeq a a' b b' : xeq a a' -> xeq b b' -> xlt a b = xlt a' b'.
Proof.
  destruct a, a', b, b'; simpl; try tauto; try reflexivity.
  intros Ea Eb. f_equal.
  destruct (Qle_bool q1 q) eqn:E1, (Qle_bool q2 q0) eqn:E2; try reflexivity.
  - apply Qle_bool_iff in E1. assert (q2 <= q0) by (rewrite <- Ea, <- Eb; exact E1). apply Qle_bool_iff in H. congruence.
  - apply Qle_bool_iff in E2. assert (q1 <= q) by (rewrite Ea, Eb; exact E2). apply Qle_bool_iff in H. congruence.
Qed.

Lemma argmin_from_xeq l : forall l' best bv bv' i, Forall2 xeq l l' -> xeq bv bv' ->
  argmin_from best bv i l = argmin_from best bv' i l'.
Proof.
  induction l as [|x r IH]; intros l' best bv bv' i H Hb; inversion H as [|? y ? r' Hx Hr]; subst; [reflexivity|].
  simpl. rewrite (xlt_xeq x y bv bv' Hx Hb). destruct (xlt y bv'); apply IH; assumption.
Qed.

Lemma argmin_x_xeq l l' : Forall2 xeq l l' -> argmin_x l = argmin_x l'.
Proof. intros H. destruct H as [|x y r r' Hx Hr]; [reflexivity|]. simpl. apply argmin_from_xeq; assumption. Qed.

Lemma same_unused_fitted r r' : same_but_unused r r' -> same_fitted r r'.
Proof.
  intros (F & A & S & L & W & U). repeat split; try assumption.
  intros Hf. assert (Hu : unused r = false).
  { destruct (unused r) eqn:E; [|reflexivity]. apply unused_notfitted in E. congruence. }
  apply U in Hu. tauto.
Qed.

Lemma Forall2_same_unused_fitted rows rows' : Forall2 same_but_unused rows rows' -> Forall2 same_fitted rows rows'.
Proof. induction 1; constructor; [apply same_unused_fitted|]; assumption. Qed.

Lemma pred_eq (f : row -> Q) (g : row -> Q) rows rows' :
  (forall r r', same_but_unused r r' -> f r == g r') -> Forall2 same_but_unused rows rows' ->
  Forall2 Qeq (map f rows) (map g rows').
Proof. intros H. induction 1; simpl; constructor; [apply H|]; assumption. Qed.

Section B.
Variable pen : Q -> option Q.

(* ---- aperture-independent branch ---- *)
Theorem fit2_blind lo hi rows rows' : Forall2 same_but_unused rows rows' -> Forall wf_row rows ->
  let r := fit2_one pen lo hi rows in let r' := fit2_one pen lo hi rows' in
  f_av r == f_av r' /\ f_sc r == f_sc r' /\ xeq (f_chi2 r) (f_chi2 r') /\ Forall2 Qeq (f_pred r) (f_pred r').
Proof.
  intros H W. pose proof (lsq_blind_to_unfitted lo hi rows rows' (Forall2_same_unused_fitted _ _ H) W) as L.
  unfold fit2_one. destruct (fit2_avsc lo hi rows) as [av sc], (fit2_avsc lo hi rows') as [av' sc']. destruct L as [Ea Es].
  cbn [f_av f_sc f_chi2 f_pred]. split; [exact Ea|]. split; [exact Es|]. split.
  - simpl. rewrite (chi2_blind_to_unused pen rows rows' av sc H W). apply chi2_proper; assumption.
  - apply pred_eq; [|exact H]. intros r r' (_ & A & S & Lm & _). rewrite A, S, Lm, Ea, Es. reflexivity.
Qed.

(* ---- one trial distance of the aperture-dependent branch ---- *)
Lemma chi_at_blind lo hi rows rows' : Forall2 same_but_unused rows rows' -> Forall wf_row rows ->
  fst (chi_at pen lo hi rows) == fst (chi_at pen lo hi rows') /\ xeq (snd (chi_at pen lo hi rows)) (snd (chi_at pen lo hi rows')).
Proof.
  intros H W. unfold chi_at, av_at_distance. cbn [fst snd].
  assert (E : clip lo hi (optscale_av_m rows) == clip lo hi (optscale_av_m rows')).
  { apply clip_proper. apply lsq3_blind_to_unfitted; [apply Forall2_same_unused_fitted; exact H|exact W]. }
  split; [exact E|]. simpl. rewrite (chi2_blind_to_unused pen rows rows' _ 0 H W). apply chi2_proper; [exact E|reflexivity].
Qed.

Definition blind_dist (pd pd' : list (list row)) : Prop :=
  Forall2 (fun rows rows' => Forall2 same_but_unused rows rows' /\ Forall wf_row rows) pd pd'.

Lemma res_blind lo hi pd pd' : blind_dist pd pd' ->
  Forall2 (fun x y => fst x == fst y /\ xeq (snd x) (snd y)) (map (chi_at pen lo hi) pd) (map (chi_at pen lo hi) pd').
Proof. induction 1 as [|a b l l' [H W] _ IH]; simpl; constructor; [apply chi_at_blind; assumption|exact IH]. Qed.

Lemma Forall2_nth {A} (R : A -> A -> Prop) l l' d : Forall2 R l l' -> R d d -> forall i, R (nth i l d) (nth i l' d).
Proof. intros H Hd. induction H as [|x y r r' Hx _ IH]; intros [|i]; simpl; auto. Qed.

Lemma masked_blind m x y : fst x == fst y /\ xeq (snd x) (snd y) -> fst (masked m x) == fst (masked m y) /\ xeq (snd (masked m x)) (snd (masked m y)).
Proof. intros [A B]. unfold masked. destruct m; cbn [fst snd]; [split; [exact A|exact I]|split; assumption]. Qed.

Lemma zipmask_blind ms : forall res res', Forall2 (fun x y => fst x == fst y /\ xeq (snd x) (snd y)) res res' ->
  Forall2 (fun x y => fst x == fst y /\ xeq (snd x) (snd y)) (zipmask ms res) (zipmask ms res').
Proof.
  induction ms as [|m ms IH]; intros res res' H; [destruct H; simpl; constructor; assumption|].
  destruct H as [|x y r r' Hx Hr]; simpl; constructor; [apply masked_blind; exact Hx|apply IH; exact Hr].
Qed.

Lemma nth_blind pd pd' : blind_dist pd pd' -> forall i, Forall2 same_but_unused (nth i pd []) (nth i pd' []).
Proof.
  induction 1 as [|x y l l' [Hx _] _ IH]; intros [|i]; simpl.
  - constructor.
  - constructor.
  - exact Hx.
  - apply IH.
Qed.

(* ---- the whole aperture-dependent fit of one model, with the remove_resolved mask (an all-false mask is the plain fit) ---- *)
Theorem fit3_masked_blind lo hi logds pd pd' ms : blind_dist pd pd' ->
  let r := fit3_one_masked pen lo hi logds pd ms in let r' := fit3_one_masked pen lo hi logds pd' ms in
  g_best r = g_best r' /\ g_sc r = g_sc r' /\ g_av r == g_av r' /\ xeq (g_chi2 r) (g_chi2 r') /\ Forall2 Qeq (g_pred r) (g_pred r').
Proof.
  intros H. unfold fit3_one_masked. cbn [g_best g_sc g_av g_chi2 g_pred].
  set (res := zipmask ms (map (chi_at pen lo hi) pd)). set (res' := zipmask ms (map (chi_at pen lo hi) pd')).
  assert (R : Forall2 (fun x y => fst x == fst y /\ xeq (snd x) (snd y)) res res') by (apply zipmask_blind, res_blind; exact H).
  assert (S : Forall2 xeq (map snd res) (map snd res')).
  { clear -R. induction R as [|x y r r' [_ Hx] _ IH]; simpl; constructor; assumption. }
  assert (B : argmin_x (map snd res) = argmin_x (map snd res')) by (apply argmin_x_xeq; exact S).
  rewrite <- B. set (b := argmin_x (map snd res)).
  assert (N : fst (nth b res (0, NaN)) == fst (nth b res' (0, NaN)) /\ xeq (snd (nth b res (0, NaN))) (snd (nth b res' (0, NaN)))).
  { apply (Forall2_nth (fun x y => fst x == fst y /\ xeq (snd x) (snd y))); [exact R|split; [reflexivity|exact I]]. }
  split; [reflexivity|]. split; [reflexivity|]. split; [exact (proj1 N)|]. split; [exact (proj2 N)|].
  assert (P : Forall2 same_but_unused (nth b pd []) (nth b pd' [])) by (apply nth_blind; exact H).
  apply pred_eq; [|exact P]. intros r r' (_ & A & _ & Lm & _). rewrite A, Lm, (proj1 N). reflexivity.
Qed.

Theorem fit3_blind lo hi logds pd pd' : blind_dist pd pd' ->
  let r := fit3_one pen lo hi logds pd in let r' := fit3_one pen lo hi logds pd' in
  g_best r = g_best r' /\ g_sc r = g_sc r' /\ g_av r == g_av r' /\ xeq (g_chi2 r) (g_chi2 r') /\ Forall2 Qeq (g_pred r) (g_pred r').
Proof.
  intros H. pose proof (fit3_masked_blind lo hi logds pd pd' [] H) as X.
  unfold fit3_one_masked in X. simpl zipmask in X. exact X.
Qed.

End B.

(* ---- from sources: two sources that differ only in what their flag-0 / flag-9 bands carry give rows related by
   same_but_unused (and rows built from any source are well-formed, C03_weights), so the theorems above apply to them ---- *)
Section Raw.
Variable lg : Q -> Q.
Variable ln10 : Q.

Definition raw_same_unused (r r' : rawband) : Prop :=
  rb_flag r = rb_flag r' /\ ((rb_flag r <> 0)%Z -> (rb_flag r <> 9)%Z -> r = r').

Lemma band_blind r r' : raw_same_unused r r' ->
  let b := get_log_fluxes_m lg ln10 r in let b' := get_log_fluxes_m lg ln10 r' in
  b_flag b = b_flag b' /\ b_w b = b_w b' /\ (((b_flag b =? 0)%Z || (b_flag b =? 9)%Z) = false -> b_lf b = b_lf b' /\ b_le b = b_le b').
Proof.
  intros [F U]. cbv zeta.
  destruct (Z.eq_dec (rb_flag r) 0) as [E0|N0].
  - unfold get_log_fluxes_m. rewrite <- F, E0. cbn. split; [reflexivity|]. split; [reflexivity|]. discriminate.
  - destruct (Z.eq_dec (rb_flag r) 9) as [E9|N9].
    + unfold get_log_fluxes_m. rewrite <- F, E9. cbn. split; [reflexivity|]. split; [reflexivity|]. discriminate.
    + rewrite <- (U N0 N9). split; [reflexivity|]. split; [reflexivity|]. intros _. split; reflexivity.
Qed.

Theorem mkrows_blind raws raws' : Forall2 raw_same_unused raws raws' -> forall alaw lms,
  Forall2 same_but_unused (mkrows (bands_of lg ln10 raws) alaw lms) (mkrows (bands_of lg ln10 raws') alaw lms).
Proof.
  induction 1 as [|r r' l l' Hr _ IH]; intros alaw lms; [simpl; constructor|].
  destruct alaw as [|a al]; [simpl; constructor|]. destruct lms as [|m ms]; [simpl; constructor|].
  cbn [bands_of map mkrows]. constructor; [|apply IH].
  destruct (band_blind r r' Hr) as (F & W & U). unfold same_but_unused, mkrow, unused. cbn [r_b r_a r_s r_lm].
  repeat split; try reflexivity; try assumption; apply U; assumption.
Qed.
End Raw.

Example blind_example :
  raw_same_unused {| rb_flag := 9; rb_flux := 1; rb_err := 1 |} {| rb_flag := 9; rb_flux := -999; rb_err := 0 |} /\
  raw_same_unused {| rb_flag := 1; rb_flux := 2; rb_err := 1 |} {| rb_flag := 1; rb_flux := 2; rb_err := 1 |}.
Proof. split; (split; [reflexivity|]); cbn; intros; try reflexivity; congruence. Qed.
