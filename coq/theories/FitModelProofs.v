(* Proofs about the executable fit model (FitModel.v). *)
From Coq Require Import QArith Lqa Lia List Bool ZArith.
Import ListNotations.
Open Scope Q_scope.
From SedV Require Import Clamp FitCore Flags Fit3 PLin Xnum FitModel Det.

Ltac split_pos :=
  repeat (match goal with |- context [match ?q with xI _ => _ | xO _ => _ | xH => _ end] => destruct q end).

Section P.
Variable lg : Q -> Q.
Variable ln10 : Q.
Variable pen : Q -> option Q.

(* the limit penalty of one row at a given fitted model value *)
Definition pen_term (r : row) (model : Q) : Q :=
  match b_flag (r_b r) with
  | 2%Z => if Qlt_le_dec model (resid r) then penv pen (b_le (r_b r)) else 0
  | 3%Z => if Qlt_le_dec (resid r) model then penv pen (b_le (r_b r)) else 0
  | _ => 0
  end.

Lemma chi_term_split r model : wf_row r ->
  chi_term pen r model == w r * ((resid r - model) * (resid r - model)) + pen_term r model.
Proof.
  intros W. unfold chi_term, pen_term. unfold wf_row, fitted in W.
  destruct (b_flag (r_b r)) as [|p|p] eqn:E.
  - rewrite (W eq_refl). ring.
  - split_pos; try ring;
      try (destruct (Qlt_le_dec _ _); try ring; rewrite (W eq_refl); ring).
  - ring.
Qed.

(* reported chi^2 = least-squares objective + limit penalties, at the same (A_V, scale) *)
Theorem chi2_is_S_plus_penalties rows av sc : Forall wf_row rows ->
  chi2_m pen rows av sc == S rows av sc + qsum (fun r => pen_term r (av * r_a r + sc * r_s r)) rows.
Proof.
  intros W. unfold chi2_m, S. induction W as [|r rs Wr _ IH]; simpl; [ring|].
  rewrite IH, (chi_term_split r _ Wr). ring.
Qed.

(* rows built from a source are well formed: weights vanish off flags 1 and 4 *)
Lemma band_wf (rb : rawband) a lm : wf_row (mkrow (get_log_fluxes_m lg ln10 rb) a lm).
Proof.
  unfold wf_row, fitted, mkrow, w. cbn [r_b]. unfold get_log_fluxes_m.
  destruct (rb_flag rb) as [|p|p]; cbn [b_flag b_w]; try (intros; reflexivity).
  split_pos; cbn [b_flag b_w Z.eqb Pos.eqb orb]; intros H; try reflexivity; try discriminate.
Qed.

Lemma mkrows_wf raws : forall alaw lms, Forall wf_row (mkrows (bands_of lg ln10 raws) alaw lms).
Proof.
  induction raws as [|rb raws IH]; intros alaw lms; [constructor|].
  unfold bands_of in *. cbn [map mkrows]. destruct alaw as [|a al]; [constructor|]. destruct lms as [|m ms]; [constructor|].
  constructor; [apply band_wf|apply IH].
Qed.

(* the scale pattern is -2: the objective carries +2*scale *)
Lemma mkrows_pattern bands : forall alaw lms r, In r (mkrows bands alaw lms) -> r_s r = -2.
Proof.
  induction bands as [|b bs IH]; intros alaw lms r H; [contradiction|].
  destruct alaw as [|a al]; [contradiction|]. destruct lms as [|m ms]; [contradiction|].
  destruct H as [<-|H]; [reflexivity|eauto].
Qed.

(* result of the 2-D fit of one model, as the C01 statement reads it *)
Theorem fit2_one_optimal lo hi rows : Forall wf_row rows ->
  0 < m22 rows -> 0 < det rows -> lo <= hi ->
  let r := fit2_one pen lo hi rows in
  lo <= f_av r <= hi /\
  (forall av' sc', lo <= av' <= hi -> S rows (f_av r) (f_sc r) <= S rows av' sc') /\
  (exists c, f_chi2 r = Fin c /\
     c == S rows (f_av r) (f_sc r) + qsum (fun x => pen_term x (f_av r * r_a x + f_sc r * r_s x)) rows) /\
  f_pred r = map (fun x => f_av r * r_a x + f_sc r * r_s x + r_lm x) rows.
Proof.
  intros W H22 Hd Hlh. unfold fit2_one.
  pose proof (C01_optimal lo hi rows H22 Hd Hlh) as HO.
  destruct (fit2_avsc lo hi rows) as [av sc]. cbn [f_av f_sc f_chi2 f_pred].
  destruct HO as [Hr Hopt]. repeat split; try apply Hr; try exact Hopt.
  eexists. split; [reflexivity|]. apply chi2_is_S_plus_penalties. exact W.
Qed.
End P.

(* with non-negative weights a positive determinant forces a positive sum of squared scale patterns *)
Lemma qsum_nonneg {A} (f : A -> Q) l : (forall x, In x l -> 0 <= f x) -> 0 <= qsum f l.
Proof. induction l as [|x r IH]; intros H; simpl; [lra|].
  assert (0 <= f x) by (apply H; now left). assert (0 <= qsum f r) by (apply IH; intros; apply H; now right). lra. Qed.

Lemma m22_pos_of_det rows : wnonneg rows -> 0 < det rows -> 0 < m22 rows.
Proof.
  intros Hw Hd. unfold det in Hd.
  assert (H11 : 0 <= m11 rows).
  { unfold m11. apply qsum_nonneg. intros r Hr. unfold wnonneg in Hw. rewrite Forall_forall in Hw.
    specialize (Hw r Hr). pose proof (sqnn (r_a r)). apply Qmult_le_0_compat; assumption. }
  assert (H22 : 0 <= m22 rows).
  { unfold m22. apply qsum_nonneg. intros r Hr. unfold wnonneg in Hw. rewrite Forall_forall in Hw.
    specialize (Hw r Hr). pose proof (sqnn (r_s r)). apply Qmult_le_0_compat; assumption. }
  destruct (Qlt_le_dec 0 (m22 rows)) as [L|L]; [exact L|].
  assert (E : m22 rows == 0) by lra. rewrite E in Hd. pose proof (sqnn (m12 rows)). lra.
Qed.
