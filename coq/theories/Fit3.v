From Coq Require Import QArith Lqa Lia List Bool ZArith.
Import ListNotations.
Open Scope Q_scope.
From SedV Require Import Clamp FitCore.

(* aperture-dependent branch: at one distance, A_V by optimal scaling on the extinction pattern, then clipped *)
Definition optscale_av_m rows : Q := c1 rows / m11 rows.      (* sum(resid * a * w) / sum(a * a * w) *)
Definition clip (lo hi x : Q) : Q := if Qlt_le_dec x lo then lo else if Qlt_le_dec hi x then hi else x.
Definition av_at_distance lo hi rows : Q := clip lo hi (optscale_av_m rows).

(* objective with the scale fixed by the distance (model fluxes already scaled): one parameter *)
Definition S1 rows (av : Q) : Q :=
  qsum (fun r => w r * ((resid r - av * r_a r) * (resid r - av * r_a r))) rows.

Lemma S1_moments rows av : S1 rows av == c0 rows - 2 * av * c1 rows + av * av * m11 rows.
Proof. unfold S1, c0, c1, m11. induction rows as [|r rs IH]; simpl; [ring|]. rewrite IH. ring. Qed.

Theorem C02_av lo hi rows : 0 < m11 rows -> lo <= hi ->
  let av := av_at_distance lo hi rows in
  lo <= av <= hi /\ forall av', lo <= av' <= hi -> S1 rows av <= S1 rows av'.
Proof.
  intros H11 Hlh.
  assert (E : forall x, S1 rows x == S1 rows (optscale_av_m rows) + m11 rows * ((x - optscale_av_m rows) * (x - optscale_av_m rows))).
  { intros x. rewrite !S1_moments. unfold optscale_av_m. field. lra. }
  intros av. set (a0 := optscale_av_m rows) in *.
  assert (Hc : lo <= av <= hi).
  { unfold av, av_at_distance, clip. fold a0. destruct (Qlt_le_dec a0 lo); [lra|]. destruct (Qlt_le_dec hi a0); lra. }
  split; [exact Hc|]. intros av' Hr. rewrite (E av), (E av').
  assert (K : (av - a0) * (av - a0) <= (av' - a0) * (av' - a0)).
  { unfold av, av_at_distance, clip in *. fold a0 in Hc |- *. fold a0.
    destruct (Qlt_le_dec a0 lo).
    - assert (0 <= lo - a0) by lra. assert (lo - a0 <= av' - a0) by lra. nra.
    - destruct (Qlt_le_dec hi a0).
      + assert (0 <= a0 - hi) by lra. assert (a0 - hi <= a0 - av') by lra. nra.
      + setoid_replace ((a0 - a0) * (a0 - a0)) with 0 by ring. apply sqnn. }
  assert (m11 rows * ((av - a0) * (av - a0)) <= m11 rows * ((av' - a0) * (av' - a0))).
  { apply Qmult_le_l; [exact H11|exact K] || (rewrite !(Qmult_comm (m11 rows)); apply Qmult_le_compat_r; lra). }
  lra.
Qed.
Print Assumptions C02_av.
