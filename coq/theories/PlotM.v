(* plot(): which curves are drawn, in which order, and what a curve's value is. *)
From Coq Require Import QArith Lqa Lia List Arith.
Import ListNotations.
Open Scope Q_scope.

(* display modes *)
Inductive mode := Interp | Largest | LargestSmallest | AllAp.
Definition ncurves_m (m : mode) (n_unique_ap : nat) : nat :=
  match m with Interp => 1 | Largest => 1 | LargestSmallest => 2 | AllAp => n_unique_ap end%nat.

(* for i in range(n_fits - 1, -1, -1): the curves of fit i are appended; the best fit (i = 0) comes last *)
Definition draw_order (n_fits : nat) : list nat := rev (seq 0 n_fits).
Definition curve_list (m : mode) (n_unique_ap n_fits : nat) : list (nat * nat) :=
  flat_map (fun i => map (fun j => (i, j)) (seq 0 (ncurves_m m n_unique_ap))) (draw_order n_fits).

Theorem curve_count m nu n : length (curve_list m nu n) = (n * ncurves_m m nu)%nat.
Proof.
  unfold curve_list, draw_order.
  assert (H : forall l : list nat, length (flat_map (fun i => map (fun j => (i, j)) (seq 0 (ncurves_m m nu))) l) = (length l * ncurves_m m nu)%nat).
  { induction l as [|x l IH]; [reflexivity|]. simpl. rewrite app_length, map_length, seq_length, IH. reflexivity. }
  rewrite H, rev_length, seq_length. reflexivity.
Qed.

Theorem best_last n : (0 < n)%nat -> last (draw_order n) 0%nat = 0%nat.
Proof. intros H. unfold draw_order. destruct n; [lia|]. cbn [seq rev]. apply last_last. Qed.

(* value of a curve at one wavelength: interpolated SED flux f (at the SED's distance D), scaled to the fitted distance
   d * K (K = the code's kpc constant), reddened by 10**(av * k) *)
Definition curve_val (pw : Q -> Q) (f D d K av k : Q) : Q := f * ((D / (d * K)) * (D / (d * K))) * pw (av * k).

Section Through.
Variable lg pw : Q -> Q.
Hypothesis lg_mul : forall x y, 0 < x -> 0 < y -> lg (x * y) == lg x + lg y.
Hypothesis lg_pw : forall t, lg (pw t) == t.
Hypothesis pw_pos : forall t, 0 < pw t.
Hypothesis lg_proper : forall x y, x == y -> lg x == lg y.

(* the drawn curve passes through the stored prediction lg(f / d^2) + av k, up to the constant 2 lg(D / K) *)
Theorem curve_through_prediction f D d K av k : 0 < f -> 0 < D -> 0 < d -> 0 < K ->
  lg (curve_val pw f D d K av k) == (lg (f * ((1 / d) * (1 / d))) + av * k) + (lg (D / K) + lg (D / K)).
Proof.
  intros Hf HD Hd HK. unfold curve_val.
  assert (Hq : 0 < D / (d * K)) by (apply Qlt_shift_div_l; [nra|lra]).
  assert (Hi : 0 < 1 / d) by (apply Qlt_shift_div_l; lra).
  assert (HDK : 0 < D / K) by (apply Qlt_shift_div_l; lra).
  assert (E : D / (d * K) == (1 / d) * (D / K)) by (field; split; lra).
  assert (Hqq : 0 < (D / (d * K)) * (D / (d * K))) by (apply Qmult_lt_0_compat; assumption).
  assert (Hii : 0 < (1 / d) * (1 / d)) by (apply Qmult_lt_0_compat; assumption).
  rewrite (lg_mul (f * ((D / (d * K)) * (D / (d * K)))) (pw (av * k))); [|apply Qmult_lt_0_compat; assumption|apply pw_pos].
  rewrite lg_pw.
  rewrite (lg_mul f ((D / (d * K)) * (D / (d * K))) Hf Hqq).
  rewrite (lg_mul (D / (d * K)) (D / (d * K)) Hq Hq).
  rewrite (lg_proper _ _ E). rewrite (lg_mul (1 / d) (D / K) Hi HDK).
  rewrite (lg_mul f ((1 / d) * (1 / d)) Hf Hii). rewrite (lg_mul (1 / d) (1 / d) Hi Hi). ring.
Qed.
End Through.
