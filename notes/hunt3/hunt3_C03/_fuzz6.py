import sys, itertools, pickle, copy
sys.path.insert(0, '/tmp/hunt3_C03/hunt_out')
from _common import *
from sedfitter.fit import Fitter
rng = np.random.default_rng(6)
nm, nf = 9, 5
names = ['m%03d' % i for i in range(nm)]
wavs = [0.5, 1.2, 3.6, 8.0, 24.]
fn = ['f%d' % i for i in range(nf)]
aps = np.logspace(1, 6, 8) * u.au
fl_ind = 10 ** rng.uniform(-1, 2, (nm, 1, nf))
fl_dep = np.cumsum(10 ** rng.uniform(-1, 1, (nm, 8, nf)), axis=1)
d1 = write_v1(names, fl_ind, wavs, fn)
d2 = write_v1(names, fl_dep, wavs, fn, apertures=aps)
ext = extinction()
F1 = quiet(Fitter, fn, [3.] * nf * u.arcsec, d1, extinction_law=ext, av_range=[0., 4.])
F2 = quiet(Fitter, fn, [3.] * nf * u.arcsec, d2, extinction_law=ext, av_range=[0., 4.], distance_range=[0.5, 3.] * u.kpc, remove_resolved=True)
def rnd_source(dt_valid=int, dt_flux=float):
    full = rng.choice([0, 1, 1, 1, 2, 3, 4, 9], size=nf)
    flux = 10 ** rng.uniform(-1, 2, nf); err = flux * rng.uniform(0.02, 0.3, nf)
    lim = (full == 2) | (full == 3)
    err[lim] = rng.choice([0., 1., 0.5], size=lim.sum())
    f4 = full == 4
    lf = np.log10(flux) - 0.5 * (err / flux) ** 2 / np.log(10); le = np.abs(err / flux) / np.log(10)
    flux[f4] = lf[f4]; err[f4] = le[f4]
    from sedfitter.source import Source
    s = Source(); s.name = 'x'; s.x = 1.; s.y = 2.
    s.valid = full.astype(dt_valid); s.flux = flux.astype(dt_flux); s.error = err.astype(dt_flux)
    return s
def key(r):
    return pickle.dumps((r.av, r.sc, r.chi2, r.model_name, r.model_id, r.model_fluxes))
# history
for F in (F1, F2):
    srcs = [rnd_source(dt_valid=rng.choice([int, np.uint8, np.int8, np.int64])) for _ in range(6)]
    fresh = [key(F.fit(s)) for s in srcs]
    for trial in range(30):
        seq = rng.integers(0, 6, size=6)
        for i in seq:
            s = srcs[i]
            before = pickle.dumps(s.__getstate__())
            r = F.fit(s)
            if rng.random() < 0.5: r.keep(('N', 2))
            else:
                r.av[:] = 99; r.chi2[:] = -1; r.model_fluxes[:] = 0; r.sc[:] = 5; r.model_name[:] = 'zz'
            assert pickle.dumps(s.__getstate__()) == before
        for i in range(6):
            assert key(F.fit(srcs[i])) == fresh[i], "history"
# scale
worst = 0
for t in range(300):
    s = rnd_source()
    if s.n_data < 2: continue
    c = 10 ** rng.uniform(-4, 4)
    s2 = copy.deepcopy(s)
    v = s.valid
    lin = (v == 1) | (v == 2) | (v == 3) | (v == 9)
    s2.flux[lin] *= c
    s2.error[(v == 1) | (v == 9)] *= c
    s2.flux[v == 4] += np.log10(c)
    a, b = result_dict(F1.fit(s)), result_dict(F1.fit(s2))
    for k in a:
        d = max(abs(a[k][0] - b[k][0]), abs(a[k][1] - 0.5 * np.log10(c) - b[k][1]), abs(a[k][2] - b[k][2]) / max(1, a[k][2]))
        worst = max(worst, d)
print("worst scale", worst)
