# C15 - "Converting A->B->A is the identity" / "F(erg/cm^2/s) = nu*F_nu ...
# whatever unit the file was stored in".
#
# SED files of the original model packages store their fluxes as single
# precision ('E' columns, see sedfitter/sed/tests/data/*.fits.gz), and
# SED.write keeps the dtype of the flux and frequencies it is given.  convert_flux does its
# arithmetic in the dtype of the stored flux and forms the intermediate
# F/nu in erg/cm^2/s/Hz *before* scaling to mJy.  For single-precision data
# that intermediate underflows although the stored value AND the requested
# value are both ordinary (normal) float32 numbers:
#
#     stored  F      = 1e-35 erg/cm^2/s   (normal float32, > 1.2e-38)
#     nu             = 1e16 Hz
#     expected F_nu  = 1e-25 mJy          (normal float32)
#     returned F_nu  = 0 mJy              (1e-35/1e16 = 1e-51 flushes to 0)
#
# so a file stored in erg/cm^2/s and read in mJy returns 0 where
# F_nu = F/nu > 0, and mJy -> erg/cm^2/s -> mJy is not the identity.
# The same file contents in double precision are converted correctly.

import os
import sys
import tempfile
import warnings

import numpy as np
from astropy import units as u

from sedfitter.sed import SED
from sedfitter.sed.helpers import convert_flux

warnings.simplefilter('ignore')

CGS = u.erg / u.cm ** 2 / u.s
failures = []

# ---------------------------------------------------------------------------
# 1. write / read through the public SED API
# ---------------------------------------------------------------------------

nu = np.array([1.e14, 1.e15, 1.e16]) * u.Hz
fnu_mjy = np.array([[1.e-3, 1.e-12, 1.e-25],
                    [2.e-3, 2.e-12, 2.e-25]])           # F_nu in mJy
f_cgs = fnu_mjy * nu.value * 1.e-26                      # nu*F_nu in erg/cm^2/s

assert np.all(f_cgs > np.finfo(np.float32).tiny)         # normal float32 numbers
assert np.all(fnu_mjy > np.finfo(np.float32).tiny)       # normal float32 numbers

tmp = tempfile.mkdtemp()


def make(dtype):
    s = SED()
    s.name = 'model'
    s.distance = 1. * u.kpc
    s.nu = nu.astype(dtype)
    s.wav = nu.to(u.micron, equivalencies=u.spectral()).astype(dtype)
    s.apertures = [100., 1000.] * u.au
    s.flux = f_cgs.astype(dtype) * CGS
    s.error = (0.1 * f_cgs).astype(dtype) * CGS
    filename = os.path.join(tmp, 'sed_%s.fits' % np.dtype(dtype).name)
    s.write(filename)
    return filename


got64 = SED.read(make(np.float64), unit_flux=u.mJy, order='nu').flux.value
got32 = SED.read(make(np.float32), unit_flux=u.mJy, order='nu').flux.value

print("expected F_nu (mJy)        :", fnu_mjy[0])
print("double-precision file      :", got64[0])
print("single-precision file      :", got32[0])

np.testing.assert_allclose(got64, fnu_mjy, rtol=1e-12)   # control: fine in float64

rel = np.abs(got32.astype(float) - fnu_mjy) / fnu_mjy
if np.any(rel > 1.e-5):
    failures.append("SED stored in erg/cm^2/s (float32) and read with unit_flux=mJy: "
                    "F_nu = F/nu violated, expected %s mJy, got %s mJy "
                    "(stored F = %s erg/cm^2/s at nu = %s Hz)"
                    % (fnu_mjy[rel > 1.e-5], got32[rel > 1.e-5],
                       f_cgs[rel > 1.e-5], np.broadcast_to(nu.value, rel.shape)[rel > 1.e-5]))

# ---------------------------------------------------------------------------
# 2. A -> B -> A directly with convert_flux
# ---------------------------------------------------------------------------

a = fnu_mjy.astype(np.float32) * u.mJy
nu32 = nu.astype(np.float32)        # as read from a single-precision file
b = convert_flux(nu32, a, CGS, distance=1. * u.kpc)
a2 = convert_flux(nu32, b, u.mJy, distance=1. * u.kpc)
print("mJy -> erg/cm^2/s -> mJy   :", a.value[0], "->", b.value[0], "->", a2.value[0])
rel = np.abs(a2.value.astype(float) - a.value.astype(float)) / a.value.astype(float)
if np.any(rel > 1.e-5):
    failures.append("convert_flux mJy -> erg/cm^2/s -> mJy is not the identity for "
                    "float32 fluxes: %s mJy came back as %s mJy"
                    % (a.value[rel > 1.e-5], a2.value[rel > 1.e-5]))

# ---------------------------------------------------------------------------
# 3. the single-precision model SED that ships with the package
#    (stored in mJy): mJy -> erg/cm^2/s (default of SED.read) -> file -> mJy
# ---------------------------------------------------------------------------

shipped = os.path.join(os.path.dirname(__import__('sedfitter').__file__),
                       'sed', 'tests', 'data', 'kt09250g+4.0z-0.5_sed.fits.gz')
if os.path.exists(shipped):
    s_mjy = SED.read(shipped, unit_flux=u.mJy)
    s_cgs = SED.read(shipped)
    back = os.path.join(tmp, 'kurucz_cgs_sed.fits')
    s_cgs.write(back)
    s_back = SED.read(back, unit_flux=u.mJy)
    A = s_mjy.flux.value[0].astype(float)
    C = s_back.flux.value[0].astype(float)
    pos = A > 0
    rel = np.abs(C[pos] - A[pos]) / A[pos]
    print("shipped Kurucz SED: %d of %d positive fluxes differ by >1%% after "
          "mJy -> erg/cm^2/s -> mJy, %d became exactly 0"
          % ((rel > 0.01).sum(), pos.sum(), (C[pos] == 0).sum()))
    if np.any(rel > 0.01):
        failures.append("shipped model SED %s: %d positive mJy fluxes change by more "
                        "than 1%% (%d become 0) in mJy -> erg/cm^2/s -> mJy"
                        % (os.path.basename(shipped), (rel > 0.01).sum(), (C[pos] == 0).sum()))

if failures:
    print()
    for f in failures:
        print("C15 VIOLATION:", f)
    raise AssertionError("C15 (A->B->A identity, F = nu*F_nu whatever the stored unit) "
                         "fails for single-precision SEDs: " + failures[0])

print("no violation")
sys.exit(0)
