From Coq Require Import QArith Lqa Lia List Bool ZArith.
Import ListNotations.
Open Scope Q_scope.
From SedV Require Import Clamp FitCore.

(* C08: photometry synthesised exactly from a model at (A0, s0) is recovered exactly *)
Definition planted (A0 s0 : Q) (r : row) : Prop := resid r == A0 * r_a r + s0 * r_s r.

Lemma planted_moments A0 s0 rows : Forall (planted A0 s0) rows ->
  c1 rows == A0 * m11 rows + s0 * m12 rows /\ c2 rows == A0 * m12 rows + s0 * m22 rows.
Proof.
  unfold c1, c2, m11, m12, m22. induction 1 as [|r rs Hr _ [IH1 IH2]]; simpl; [split; ring|].
  unfold planted in Hr. rewrite IH1, IH2, Hr. split; ring.
Qed.

Lemma S_planted A0 s0 rows : Forall (planted A0 s0) rows -> S rows A0 s0 == 0.
Proof. unfold S. induction 1 as [|r rs Hr _ IH]; simpl; [reflexivity|]. unfold planted in Hr. rewrite IH, Hr. ring. Qed.

Theorem C08_exact_2d lo hi A0 s0 rows :
  Forall (planted A0 s0) rows -> 0 < m22 rows -> 0 < det rows -> lo <= A0 <= hi ->
  let '(av, sc) := fit2_avsc lo hi rows in av == A0 /\ sc == s0 /\ S rows av sc == 0.
Proof.
  intros HP H22 Hd Hr. destruct (planted_moments A0 s0 rows HP) as [E1 E2].
  unfold fit2_avsc, linreg_m. unfold det in *.
  set (D := m11 rows * m22 rows - m12 rows * m12 rows) in *.
  assert (EA : (m22 rows * c1 rows - m12 rows * c2 rows) * (1 / D) == A0).
  { rewrite E1, E2. unfold D. field. unfold D in Hd. lra. }
  assert (EB : (m11 rows * c2 rows - m12 rows * c1 rows) * (1 / D) == s0).
  { rewrite E1, E2. unfold D. field. unfold D in Hd. lra. }
  set (A := (m22 rows * c1 rows - m12 rows * c2 rows) * (1 / D)) in *.
  set (B := (m11 rows * c2 rows - m12 rows * c1 rows) * (1 / D)) in *.
  destruct (Qlt_le_dec A lo); [lra|]. destruct (Qlt_le_dec hi A); [lra|].
  split; [exact EA|]. split; [exact EB|].
  rewrite S_moments. pose proof (S_planted A0 s0 rows HP) as Z. rewrite S_moments in Z.
  unfold S6 in *. rewrite EA, EB. exact Z.
Qed.

(* every chi^2 is non-negative when weights are, so the planted model is ranked in the leading group *)
Lemma S_nonneg rows av sc : Forall (fun r => 0 <= w r) rows -> 0 <= S rows av sc.
Proof. unfold S. induction 1 as [|r rs Hr _ IH]; simpl; [lra|].
  assert (0 <= w r * ((resid r - av * r_a r - sc * r_s r) * (resid r - av * r_a r - sc * r_s r))) by (apply Qmult_le_0_compat; [exact Hr|apply sqnn]).
  lra. Qed.
Print Assumptions C08_exact_2d.

(* log-normal bias of flag-1 data with a uniform relative error: every log flux is lowered by the same b = (sigma/F)^2/(2 ln10);
   with the scale pattern -2 this is a planted source at scale s0 + b/2 *)
Lemma biased_is_planted A0 s0 b rows :
  Forall (fun r => resid r == A0 * r_a r + s0 * r_s r - b /\ r_s r == -2) rows -> Forall (planted A0 (s0 + b / 2)) rows.
Proof. induction 1 as [|r rs [Hr Hs] _ IH]; constructor; [|exact IH]. unfold planted. rewrite Hr, Hs. field. Qed.

Theorem C08_bias_2d lo hi A0 s0 b rows :
  Forall (fun r => resid r == A0 * r_a r + s0 * r_s r - b /\ r_s r == -2) rows -> 0 < m22 rows -> 0 < det rows -> lo <= A0 <= hi ->
  let '(av, sc) := fit2_avsc lo hi rows in av == A0 /\ sc == s0 + b / 2 /\ S rows av sc == 0.
Proof. intros H. apply C08_exact_2d. now apply biased_is_planted. Qed.
