"""
C02 - version-2 (cube) packages read with the default use_memmap=True keep the
scaled model fluxes in SINGLE precision (np.memmap(dtype='float32') in
Models._read_version_2).  Model fluxes that are positive in the convolved-flux
tables but, once multiplied by (1 kpc / d)^2, fall below the single-precision
range (~1e-38 normal, 1.4e-45 smallest) are stored with a few bits or as 0.

Clauses violated:
  "at each distance d the model flux in a band is the tabulated convolved flux
   linearly interpolated ... times (1 kpc/d)^2"
  "the reported chi^2 is the minimum over the grid", "reported A_V is the
   least-squares optimum at the reported distance", "both package formats".

The same tables give the right answer as a per-file (version 1) package and as
a cube package with use_memmap=False; the DEFAULT configuration of a cube
package does not:

  case 1 (all bands fitted): best model reported with chi^2 = 3.7 instead of
          4.8e-5 (band A rounded to a multiple of 1.4e-45 mJy)
  case 2 (band A present but not fitted, flag 0): every model is reported with
          chi^2 = NaN, A_V = NaN at the far end of the grid, because band A
          underflowed to 0 there (log -> -inf, times weight 0 -> NaN) and
          argmin picks the NaN; correct: chi^2 = 2.3e-5 at 10 kpc.
"""
import os
import io
import sys
import tempfile
import contextlib

import numpy as np
from astropy import units as u
from astropy.table import Table

from sedfitter import Fitter
from sedfitter.sed import SEDCube
from sedfitter.convolved_fluxes import ConvolvedFluxes
from sedfitter.extinction import Extinction
from sedfitter.source import Source

NAMES = ['m0', 'm1']
AP = np.array([100., 1000., 10000.])  # AU
SHAPE = np.array([[1., 2., 3.], [2., 3., 5.]])  # non-decreasing in aperture
BANDS = [('A', 1., SHAPE * 1e-42),   # positive, tiny (e.g. Wien tail of a cold model)
         ('B', 100., SHAPE * 1e2),
         ('C', 10., SHAPE * 1e1)]
THETA = 1.  # arcsec, all bands
STEP = 0.5
DMIN, DMAX = 1., 100.  # kpc -> grid 1, 3.16, 10, 31.6, 100 kpc
AV_RANGE = (0., 10.)


def build(version):
    d = tempfile.mkdtemp()
    os.mkdir(os.path.join(d, 'convolved'))
    for name, wav, flux in BANDS:
        c = ConvolvedFluxes()
        c.model_names = np.array(NAMES)
        c.apertures = AP * u.au
        c.central_wavelength = wav * u.micron
        c.flux = flux * u.mJy          # double precision in the file
        c.error = flux * 0.01 * u.mJy
        c.write(os.path.join(d, 'convolved', name + '.fits'))
    with open(os.path.join(d, 'models.conf'), 'w') as f:
        f.write("name = test\nlength_subdir = 0\naperture_dependent = yes\nlogd_step = %g\n" % STEP)
        if version == 2:
            f.write("version = 2\n")
    t = Table()
    t['MODEL_NAME'] = np.array(NAMES, dtype='S30')
    t['par1'] = [1., 2.]
    t.write(os.path.join(d, 'parameters.fits'))
    if version == 2:
        cube = SEDCube()
        cube.names = np.array(NAMES)
        cube.distance = 1 * u.kpc
        cube.wav = np.array([1., 10., 100.]) * u.micron
        cube.apertures = AP * u.au
        cube.val = np.ones((2, 3, 3)) * u.mJy
        cube.unc = cube.val * 0.01
        cube.write(os.path.join(d, 'flux.fits'))
    return d


def expected(source, av_law):
    """The statement, evaluated in double precision."""
    n = int(round((np.log10(DMAX) - np.log10(DMIN)) / STEP)) + 1   # 5
    dist = 10 ** np.linspace(np.log10(DMIN), np.log10(DMAX), n)
    radius = np.minimum(THETA * dist * 1000., AP.max())
    logf = np.zeros((2, n, 3))
    for j, (_, _, flux) in enumerate(BANDS):
        for m in range(2):
            logf[m, :, j] = np.log10(np.interp(radius, AP, flux[m]) / dist ** 2)
    weight, logd, _ = source.get_log_fluxes()
    unused = (source.valid == 0) | (source.valid == 9)
    logd = np.where(unused, 0., logd)
    res = logd - logf
    av = np.sum(res * av_law * weight, axis=2) / np.sum(av_law ** 2 * weight)
    av = np.clip(av, *AV_RANGE)
    chi2 = np.sum((res - av[:, :, None] * av_law) ** 2 * weight, axis=2)
    best = np.argmin(chi2, axis=1)
    return av[[0, 1], best], np.log10(dist)[best], chi2[[0, 1], best]


def run(version, use_memmap, source):
    ext = Extinction()
    ext.wav = np.logspace(-2., 3., 60) * u.micron
    ext.chi = ext.wav.value ** -1.5 * u.cm ** 2 / u.g
    d = build(version)
    with contextlib.redirect_stdout(io.StringIO()):
        kw = {} if use_memmap is None else {'use_memmap': use_memmap}
        fitter = Fitter([b[0] for b in BANDS], [THETA] * 3 * u.arcsec, d,
                        extinction_law=ext, av_range=AV_RANGE,
                        distance_range=[DMIN, DMAX] * u.kpc, **kw)
        info = fitter.fit(source)
    o = np.argsort(info.model_name)
    return info.av[o], info.sc[o], info.chi2[o], fitter.av_law


def make_source(valid):
    # model m0 seen at 10 kpc (aperture 10000 AU): 3e-44, 3, 0.3 mJy, 1 % errors
    s = Source()
    s.name = 'src'
    s.x = 0.
    s.y = 0.
    s.valid = valid
    s.flux = np.array([3e-44, 3., 0.3])
    s.error = s.flux * 0.01
    return s


failures = []
for label, valid in [('case 1: all three bands fitted', [1, 1, 1]),
                     ('case 2: band A present but not fitted (flag 0)', [0, 1, 1])]:
    src = make_source(valid)
    av1, sc1, chi1, av_law = run(1, None, src)
    av_e, sc_e, chi_e = expected(src, av_law)
    av2n, sc2n, chi2n, _ = run(2, False, src)
    av2, sc2, chi2, _ = run(2, None, src)   # the default: use_memmap=True
    print(label)
    print("  expected (statement, double precision): av=%s sc=%s chi2=%s" % (av_e, sc_e, chi_e))
    print("  per-file package                      : av=%s sc=%s chi2=%s" % (av1, sc1, chi1))
    print("  cube package, use_memmap=False        : av=%s sc=%s chi2=%s" % (av2n, sc2n, chi2n))
    print("  cube package, default (memmap)        : av=%s sc=%s chi2=%s" % (av2, sc2, chi2))
    # sanity: the other two configurations agree with the statement
    assert np.allclose(chi1, chi_e, rtol=1e-6, atol=1e-9) and np.allclose(sc1, sc_e), "per-file package disagrees with oracle"
    assert np.allclose(chi2n, chi_e, rtol=1e-6, atol=1e-9) and np.allclose(sc2n, sc_e), "cube package without memmap disagrees with oracle"
    if not (np.allclose(chi2, chi_e, rtol=1e-3, atol=1e-3) and np.allclose(sc2, sc_e)):
        failures.append("%s: cube package with the default use_memmap=True reports chi2=%s sc=%s av=%s, "
                        "the statement (and the per-file package built from the same tables) gives chi2=%s sc=%s av=%s"
                        % (label, chi2, sc2, av2, chi_e, sc_e, av_e))

if failures:
    print()
    print("C02 VIOLATED - scaled model fluxes of a cube package are kept in single precision "
          "(float32 memmap): positive tabulated fluxes times (1 kpc/d)^2 below ~1e-38 mJy are "
          "rounded to a few bits or to 0, so the reported chi^2 is not the grid minimum "
          "(and becomes NaN when the band is not even fitted).")
    for f in failures:
        print(" - " + f)
    sys.exit(1)
print("no violation")
