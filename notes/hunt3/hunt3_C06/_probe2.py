import os, sys, tempfile, shutil
import numpy as np
from astropy import units as u
from astropy.io import fits
sys.path.insert(0, os.path.dirname(__file__))
from _lib import *
from sedfitter.filter import Filter
from sedfitter.convolve import convolve_model_dir
from sedfitter.convolved_fluxes import ConvolvedFluxes
from sedfitter.sed import SEDCube

rng = np.random.default_rng(int(sys.argv[1]) if len(sys.argv) > 1 else 0)
bad = 0
for trial in range(60):
    tmp = tempfile.mkdtemp()
    d1 = os.path.join(tmp, 'v1'); d2 = os.path.join(tmp, 'v2'); os.mkdir(d1); os.mkdir(d2)
    nm = rng.integers(1, 9); nap = rng.integers(1, 6); nw = rng.integers(2, 81)
    pool = ['m', 'm1', 'm10', 'm2', 'M1', 'a_b', 'a', 'ab', 'Z', 'z9', '10', '9', 'model_0001', 'model_00010', 'x' * 30, 'x' * 29]
    names = list(rng.choice(pool, nm, replace=False))
    nu = np.sort(rng.uniform(1e13, 3e13, nw))
    aps = np.sort(rng.uniform(10, 1e5, nap))
    flux = rng.uniform(0.1, 10, (nm, nap, nw)); err = flux * rng.uniform(0.01, 0.1, (nm, nap, nw))
    funit = rng.choice(['mJy', 'Jy', 'ergs/cm^2/s', 'erg/s'])
    files = []
    for k, n in enumerate(names):
        sub = rng.choice(['', 'sub1', 'zz'])
        gz = rng.random() < 0.3
        fname = rng.choice([n + '_sed.fits', 'f%03d.fits' % rng.integers(0, 1000) + str(k) + '.fits'])
        write_sed_raw(os.path.join(d1, 'seds', sub, fname), n, nu, flux[k], err[k], aps, reverse=rng.random() < 0.5, flux_unit=funit, gz=gz)
    perm = rng.permutation(nm)
    pnames = [names[i] for i in perm]
    write_conf(d1, 1); write_params(d1, pnames, gz=rng.random() < 0.3)
    # cube in perm order
    cube = SEDCube()
    cube.names = np.array(pnames)
    cube.distance = 1 * u.kpc
    if rng.random() < 0.5:
        cube.nu = nu * u.Hz
        cf = flux[perm]; ce = err[perm]
    else:
        cube.nu = nu[::-1] * u.Hz
        cf = flux[perm][:, :, ::-1]; ce = err[perm][:, :, ::-1]
    cube.apertures = aps * u.au
    un = {'mJy': u.mJy, 'Jy': u.Jy, 'ergs/cm^2/s': u.erg / u.cm**2 / u.s, 'erg/s': u.erg / u.s}[funit]
    cube.val = cf * un; cube.unc = ce * un
    cube.write(os.path.join(d2, 'flux.fits'))
    write_conf(d2, 2); write_params(d2, pnames)
    # filters
    filters = []; fdefs = []
    for j in range(rng.integers(1, 4)):
        nf = rng.integers(2, 61)
        lo, hi = np.sort(rng.uniform(0.5e13, 3.5e13, 2))
        fnu = np.sort(rng.uniform(lo, hi, nf)); fr = rng.uniform(0, 1, nf)
        if rng.random() < 0.5: fnu = fnu[::-1]
        f = Filter(name='filt%d' % j, central_wavelength=rng.uniform(1, 30) * u.micron, nu=fnu * u.Hz, response=fr)
        if rng.random() < 0.7: f.normalize()
        filters.append(f); fdefs.append((fnu, f.response.copy(), f.central_wavelength))
    mm = bool(rng.random() < 0.5)
    try:
        convolve_model_dir(d1, filters)
        convolve_model_dir(d2, filters, memmap=mm)
    except Exception as e:
        import traceback; traceback.print_exc(); print("EXC trial", trial, funit); bad += 1; continue
    for j, (fnu, fr, cw) in enumerate(fdefs):
        R = ref_R(fnu, fr, nu)
        nuq = nu
        fl = flux.copy(); er = err.copy()
        if funit == 'Jy': fl *= 1e3; er *= 1e3
        elif funit == 'ergs/cm^2/s': fl = fl / nu * 1e26; er = er / nu * 1e26
        elif funit == 'erg/s':
            dd = (1 * u.kpc).to(u.cm).value
            fl = fl / dd**2 / nu * 1e26; er = er / dd**2 / nu * 1e26
        expF = np.sum(fl * R, axis=2)[perm]; expE = np.sqrt(np.sum((er * R)**2, axis=2))[perm]
        for d in (d1, d2):
            c = ConvolvedFluxes.read(os.path.join(d, 'convolved', 'filt%d.fits' % j))
            ok = list(np.char.strip(c.model_names)) == pnames
            ok &= np.allclose(c.flux.to(u.mJy).value, expF, rtol=1e-10, atol=0)
            ok &= np.allclose(c.error.to(u.mJy).value, expE, rtol=1e-10, atol=0)
            ok &= np.allclose(c.apertures.to(u.au).value, aps, rtol=1e-13)
            ok &= abs(c.central_wavelength.to(u.micron).value - cw.to(u.micron).value) < 1e-12
            if not ok:
                bad += 1
                print("MISMATCH trial", trial, d, funit, names, pnames, c.model_names, mm)
                print(c.flux.to(u.mJy).value / expF)
    shutil.rmtree(tmp)
print("bad", bad)
