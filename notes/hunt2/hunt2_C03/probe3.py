import sys; sys.path.insert(0,'hunt_out')
from harness import *
d=tempfile.mkdtemp()
nf=5
filt=make_models(d, nf=nf, apdep=True, nmod=12)
F=Fitter(filt, [1.,3.,0.5,10,30]*u.arcsec, d, extinction_law=ext(), av_range=[0.,10.], distance_range=[0.05,3.]*u.kpc, remove_resolved=True)
e=F.models.extended
print(e.shape, e.sum(axis=(0,1)), e.mean())
