"""C17 violation: cube whose DISTANCE is not 1 kpc.

plot() rescales the SED from the cube's own distance (SED.scale_to_distance uses
self.distance) whereas the fitter (Models._read_version_2) silently treats the
cube fluxes as if they were tabulated at 1 kpc.  For a cube tabulated at 2 kpc
every plotted curve is therefore a factor (2 kpc / 1 kpc)**2 = 4 away from the
predicted fluxes stored with the fit, in every display mode."""
import os, io, sys, tempfile, contextlib
import numpy as np
import matplotlib
matplotlib.use('Agg')
from astropy import units as u
from sedfitter.sed import SEDCube
from sedfitter.extinction import Extinction
from sedfitter.source import Source
from sedfitter.fit import Fitter
from sedfitter.plot import plot

d = tempfile.mkdtemp()
rng = np.random.RandomState(1)
n_models, n_ap, n_wav = 5, 6, 40
cube = SEDCube()
cube.names = np.array(['model_%04d' % i for i in range(n_models)])
cube.distance = 2 * u.kpc                      # <-- the only unusual thing
cube.wav = np.logspace(-1., 3., n_wav) * u.micron
cube.apertures = np.logspace(1., 6., n_ap) * u.au
cube.val = (np.cumsum(rng.random_sample((n_models, n_ap, n_wav)), axis=1) + 1) * u.mJy
cube.unc = cube.val * 0.01
cube.write(os.path.join(d, 'flux.fits'))
with open(os.path.join(d, 'models.conf'), 'w') as f:
    f.write("name = test\nlength_subdir = 0\naperture_dependent = yes\nlogd_step = 0.02\nversion = 2\n")

ext = Extinction()
ext.wav = np.logspace(-2, 4, 60) * u.micron
ext.chi = (ext.wav.value ** -1.5 * 100 + 1) * u.cm ** 2 / u.g

idx = (5, 12, 20, 30)
wavs = [cube.wav[i] for i in idx]
aps = np.array([3., 5., 3., 8.])
with contextlib.redirect_stdout(io.StringIO()):
    fitter = Fitter(wavs, aps * u.arcsec, d, extinction_law=ext, av_range=(0., 10.),
                    distance_range=(0.5, 3.) * u.kpc)
s = Source()
s.name = 'src'; s.x = 0.; s.y = 0.
s.valid = [1, 1, 1, 1]; s.flux = [1.2, 3.4, 2.2, 5.1]; s.error = [0.1, 0.3, 0.2, 0.5]
info = fitter.fit(s)

nsel = 3
figs = plot(info, select_format=('N', nsel), sed_type='interp')
segs = figs['src']['lines'].get_segments()
assert len(segs) == nsel
wav = np.array([w.to(u.micron).value for w in wavs])
worst = 0.
for k in range(nsel):
    i = nsel - 1 - k                     # best fit is drawn last
    for f in range(len(wav)):
        j = np.argmin(np.abs(np.log(segs[k][:, 0] / wav[f])))
        assert abs(segs[k][j, 0] / wav[f] - 1) < 1e-9
        # predicted flux stored with the fit: log10(mJy) -> lambda F_lambda in erg/cm2/s
        pred = 10. ** (info.model_fluxes[i, f] - 26. + np.log10(2.99792458e8 / (wav[f] * 1e-6)))
        worst = max(worst, abs(segs[k][j, 1] / pred - 1))
print("largest relative deviation curve/predicted:", worst)
assert worst < 5e-3, ("C17 'curve passes through the predicted flux stored with the fit' fails for a cube "
                      "package whose flux.fits has DISTANCE = 2 kpc: plotted curve / predicted flux - 1 = %.4f "
                      "(the plot rescales from the cube distance, the fit assumed 1 kpc -> factor 4)" % worst)
