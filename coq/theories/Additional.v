(* Additional — FitInfo.filter_table(..., additional={par: {model_name: value}}): one more column, attached to the already
   selected and ordered rows by model name (a missing name is a KeyError: None here).  write_parameters, write_parameter_ranges
   and the parameter plots all get their additional columns through this loop. *)
From Coq Require Import List Arith Lia Permutation Bool ZArith.
Import ListNotations.
From SedV Require Import Table ReadM FitModel.

Section A.
Variable V : Type.

Definition attach_col (extra : list (K * V)) (names : list K) : option (list V) :=
  all_some (map (fun k => lookup V k extra) names).

Lemma all_some_spec {A} (l : list (option A)) (vs : list A) : all_some l = Some vs <-> l = map Some vs.
Proof.
  revert vs. induction l as [|[x|] l IH]; intros vs; simpl.
  - split; [intros H; injection H as <-; reflexivity|intros H; destruct vs; [reflexivity|discriminate]].
  - destruct (all_some l) as [xs|] eqn:E.
    + split.
      * intros H. injection H as <-. simpl. f_equal. now apply IH.
      * intros H. destruct vs as [|v vs]; [discriminate|]. simpl in H. injection H as -> H. apply IH in H. now injection H as ->.
    + split; [discriminate|]. intros H. destruct vs as [|v vs]; [discriminate|]. simpl in H. injection H as _ H.
      apply (proj2 (IH vs)) in H. discriminate.
  - split; [discriminate|]. intros H. destruct vs; discriminate.
Qed.

(* row i of the listing gets the value the dictionary holds for the name of fit i *)
Theorem attach_by_name extra names vs : attach_col extra names = Some vs ->
  length vs = length names /\ forall i d, (i < length names)%nat -> lookup V (nth i names 0%Z) extra = Some (nth i vs d).
Proof.
  unfold attach_col. intros H. apply all_some_spec in H.
  assert (L : length vs = length names).
  { apply (f_equal (@length (option V))) in H. now rewrite !map_length in H. }
  split; [exact L|]. intros i d Hi.
  assert (E : nth i (map (fun k => lookup V k extra) names) None = nth i (map Some vs) None) by now rewrite H.
  rewrite (nth_indep _ None (lookup V 0%Z extra)) in E by (rewrite map_length; exact Hi).
  rewrite (map_nth (fun k => lookup V k extra)) in E. rewrite E.
  rewrite (nth_indep _ None (Some d)) by (rewrite map_length; lia). apply map_nth.
Qed.

(* every selected model has an entry: the column exists *)
Theorem attach_total extra names : (forall k, In k names -> In k (map fst extra)) -> exists vs, attach_col extra names = Some vs.
Proof.
  intros H. unfold attach_col. induction names as [|k r IH]; [exists []; reflexivity|].
  destruct IH as (vs & E); [intros k' Hk'; apply H; now right|].
  assert (X : exists v, lookup V k extra = Some v).
  { specialize (H k (or_introl eq_refl)). clear -H. induction extra as [|[k' v'] e IHe]; [destruct H|].
    simpl. destruct (Z.eqb_spec k k') as [->|Ne]; [now exists v'|]. apply IHe. destruct H as [H|H]; [simpl in H; congruence|exact H]. }
  destruct X as (v & Ev). exists (v :: vs). simpl. rewrite Ev, E. reflexivity.
Qed.

Lemma lookup_perm k (e e' : list (K * V)) : NoDup (map fst e) -> Permutation e e' -> lookup V k e = lookup V k e'.
Proof.
  intros N P.
  assert (N' : NoDup (map fst e')) by (eapply Permutation_NoDup; [apply Permutation_map; exact P|exact N]).
  destruct (lookup V k e) as [v|] eqn:L.
  - assert (I : In (k, v) e).
    { clear -L. induction e as [|[k' v'] r IH]; [discriminate|]. simpl in L.
      destruct (Z.eqb_spec k k') as [->|Ne]; [injection L as ->; now left|right; now apply IH]. }
    symmetry. apply lookup_in; [exact N'|]. eapply Permutation_in; [exact P|exact I].
  - destruct (lookup V k e') as [v|] eqn:L'; [|reflexivity].
    assert (I : In (k, v) e').
    { clear -L'. induction e' as [|[k' v'] r IH]; [discriminate|]. simpl in L'.
      destruct (Z.eqb_spec k k') as [->|Ne]; [injection L' as ->; now left|right; now apply IH]. }
    assert (I' : In (k, v) e) by (eapply Permutation_in; [apply Permutation_sym; exact P|exact I]).
    rewrite (lookup_in V k v e N I') in L. discriminate.
Qed.

(* the order in which the dictionary lists the models does not matter *)
Theorem attach_dict_order extra extra' names : NoDup (map fst extra) -> Permutation extra extra' ->
  attach_col extra names = attach_col extra' names.
Proof.
  intros N P. unfold attach_col. f_equal. apply map_ext. intros k. apply lookup_perm; assumption.
Qed.

End A.

Example attach_example :
  attach_col Z [(3, 30); (1, 10); (2, 20)]%Z [2; 3]%Z = Some [20; 30]%Z /\ attach_col Z [(3, 30)]%Z [2; 3]%Z = None.
Proof. split; reflexivity. Qed.
