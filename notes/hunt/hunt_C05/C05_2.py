"""
C05 - "('A',) keeps everything" / syntax page: "('A', value): select all models (value is ignored)".

fit() is the first consumer of a selection tuple (its output_format argument:
"Tuple specifying which fits should be output. See the documentation for a
description of the tuple syntax").  Because the value of an 'A' selector is
documented as ignored, ('A', None) is a legal selector - and FitInfo.keep
itself accepts it.  fit(), however, formats the value with '%g' in its banner
before fitting anything, so the legal selector ('A', None) is refused with a
TypeError and no output file is produced, instead of keeping every fit.
"""
import os
import sys
import tempfile
import warnings

import numpy as np
from astropy import units as u
from astropy.table import Table

warnings.simplefilter('ignore')

from sedfitter import fit
from sedfitter.convolve import convolve_model_dir
from sedfitter.sed import SEDCube
from sedfitter.filter import Filter
from sedfitter.extinction import Extinction
from sedfitter.fit_info import FitInfoFile

N_MODELS = 5

tmp = tempfile.mkdtemp()
models_dir = os.path.join(tmp, 'models')
os.mkdir(models_dir)

rng = np.random.RandomState(12345)

cube = SEDCube()
cube.names = np.array(['model_{0:04d}'.format(i) for i in range(N_MODELS)])
cube.distance = 1 * u.kpc
cube.wav = np.logspace(-2., 3., 100) * u.micron
cube.apertures = None
cube.val = (1 + rng.random_sample((N_MODELS, 1, 100))) * u.mJy
cube.unc = cube.val * 0.01
cube.write(os.path.join(models_dir, 'flux.fits'))

with open(os.path.join(models_dir, 'models.conf'), 'w') as f:
    f.write("name = test\nlength_subdir = 0\naperture_dependent = no\nlogd_step = 0.02\nversion = 2\n")

t = Table()
t['MODEL_NAME'] = np.array(cube.names, dtype='S')
t['par1'] = rng.random_sample(N_MODELS)
t.write(os.path.join(models_dir, 'parameters.fits'))

filters = []
for name, lo, hi, cen in [('alice', 1., 5., 3.), ('bob', 10., 15., 12.), ('eve', 15., 25., 20.)]:
    fl = Filter()
    fl.name = name
    fl.central_wavelength = cen * u.micron
    fl.nu = (np.linspace(hi, lo, 50) * u.micron).to(u.Hz, equivalencies=u.spectral())
    fl.response = np.ones(50)
    fl.normalize()
    filters.append(fl)
convolve_model_dir(models_dir, filters=filters)

ext = Extinction()
ext.wav = np.logspace(-2., 3.) * u.micron
ext.chi = ext.wav.value ** -2 * u.cm ** 2 / u.g

data = os.path.join(tmp, 'data')
with open(data, 'w') as f:
    f.write("source_1 0.0 0.0 1 1 1 0.2 0.1 1.3 0.2 1.5 0.3\n")


def run(selector, out):
    fit(data, ['alice', 'bob', 'eve'], [3., 3., 3.] * u.arcsec, models_dir, out,
        extinction_law=ext, distance_range=[1., 2.] * u.kpc, av_range=[0., 1.],
        output_format=selector)
    fin = FitInfoFile(out, 'r')
    infos = list(fin)
    fin.close()
    return infos


# Control: the same selector form with a numeric dummy value works and keeps everything
infos = run(('A', 0), os.path.join(tmp, 'out_control'))
assert len(infos) == 1 and infos[0].n_fits == N_MODELS, "control run failed"

# The documented 'value is ignored' selector
try:
    infos = run(('A', None), os.path.join(tmp, 'out_A_None'))
except Exception as exc:
    print("")
    print("FAIL: C05 clause \"('A', value) keeps everything, value is ignored\": "
          "fit(..., output_format=('A', None)) raised %s: %s before fitting any source "
          "(FitInfo.keep(('A', None)) itself is fine; the refusal comes from the "
          "'Number : %%g' banner line in fit()), whereas output_format=('A', 0) keeps all "
          "%d fits." % (type(exc).__name__, exc, N_MODELS))
    sys.exit(1)

assert infos[0].n_fits == N_MODELS
print("OK")
