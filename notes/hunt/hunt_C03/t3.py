from common import *
rng = np.random.RandomState(3)
wavs = [1., 2., 4., 8., 16.]
nm = 4
aps = np.logspace(1, 5, 30)
# point-like in every band: all the flux inside the smallest aperture
fl = np.ones((nm, 30, 5)) * (1 + rng.random_sample((nm, 1, 5)))
# model 0 is very extended in band 4 only
fl[0, :, 4] = 1e-18 * aps ** 5
d, fn = make_dir(['m%d' % i for i in range(nm)], fl, wavs, apertures=aps)
F = quiet(Fitter, fn, [3.]*5*u.arcsec, d, extinction_law=ext(), av_range=[0., 10.], distance_range=[1., 3.]*u.kpc, remove_resolved=True)
E = F.models.extended
for m in range(nm):
    print(m)
    print(E[m].T.astype(int))
for v4 in (0, 9):
    s = src([1, 1, 1, 1, v4], [1., 2., 3., 4., 5.], [.1, .2, .3, .4, .5])
    info = F.fit(s)
    print(v4, info.chi2, info.model_id, info.sc, info.av)
